/-
C02, file level: from the slots of a layout to the chunks of the file.

  PART 5  `slotInfos`: the chunk descriptions of a rendered file, slot by slot; every chunk behaves
          (`infos_ok`); the definitions found (`sdefPairs`, `edefPairs`); what the line loop collects
-/
import PydlVerif.Lemmas.YannyLayDefs
namespace PydlVerif.YannyLay
open PydlVerif.Yanny PydlVerif.YannyRT PydlVerif.YannyLayBlock PydlVerif.YannyLayLine PydlVerif.YannyLayScan

variable {F : Type}

/-! ## PART 5: slots -/

def plainInfo (l : Str) (crlf : Bool) (eff : LoopSt F → LoopSt F) : ChunkInfo F := ⟨l, l, l, crlf, [], [], eff⟩

def pairEff (kv : Str × Str) : LoopSt F → LoopSt F := fun s => { s with pairs := setPair s.pairs kv.1 kv.2 }
def rowEff (name : Str) (r : List (Cell F)) : LoopSt F → LoopSt F :=
  fun s => { s with rows := addRow s.rows (upper name) r }

def sdefInfo (enums : List EnumDecl) (t : TableD F) (l : StructLay) : ChunkInfo F :=
  ⟨l.lead ++ structBlk enums t l ++ (l.trail ++ commentText l.comment),
   l.lead ++ (l.trail ++ commentText l.comment), l.lead ++ (l.trail ++ commentText l.comment),
   l.crlf, [structTD enums t l], [], id⟩

def edefInfo (e : EnumDecl) (l : EnumLay) (txt : Str) : ChunkInfo F :=
  ⟨txt, txt, l.lead ++ (l.trail ++ commentText l.comment), l.crlf, [], [enumTD e l], id⟩

/-- the chunk descriptions, mirroring `renderSlots Sep.logical` -/
def slotInfos (io : FloatIO F) (d : Doc F) : RSt F → List Slot → Option (List (ChunkInfo F))
  | st, [] => if st.hdr.isEmpty && st.enums.isEmpty && st.defs.isEmpty && st.rows.all List.isEmpty then some [] else none
  | st, .pair lay :: ss =>
    match st.hdr with
    | [] => none
    | kv :: rest =>
      match slotInfos io d { st with hdr := rest } ss with
      | some ls => some (plainInfo (renderPair Sep.logical kv lay) lay.crlf (pairEff kv) :: ls)
      | none => none
  | st, .row t lay :: ss =>
    match popAt t st.rows with
    | none => none
    | some (r, rows') =>
      match renderRow Sep.logical io r lay, slotInfos io d { st with rows := rows' } ss with
      | some l, some ls => some (plainInfo l lay.crlf (rowEff lay.name r) :: ls)
      | _, _ => none
  | st, .sdef lay :: ss =>
    match st.defs with
    | [] => none
    | t :: rest =>
      match renderStruct d.enums t lay, slotInfos io d { st with defs := rest } ss with
      | some _, some ls => some (sdefInfo d.enums t lay :: ls)
      | _, _ => none
  | st, .edef lay :: ss =>
    match st.enums with
    | [] => none
    | e :: rest =>
      match renderEnum e lay, slotInfos io d { st with enums := rest } ss with
      | some l, some ls => some (edefInfo e lay l :: ls)
      | _, _ => none
  | st, .filler text crlf :: ss =>
    match slotInfos io d st ss with
    | some ls => some (plainInfo text crlf id :: ls)
    | none => none

inductive All2 {α β : Type} (R : α → β → Prop) : List α → List β → Prop
  | nil : All2 R [] []
  | cons {a : α} {b : β} {as : List α} {bs : List β} : R a b → All2 R as bs → All2 R (a :: as) (b :: bs)

/-- what is still to be written is in the domain -/
structure Inv2 (d : Doc F) (st : RSt F) : Prop where
  hdr : ∀ kv ∈ st.hdr, pairOK2 (d.tables.map (fun t => upper t.name)) kv = true
  enums : ∀ e ∈ st.enums, enumOK e = true
  defs : ∀ t ∈ st.defs, tableOK2 d.enums t = true
  rows : All2 (fun (tb : TableD F) rs => ∀ r ∈ rs, cellsOK d.enums tb.cols r = true) d.tables st.rows

theorem popAt_forall {α β : Type} (P : β → α → Prop) (t : Nat) (tabs : List β) (rows : List (List α)) (r : α)
    (rows' : List (List α)) (hp : popAt t rows = some (r, rows'))
    (hf : All2 (fun tb rs => ∀ x ∈ rs, P tb x) tabs rows) (tb : β) (htb : tabs[t]? = some tb) :
    P tb r ∧ All2 (fun tb rs => ∀ x ∈ rs, P tb x) tabs rows' := by
  induction t generalizing tabs rows rows' with
  | zero =>
    cases hf with
    | nil => simp [popAt] at hp
    | @cons b q bs qs h1 h2 =>
      cases q with
      | nil => simp [popAt] at hp
      | cons x xs =>
        simp only [popAt, Option.some.injEq, Prod.mk.injEq] at hp
        obtain ⟨rfl, rfl⟩ := hp
        simp only [List.getElem?_cons_zero, Option.some.injEq] at htb
        subst htb
        exact ⟨h1 _ (by simp), All2.cons (fun y hy => h1 y (by simp [hy])) h2⟩
  | succ n ih =>
    cases hf with
    | nil => simp [popAt] at hp
    | @cons b q bs qs h1 h2 =>
      simp only [popAt] at hp
      cases hq : popAt n qs with
      | none => rw [hq] at hp; cases hp
      | some res =>
        obtain ⟨x, rest'⟩ := res
        rw [hq] at hp
        simp only [Option.some.injEq, Prod.mk.injEq] at hp
        obtain ⟨rfl, rfl⟩ := hp
        simp only [List.getElem?_cons_succ] at htb
        obtain ⟨k1, k2⟩ := ih bs qs rest' hq h2 htb
        exact ⟨k1, All2.cons h1 k2⟩

theorem laySpecs_some (d : Doc F) (hnd : nodup (d.tables.map (fun t => upper t.name)) = true) (tb : TableD F)
    (hm : tb ∈ d.tables) : lookupSpec (laySpecs d) (upper tb.name) = some (.ok (tb.cols.map specOfCol)) := by
  have := find_by_key d.tables (fun t => upper t.name)
    (fun t => (Except.ok (t.cols.map specOfCol) : Except String (List ColSpec))) hnd tb hm
  simp only [lookupSpec, laySpecs, this, Option.map_some]

/-- every chunk of a file in the domain behaves -/
theorem infos_ok (io : FloatIO F) (h1 : H1 io) (d : Doc F) (hen : ∀ e ∈ d.enums, enumOK e = true)
    (hnd : nodup (d.tables.map (fun t => upper t.name)) = true) :
    ∀ (ss : List Slot) (st : RSt F), Inv2 d st → slotsOK io d st ss = true →
      ∀ infos, slotInfos io d st ss = some infos → ∀ i ∈ infos, InfoOK io (laySpecs d) i := by
  intro ss
  induction ss with
  | nil =>
    intro st _ _ infos hi
    simp only [slotInfos] at hi
    split at hi
    · injection hi with hi; subst hi; intro i him; cases him
    · cases hi
  | cons s ss ih =>
    intro st inv hok infos hi
    cases s with
    | pair lay =>
      cases hh : st.hdr with
      | nil => simp only [slotInfos, hh] at hi; cases hi
      | cons kv rest =>
        simp only [slotInfos, slotsOK, hh] at hi hok
        simp only [Bool.and_eq_true] at hok
        have inv' : Inv2 d { st with hdr := rest } :=
          ⟨fun x hx => inv.hdr x (by rw [hh]; simp [hx]), inv.enums, inv.defs, inv.rows⟩
        cases hr : slotInfos io d { st with hdr := rest } ss with
        | none => rw [hr] at hi; cases hi
        | some ls =>
          rw [hr] at hi
          injection hi with hi; subst hi
          intro i him
          rcases List.mem_cons.mp him with rfl | him
          · exact infoOK_pair io d kv lay (inv.hdr kv (by rw [hh]; simp)) hok.1
          · exact ih _ inv' hok.2 ls hr i him
    | row t lay =>
      cases hp : popAt t st.rows with
      | none => simp only [slotInfos, hp] at hi; cases hi
      | some res =>
        obtain ⟨r, rows'⟩ := res
        cases htb : d.tables[t]? with
        | none => simp only [slotsOK, hp, htb] at hok; cases hok
        | some tb =>
          simp only [slotInfos, slotsOK, hp, htb] at hi hok
          simp only [Bool.and_eq_true] at hok
          obtain ⟨hcell, hrows'⟩ := popAt_forall (fun (tb : TableD F) r => cellsOK d.enums tb.cols r = true)
            t d.tables st.rows r rows' hp inv.rows tb htb
          have inv' : Inv2 d { st with rows := rows' } := ⟨inv.hdr, inv.enums, inv.defs, hrows'⟩
          cases hl : renderRow Sep.logical io r lay with
          | none => rw [hl] at hi; cases hi
          | some l =>
            cases hr : slotInfos io d { st with rows := rows' } ss with
            | none => rw [hl, hr] at hi; cases hi
            | some ls =>
              rw [hl, hr] at hi
              injection hi with hi; subst hi
              intro i him
              rcases List.mem_cons.mp him with rfl | him
              · exact infoOK_row io h1 d tb r lay l hok.1 hl
                  (laySpecs_some d hnd tb (List.mem_of_getElem? htb)) hcell
              · exact ih _ inv' hok.2 ls hr i him
    | sdef lay =>
      cases hh : st.defs with
      | nil => simp only [slotInfos, hh] at hi; cases hi
      | cons t rest =>
        simp only [slotInfos, slotsOK, hh] at hi hok
        simp only [Bool.and_eq_true] at hok
        have inv' : Inv2 d { st with defs := rest } :=
          ⟨inv.hdr, inv.enums, fun x hx => inv.defs x (by rw [hh]; simp [hx]), inv.rows⟩
        cases hl : renderStruct d.enums t lay with
        | none => rw [hl] at hi; cases hi
        | some l =>
          cases hr : slotInfos io d { st with defs := rest } ss with
          | none => rw [hl, hr] at hi; cases hi
          | some ls =>
            rw [hl, hr] at hi
            injection hi with hi; subst hi
            intro i him
            rcases List.mem_cons.mp him with rfl | him
            · exact infoOK_sdef io _ d.enums hen t lay (inv.defs t (by rw [hh]; simp)) hok.1
            · exact ih _ inv' hok.2 ls hr i him
    | edef lay =>
      cases hh : st.enums with
      | nil => simp only [slotInfos, hh] at hi; cases hi
      | cons e rest =>
        simp only [slotInfos, slotsOK, hh] at hi hok
        simp only [Bool.and_eq_true] at hok
        have inv' : Inv2 d { st with enums := rest } :=
          ⟨inv.hdr, fun x hx => inv.enums x (by rw [hh]; simp [hx]), inv.defs, inv.rows⟩
        cases hl : renderEnum e lay with
        | none => rw [hl] at hi; cases hi
        | some l =>
          cases hr : slotInfos io d { st with enums := rest } ss with
          | none => rw [hl, hr] at hi; cases hi
          | some ls =>
            rw [hl, hr] at hi
            injection hi with hi; subst hi
            intro i him
            rcases List.mem_cons.mp him with rfl | him
            · exact (infoOK_edef io _ e lay (inv.enums e (by rw [hh]; simp)) hok.1 l hl).2
            · exact ih _ inv' hok.2 ls hr i him
    | filler text crlf =>
      simp only [slotInfos, slotsOK] at hi hok
      simp only [Bool.and_eq_true] at hok
      cases hr : slotInfos io d st ss with
      | none => rw [hr] at hi; cases hi
      | some ls =>
        rw [hr] at hi
        injection hi with hi; subst hi
        intro i him
        rcases List.mem_cons.mp him with rfl | him
        · exact infoOK_filler io _ text crlf hok.1
        · exact ih _ inv hok.2 ls hr i him

/-! ### the chunk descriptions describe the rendered text -/

theorem slotInfos_render (io : FloatIO F) (d : Doc F) :
    ∀ (ss : List Slot) (st : RSt F), Inv2 d st → slotsOK io d st ss = true →
      ∀ chunks, renderSlots Sep.logical io d st ss = some chunks →
        ∃ infos, slotInfos io d st ss = some infos ∧ textChunks infos = chunks := by
  intro ss
  induction ss with
  | nil =>
    intro st _ _ chunks hc
    simp only [renderSlots] at hc
    split at hc
    · rename_i hcond
      injection hc with hc; subst hc
      exact ⟨[], by simp only [slotInfos, hcond, if_true], rfl⟩
    · cases hc
  | cons s ss ih =>
    intro st inv hok chunks hc
    cases s with
    | pair lay =>
      cases hh : st.hdr with
      | nil => simp only [renderSlots, hh] at hc; cases hc
      | cons kv rest =>
        simp only [renderSlots, slotsOK, hh] at hc hok
        simp only [Bool.and_eq_true] at hok
        have inv' : Inv2 d { st with hdr := rest } :=
          ⟨fun x hx => inv.hdr x (by rw [hh]; simp [hx]), inv.enums, inv.defs, inv.rows⟩
        cases hr : renderSlots Sep.logical io d { st with hdr := rest } ss with
        | none => rw [hr] at hc; cases hc
        | some ls =>
          rw [hr] at hc
          injection hc with hc; subst hc
          obtain ⟨is, h1, h2⟩ := ih _ inv' hok.2 ls hr
          exact ⟨plainInfo (renderPair Sep.logical kv lay) lay.crlf (pairEff kv) :: is, by simp only [slotInfos, hh, h1], by simp [textChunks, plainInfo, ← h2]⟩
    | row t lay =>
      cases hp : popAt t st.rows with
      | none => simp only [renderSlots, hp] at hc; cases hc
      | some res =>
        obtain ⟨r, rows'⟩ := res
        cases htb : d.tables[t]? with
        | none => simp only [slotsOK, hp, htb] at hok; cases hok
        | some tb =>
          simp only [renderSlots, slotsOK, hp, htb] at hc hok
          simp only [Bool.and_eq_true] at hok
          obtain ⟨_, hrows'⟩ := popAt_forall (fun (tb : TableD F) r => cellsOK d.enums tb.cols r = true)
            t d.tables st.rows r rows' hp inv.rows tb htb
          have inv' : Inv2 d { st with rows := rows' } := ⟨inv.hdr, inv.enums, inv.defs, hrows'⟩
          cases hl : renderRow Sep.logical io r lay with
          | none => rw [hl] at hc; cases hc
          | some l =>
            cases hr : renderSlots Sep.logical io d { st with rows := rows' } ss with
            | none => rw [hl, hr] at hc; cases hc
            | some ls =>
              rw [hl, hr] at hc
              injection hc with hc; subst hc
              obtain ⟨is, h1, h2⟩ := ih _ inv' hok.2 ls hr
              exact ⟨plainInfo l lay.crlf (rowEff lay.name r) :: is, by simp only [slotInfos, hp, hl, h1], by simp [textChunks, plainInfo, ← h2]⟩
    | sdef lay =>
      cases hh : st.defs with
      | nil => simp only [renderSlots, hh] at hc; cases hc
      | cons t rest =>
        simp only [renderSlots, slotsOK, hh] at hc hok
        simp only [Bool.and_eq_true] at hok
        have inv' : Inv2 d { st with defs := rest } :=
          ⟨inv.hdr, inv.enums, fun x hx => inv.defs x (by rw [hh]; simp [hx]), inv.rows⟩
        have hsh := renderStruct_shape d.enums t lay (inv.defs t (by rw [hh]; simp)) hok.1
        rw [hsh] at hc
        cases hr : renderSlots Sep.logical io d { st with defs := rest } ss with
        | none => rw [hr] at hc; cases hc
        | some ls =>
          rw [hr] at hc
          injection hc with hc; subst hc
          obtain ⟨is, h1, h2⟩ := ih _ inv' hok.2 ls hr
          exact ⟨sdefInfo d.enums t lay :: is, by simp only [slotInfos, hh, hsh, h1], by simp [textChunks, sdefInfo, ← h2]⟩
    | edef lay =>
      cases hh : st.enums with
      | nil => simp only [renderSlots, hh] at hc; cases hc
      | cons e rest =>
        simp only [renderSlots, slotsOK, hh] at hc hok
        simp only [Bool.and_eq_true] at hok
        have inv' : Inv2 d { st with enums := rest } :=
          ⟨inv.hdr, fun x hx => inv.enums x (by rw [hh]; simp [hx]), inv.defs, inv.rows⟩
        cases hl : renderEnum e lay with
        | none => rw [hl] at hc; cases hc
        | some l =>
          cases hr : renderSlots Sep.logical io d { st with enums := rest } ss with
          | none => rw [hl, hr] at hc; cases hc
          | some ls =>
            rw [hl, hr] at hc
            injection hc with hc; subst hc
            obtain ⟨is, h1, h2⟩ := ih _ inv' hok.2 ls hr
            exact ⟨edefInfo e lay l :: is, by simp only [slotInfos, hh, hl, h1], by simp [textChunks, edefInfo, ← h2]⟩
    | filler text crlf =>
      simp only [renderSlots, slotsOK] at hc hok
      simp only [Bool.and_eq_true] at hok
      cases hr : renderSlots Sep.logical io d st ss with
      | none => rw [hr] at hc; cases hc
      | some ls =>
        rw [hr] at hc
        injection hc with hc; subst hc
        obtain ⟨is, h1, h2⟩ := ih _ inv hok.2 ls hr
        exact ⟨plainInfo text crlf id :: is, by simp only [slotInfos, h1], by simp [textChunks, plainInfo, ← h2]⟩

/-! ### the definitions found, in slot order -/

def sdefPairs : List (TableD F) → List Slot → List (TableD F × StructLay)
  | _, [] => []
  | t :: rest, .sdef lay :: ss => (t, lay) :: sdefPairs rest ss
  | [], .sdef _ :: _ => []
  | defs, .pair _ :: ss => sdefPairs defs ss
  | defs, .row _ _ :: ss => sdefPairs defs ss
  | defs, .edef _ :: ss => sdefPairs defs ss
  | defs, .filler _ _ :: ss => sdefPairs defs ss

def edefPairs : List EnumDecl → List Slot → List (EnumDecl × EnumLay)
  | _, [] => []
  | e :: rest, .edef lay :: ss => (e, lay) :: edefPairs rest ss
  | [], .edef _ :: _ => []
  | es, .pair _ :: ss => edefPairs es ss
  | es, .row _ _ :: ss => edefPairs es ss
  | es, .sdef _ :: ss => edefPairs es ss
  | es, .filler _ _ :: ss => edefPairs es ss

theorem infos_defs (io : FloatIO F) (d : Doc F) :
    ∀ (ss : List Slot) (st : RSt F) infos, slotInfos io d st ss = some infos →
      (infos.map (·.sdefs)).flatten = (sdefPairs st.defs ss).map (fun p => structTD d.enums p.1 p.2) ∧
      (infos.map (·.edefs)).flatten = (edefPairs st.enums ss).map (fun p => enumTD p.1 p.2) := by
  intro ss
  induction ss with
  | nil =>
    intro st infos hi
    simp only [slotInfos] at hi
    split at hi
    · injection hi with hi; subst hi
      cases st.defs <;> cases st.enums <;> exact ⟨rfl, rfl⟩
    · cases hi
  | cons s ss ih =>
    intro st infos hi
    cases s with
    | pair lay =>
      cases hh : st.hdr with
      | nil => simp only [slotInfos, hh] at hi; cases hi
      | cons kv rest =>
        simp only [slotInfos, hh] at hi
        cases hr : slotInfos io d { st with hdr := rest } ss with
        | none => rw [hr] at hi; cases hi
        | some ls =>
          rw [hr] at hi
          injection hi with hi; subst hi
          have := ih _ ls hr
          simpa [plainInfo, sdefPairs, edefPairs] using this
    | row t lay =>
      cases hp : popAt t st.rows with
      | none => simp only [slotInfos, hp] at hi; cases hi
      | some res =>
        obtain ⟨r, rows'⟩ := res
        simp only [slotInfos, hp] at hi
        cases hl : renderRow Sep.logical io r lay with
        | none => rw [hl] at hi; cases hi
        | some l =>
          cases hr : slotInfos io d { st with rows := rows' } ss with
          | none => rw [hl, hr] at hi; cases hi
          | some ls =>
            rw [hl, hr] at hi
            injection hi with hi; subst hi
            have := ih _ ls hr
            simpa [plainInfo, sdefPairs, edefPairs] using this
    | sdef lay =>
      cases hh : st.defs with
      | nil => simp only [slotInfos, hh] at hi; cases hi
      | cons t rest =>
        simp only [slotInfos, hh] at hi
        cases hl : renderStruct d.enums t lay with
        | none => rw [hl] at hi; cases hi
        | some l =>
          cases hr : slotInfos io d { st with defs := rest } ss with
          | none => rw [hl, hr] at hi; cases hi
          | some ls =>
            rw [hl, hr] at hi
            injection hi with hi; subst hi
            have := ih _ ls hr
            simpa [sdefInfo, sdefPairs, edefPairs] using this
    | edef lay =>
      cases hh : st.enums with
      | nil => simp only [slotInfos, hh] at hi; cases hi
      | cons e rest =>
        simp only [slotInfos, hh] at hi
        cases hl : renderEnum e lay with
        | none => rw [hl] at hi; cases hi
        | some l =>
          cases hr : slotInfos io d { st with enums := rest } ss with
          | none => rw [hl, hr] at hi; cases hi
          | some ls =>
            rw [hl, hr] at hi
            injection hi with hi; subst hi
            have := ih _ ls hr
            simpa [edefInfo, sdefPairs, edefPairs] using this
    | filler text crlf =>
      simp only [slotInfos] at hi
      cases hr : slotInfos io d st ss with
      | none => rw [hr] at hi; cases hi
      | some ls =>
        rw [hr] at hi
        injection hi with hi; subst hi
        have := ih _ ls hr
        simpa [plainInfo, sdefPairs, edefPairs] using this

/-- under `slotsOK` the definition slots use up the definitions, each in a legal layout -/
theorem pairs_ok (io : FloatIO F) (d : Doc F) :
    ∀ (ss : List Slot) (st : RSt F), slotsOK io d st ss = true →
      (sdefPairs st.defs ss).map (·.1) = st.defs ∧
      (∀ p ∈ sdefPairs st.defs ss, structLayOK d.enums p.1 p.2 = true) ∧
      (edefPairs st.enums ss).map (·.1) = st.enums ∧
      (∀ p ∈ edefPairs st.enums ss, enumLayOK p.1 p.2 = true) := by
  intro ss
  induction ss with
  | nil =>
    intro st hok
    simp only [slotsOK, Bool.and_eq_true, List.isEmpty_iff] at hok
    obtain ⟨⟨⟨_, h2⟩, h3⟩, _⟩ := hok
    rw [h2, h3]
    refine ⟨rfl, ?_, rfl, ?_⟩
    · intro p hp; simp [sdefPairs] at hp
    · intro p hp; simp [edefPairs] at hp
  | cons s ss ih =>
    intro st hok
    cases s with
    | pair lay =>
      cases hh : st.hdr with
      | nil => simp only [slotsOK, hh] at hok; cases hok
      | cons kv rest =>
        simp only [slotsOK, hh, Bool.and_eq_true] at hok
        have := ih { st with hdr := rest } hok.2
        simpa [sdefPairs, edefPairs] using this
    | row t lay =>
      cases hp : popAt t st.rows with
      | none => simp only [slotsOK, hp] at hok; cases hok
      | some res =>
        obtain ⟨r, rows'⟩ := res
        cases htb : d.tables[t]? with
        | none => simp only [slotsOK, hp, htb] at hok; cases hok
        | some tb =>
          simp only [slotsOK, hp, htb, Bool.and_eq_true] at hok
          have := ih { st with rows := rows' } hok.2
          simpa [sdefPairs, edefPairs] using this
    | sdef lay =>
      cases hh : st.defs with
      | nil => simp only [slotsOK, hh] at hok; cases hok
      | cons t rest =>
        simp only [slotsOK, hh, Bool.and_eq_true] at hok
        obtain ⟨i1, i2, i3, i4⟩ := ih { st with defs := rest } hok.2
        refine ⟨by simp only [sdefPairs, List.map_cons, i1], ?_, by simpa [edefPairs] using i3,
          by simpa [edefPairs] using i4⟩
        intro p hp
        simp only [sdefPairs, List.mem_cons] at hp
        rcases hp with rfl | hp
        · exact hok.1
        · exact i2 p hp
    | edef lay =>
      cases hh : st.enums with
      | nil => simp only [slotsOK, hh] at hok; cases hok
      | cons e rest =>
        simp only [slotsOK, hh, Bool.and_eq_true] at hok
        obtain ⟨i1, i2, i3, i4⟩ := ih { st with enums := rest } hok.2
        refine ⟨by simpa [sdefPairs] using i1, by simpa [sdefPairs] using i2,
          by simp only [edefPairs, List.map_cons, i3], ?_⟩
        intro p hp
        simp only [edefPairs, List.mem_cons] at hp
        rcases hp with rfl | hp
        · exact hok.1
        · exact i4 p hp
    | filler text crlf =>
      simp only [slotsOK, Bool.and_eq_true] at hok
      have := ih st hok.2
      simpa [sdefPairs, edefPairs] using this

theorem pairs_nl (defs : List (TableD F)) (ss : List Slot) (h : ss.all slotNlOK = true) :
    ∀ p ∈ sdefPairs defs ss, declNlOK p.2.cols = true := by
  induction ss generalizing defs with
  | nil => intro p hp; simp [sdefPairs] at hp
  | cons s ss ih =>
    simp only [List.all_cons, Bool.and_eq_true] at h
    cases s with
    | sdef lay =>
      cases defs with
      | nil => intro p hp; simp [sdefPairs] at hp
      | cons t rest =>
        intro p hp
        simp only [sdefPairs, List.mem_cons] at hp
        rcases hp with rfl | hp
        · exact h.1
        · exact ih rest h.2 p hp
    | pair lay => simpa [sdefPairs] using ih defs h.2
    | row t lay => simpa [sdefPairs] using ih defs h.2
    | edef lay => simpa [sdefPairs] using ih defs h.2
    | filler text crlf => simpa [sdefPairs] using ih defs h.2

theorem pairs_line (enums : List EnumDecl) (defs : List (TableD F)) (ss : List Slot)
    (h : sdefsLineOK enums defs ss = true) :
    ∀ p ∈ sdefPairs defs ss, declLineOK enums p.1.cols p.2.cols = true := by
  induction ss generalizing defs with
  | nil => intro p hp; simp [sdefPairs] at hp
  | cons s ss ih =>
    cases s with
    | sdef lay =>
      cases defs with
      | nil => intro p hp; simp [sdefPairs] at hp
      | cons t rest =>
        simp only [sdefsLineOK, Bool.and_eq_true] at h
        intro p hp
        simp only [sdefPairs, List.mem_cons] at hp
        rcases hp with rfl | hp
        · exact h.1
        · exact ih rest h.2 p hp
    | pair lay => cases defs <;> simpa [sdefPairs] using ih _ (by simpa [sdefsLineOK] using h)
    | row t lay => cases defs <;> simpa [sdefPairs] using ih _ (by simpa [sdefsLineOK] using h)
    | edef lay => cases defs <;> simpa [sdefPairs] using ih _ (by simpa [sdefsLineOK] using h)
    | filler text crlf => cases defs <;> simpa [sdefPairs] using ih _ (by simpa [sdefsLineOK] using h)

/-- the assumption of the first extension round implies the line condition -/
theorem sdefsLineOK_of_nl (enums : List EnumDecl) (defs : List (TableD F)) (ss : List Slot)
    (h : ss.all slotNlOK = true) : sdefsLineOK enums defs ss = true := by
  induction ss generalizing defs with
  | nil => cases defs <;> rfl
  | cons s ss ih =>
    simp only [List.all_cons, Bool.and_eq_true] at h
    cases s with
    | sdef lay =>
      cases defs with
      | nil => simpa [sdefsLineOK] using ih [] h.2
      | cons t rest =>
        simp only [sdefsLineOK, Bool.and_eq_true]
        exact ⟨declLineOK_of_nl enums t.cols lay.cols h.1, ih rest h.2⟩
    | pair lay => cases defs <;> simpa [sdefsLineOK] using ih _ h.2
    | row t lay => cases defs <;> simpa [sdefsLineOK] using ih _ h.2
    | edef lay => cases defs <;> simpa [sdefsLineOK] using ih _ h.2
    | filler text crlf => cases defs <;> simpa [sdefsLineOK] using ih _ h.2

theorem layoutOKW_of_OK2 (io : FloatIO F) (d : Doc F) (lay : Layout) (h : layoutOK2 io d lay = true) :
    layoutOKW io d lay = true := by
  simp only [layoutOK2, Bool.and_eq_true] at h
  simp only [layoutOKW, Bool.and_eq_true]
  exact ⟨h.1, sdefsLineOK_of_nl d.enums d.tables lay.slots h.2⟩

/-! ### what the line loop collects -/

def mkRows : List (TableD F) → List (List (List (Cell F))) → List (Str × List (List (Cell F)))
  | t :: ts, a :: as => (upper t.name, a) :: mkRows ts as
  | _, _ => []

def appendAt {α : Type} : Nat → α → List (List α) → List (List α)
  | _, _, [] => []
  | 0, r, a :: as => (a ++ [r]) :: as
  | n + 1, r, a :: as => a :: appendAt n r as

def zipApp {α : Type} : List (List α) → List (List α) → List (List α)
  | a :: as, b :: bs => (a ++ b) :: zipApp as bs
  | as, [] => as
  | [], _ :: _ => []

theorem popAt_zipApp {α : Type} (t : Nat) (r : α) (acc rows rows' : List (List α))
    (hp : popAt t rows = some (r, rows')) : zipApp (appendAt t r acc) rows' = zipApp acc rows := by
  induction t generalizing acc rows rows' with
  | zero =>
    cases rows with
    | nil => simp [popAt] at hp
    | cons q rest =>
      cases q with
      | nil => simp [popAt] at hp
      | cons x xs =>
        simp only [popAt, Option.some.injEq, Prod.mk.injEq] at hp
        obtain ⟨rfl, rfl⟩ := hp
        cases acc with
        | nil => rfl
        | cons a as => simp [appendAt, zipApp]
  | succ n ih =>
    cases rows with
    | nil => simp [popAt] at hp
    | cons q rest =>
      simp only [popAt] at hp
      cases hq : popAt n rest with
      | none => rw [hq] at hp; cases hp
      | some res =>
        obtain ⟨x, rest'⟩ := res
        rw [hq] at hp
        simp only [Option.some.injEq, Prod.mk.injEq] at hp
        obtain ⟨rfl, rfl⟩ := hp
        cases acc with
        | nil => rfl
        | cons a as => simp only [appendAt, zipApp, ih as rest rest' hq]

theorem zipApp_empty {α : Type} (acc rows : List (List α)) (h : rows.all List.isEmpty = true) :
    zipApp acc rows = acc := by
  induction acc generalizing rows with
  | nil => cases rows <;> rfl
  | cons a as ih =>
    cases rows with
    | nil => rfl
    | cons b bs =>
      simp only [List.all_cons, Bool.and_eq_true, List.isEmpty_iff] at h
      simp only [zipApp, h.1, List.append_nil, ih bs h.2]

theorem mkRows_keys (ts : List (TableD F)) (acc : List (List (List (Cell F)))) :
    ∀ e ∈ mkRows ts acc, e.1 ∈ ts.map (fun t => upper t.name) := by
  induction ts generalizing acc with
  | nil => intro e he; cases acc <;> simp [mkRows] at he
  | cons t ts ih =>
    cases acc with
    | nil => intro e he; simp [mkRows] at he
    | cons a as =>
      intro e he
      simp only [mkRows, List.mem_cons] at he
      rcases he with rfl | he
      · simp
      · exact List.mem_cons_of_mem _ (ih as e he)

theorem addRow_none (L : List (Str × List (List (Cell F)))) (T : Str) (r : List (Cell F))
    (h : ∀ e ∈ L, e.1 ≠ T) : addRow L T r = L := by
  unfold addRow
  conv => rhs; rw [← List.map_id L]
  apply List.map_congr_left
  intro e he
  have : (e.1 == T) = false := by simpa using h e he
  simp [this]

theorem addRow_mkRows (ts : List (TableD F)) (hnd : nodup (ts.map (fun t => upper t.name)) = true)
    (acc : List (List (List (Cell F)))) (t : Nat) (tb : TableD F) (htb : ts[t]? = some tb) (r : List (Cell F)) :
    addRow (mkRows ts acc) (upper tb.name) r = mkRows ts (appendAt t r acc) := by
  induction ts generalizing acc t with
  | nil => simp at htb
  | cons t0 ts ih =>
    obtain ⟨n1, n2⟩ := nodup_cons _ _ hnd
    have n1' : upper t0.name ∉ ts.map (fun t => upper t.name) := n1
    cases acc with
    | nil => cases t <;> rfl
    | cons a as =>
      cases t with
      | zero =>
        simp only [List.getElem?_cons_zero, Option.some.injEq] at htb
        subst htb
        have hrest : addRow (mkRows ts as) (upper t0.name) r = mkRows ts as :=
          addRow_none _ _ _ (fun e he e' => n1' (by rw [← e']; exact mkRows_keys ts as e he))
        have : addRow (mkRows (t0 :: ts) (a :: as)) (upper t0.name) r =
            (upper t0.name, a ++ [r]) :: addRow (mkRows ts as) (upper t0.name) r := by
          simp [addRow, mkRows]
        rw [this, hrest]
        rfl
      | succ n =>
        simp only [List.getElem?_cons_succ] at htb
        have hne : upper t0.name ≠ upper tb.name := by
          intro e
          exact n1' (by rw [e]; exact List.mem_map.mpr ⟨tb, List.mem_of_getElem? htb, rfl⟩)
        have : addRow (mkRows (t0 :: ts) (a :: as)) (upper tb.name) r =
            (upper t0.name, a) :: addRow (mkRows ts as) (upper tb.name) r := by
          simp [addRow, mkRows, hne]
        rw [this, ih n2 as n htb]
        rfl

/-- the effects of all chunks, from any state of the loop: the pairs still to be written are
appended in order, every row goes to the end of its table's list -/
theorem infos_fold (io : FloatIO F) (d : Doc F) (hnd : nodup (d.tables.map (fun t => upper t.name)) = true) :
    ∀ (ss : List Slot) (st : RSt F), slotsOK io d st ss = true →
      ∀ infos, slotInfos io d st ss = some infos →
        ∀ (P : List (Str × Str)) (acc : List (List (List (Cell F)))),
          (∀ p ∈ P, ∀ kv ∈ st.hdr, p.1 ≠ kv.1) → nodup (st.hdr.map (·.1)) = true →
          infos.foldl (fun s i => i.eff s) (⟨P, mkRows d.tables acc⟩ : LoopSt F) =
            ⟨P ++ st.hdr, mkRows d.tables (zipApp acc st.rows)⟩ := by
  intro ss
  induction ss with
  | nil =>
    intro st hok infos hi P acc _ _
    simp only [slotsOK, Bool.and_eq_true, List.isEmpty_iff] at hok
    obtain ⟨⟨⟨h1, _⟩, _⟩, h4⟩ := hok
    simp only [slotInfos] at hi
    split at hi
    · injection hi with hi; subst hi
      simp only [List.foldl, h1, List.append_nil, zipApp_empty acc st.rows h4]
    · cases hi
  | cons s ss ih =>
    intro st hok infos hi P acc hdis hpn
    cases s with
    | pair lay =>
      cases hh : st.hdr with
      | nil => simp only [slotInfos, hh] at hi; cases hi
      | cons kv rest =>
        simp only [slotInfos, slotsOK, hh] at hi hok
        simp only [Bool.and_eq_true] at hok
        rw [hh] at hdis hpn
        obtain ⟨n1, n2⟩ := nodup_cons _ _ hpn
        cases hr : slotInfos io d { st with hdr := rest } ss with
        | none => rw [hr] at hi; cases hi
        | some ls =>
          rw [hr] at hi
          injection hi with hi; subst hi
          have hset : setPair P kv.1 kv.2 = P ++ [(kv.1, kv.2)] :=
            setPair_new P kv.1 kv.2 (fun p hp => hdis p hp kv (by simp))
          have := ih { st with hdr := rest } hok.2 ls hr (P ++ [kv]) acc (by
            intro p hp x hx
            rcases List.mem_append.mp hp with h | h
            · exact hdis p h x (by simp [hx])
            · simp only [List.mem_singleton] at h
              subst h
              intro e
              exact n1 (List.mem_map.mpr ⟨x, hx, e.symm⟩)) n2
          simp only [List.foldl, plainInfo, pairEff, hset]
          simpa [List.append_assoc] using this
    | row t lay =>
      cases hp : popAt t st.rows with
      | none => simp only [slotInfos, hp] at hi; cases hi
      | some res =>
        obtain ⟨r, rows'⟩ := res
        cases htb : d.tables[t]? with
        | none => simp only [slotsOK, hp, htb] at hok; cases hok
        | some tb =>
          simp only [slotInfos, slotsOK, hp, htb] at hi hok
          simp only [Bool.and_eq_true] at hok
          have hup : upper lay.name = upper tb.name := by
            have := hok.1
            simp only [rowLayOK, Bool.and_eq_true, beq_iff_eq] at this
            exact this.1.1.1.1.2
          cases hl : renderRow Sep.logical io r lay with
          | none => rw [hl] at hi; cases hi
          | some l =>
            cases hr : slotInfos io d { st with rows := rows' } ss with
            | none => rw [hl, hr] at hi; cases hi
            | some ls =>
              rw [hl, hr] at hi
              injection hi with hi; subst hi
              have := ih { st with rows := rows' } hok.2 ls hr P (appendAt t r acc) hdis hpn
              simp only [List.foldl, plainInfo, rowEff, hup, addRow_mkRows d.tables hnd acc t tb htb r]
              rw [this, popAt_zipApp t r acc st.rows rows' hp]
    | sdef lay =>
      cases hh : st.defs with
      | nil => simp only [slotInfos, hh] at hi; cases hi
      | cons t rest =>
        simp only [slotInfos, slotsOK, hh] at hi hok
        simp only [Bool.and_eq_true] at hok
        cases hl : renderStruct d.enums t lay with
        | none => rw [hl] at hi; cases hi
        | some l =>
          cases hr : slotInfos io d { st with defs := rest } ss with
          | none => rw [hl, hr] at hi; cases hi
          | some ls =>
            rw [hl, hr] at hi
            injection hi with hi; subst hi
            exact ih { st with defs := rest } hok.2 ls hr P acc hdis hpn
    | edef lay =>
      cases hh : st.enums with
      | nil => simp only [slotInfos, hh] at hi; cases hi
      | cons e rest =>
        simp only [slotInfos, slotsOK, hh] at hi hok
        simp only [Bool.and_eq_true] at hok
        cases hl : renderEnum e lay with
        | none => rw [hl] at hi; cases hi
        | some l =>
          cases hr : slotInfos io d { st with enums := rest } ss with
          | none => rw [hl, hr] at hi; cases hi
          | some ls =>
            rw [hl, hr] at hi
            injection hi with hi; subst hi
            exact ih { st with enums := rest } hok.2 ls hr P acc hdis hpn
    | filler text crlf =>
      simp only [slotInfos, slotsOK] at hi hok
      simp only [Bool.and_eq_true] at hok
      cases hr : slotInfos io d st ss with
      | none => rw [hr] at hi; cases hi
      | some ls =>
        rw [hr] at hi
        injection hi with hi; subst hi
        exact ih st hok.2 ls hr P acc hdis hpn

end PydlVerif.YannyLay

/-
C02, file level: the assembled statement.

  PART 6  selection, symbol table and enum cache from the definitions found; `parseFile_lay`
-/
import PydlVerif.Lemmas.YannyLaySlots
import PydlVerif.Lemmas.YannyLayCont
namespace PydlVerif.YannyLay
open PydlVerif.Yanny PydlVerif.YannyRT PydlVerif.YannyLayBlock PydlVerif.YannyLayLine PydlVerif.YannyLayScan

variable {F : Type}

/-! ## PART 6 -/

theorem docOK2_props (d : Doc F) (hd : docOK2 d = true) :
    (∀ e ∈ d.enums, enumOK e = true) ∧ nodup (d.enums.map (fun e => upper e.tyName)) = true ∧
    (∀ t ∈ d.tables, tableOK2 d.enums t = true) ∧ nodup (d.tables.map (fun t => upper t.name)) = true ∧
    (∀ kv ∈ d.hdr, pairOK2 (d.tables.map (fun t => upper t.name)) kv = true) ∧
    nodup (d.hdr.map (·.1)) = true := by
  simp only [docOK2, Bool.and_eq_true, List.all_eq_true] at hd
  obtain ⟨⟨⟨⟨⟨⟨he, _⟩, het⟩, ht⟩, htn⟩, hp⟩, hpn⟩ := hd
  exact ⟨he, het, ht, htn, hp, hpn⟩

theorem all2_map {α β : Type} (R : α → β → Prop) (f : α → β) (l : List α) (h : ∀ a ∈ l, R a (f a)) :
    All2 R l (l.map f) := by
  induction l with
  | nil => exact All2.nil
  | cons a t ih => exact All2.cons (h a (by simp)) (ih (fun x hx => h x (by simp [hx])))

theorem inv2_init (d : Doc F) (hd : docOK2 d = true) : Inv2 d (initRSt d) := by
  obtain ⟨he, _, ht, _, hp, _⟩ := docOK2_props d hd
  refine ⟨hp, he, ht, ?_⟩
  apply all2_map
  intro tb hm
  exact (tableOK2_props d.enums tb (ht tb hm)).2.2.2.2

theorem blockLT_split (T K g1 g2 body g3 name g4 : Str) :
    blockLT T K g1 g2 body g3 name g4 = (T ++ g1 ++ K ++ g2 ++ '{' :: body) ++ '}' :: (g3 ++ name ++ g4 ++ [';']) := by
  unfold blockLT
  simp only [List.append_assoc, List.cons_append, List.nil_append]

theorem tdName_structBlk (enums : List EnumDecl) (t : TableD F) (l : StructLay) (hp : SLP enums t l) :
    tdNameOf (structBlk enums t l) = some l.name := by
  have e : structBlk enums t l = blockLT "typedef".toList kS l.g1 l.g2 (structBodyL enums t l) l.g3 l.name l.g4 := rfl
  rw [e, blockLT_split]
  have hn := wordOK_wordy _ hp.name
  exact tdNameOf_shape _ l.g3 l.name l.g4 (ws_space _ hp.g3) (ws_space _ hp.g4) hn.1 hn.2

/-- the properties of the struct definitions of a file: in table order, each in a legal layout -/
structure PSOK (d : Doc F) (PS : List (TableD F × StructLay)) : Prop where
  fst : PS.map (·.1) = d.tables
  ok : ∀ p ∈ PS, structLayOK d.enums p.1 p.2 = true
  line : ∀ p ∈ PS, declLineOK d.enums p.1.cols p.2.cols = true

theorem ps_mem_table (d : Doc F) (PS : List (TableD F × StructLay)) (h : PSOK d PS) (p) (hp : p ∈ PS) :
    p.1 ∈ d.tables := by
  rw [← h.fst]; exact List.mem_map.mpr ⟨p, hp, rfl⟩

theorem ps_names (d : Doc F) (ht : ∀ t ∈ d.tables, tableOK2 d.enums t = true)
    (PS : List (TableD F × StructLay)) (h : PSOK d PS) :
    PS.map (fun p => upper p.2.name) = d.tables.map (fun t => upper t.name) := by
  rw [← h.fst, List.map_map]
  apply List.map_congr_left
  intro p hp
  exact (structLayOK_props d.enums p.1 p.2 (h.ok p hp)).up

/-- `type()` selects for every table its own definition, whatever the layout -/
theorem select_lay (d : Doc F) (ht : ∀ t ∈ d.tables, tableOK2 d.enums t = true)
    (htn : nodup (d.tables.map (fun t => upper t.name)) = true)
    (PS : List (TableD F × StructLay)) (h : PSOK d PS) (p : TableD F × StructLay) (hp : p ∈ PS) :
    selectDef (PS.map (fun p => structBlk d.enums p.1 p.2)) (upper p.1.name) = some (structBlk d.enums p.1 p.2) := by
  have hsel : selectDef = selectDef2 := rfl
  rw [hsel]
  have := selectDef2_by_name (PS.map (fun p => (p.2.name, structBlk d.enums p.1 p.2)))
    (by
      intro x hx
      obtain ⟨q, hq, rfl⟩ := List.mem_map.mp hx
      exact tdName_structBlk d.enums q.1 q.2 (structLayOK_props _ _ _ (h.ok q hq)))
    (by
      rw [List.map_map]
      have := ps_names d ht PS h
      simp only [Function.comp_def]
      rw [this]
      exact nodup_Nodup _ htn)
    (p.2.name, structBlk d.enums p.1 p.2) (List.mem_map.mpr ⟨p, hp, rfl⟩) (upper p.1.name)
    (by
      have hw := (tableOK2_props d.enums p.1 (ht p.1 (ps_mem_table d PS h p hp))).1
      rw [(upper_wordOK _ hw).2]
      exact ((structLayOK_props d.enums p.1 p.2 (h.ok p hp)).up).symm)
  simpa [List.map_map, Function.comp_def] using this

/-- the symbol table: every table (upper-cased) with its column names -/
theorem symtab_lay (d : Doc F) (he : ∀ e ∈ d.enums, enumOK e = true)
    (ht : ∀ t ∈ d.tables, tableOK2 d.enums t = true)
    (htn : nodup (d.tables.map (fun t => upper t.name)) = true)
    (PS : List (TableD F × StructLay)) (h : PSOK d PS) :
    (PS.map (fun p => structTD d.enums p.1 p.2)).foldl
        (fun acc d' => symInsert acc (upper d'.name) (columnsOf d'.body)) [] =
      d.tables.map (fun t => (upper t.name, t.cols.map (·.name))) := by
  rw [List.foldl_map]
  have hkeys : PS.map (fun p => upper (structTD d.enums p.1 p.2).name) = d.tables.map (fun t => upper t.name) :=
    ps_names d ht PS h
  have := foldl_symInsert PS (fun p => upper (structTD d.enums p.1 p.2).name)
    (fun p => columnsOf (structTD d.enums p.1 p.2).body) [] (by rw [hkeys]; exact htn)
    (by intro e he'; cases he')
  simp only [List.nil_append] at this
  rw [this, ← h.fst, List.map_map]
  apply List.map_congr_left
  intro p hp
  have hp' := structLayOK_props d.enums p.1 p.2 (h.ok p hp)
  obtain ⟨_, _, hcols, _, _⟩ := tableOK2_props d.enums p.1 (ht p.1 (ps_mem_table d PS h p hp))
  have hms := memsOf_ok d.enums he p.1.cols p.2.cols hcols hp'.cols
  have hc : columnsOf (structBodyL d.enums p.1 p.2) = p.1.cols.map (·.name) := by
    unfold structBodyL
    rw [columnsOf_lay _ _ hms hp'.cp, memsOf_names _ _ _ hp'.cols]
  simp only [Function.comp_def, structTD, hc]
  congr 1
  exact hp'.up

/-! ### enum cache -/

structure ESOK (d : Doc F) (ES : List (EnumDecl × EnumLay)) : Prop where
  fst : ES.map (·.1) = d.enums
  ok : ∀ p ∈ ES, enumLayOK p.1 p.2 = true

theorem renderLabels_some (labels ws : List Str) (hne : labels ≠ []) (hl : ws.length + 1 = labels.length) :
    ∃ lbl, renderLabels labels ws = some lbl := by
  induction labels generalizing ws with
  | nil => exact absurd rfl hne
  | cons a t ih =>
    cases t with
    | nil =>
      cases ws with
      | nil => exact ⟨a, rfl⟩
      | cons w ws' => simp at hl
    | cons b t' =>
      cases ws with
      | nil => simp at hl
      | cons w ws' =>
        obtain ⟨r, hr⟩ := ih ws' (by simp) (by simpa using hl)
        exact ⟨a ++ ',' :: w ++ r, by simp only [renderLabels, hr]⟩

theorem enumBody_labels (e : EnumDecl) (l : EnumLay) (he : enumOK e = true) (hl : enumLayOK e l = true) :
    splitComma (strip (enumBodyL e l)) = e.labels := by
  obtain ⟨_, hne, hlab⟩ := enumOK_props e he
  have hp := enumLayOK_props e l hl
  have hlen : l.afterComma.length + 1 = e.labels.length := by
    simp only [enumLayOK, Bool.and_eq_true, beq_iff_eq] at hl
    exact hl.1.1.1.1.1.2
  obtain ⟨lbl, hlb⟩ := renderLabels_some e.labels l.afterComma hne hlen
  simp only [enumBodyL, hlb, Option.getD_some]
  exact splitComma_lay e.labels l.afterComma l.op l.cl lbl (fun a ha => wordOK_wordy _ (hlab a ha))
    (fun w hw => ws_space _ (hp.ac w hw)) (ws_space _ hp.op) (ws_space _ hp.cl) hlb

/-- the enum cache built from the enum definitions found -/
theorem cache_lay (d : Doc F) (he : ∀ e ∈ d.enums, enumOK e = true)
    (het : nodup (d.enums.map (fun e => upper e.tyName)) = true)
    (ES : List (EnumDecl × EnumLay)) (h : ESOK d ES) :
    (∀ e ∈ d.enums, lookupLast (upper e.tyName) (enumCache (ES.map (fun p => enumTD p.1 p.2))) = some e.labels) ∧
    ∀ w ∈ ["short".toList, "int".toList, "long".toList, "float".toList, "double".toList],
      lookupLast w (enumCache (ES.map (fun p => enumTD p.1 p.2))) = none := by
  have hc : enumCache (ES.map (fun p => enumTD p.1 p.2)) = d.enums.map (fun e => (upper e.tyName, e.labels)) := by
    unfold enumCache
    rw [← h.fst, List.map_map, List.map_map]
    apply List.map_congr_left
    intro p hp
    have hm : p.1 ∈ d.enums := by rw [← h.fst]; exact List.mem_map.mpr ⟨p, hp, rfl⟩
    simp only [Function.comp_def, enumTD, enumBody_labels p.1 p.2 (he p.1 hm) (h.ok p hp)]
  rw [hc]
  refine ⟨fun e hm => lookupLast_by_key d.enums (fun e => upper e.tyName) (fun e => e.labels) het e hm, ?_⟩
  intro w hw
  apply lookupLast_none
  intro entry hentry
  obtain ⟨e, hm, rfl⟩ := List.mem_map.mp hentry
  have hwo := (enumOK_props e (he e hm)).1
  simp only [List.mem_cons, List.mem_nil_iff, or_false] at hw
  rcases hw with rfl | rfl | rfl | rfl | rfl <;> exact upper_ne_lower e.tyName _ hwo (by decide)

/-! ### the whole file -/

theorem mkRows_map (ts : List (TableD F)) (f : TableD F → List (List (Cell F))) :
    mkRows ts (ts.map f) = ts.map (fun t => (upper t.name, f t)) := by
  induction ts with
  | nil => rfl
  | cons t ts ih => simp only [List.map_cons, mkRows, ih]

theorem zipApp_map {α β : Type} (ts : List β) (f : β → List α) :
    zipApp (ts.map (fun _ => ([] : List α))) (ts.map f) = ts.map f := by
  induction ts with
  | nil => rfl
  | cons t ts ih => simp only [List.map_cons, zipApp, List.nil_append, ih]

/-- the struct / enum definitions the reader extracts from a laid-out file -/
def layStructs (d : Doc F) (lay : Layout) : List TDef :=
  (sdefPairs d.tables lay.slots).map (fun p => structTD d.enums p.1 p.2)
def layEnums (d : Doc F) (lay : Layout) : List TDef :=
  (edefPairs d.enums lay.slots).map (fun p => enumTD p.1 p.2)

theorem layouts_ok (io : FloatIO F) (d : Doc F) (lay : Layout) (hl : layoutOKW io d lay = true) :
    PSOK d (sdefPairs d.tables lay.slots) ∧ ESOK d (edefPairs d.enums lay.slots) := by
  simp only [layoutOKW, Bool.and_eq_true] at hl
  obtain ⟨hlo, hnl⟩ := hl
  have hso : slotsOK io d (initRSt d) lay.slots = true := hlo
  obtain ⟨p1, p2, p3, p4⟩ := pairs_ok io d lay.slots _ hso
  exact ⟨⟨p1, p2, pairs_line _ _ _ hnl⟩, ⟨p3, p4⟩⟩

/-- **pieces (1)+(2), file level**: the front half of `_parse` on a file in any layout - after
continuation joining, typedef extraction finds exactly the struct and enum definitions, in slot order,
cuts exactly them out, the symbol table lists every table with its columns, and what is left for
the line loop is the chunk-wise residual text -/
theorem front_layW (io : FloatIO F) (h1 : H1 io) (d : Doc F) (lay : Layout) (text : Str)
    (hd : docOK2 d = true) (hl : layoutOKW io d lay = true) (hr : renders io d lay = some text) :
    ∃ infos, slotInfos io d (initRSt d) lay.slots = some infos ∧ (∀ i ∈ infos, InfoOK io (laySpecs d) i) ∧
      front text = ⟨layStructs d lay, layEnums d lay,
        d.tables.map (fun t => (upper t.name, t.cols.map (·.name))),
        joinChunks lay.finalEol (residChunks infos)⟩ := by
  obtain ⟨he, het, ht, htn, hp, hpn⟩ := docOK2_props d hd
  obtain ⟨PSok, _⟩ := layouts_ok io d lay hl
  simp only [layoutOKW, Bool.and_eq_true] at hl
  obtain ⟨hlo, hnl⟩ := hl
  obtain ⟨ltext, hlog, hj⟩ := PydlVerif.YannyLayCont.joinCont_renders io d lay text hd hlo hr
  unfold rendersLogical at hlog
  cases hch : renderSlots Sep.logical io d (initRSt d) lay.slots with
  | none => rw [hch] at hlog; cases hlog
  | some chunks =>
    rw [hch] at hlog
    simp only [Option.map_some, Option.some.injEq] at hlog
    have inv := inv2_init d hd
    have hso : slotsOK io d (initRSt d) lay.slots = true := hlo
    obtain ⟨infos, hsi, htc⟩ := slotInfos_render io d lay.slots _ inv hso chunks hch
    have hio := infos_ok io h1 d he htn lay.slots _ inv hso infos hsi
    obtain ⟨hsd, hed⟩ := infos_defs io d lay.slots _ infos hsi
    refine ⟨infos, hsi, hio, ?_⟩
    have hsd' : (infos.map (·.sdefs)).flatten = layStructs d lay := hsd
    have hed' : (infos.map (·.edefs)).flatten = layEnums d lay := hed
    have hlines : joinCont text = joinChunks lay.finalEol (textChunks infos) := by rw [hj, ← hlog, htc]
    unfold front
    have e1 : tdFind "struct".toList 0 (joinChunks lay.finalEol (textChunks infos)) = layStructs d lay := by
      rw [← hsd']; exact chunks_findS io (laySpecs d) _ infos hio
    have e2 : tdFind "enum".toList 0 (joinChunks lay.finalEol (textChunks infos)) = layEnums d lay := by
      rw [← hed']; exact chunks_findE io (laySpecs d) _ infos hio
    have e3 : tdRemove "enum".toList 0 (tdRemove "struct".toList 0 (joinChunks lay.finalEol (textChunks infos))) =
        joinChunks lay.finalEol (residChunks infos) := by
      have a := chunks_remS io (laySpecs d) lay.finalEol infos hio
      have b := chunks_remE io (laySpecs d) lay.finalEol infos hio
      show tdRemove kE 0 (tdRemove kS 0 _) = _
      rw [a, b]
    have e4 := symtab_lay d he ht htn _ PSok
    simp only [hlines, e1, e2, e3]
    unfold layStructs
    simp only [e4]

/-- **piece (4)**: the line loop over the residual text of a file in any layout - comment lines,
blank lines, what is left of the definition lines, keyword lines and the data lines of all tables in
ANY interleaving - records the keyword pairs in order and, per table, its rows in that table's order -/
theorem loop_layW (io : FloatIO F) (d : Doc F) (lay : Layout) (hd : docOK2 d = true)
    (hl : layoutOKW io d lay = true) (infos : List (ChunkInfo F))
    (hsi : slotInfos io d (initRSt d) lay.slots = some infos) (hio : ∀ i ∈ infos, InfoOK io (laySpecs d) i) :
    lineLoop io (laySpecs d) ⟨[], d.tables.map (fun t => (upper t.name, []))⟩
      (splitNl (joinChunks lay.finalEol (residChunks infos))) =
      .ok ⟨d.hdr, d.tables.map (fun t => (upper t.name, t.rows))⟩ := by
  obtain ⟨_, _, _, htn, _, hpn⟩ := docOK2_props d hd
  simp only [layoutOKW, Bool.and_eq_true] at hl
  have hso : slotsOK io d (initRSt d) lay.slots = true := hl.1
  have hfold := infos_fold io d htn lay.slots _ hso infos hsi [] (d.tables.map (fun _ => []))
    (by intro p hp'; cases hp') hpn
  have hloop := chunks_loop io (laySpecs d) lay.finalEol infos hio
    ⟨[], mkRows d.tables (d.tables.map (fun _ => []))⟩
  rw [hfold] at hloop
  have hrows : mkRows d.tables (zipApp (d.tables.map (fun _ => [])) (initRSt d).rows) =
      d.tables.map (fun t => (upper t.name, t.rows)) := by
    show mkRows d.tables (zipApp (d.tables.map (fun _ => [])) (d.tables.map (·.rows))) = _
    rw [zipApp_map, mkRows_map]
  rw [hrows, mkRows_map] at hloop
  exact hloop

/-- **piece (2'), file level**: for every table, column typing from its laid-out definition -/
theorem typing_file_layW (io : FloatIO F) (d : Doc F) (lay : Layout) (hd : docOK2 d = true)
    (hl : layoutOKW io d lay = true) :
    ∀ t ∈ d.tables,
      colSpecs ((layStructs d lay).map (·.text)) (upper t.name) (t.cols.map (·.name)) = .ok (t.cols.map specOfCol) ∧
      ∀ (k : Nat) (c : Col), t.cols[k]? = some c →
        rcolOf ((layStructs d lay).map (·.text)) (enumCache (layEnums d lay)) (upper t.name) c.name
          (t.rows.filterMap (fun r => r[k]?)) = .ok (rcolCanon d.enums c) := by
  obtain ⟨he, het, ht, htn, _, _⟩ := docOK2_props d hd
  obtain ⟨PSok, ESok⟩ := layouts_ok io d lay hl
  obtain ⟨k1, k2⟩ := cache_lay d he het _ ESok
  have hst : (layStructs d lay).map (·.text) =
      (sdefPairs d.tables lay.slots).map (fun p => structBlk d.enums p.1 p.2) := by
    unfold layStructs; rw [List.map_map]; rfl
  rw [hst]
  intro t hm
  have : t ∈ (sdefPairs d.tables lay.slots).map (·.1) := by rw [PSok.fst]; exact hm
  obtain ⟨p, hpm, rfl⟩ := List.mem_map.mp this
  exact typing_layW d.enums he p.1 p.2 (ht p.1 hm) (PSok.ok p hpm) (PSok.line p hpm) _
    (select_lay d ht htn _ PSok p hpm) _ k1 k2

/-- **file level**: a document of the domain `docOK2`, written in ANY layout of the domain
`layoutOKW`, reads back as its canonical form (C01's reader `parseFile`) -/
theorem parseFile_layW (io : FloatIO F) (h1 : H1 io) (d : Doc F) (lay : Layout) (text : Str)
    (hd : docOK2 d = true) (hl : layoutOKW io d lay = true) (hr : renders io d lay = some text) :
    parseFile io text = .ok (canon d) := by
  obtain ⟨he, het, ht, htn, hp, hpn⟩ := docOK2_props d hd
  obtain ⟨infos, hsi, hio, hfront⟩ := front_layW io h1 d lay text hd hl hr
  have htyp := typing_file_layW io d lay hd hl
  have hloop := loop_layW io d lay hd hl infos hsi hio
  have hspecs : (d.tables.map (fun t => (upper t.name, t.cols.map (·.name)))).map
      (fun t => (t.1, colSpecs ((layStructs d lay).map (·.text)) t.1 t.2)) = laySpecs d := by
    unfold laySpecs
    rw [List.map_map]
    apply List.map_congr_left
    intro t hm
    simp only [Function.comp, (htyp t hm).1]
  have hinit : (d.tables.map (fun t => (upper t.name, t.cols.map (·.name)))).map
      (fun t => (t.1, ([] : List (List (Cell F))))) = d.tables.map (fun t => (upper t.name, [])) := by
    rw [List.map_map]; rfl
  have hhdr : d.hdr.map (fun kv => (kv.1, strip kv.2)) = d.hdr := by
    conv => rhs; rw [← List.map_id d.hdr]
    apply List.map_congr_left
    intro kv hm
    have := hp kv hm
    simp only [pairOK2, Bool.and_eq_true, beq_iff_eq] at this
    simp [this.2]
  unfold parseFile
  simp only [hfront, hspecs, hinit, hloop]
  generalize (layStructs d lay).map (·.text) = STS at htyp
  generalize enumCache (layEnums d lay) = CA at htyp
  have hok : ∀ t ∈ d.tables, t.cols ≠ [] ∧
      (∀ (k : Nat) (c : Col), t.cols[k]? = some c →
        rcolOf STS CA (upper t.name) c.name (t.rows.filterMap (fun r => r[k]?)) = .ok (rcolCanon d.enums c)) ∧
      ∀ r ∈ t.rows, cellsOK d.enums t.cols r = true :=
    fun t hm => ⟨(tableOK2_props d.enums t (ht t hm)).2.1, (htyp t hm).2,
      (tableOK2_props d.enums t (ht t hm)).2.2.2.2⟩
  have hfin := finishTables_written' STS CA d.enums d.tables htn d.tables (fun _ h => h) hok
  simp only [hfin]
  unfold canon
  rw [hhdr]
  rfl

/-! ### the statements of the first extension round (domain `layoutOK2` ⊆ `layoutOKW`) -/

theorem front_lay (io : FloatIO F) (h1 : H1 io) (d : Doc F) (lay : Layout) (text : Str)
    (hd : docOK2 d = true) (hl : layoutOK2 io d lay = true) (hr : renders io d lay = some text) :
    ∃ infos, slotInfos io d (initRSt d) lay.slots = some infos ∧ (∀ i ∈ infos, InfoOK io (laySpecs d) i) ∧
      front text = ⟨layStructs d lay, layEnums d lay,
        d.tables.map (fun t => (upper t.name, t.cols.map (·.name))),
        joinChunks lay.finalEol (residChunks infos)⟩ :=
  front_layW io h1 d lay text hd (layoutOKW_of_OK2 io d lay hl) hr

theorem loop_lay (io : FloatIO F) (d : Doc F) (lay : Layout) (hd : docOK2 d = true)
    (hl : layoutOK2 io d lay = true) (infos : List (ChunkInfo F))
    (hsi : slotInfos io d (initRSt d) lay.slots = some infos) (hio : ∀ i ∈ infos, InfoOK io (laySpecs d) i) :
    lineLoop io (laySpecs d) ⟨[], d.tables.map (fun t => (upper t.name, []))⟩
      (splitNl (joinChunks lay.finalEol (residChunks infos))) =
      .ok ⟨d.hdr, d.tables.map (fun t => (upper t.name, t.rows))⟩ :=
  loop_layW io d lay hd (layoutOKW_of_OK2 io d lay hl) infos hsi hio

theorem parseFile_lay (io : FloatIO F) (h1 : H1 io) (d : Doc F) (lay : Layout) (text : Str)
    (hd : docOK2 d = true) (hl : layoutOK2 io d lay = true) (hr : renders io d lay = some text) :
    parseFile io text = .ok (canon d) :=
  parseFile_layW io h1 d lay text hd (layoutOKW_of_OK2 io d lay hl) hr

end PydlVerif.YannyLay

/-
C02, file level, second extension round: the file as read in text mode.

  PART 7  `univNl` (universal newlines of text-mode `open()`) applied to the rendering of a layout is the
          rendering of the layout `lay.univ` (every line end `\n`, every CR of a white-space run inside a
          definition `\n`), and `lay.univ` is in the domain whenever `lay` is and no typedef comment / cell
          contains a lone CR.  Hence `parseFile_layU`.
Core Lean only.
-/
import PydlVerif.Lemmas.YannyLayTop
namespace PydlVerif.YannyLay
open PydlVerif.Yanny PydlVerif.YannyRT PydlVerif.YannyLayBlock PydlVerif.YannyLayLine PydlVerif.YannyLayScan

variable {F : Type}

/-! ## PART 7 -/

/-! ### `univNl` on concatenations -/

theorem univNl_cons_ne (c : Char) (t : Str) (h : c ≠ '\r') : univNl (c :: t) = c :: univNl t := by
  rw [univNl.eq_def]
  split
  · rename_i heq; cases heq
  · rename_i heq; injection heq with h1 _; exact absurd h1 h
  · rename_i heq; injection heq with h1 _; exact absurd h1 h
  · rename_i heq; injection heq with h1 h2; subst h1; subst h2; rfl

theorem univNl_cr_lf (t : Str) : univNl ('\r' :: '\n' :: t) = '\n' :: univNl t := by
  rw [univNl]

theorem univNl_cr_other (t : Str) (h : t.head? ≠ some '\n') : univNl ('\r' :: t) = '\n' :: univNl t := by
  cases t with
  | nil => simp [univNl]
  | cons d t' =>
    have hd : d ≠ '\n' := by simpa using h
    rw [univNl.eq_def]
    split
    · rename_i heq; cases heq
    · rename_i heq; injection heq with _ h2; injection h2 with h3 _; exact absurd h3 hd
    · rename_i heq; injection heq with _ h2; subst h2; rfl
    · rename_i c t0 hne1 hne2 heq; injection heq with h1 _
      first | exact absurd h1.symm hne1 | exact absurd h1.symm hne2

theorem univNl_length_le (s : Str) : (univNl s).length ≤ s.length := by
  induction s using univNl.induct with
  | case1 => simp [univNl]
  | case2 t ih => rw [univNl_cr_lf]; simp; omega
  | case3 t h ih =>
    rw [univNl_cr_other t (by
      cases t with
      | nil => simp
      | cons d t' => intro e; simp at e; subst e; exact h t' rfl)]
    simp; omega
  | case4 c t h1 h2 ih =>
    have hc : c ≠ '\r' := by
      intro e; first | exact h1 e | exact h2 e
    rw [univNl_cons_ne c t hc]; simp; omega

/-- `univNl` distributes over a concatenation whose right part does not start with LF -/
theorem univNl_append_noLF (a b : Str) (hb : b.head? ≠ some '\n') : univNl (a ++ b) = univNl a ++ univNl b := by
  induction a using univNl.induct with
  | case1 => simp [univNl]
  | case2 t ih => simp only [List.cons_append, univNl_cr_lf, ih]
  | case3 t h ih =>
    have ht : t.head? ≠ some '\n' := by
      cases t with
      | nil => simp
      | cons d t' => intro e; simp at e; subst e; exact h t' rfl
    have htb : (t ++ b).head? ≠ some '\n' := by
      cases t with
      | nil => simpa using hb
      | cons d t' => simpa using ht
    simp only [List.cons_append]
    rw [univNl_cr_other _ htb, univNl_cr_other _ ht, ih]
    rfl
  | case4 c t h1 h2 ih =>
    have hc : c ≠ '\r' := by
      intro e; first | exact h1 e | exact h2 e
    simp only [List.cons_append]
    rw [univNl_cons_ne c _ hc, univNl_cons_ne c _ hc, ih]
    rfl

theorem univNl_noCR (a : Str) (h : '\r' ∉ a) : univNl a = a := by
  induction a with
  | nil => simp [univNl]
  | cons c t ih =>
    have hc : c ≠ '\r' := fun e => h (by simp [e])
    rw [univNl_cons_ne c t hc, ih (fun hm => h (List.mem_cons_of_mem _ hm))]

theorem univNl_noCR_append (a b : Str) (h : '\r' ∉ a) : univNl (a ++ b) = a ++ univNl b := by
  induction a with
  | nil => rfl
  | cons c t ih =>
    have hc : c ≠ '\r' := fun e => h (by simp [e])
    simp only [List.cons_append]
    rw [univNl_cons_ne c _ hc, ih (fun hm => h (List.mem_cons_of_mem _ hm))]

/-- `UN x y`: in front of ANY text, `x` becomes `y` under universal newlines (so `x` does not end in a CR
that could merge with a following LF) -/
def UN (x y : Str) : Prop := ∀ t, univNl (x ++ t) = y ++ univNl t

theorem UN.nil : UN [] [] := fun _ => rfl

theorem UN.append {x y x' y' : Str} (h : UN x y) (h' : UN x' y') : UN (x ++ x') (y ++ y') := by
  intro t
  rw [List.append_assoc, h, h', List.append_assoc]

theorem UN.of_noCR (x : Str) (h : '\r' ∉ x) : UN x x := fun t => univNl_noCR_append x t h

theorem UN.eol (crlf : Bool) : UN (eol crlf) ['\n'] := by
  intro t
  cases crlf
  · exact univNl_cons_ne '\n' t (by decide)
  · exact univNl_cr_lf t

theorem UN.cons (c : Char) (hc : c ≠ '\r') {x y : Str} (h : UN x y) : UN (c :: x) (c :: y) := by
  intro t
  rw [List.cons_append, univNl_cons_ne c _ hc, h]; rfl

/-- a white-space run (CRs allowed) in front of text that starts with something else than LF -/
theorem UN.ws (w : Str) {x y : Str} (h : UN x y) (hx : ∃ c r, x = c :: r ∧ c ≠ '\n') :
    UN (w ++ x) (univNl w ++ y) := by
  intro t
  obtain ⟨c, r, rfl, hc⟩ := hx
  rw [List.append_assoc, univNl_append_noLF w _ (by simpa using hc), h, List.append_assoc]

theorem UN.univ_eq {x y : Str} (h : UN x y) : univNl x = y := by
  have := h []
  simpa [univNl] using this

/-! ### characters -/

theorem blanks_noCR (s : Str) (h : ∀ c ∈ s, isBlank c = true) : '\r' ∉ s := by
  intro hm
  have := h _ hm
  simp [isBlank] at this

theorem wordy_noCR (s : Str) (h : wordy s) : '\r' ∉ s := fun hm => absurd (h.2 _ hm) (by decide)

theorem wordy_head_ne (s : Str) (h : wordy s) : ∃ c r, s = c :: r ∧ c ≠ '\n' := by
  cases s with
  | nil => exact absurd rfl h.1
  | cons c r =>
    refine ⟨c, r, rfl, ?_⟩
    intro e; subst e
    exact absurd (h.2 '\n' (by simp)) (by decide)

theorem comment_noCR (cm : Option Str) (h : commentOK cm = true) : '\r' ∉ commentText cm := by
  cases cm with
  | none => simp [commentText]
  | some c =>
    simp only [commentOK, Bool.and_eq_true, Bool.not_eq_true'] at h
    intro hm
    simp only [commentText, List.mem_cons] at hm
    rcases hm with hm | hm
    · cases hm
    · have := h.1.2
      simp at this
      exact this hm

theorem ws_univ (s : Str) (h : ∀ c ∈ s, wsChar c = true) : ∀ c ∈ univNl s, wsChar c = true := by
  induction s using univNl.induct with
  | case1 => simp [univNl]
  | case2 t ih =>
    rw [univNl_cr_lf]
    intro c hc
    rcases List.mem_cons.mp hc with e | hc
    · subst e; decide
    · exact ih (fun x hx => h x (by simp [hx])) c hc
  | case3 t hh ih =>
    rw [univNl_cr_other t (by
      cases t with
      | nil => simp
      | cons d t' => intro e; simp at e; subst e; exact hh t' rfl)]
    intro c hc
    rcases List.mem_cons.mp hc with e | hc
    · subst e; decide
    · exact ih (fun x hx => h x (by simp [hx])) c hc
  | case4 c t h1 h2 ih =>
    have hc : c ≠ '\r' := by
      intro e; first | exact h1 e | exact h2 e
    rw [univNl_cons_ne c t hc]
    intro x hx
    rcases List.mem_cons.mp hx with e | hx
    · subst e; exact h _ (by simp)
    · exact ih (fun y hy => h y (by simp [hy])) x hx

theorem univNl_ne_nil (s : Str) (h : s ≠ []) : univNl s ≠ [] := by
  cases s with
  | nil => exact absurd rfl h
  | cons c t =>
    by_cases hc : c = '\r'
    · subst hc
      cases t with
      | nil => simp [univNl]
      | cons d t' =>
        by_cases hd : d = '\n'
        · subst hd; rw [univNl_cr_lf]; simp
        · rw [univNl_cr_other _ (by simpa using hd)]; simp
    · rw [univNl_cons_ne c t hc]; simp

theorem univNl_keeps_nl (s : Str) (h : '\n' ∈ s) : '\n' ∈ univNl s := by
  induction s using univNl.induct with
  | case1 => simp at h
  | case2 t ih => rw [univNl_cr_lf]; simp
  | case3 t hh ih =>
    rw [univNl_cr_other t (by
      cases t with
      | nil => simp
      | cons d t' => intro e; simp at e; subst e; exact hh t' rfl)]
    simp
  | case4 c t h1 h2 ih =>
    have hc : c ≠ '\r' := by
      intro e; first | exact h1 e | exact h2 e
    rw [univNl_cons_ne c t hc]
    rcases List.mem_cons.mp h with e | hm
    · rw [← e]; simp
    · exact List.mem_cons_of_mem _ (ih hm)

/-! ### white space and comments of a struct body under universal newlines -/

theorem tdWs_univ (b : Bool) (s : Str) (h : tdWsOK b s = true) (hc : tdWsCrOK b s = true) :
    tdWsOK b (univNl s) = true := by
  induction s using univNl.induct generalizing b with
  | case1 => simpa [univNl] using h
  | case2 t ih =>
    rw [univNl_cr_lf]
    cases b with
    | false =>
      simp [tdWsOK, wsChar] at h
      simp [tdWsCrOK] at hc
      simp [tdWsOK, wsChar]
      exact ih false h hc
    | true =>
      simp [tdWsOK] at h
      simp [tdWsCrOK] at hc
      simp [tdWsOK]
      exact ih false h hc
  | case3 t hh ih =>
    have ht : t.head? ≠ some '\n' := by
      cases t with
      | nil => simp
      | cons d t' => intro e; simp at e; subst e; exact hh t' rfl
    rw [univNl_cr_other t ht]
    cases b with
    | false =>
      simp [tdWsOK, wsChar] at h
      simp [tdWsCrOK] at hc
      simp [tdWsOK, wsChar]
      exact ih false h hc
    | true =>
      simp [tdWsCrOK] at hc
      exact absurd hc.1 ht
  | case4 c t h1 h2 ih =>
    have hcr : c ≠ '\r' := by
      intro e; first | exact h1 e | exact h2 e
    rw [univNl_cons_ne c t hcr]
    cases b with
    | false =>
      by_cases hh : c = '#'
      · subst hh
        simp [tdWsOK] at h
        simp [tdWsCrOK] at hc
        simp [tdWsOK]
        exact ih true h hc
      · simp [tdWsOK, hh] at h
        have hb : (c == '#') = false := by simp [hh]
        simp only [tdWsCrOK, hb] at hc
        simp [tdWsOK, hh]
        exact ⟨h.1, ih false h.2 hc⟩
    | true =>
      by_cases hn : c = '\n'
      · subst hn
        simp [tdWsOK] at h
        simp [tdWsCrOK] at hc
        simp [tdWsOK]
        exact ih false h hc
      · simp [tdWsOK, hn] at h
        simp [tdWsCrOK, hn, hcr] at hc
        simp [tdWsOK, hn]
        exact ⟨h.1, ih true h.2 hc⟩

/-! ### the layout `lay.univ` is in the domain -/

theorem sep_univ_ok (s : Sep) : s.univ.ok = s.ok := by
  obtain ⟨a, cont⟩ := s
  cases cont with
  | none => rfl
  | some x => obtain ⟨b, f, c⟩ := x; rfl

theorem sep_univ_logical (s : Sep) : s.univ.logical = s.logical := by
  obtain ⟨a, cont⟩ := s
  cases cont with
  | none => rfl
  | some x => obtain ⟨b, f, c⟩ := x; rfl

theorem sep_univ_a (s : Sep) : s.univ.a = s.a := rfl

theorem sep_univ_none (s : Sep) : s.univ.cont.isNone = s.cont.isNone := by
  obtain ⟨a, cont⟩ := s
  cases cont <;> rfl

theorem elemsLayOK_univ (io : FloatIO F) (vs : List (Sc F)) (ls : List (Sep × QStyle)) :
    elemsLayOK io vs (ls.map (fun x => (x.1.univ, x.2))) = elemsLayOK io vs ls := by
  induction vs generalizing ls with
  | nil => cases ls <;> rfl
  | cons v vs ih =>
    cases ls with
    | nil => rfl
    | cons l ls => simp only [List.map_cons, elemsLayOK, sep_univ_ok, ih]

theorem cellLayOK_univ (io : FloatIO F) (x : Cell F) (l : CellLay) : cellLayOK io x l.univ = cellLayOK io x l := by
  cases x with
  | one v => cases l <;> rfl
  | many vs =>
    cases l with
    | one q => cases vs <;> rfl
    | many op q rest cl =>
      cases vs with
      | nil => rfl
      | cons v vs => simp only [CellLay.univ, cellLayOK, elemsLayOK_univ]

theorem cellsLayOK_univ (io : FloatIO F) (xs : List (Cell F)) (ls : List (Sep × CellLay)) :
    cellsLayOK io xs (ls.map (fun x => (x.1.univ, x.2.univ))) = cellsLayOK io xs ls := by
  induction xs generalizing ls with
  | nil => cases ls <;> rfl
  | cons x xs ih =>
    cases ls with
    | nil => rfl
    | cons l ls => simp only [List.map_cons, cellsLayOK, sep_univ_ok, cellLayOK_univ, ih]

theorem renderElems_logical_univ (io : FloatIO F) (vs : List (Sc F)) (ls : List (Sep × QStyle)) :
    renderElems Sep.logical io vs (ls.map (fun x => (x.1.univ, x.2))) = renderElems Sep.logical io vs ls := by
  induction vs generalizing ls with
  | nil => cases ls <;> rfl
  | cons v vs ih =>
    cases ls with
    | nil => rfl
    | cons l ls => simp only [List.map_cons, renderElems, sep_univ_logical, ih]

theorem renderCell_logical_univ (io : FloatIO F) (x : Cell F) (l : CellLay) :
    renderCell Sep.logical io x l.univ = renderCell Sep.logical io x l := by
  cases x with
  | one v => cases l <;> rfl
  | many vs =>
    cases l with
    | one q => cases vs <;> rfl
    | many op q rest cl =>
      cases vs with
      | nil => rfl
      | cons v vs => simp only [CellLay.univ, renderCell, renderElems_logical_univ]

theorem renderCells_logical_univ (io : FloatIO F) (xs : List (Cell F)) (ls : List (Sep × CellLay)) :
    renderCells Sep.logical io xs (ls.map (fun x => (x.1.univ, x.2.univ))) = renderCells Sep.logical io xs ls := by
  induction xs generalizing ls with
  | nil => cases ls <;> rfl
  | cons x xs ih =>
    cases ls with
    | nil => rfl
    | cons l ls => simp only [List.map_cons, renderCells, sep_univ_logical, renderCell_logical_univ, ih]

theorem rowLayOK_univ (io : FloatIO F) (t : TableD F) (r : List (Cell F)) (lay : RowLay) :
    rowLayOK io t r lay.univ = rowLayOK io t r lay := by
  simp only [rowLayOK, RowLay.univ, cellsLayOK_univ, renderCells_logical_univ]

theorem pairLayOK_univ (kv : Str × Str) (lay : PairLay) : pairLayOK kv lay.univ = pairLayOK kv lay := by
  simp only [pairLayOK, PairLay.univ, sep_univ_ok, sep_univ_a, sep_univ_none]

theorem all_ws_univ (s : Str) (h : s.all wsChar = true) : (univNl s).all wsChar = true := by
  rw [List.all_eq_true] at h ⊢
  exact ws_univ s h

theorem isEmpty_univ (s : Str) (h : (!s.isEmpty) = true) : (!(univNl s).isEmpty) = true := by
  have : s ≠ [] := by intro e; rw [e] at h; simp at h
  have := univNl_ne_nil s this
  cases hu : univNl s with
  | nil => exact absurd hu this
  | cons _ _ => rfl

theorem colsLayOK_univ (cols : List Col) (ls : List ColLay) (h : colsLayOK cols ls = true)
    (hc : ls.all (fun l => tdWsCrOK false l.pre) = true) : colsLayOK cols (ls.map ColLay.univ) = true := by
  induction cols generalizing ls with
  | nil => cases ls with
    | nil => rfl
    | cons l ls => simp [colsLayOK] at h
  | cons c cs ih =>
    cases ls with
    | nil => simp [colsLayOK] at h
    | cons l ls =>
      simp only [colsLayOK, colLayOK, Bool.and_eq_true] at h
      simp only [List.all_cons, Bool.and_eq_true] at hc
      simp only [List.map_cons, colsLayOK, colLayOK, ColLay.univ, Bool.and_eq_true]
      exact ⟨⟨⟨⟨isEmpty_univ _ h.1.1.1.1, tdWs_univ false _ h.1.1.1.2 hc.1⟩, h.1.1.2⟩, h.1.2⟩, ih ls h.2 hc.2⟩

theorem unsizedOK_univ (enums : List EnumDecl) (t : TableD F) (j : Nat) (cols : List Col) (ls : List ColLay) :
    unsizedOK enums t j cols (ls.map ColLay.univ) = unsizedOK enums t j cols ls := by
  induction cols generalizing ls j with
  | nil => cases ls <;> rfl
  | cons c cs ih =>
    cases ls with
    | nil => rfl
    | cons l ls => simp only [List.map_cons, unsizedOK, ColLay.univ, ih]

theorem structLayOK_univ (enums : List EnumDecl) (t : TableD F) (l : StructLay) (h : structLayOK enums t l = true)
    (hc : slotCrOK (.sdef l) = true) : structLayOK enums t l.univ = true := by
  simp only [slotCrOK, Bool.and_eq_true] at hc
  simp only [structLayOK, Bool.and_eq_true] at h
  obtain ⟨⟨⟨⟨⟨⟨⟨⟨⟨⟨⟨⟨a1, a2⟩, a3⟩, a4⟩, a5⟩, a6⟩, a7⟩, a8⟩, a9⟩, a10⟩, a11⟩, a12⟩, a13⟩ := h
  simp only [structLayOK, StructLay.univ, Bool.and_eq_true, unsizedOK_univ]
  exact ⟨⟨⟨⟨⟨⟨⟨⟨⟨⟨⟨⟨a1, isEmpty_univ _ a2⟩, all_ws_univ _ a3⟩, all_ws_univ _ a4⟩, colsLayOK_univ _ _ a5 hc.1⟩,
    tdWs_univ false _ a6 hc.2⟩, all_ws_univ _ a7⟩, all_ws_univ _ a8⟩, a9⟩, a10⟩, a11⟩, a12⟩, a13⟩

theorem enumLayOK_univ (e : EnumDecl) (l : EnumLay) (h : enumLayOK e l = true) : enumLayOK e l.univ = true := by
  simp only [enumLayOK, Bool.and_eq_true] at h
  obtain ⟨⟨⟨⟨⟨⟨⟨⟨⟨⟨⟨a1, a2⟩, a3⟩, a4⟩, a5⟩, a6⟩, a7⟩, a8⟩, a9⟩, a10⟩, a11⟩, a12⟩ := h
  simp only [enumLayOK, EnumLay.univ, Bool.and_eq_true, List.length_map]
  refine ⟨⟨⟨⟨⟨⟨⟨⟨⟨⟨⟨a1, isEmpty_univ _ a2⟩, all_ws_univ _ a3⟩, all_ws_univ _ a4⟩, all_ws_univ _ a5⟩, ?_⟩, a7⟩,
    all_ws_univ _ a8⟩, all_ws_univ _ a9⟩, all_ws_univ _ a10⟩, a11⟩, a12⟩
  rw [List.all_eq_true] at a6 ⊢
  intro w hw
  obtain ⟨w0, hw0, rfl⟩ := List.mem_map.mp hw
  exact all_ws_univ _ (a6 w0 hw0)

theorem slotsOK_univ (io : FloatIO F) (d : Doc F) :
    ∀ (ss : List Slot) (st : RSt F), slotsOK io d st ss = true → ss.all slotCrOK = true →
      slotsOK io d st (ss.map Slot.univ) = true := by
  intro ss
  induction ss with
  | nil => intro st h _; exact h
  | cons s ss ih =>
    intro st h hc
    simp only [List.all_cons, Bool.and_eq_true] at hc
    cases s with
    | pair lay =>
      cases hh : st.hdr with
      | nil => simp only [slotsOK, hh] at h; cases h
      | cons kv rest =>
        simp only [slotsOK, hh, Bool.and_eq_true] at h
        simp only [List.map_cons, Slot.univ, slotsOK, hh, Bool.and_eq_true, pairLayOK_univ]
        exact ⟨h.1, ih _ h.2 hc.2⟩
    | row t lay =>
      cases hp : popAt t st.rows with
      | none => simp only [slotsOK, hp] at h; cases h
      | some res =>
        obtain ⟨r, rows'⟩ := res
        cases htb : d.tables[t]? with
        | none => simp only [slotsOK, hp, htb] at h; cases h
        | some tb =>
          simp only [slotsOK, hp, htb, Bool.and_eq_true] at h
          simp only [List.map_cons, Slot.univ, slotsOK, hp, htb, Bool.and_eq_true, rowLayOK_univ]
          exact ⟨h.1, ih _ h.2 hc.2⟩
    | sdef lay =>
      cases hh : st.defs with
      | nil => simp only [slotsOK, hh] at h; cases h
      | cons t rest =>
        simp only [slotsOK, hh, Bool.and_eq_true] at h
        simp only [List.map_cons, Slot.univ, slotsOK, hh, Bool.and_eq_true]
        exact ⟨structLayOK_univ d.enums t lay h.1 hc.1, ih _ h.2 hc.2⟩
    | edef lay =>
      cases hh : st.enums with
      | nil => simp only [slotsOK, hh] at h; cases h
      | cons e rest =>
        simp only [slotsOK, hh, Bool.and_eq_true] at h
        simp only [List.map_cons, Slot.univ, slotsOK, hh, Bool.and_eq_true]
        exact ⟨enumLayOK_univ e lay h.1, ih _ h.2 hc.2⟩
    | filler text crlf =>
      simp only [slotsOK, Bool.and_eq_true] at h
      simp only [List.map_cons, Slot.univ, slotsOK, Bool.and_eq_true]
      exact ⟨h.1, ih _ h.2 hc.2⟩

theorem lineRestOK_univ (enums : List EnumDecl) (cols : List Col) (ls : List ColLay)
    (h : lineRestOK enums cols ls = true) : lineRestOK enums cols (ls.map ColLay.univ) = true := by
  induction cols generalizing ls with
  | nil => cases ls <;> rfl
  | cons c cs ih =>
    cases ls with
    | nil => rfl
    | cons l ls =>
      simp only [lineRestOK, Bool.or_eq_true, Bool.and_eq_true] at h
      simp only [List.map_cons, lineRestOK, ColLay.univ, Bool.or_eq_true, Bool.and_eq_true]
      rcases h with h | h
      · left
        rw [List.contains_iff_mem] at h ⊢
        exact univNl_keeps_nl _ h
      · exact Or.inr ⟨h.1, ih ls h.2⟩

theorem declLineOK_univ (enums : List EnumDecl) (cols : List Col) (ls : List ColLay)
    (h : declLineOK enums cols ls = true) : declLineOK enums cols (ls.map ColLay.univ) = true := by
  induction cols generalizing ls with
  | nil => cases ls <;> rfl
  | cons c cs ih =>
    cases ls with
    | nil => rfl
    | cons l ls =>
      simp only [declLineOK, Bool.or_eq_true, Bool.and_eq_true] at h
      simp only [List.map_cons, declLineOK, Bool.or_eq_true, Bool.and_eq_true]
      refine ⟨?_, ih ls h.2⟩
      rcases h.1 with h1 | h1
      · exact Or.inl h1
      · exact Or.inr (lineRestOK_univ enums cs ls h1)

theorem sdefsLineOK_univ (enums : List EnumDecl) (ts : List (TableD F)) (ss : List Slot)
    (h : sdefsLineOK enums ts ss = true) : sdefsLineOK enums ts (ss.map Slot.univ) = true := by
  induction ss generalizing ts with
  | nil => cases ts <;> rfl
  | cons s ss ih =>
    cases s with
    | sdef lay =>
      cases ts with
      | nil => simpa [sdefsLineOK, Slot.univ] using ih [] (by simpa [sdefsLineOK] using h)
      | cons t rest =>
        simp only [sdefsLineOK, Bool.and_eq_true] at h
        simp only [List.map_cons, Slot.univ, sdefsLineOK, Bool.and_eq_true, StructLay.univ]
        exact ⟨declLineOK_univ enums t.cols lay.cols h.1, ih rest h.2⟩
    | pair lay => cases ts <;> simpa [sdefsLineOK, Slot.univ] using ih _ (by simpa [sdefsLineOK] using h)
    | row t lay => cases ts <;> simpa [sdefsLineOK, Slot.univ] using ih _ (by simpa [sdefsLineOK] using h)
    | edef lay => cases ts <;> simpa [sdefsLineOK, Slot.univ] using ih _ (by simpa [sdefsLineOK] using h)
    | filler text crlf => cases ts <;> simpa [sdefsLineOK, Slot.univ] using ih _ (by simpa [sdefsLineOK] using h)

/-- the universal-newline layout of a layout of the domain is in the domain, provided no comment inside
a struct definition contains a lone CR -/
theorem layoutOKW_univ (io : FloatIO F) (d : Doc F) (lay : Layout) (h : layoutOKW io d lay = true)
    (hc : layoutCrOK lay = true) : layoutOKW io d lay.univ = true := by
  simp only [layoutOKW, layoutOK, Bool.and_eq_true] at h
  simp only [layoutOKW, layoutOK, Layout.univ, Bool.and_eq_true]
  exact ⟨slotsOK_univ io d lay.slots _ h.1 hc, sdefsLineOK_univ d.enums d.tables lay.slots h.2⟩

/-! ### rendering: data and keyword lines -/

theorem all_blank (s : Str) (h : s.all isBlank = true) : ∀ c ∈ s, isBlank c = true := by
  rw [List.all_eq_true] at h; exact h

/-- the pieces of a separator are blanks -/
def SepBl (s : Sep) : Prop :=
  (∀ x ∈ s.a, isBlank x = true) ∧
  ∀ b f c, s.cont = some (b, f, c) → (∀ x ∈ b, isBlank x = true) ∧ (∀ x ∈ c, isBlank x = true)

theorem sepBl_of_ok (s : Sep) (h : s.ok = true) : SepBl s := by
  obtain ⟨a, cont⟩ := s
  cases cont with
  | none =>
    simp only [Sep.ok, Bool.and_eq_true] at h
    exact ⟨all_blank _ h.1, fun b f c e => by cases e⟩
  | some x =>
    obtain ⟨b, f, c⟩ := x
    simp only [Sep.ok, Bool.and_eq_true] at h
    refine ⟨all_blank _ h.1, ?_⟩
    intro b' f' c' e
    injection e with e; injection e with e1 e2; injection e2 with e2 e3
    subst e1; subst e3
    exact ⟨all_blank _ h.2.1, all_blank _ h.2.2⟩

theorem UN_sep (s : Sep) (h : SepBl s) : UN s.phys s.univ.phys := by
  obtain ⟨a, cont⟩ := s
  cases cont with
  | none => exact UN.of_noCR _ (blanks_noCR _ h.1)
  | some x =>
    obtain ⟨b, f, c⟩ := x
    obtain ⟨hb, hc⟩ := h.2 b f c rfl
    show UN (a ++ '\\' :: (b ++ eol f ++ c)) (a ++ '\\' :: (b ++ eol false ++ c))
    apply UN.append (UN.of_noCR _ (blanks_noCR _ h.1))
    apply UN.cons _ (by decide)
    exact UN.append (UN.append (UN.of_noCR _ (blanks_noCR _ hb)) (UN.eol f)) (UN.of_noCR _ (blanks_noCR _ hc))

theorem quoteTok_noCR (q : QStyle) (s : Str) (hl : tokLegal q s = true ∨ elemLegal q s = true)
    (hs : '\r' ∉ s) : '\r' ∉ quoteTok q s := by
  cases q with
  | bare => exact hs
  | quoted =>
    intro hm
    simp only [quoteTok, List.mem_cons, List.mem_append, List.mem_nil_iff, or_false] at hm
    rcases hm with hm | hm | hm
    · cases hm
    · exact hs hm
    · cases hm
  | braced pad =>
    have hp : ∀ c ∈ pad, isBlank c = true := by
      rcases hl with hl | hl
      · simp only [tokLegal, Bool.and_eq_true] at hl
        exact all_blank _ hl.1.1.1.1.1
      · simp [elemLegal] at hl
    intro hm
    simp only [quoteTok, List.mem_cons, List.mem_append, List.mem_nil_iff, or_false] at hm
    rcases hm with hm | (hm | hm) | hm
    · cases hm
    · exact blanks_noCR _ hp hm
    · exact hs hm
    · cases hm

theorem noCR_of_contains (s : Str) (h : (!s.contains '\r') = true) : '\r' ∉ s := not_contains h

theorem renderElems_univ (io : FloatIO F) (vs : List (Sc F)) (ls : List (Sep × QStyle)) (t : Str)
    (hr : renderElems Sep.phys io vs ls = some t) (hok : elemsLayOK io vs ls = true)
    (hcr : ∀ v ∈ vs, '\r' ∉ scText io v) :
    ∃ t', renderElems Sep.phys io vs (ls.map (fun x => (x.1.univ, x.2))) = some t' ∧ UN t t' := by
  induction vs generalizing ls t with
  | nil =>
    cases ls with
    | nil =>
      simp only [renderElems, Option.some.injEq] at hr
      subst hr
      exact ⟨[], rfl, UN.nil⟩
    | cons l ls => simp [renderElems] at hr
  | cons v vs ih =>
    cases ls with
    | nil => simp [renderElems] at hr
    | cons l ls =>
      obtain ⟨sp, q⟩ := l
      simp only [renderElems] at hr
      cases hr' : renderElems Sep.phys io vs ls with
      | none => rw [hr'] at hr; cases hr
      | some t0 =>
        rw [hr'] at hr
        injection hr with hr; subst hr
        simp only [elemsLayOK, Bool.and_eq_true] at hok
        obtain ⟨t0', h1, h2⟩ := ih ls t0 hr' hok.2 (fun x hx => hcr x (by simp [hx]))
        refine ⟨sp.univ.phys ++ quoteTok q (scText io v) ++ t0', by simp only [List.map_cons, renderElems, h1], ?_⟩
        exact UN.append (UN.append (UN_sep sp (sepBl_of_ok sp hok.1.1))
          (UN.of_noCR _ (quoteTok_noCR q _ (Or.inr hok.1.2) (hcr v (by simp))))) h2

theorem renderCell_univ (io : FloatIO F) (x : Cell F) (l : CellLay) (t : Str)
    (hr : renderCell Sep.phys io x l = some t) (hok : cellLayOK io x l = true) (hcr : cellCrOK io x = true) :
    ∃ t', renderCell Sep.phys io x l.univ = some t' ∧ UN t t' := by
  cases x with
  | one v =>
    cases l with
    | one q =>
      simp only [renderCell, Option.some.injEq] at hr
      subst hr
      simp only [cellLayOK] at hok
      simp only [cellCrOK] at hcr
      exact ⟨_, rfl, UN.of_noCR _ (quoteTok_noCR q _ (Or.inl hok) (noCR_of_contains _ hcr))⟩
    | many op q rest cl => simp [renderCell] at hr
  | many vs =>
    cases l with
    | one q => cases vs <;> simp [renderCell] at hr
    | many op q rest cl =>
      cases vs with
      | nil => simp [renderCell] at hr
      | cons v vs =>
        simp only [renderCell] at hr
        cases hr' : renderElems Sep.phys io vs rest with
        | none => rw [hr'] at hr; cases hr
        | some t0 =>
          rw [hr'] at hr
          injection hr with hr; subst hr
          simp only [cellLayOK, Bool.and_eq_true] at hok
          simp only [cellCrOK, List.all_cons, Bool.and_eq_true, List.all_eq_true] at hcr
          obtain ⟨t0', h1, h2⟩ := renderElems_univ io vs rest t0 hr' hok.2
            (fun x hx => noCR_of_contains _ (hcr.2 x hx))
          refine ⟨'{' :: (op ++ quoteTok q (scText io v) ++ t0' ++ cl ++ ['}']),
            by simp only [CellLay.univ, renderCell, h1], ?_⟩
          apply UN.cons _ (by decide)
          exact UN.append (UN.append (UN.append (UN.append (UN.of_noCR _ (blanks_noCR _ (all_blank _ hok.1.1.1)))
            (UN.of_noCR _ (quoteTok_noCR q _ (Or.inr hok.1.2) (noCR_of_contains _ hcr.1)))) h2)
            (UN.of_noCR _ (blanks_noCR _ (all_blank _ hok.1.1.2)))) (UN.of_noCR _ (by decide))

theorem renderCells_univ (io : FloatIO F) (xs : List (Cell F)) (ls : List (Sep × CellLay)) (t : Str)
    (hr : renderCells Sep.phys io xs ls = some t) (hok : cellsLayOK io xs ls = true)
    (hcr : xs.all (cellCrOK io) = true) :
    ∃ t', renderCells Sep.phys io xs (ls.map (fun x => (x.1.univ, x.2.univ))) = some t' ∧ UN t t' := by
  induction xs generalizing ls t with
  | nil =>
    cases ls with
    | nil =>
      simp only [renderCells, Option.some.injEq] at hr
      subst hr
      exact ⟨[], rfl, UN.nil⟩
    | cons l ls => simp [renderCells] at hr
  | cons x xs ih =>
    cases ls with
    | nil => simp [renderCells] at hr
    | cons l ls =>
      obtain ⟨sp, cl⟩ := l
      simp only [renderCells] at hr
      cases ha : renderCell Sep.phys io x cl with
      | none => rw [ha] at hr; cases hr
      | some a =>
        cases hb : renderCells Sep.phys io xs ls with
        | none => rw [ha, hb] at hr; cases hr
        | some b =>
          rw [ha, hb] at hr
          injection hr with hr; subst hr
          simp only [cellsLayOK, Bool.and_eq_true] at hok
          simp only [List.all_cons, Bool.and_eq_true] at hcr
          obtain ⟨a', h1, h2⟩ := renderCell_univ io x cl a ha hok.1.2 hcr.1
          obtain ⟨b', h3, h4⟩ := ih ls b hb hok.2 hcr.2
          refine ⟨sp.univ.phys ++ a' ++ b', by simp only [List.map_cons, renderCells, h1, h3], ?_⟩
          exact UN.append (UN.append (UN_sep sp (sepBl_of_ok sp hok.1.1)) h2) h4

theorem wordOK_noCR (s : Str) (h : wordOK s = true) : '\r' ∉ s := wordy_noCR s (wordOK_wordy s h)

theorem renderRow_univ (io : FloatIO F) (tb : TableD F) (r : List (Cell F)) (lay : RowLay) (l : Str)
    (hr : renderRow Sep.phys io r lay = some l) (hok : rowLayOK io tb r lay = true)
    (hcr : r.all (cellCrOK io) = true) :
    ∃ l', renderRow Sep.phys io r lay.univ = some l' ∧ UN l l' := by
  simp only [renderRow] at hr
  cases hb : renderCells Sep.phys io r lay.cells with
  | none => rw [hb] at hr; cases hr
  | some b =>
    rw [hb] at hr
    injection hr with hr; subst hr
    simp only [rowLayOK, Bool.and_eq_true] at hok
    obtain ⟨⟨⟨⟨⟨⟨o1, o2⟩, _⟩, o4⟩, o5⟩, o6⟩, _⟩ := hok
    obtain ⟨b', h1, h2⟩ := renderCells_univ io r lay.cells b hb o6 hcr
    refine ⟨lay.lead ++ lay.name ++ b' ++ lay.trail ++ commentText lay.comment,
      by simp only [renderRow, RowLay.univ, h1], ?_⟩
    exact UN.append (UN.append (UN.append (UN.append (UN.of_noCR _ (blanks_noCR _ (all_blank _ o1)))
      (UN.of_noCR _ (wordOK_noCR _ o4))) h2) (UN.of_noCR _ (blanks_noCR _ (all_blank _ o2))))
      (UN.of_noCR _ (comment_noCR _ o5))

theorem cellChar_noCR (s : Str) (h : s.all cellChar = true) : '\r' ∉ s := by
  intro hm
  have := all_blank' s h
  exact absurd (this _ hm) (by decide)
where
  all_blank' (s : Str) (h : s.all cellChar = true) : ∀ c ∈ s, cellChar c = true := by
    rw [List.all_eq_true] at h; exact h

theorem renderPair_univ (tn : List Str) (kv : Str × Str) (lay : PairLay) (hp : pairOK2 tn kv = true)
    (hok : pairLayOK kv lay = true) :
    UN (renderPair Sep.phys kv lay) (renderPair Sep.phys kv lay.univ) := by
  simp only [pairOK2, pairOK, Bool.and_eq_true] at hp
  obtain ⟨⟨⟨⟨⟨⟨⟨⟨_, k2⟩, _⟩, _⟩, k5⟩, _⟩, _⟩, _⟩, _⟩ := hp
  have hk : '\r' ∉ kv.1 := by
    intro hm
    rw [List.all_eq_true] at k2
    have := k2 _ hm
    simp at this
  have hv : '\r' ∉ kv.2 := cellChar_noCR _ k5
  simp only [pairLayOK, Bool.and_eq_true] at hok
  obtain ⟨⟨⟨⟨⟨o1, o2⟩, o3⟩, o4⟩, _⟩, _⟩ := hok
  have hs : SepBl lay.sep := by
    split at o4
    · simp only [Bool.and_eq_true] at o4
      refine ⟨all_blank _ o4.1, ?_⟩
      intro b f c e
      rw [e] at o4; simp at o4
    · exact sepBl_of_ok _ o4
  show UN (lay.lead ++ kv.1 ++ lay.sep.phys ++ kv.2 ++ lay.trail ++ commentText lay.comment)
    (lay.lead ++ kv.1 ++ lay.sep.univ.phys ++ kv.2 ++ lay.trail ++ commentText lay.comment)
  exact UN.append (UN.append (UN.append (UN.append (UN.append (UN.of_noCR _ (blanks_noCR _ (all_blank _ o1)))
    (UN.of_noCR _ hk)) (UN_sep _ hs)) (UN.of_noCR _ hv)) (UN.of_noCR _ (blanks_noCR _ (all_blank _ o2))))
    (UN.of_noCR _ (comment_noCR _ o3))

theorem filler_noCR (text : Str) (h : fillerOK text = true) : '\r' ∉ text := by
  unfold fillerOK at h
  have hsplit : text = text.takeWhile isBlank ++ text.dropWhile isBlank := List.takeWhile_append_dropWhile.symm
  have htw : '\r' ∉ text.takeWhile isBlank := blanks_noCR _ (fun c hc => mem_takeWhile_sat isBlank text c hc)
  cases hd : text.dropWhile isBlank with
  | nil =>
    rw [hsplit, hd, List.append_nil]; exact htw
  | cons c t =>
    rw [hd] at h
    simp only [Bool.and_eq_true, beq_iff_eq, Bool.not_eq_true'] at h
    rw [hsplit, hd]
    intro hm
    rcases List.mem_append.mp hm with hm | hm
    · exact htw hm
    · rcases List.mem_cons.mp hm with e | hm
      · rw [h.1.1.1.1.1] at e; cases e
      · have := h.1.1.2
        simp at this
        exact this hm

/-! ### rendering: definitions -/

/-- a typedef block: the white-space runs `g1 g2 cp g3 g4` may contain CRs, everything else is CR-free or
already related -/
theorem UN_block (T K g1 g2 body body' cp g3 name g4 : Str) (hT : wordy T) (hK : wordy K) (hn : wordy name)
    (hb : UN body body') :
    UN (blockLT T K g1 g2 (body ++ cp) g3 name g4)
       (blockLT T K (univNl g1) (univNl g2) (body' ++ univNl cp) (univNl g3) name (univNl g4)) := by
  have e : ∀ (g1 g2 body cp g3 g4 : Str), blockLT T K g1 g2 (body ++ cp) g3 name g4 =
      T ++ (g1 ++ (K ++ (g2 ++ ('{' :: (body ++ (cp ++ ('}' :: (g3 ++ (name ++ (g4 ++ [';'])))))))))) := by
    intro g1 g2 body cp g3 g4
    unfold blockLT
    simp only [List.append_assoc, List.cons_append]
  rw [e, e]
  obtain ⟨k, kr, hk, hkn⟩ := wordy_head_ne K hK
  obtain ⟨n, nr, hn', hnn⟩ := wordy_head_ne name hn
  apply UN.append (UN.of_noCR _ (wordy_noCR _ hT))
  apply UN.ws g1 _ ⟨k, kr ++ _, by rw [hk]; rfl, hkn⟩
  apply UN.append (UN.of_noCR _ (wordy_noCR _ hK))
  apply UN.ws g2 _ ⟨'{', _, rfl, by decide⟩
  apply UN.cons _ (by decide)
  apply UN.append hb
  apply UN.ws cp _ ⟨'}', _, rfl, by decide⟩
  apply UN.cons _ (by decide)
  apply UN.ws g3 _ ⟨n, nr ++ _, by rw [hn']; rfl, hnn⟩
  apply UN.append (UN.of_noCR _ (wordy_noCR _ hn))
  exact UN.ws g4 (UN.of_noCR [';'] (by decide)) ⟨';', [], rfl, by decide⟩

theorem arrL_noCR (a : Str) (h : arrL a) : '\r' ∉ a := by
  intro hm
  have := (arrCh_facts _ (h.2 _ hm)).1
  exact absurd this (by decide)

theorem UN_mem (m : Mem) (h : MemOK m) : UN m.text ({ m with pre := univNl m.pre } : Mem).text := by
  obtain ⟨_, _, _, hgb, hT, hN, hA⟩ := h
  have e : ∀ m : Mem, m.text = m.pre ++ (m.T ++ (m.gap ++ (m.N ++ (m.arr ++ [';'])))) := by
    intro m; unfold Mem.text; simp only [List.append_assoc]
  rw [e, e]
  obtain ⟨c, r, hc, hcn⟩ := wordy_head_ne m.T hT
  apply UN.ws m.pre _ ⟨c, r ++ _, by rw [hc]; rfl, hcn⟩
  apply UN.of_noCR
  intro hm
  simp only [List.mem_append, List.mem_singleton] at hm
  rcases hm with hm | hm | hm | hm | hm
  · exact wordy_noCR _ hT hm
  · exact blanks_noCR _ hgb hm
  · exact wordy_noCR _ hN hm
  · exact arrL_noCR _ hA hm
  · cases hm

theorem memsOf_univ (enums : List EnumDecl) (cols : List Col) (ls : List ColLay) :
    memsOf enums cols (ls.map ColLay.univ) =
      (memsOf enums cols ls).map (fun m => ({ m with pre := univNl m.pre } : Mem)) := by
  induction cols generalizing ls with
  | nil => cases ls <;> rfl
  | cons c cs ih =>
    cases ls with
    | nil => rfl
    | cons l ls => simp only [List.map_cons, memsOf, ih]; rfl

theorem UN_mems (ms : List Mem) (h : ∀ m ∈ ms, MemOK m) :
    UN (ms.map Mem.text).flatten
      ((ms.map (fun m => ({ m with pre := univNl m.pre } : Mem))).map Mem.text).flatten := by
  induction ms with
  | nil => exact UN.nil
  | cons m ms ih =>
    simp only [List.map_cons, List.flatten_cons]
    exact UN.append (UN_mem m (h m (by simp))) (ih (fun x hx => h x (by simp [hx])))

theorem wordy_kw : wordy "typedef".toList ∧ wordy "struct".toList ∧ wordy "enum".toList :=
  ⟨⟨by decide, by decide⟩, ⟨by decide, by decide⟩, ⟨by decide, by decide⟩⟩

theorem renderStruct_univ (enums : List EnumDecl) (he : ∀ e ∈ enums, enumOK e = true) (t : TableD F) (l : StructLay)
    (ht : tableOK2 enums t = true) (hl : structLayOK enums t l = true) (hc : slotCrOK (.sdef l) = true)
    (txt : Str) (hr : renderStruct enums t l = some txt) :
    ∃ txt', renderStruct enums t l.univ = some txt' ∧ UN txt txt' := by
  have hl' := structLayOK_univ enums t l hl hc
  rw [renderStruct_shape enums t l ht hl] at hr
  injection hr with hr; subst hr
  refine ⟨_, renderStruct_shape enums t l.univ ht hl', ?_⟩
  obtain ⟨_, _, hcols, _, _⟩ := tableOK2_props enums t ht
  have hp := structLayOK_props enums t l hl
  have hms := memsOf_ok enums he t.cols l.cols hcols hp.cols
  apply UN.append
  · apply UN.append (UN.of_noCR _ (blanks_noCR _ hp.lead))
    have e1 : structBlk enums t l = blockLT "typedef".toList "struct".toList l.g1 l.g2
        (((memsOf enums t.cols l.cols).map Mem.text).flatten ++ l.closePre) l.g3 l.name l.g4 := rfl
    have e2 : structBlk enums t l.univ = blockLT "typedef".toList "struct".toList (univNl l.g1) (univNl l.g2)
        ((((memsOf enums t.cols l.cols).map (fun m => ({ m with pre := univNl m.pre } : Mem))).map Mem.text).flatten ++
          univNl l.closePre) (univNl l.g3) l.name (univNl l.g4) := by
      rw [← memsOf_univ]; rfl
    rw [e1, e2]
    exact UN_block _ _ _ _ _ _ _ _ _ _ wordy_kw.1 wordy_kw.2.1 (wordOK_wordy _ hp.name) (UN_mems _ hms)
  · apply UN.of_noCR
    intro hm
    rcases List.mem_append.mp hm with hm | hm
    · exact blanks_noCR _ hp.trail hm
    · exact comment_noCR _ hp.com hm

theorem renderLabels_univ (labels ws : List Str) (lbl : Str) (hl : ∀ a ∈ labels, wordy a)
    (h : renderLabels labels ws = some lbl) :
    ∃ lbl', renderLabels labels (ws.map univNl) = some lbl' ∧ UN lbl lbl' ∧ ∃ c r, lbl = c :: r ∧ c ≠ '\n' := by
  induction labels generalizing ws lbl with
  | nil => simp [renderLabels] at h
  | cons a t ih =>
    have ha := hl a (by simp)
    obtain ⟨c, r, hc, hcn⟩ := wordy_head_ne a ha
    cases t with
    | nil =>
      cases ws with
      | nil =>
        simp only [renderLabels, Option.some.injEq] at h
        subst h
        exact ⟨a, rfl, UN.of_noCR _ (wordy_noCR _ ha), c, r, hc, hcn⟩
      | cons w ws' => simp [renderLabels] at h
    | cons b t' =>
      cases ws with
      | nil => simp [renderLabels] at h
      | cons w ws' =>
        simp only [renderLabels] at h
        cases hr : renderLabels (b :: t') ws' with
        | none => rw [hr] at h; cases h
        | some r0 =>
          rw [hr] at h
          injection h with h
          subst h
          obtain ⟨r0', h1, h2, h3⟩ := ih ws' r0 (fun x hx => hl x (by simp [hx])) hr
          refine ⟨a ++ ',' :: univNl w ++ r0', by simp only [List.map_cons, renderLabels, h1], ?_,
            c, r ++ (',' :: w ++ r0), by rw [hc]; simp, hcn⟩
          have e : ∀ w r0 : Str, a ++ ',' :: w ++ r0 = a ++ (',' :: (w ++ r0)) := by
            intro w r0; simp only [List.append_assoc, List.cons_append]
          rw [e, e]
          exact UN.append (UN.of_noCR _ (wordy_noCR _ ha)) (UN.cons _ (by decide) (UN.ws w h2 h3))

theorem renderEnum_univ (e : EnumDecl) (l : EnumLay) (he : enumOK e = true) (hl : enumLayOK e l = true)
    (txt : Str) (hr : renderEnum e l = some txt) :
    ∃ txt', renderEnum e l.univ = some txt' ∧ UN txt txt' := by
  have hp := enumLayOK_props e l hl
  obtain ⟨hw, _, hlab⟩ := enumOK_props e he
  unfold renderEnum at hr
  cases hlb : renderLabels e.labels l.afterComma with
  | none => rw [hlb] at hr; cases hr
  | some lbl =>
    rw [hlb] at hr
    injection hr with hr; subst hr
    obtain ⟨lbl', h1, h2, h3⟩ := renderLabels_univ e.labels l.afterComma lbl
      (fun a ha => wordOK_wordy _ (hlab a ha)) hlb
    refine ⟨l.lead ++ "typedef".toList ++ univNl l.g1 ++ "enum".toList ++ univNl l.g2 ++ '{' :: univNl l.op ++ lbl' ++
      univNl l.cl ++ '}' :: univNl l.g3 ++ upper e.tyName ++ univNl l.g4 ++ ';' :: l.trail ++ commentText l.comment,
      by simp only [renderEnum, EnumLay.univ, h1], ?_⟩
    rw [enum_assoc, enum_assoc]
    apply UN.append
    · apply UN.append (UN.of_noCR _ (blanks_noCR _ hp.lead))
      exact UN_block _ _ _ _ _ _ _ _ _ _ wordy_kw.1 wordy_kw.2.2 (wordy_upper _ (wordOK_wordy _ hw)) (UN.ws l.op h2 h3)
    · apply UN.of_noCR
      intro hm
      rcases List.mem_append.mp hm with hm | hm
      · exact blanks_noCR _ hp.trail hm
      · exact comment_noCR _ hp.com hm

/-! ### the whole file -/

theorem popAt_P {α : Type} (P : α → Prop) : ∀ (t : Nat) (rows : List (List α)) (r : α) (rows' : List (List α)),
    popAt t rows = some (r, rows') → (∀ q ∈ rows, ∀ x ∈ q, P x) → P r ∧ ∀ q ∈ rows', ∀ x ∈ q, P x := by
  intro t
  induction t with
  | zero =>
    intro rows r rows' hp h
    cases rows with
    | nil => simp [popAt] at hp
    | cons q rest =>
      cases q with
      | nil => simp [popAt] at hp
      | cons x xs =>
        simp only [popAt, Option.some.injEq, Prod.mk.injEq] at hp
        obtain ⟨rfl, rfl⟩ := hp
        refine ⟨h (x :: xs) (by simp) x (by simp), ?_⟩
        intro q hq y hy
        rcases List.mem_cons.mp hq with e | hq
        · subst e; exact h (x :: q) (by simp) y (by simp [hy])
        · exact h q (by simp [hq]) y hy
  | succ n ih =>
    intro rows r rows' hp h
    cases rows with
    | nil => simp [popAt] at hp
    | cons q rest =>
      simp only [popAt] at hp
      cases hq : popAt n rest with
      | none => rw [hq] at hp; cases hp
      | some res =>
        obtain ⟨x, rest'⟩ := res
        rw [hq] at hp
        simp only [Option.some.injEq, Prod.mk.injEq] at hp
        obtain ⟨rfl, rfl⟩ := hp
        obtain ⟨k1, k2⟩ := ih rest x rest' hq (fun q' hq' => h q' (by simp [hq']))
        refine ⟨k1, ?_⟩
        intro q' hq' y hy
        rcases List.mem_cons.mp hq' with e | hq'
        · subst e; exact h q' (by simp) y hy
        · exact k2 q' hq' y hy

/-- chunk lists related line by line: each line becomes its universal-newline form, every line end LF -/
abbrev ChunksUN : List (Str × Bool) → List (Str × Bool) → Prop := All2 (fun a b => UN a.1 b.1 ∧ b.2 = false)

theorem joinChunks_UN (fe : Bool) (cs cs' : List (Str × Bool)) (h : ChunksUN cs cs') :
    UN (joinChunks fe cs) (joinChunks fe cs') := by
  induction h with
  | nil => exact UN.nil
  | @cons a b as bs hab hrest ih =>
    obtain ⟨l, crlf⟩ := a
    obtain ⟨l', f'⟩ := b
    obtain ⟨h1, h2⟩ := hab
    simp only at h1 h2
    subst h2
    cases hrest with
    | nil =>
      cases fe
      · simpa [joinChunks] using h1
      · simp only [joinChunks, if_true]
        exact UN.append h1 (UN.eol crlf)
    | @cons a2 b2 as' bs' hab2 hrest2 =>
      simp only [joinChunks]
      exact UN.append (UN.append h1 (UN.eol crlf)) ih

theorem renderSlots_univ (io : FloatIO F) (d : Doc F) (he : ∀ e ∈ d.enums, enumOK e = true) :
    ∀ (ss : List Slot) (st : RSt F),
      (∀ kv ∈ st.hdr, pairOK2 (d.tables.map (fun t => upper t.name)) kv = true) →
      (∀ e ∈ st.enums, enumOK e = true) → (∀ t ∈ st.defs, tableOK2 d.enums t = true) →
      (∀ q ∈ st.rows, ∀ r ∈ q, List.all r (cellCrOK io) = true) →
      slotsOK io d st ss = true → ss.all slotCrOK = true →
      ∀ cs, renderSlots Sep.phys io d st ss = some cs →
        ∃ cs', renderSlots Sep.phys io d st (ss.map Slot.univ) = some cs' ∧ ChunksUN cs cs' := by
  intro ss
  induction ss with
  | nil =>
    intro st _ _ _ _ _ _ cs hr
    simp only [renderSlots] at hr
    split at hr
    · rename_i hcond
      injection hr with hr; subst hr
      exact ⟨[], by simp only [List.map_nil, renderSlots, hcond, if_true], All2.nil⟩
    · cases hr
  | cons s ss ih =>
    intro st i1 i2 i3 i4 hok hc cs hr
    simp only [List.all_cons, Bool.and_eq_true] at hc
    cases s with
    | pair lay =>
      cases hh : st.hdr with
      | nil => simp only [slotsOK, hh] at hok; cases hok
      | cons kv rest =>
        simp only [slotsOK, hh, Bool.and_eq_true] at hok
        simp only [renderSlots, hh] at hr
        cases hr' : renderSlots Sep.phys io d { st with hdr := rest } ss with
        | none => rw [hr'] at hr; cases hr
        | some ls =>
          rw [hr'] at hr
          injection hr with hr; subst hr
          obtain ⟨ls', h1, h2⟩ := ih { st with hdr := rest } (fun x hx => i1 x (by rw [hh]; simp [hx])) i2 i3 i4
            hok.2 hc.2 ls hr'
          refine ⟨(renderPair Sep.phys kv lay.univ, false) :: ls',
            by simp only [List.map_cons, Slot.univ, renderSlots, hh, h1]; rfl, ?_⟩
          exact All2.cons ⟨renderPair_univ _ kv lay (i1 kv (by rw [hh]; simp)) hok.1, rfl⟩ h2
    | row t lay =>
      cases hp : popAt t st.rows with
      | none => simp only [slotsOK, hp] at hok; cases hok
      | some res =>
        obtain ⟨r, rows'⟩ := res
        cases htb : d.tables[t]? with
        | none => simp only [slotsOK, hp, htb] at hok; cases hok
        | some tb =>
          simp only [slotsOK, hp, htb, Bool.and_eq_true] at hok
          simp only [renderSlots, hp] at hr
          obtain ⟨k1, k2⟩ := popAt_P (fun r => List.all r (cellCrOK io) = true) t st.rows r rows' hp i4
          cases hl : renderRow Sep.phys io r lay with
          | none => rw [hl] at hr; cases hr
          | some l =>
            cases hr' : renderSlots Sep.phys io d { st with rows := rows' } ss with
            | none => rw [hl, hr'] at hr; cases hr
            | some ls =>
              rw [hl, hr'] at hr
              injection hr with hr; subst hr
              obtain ⟨ls', h1, h2⟩ := ih { st with rows := rows' } i1 i2 i3 k2 hok.2 hc.2 ls hr'
              obtain ⟨l', h3, h4⟩ := renderRow_univ io tb r lay l hl hok.1 k1
              refine ⟨(l', false) :: ls', by simp only [List.map_cons, Slot.univ, renderSlots, hp, h3, h1]; rfl, ?_⟩
              exact All2.cons ⟨h4, rfl⟩ h2
    | sdef lay =>
      cases hh : st.defs with
      | nil => simp only [slotsOK, hh] at hok; cases hok
      | cons t rest =>
        simp only [slotsOK, hh, Bool.and_eq_true] at hok
        simp only [renderSlots, hh] at hr
        cases hl : renderStruct d.enums t lay with
        | none => rw [hl] at hr; cases hr
        | some l =>
          cases hr' : renderSlots Sep.phys io d { st with defs := rest } ss with
          | none => rw [hl, hr'] at hr; cases hr
          | some ls =>
            rw [hl, hr'] at hr
            injection hr with hr; subst hr
            obtain ⟨ls', h1, h2⟩ := ih { st with defs := rest } i1 i2 (fun x hx => i3 x (by rw [hh]; simp [hx])) i4
              hok.2 hc.2 ls hr'
            obtain ⟨l', h3, h4⟩ := renderStruct_univ d.enums he t lay (i3 t (by rw [hh]; simp)) hok.1 hc.1 l hl
            refine ⟨(l', false) :: ls', by simp only [List.map_cons, Slot.univ, renderSlots, hh, h3, h1]; rfl, ?_⟩
            exact All2.cons ⟨h4, rfl⟩ h2
    | edef lay =>
      cases hh : st.enums with
      | nil => simp only [slotsOK, hh] at hok; cases hok
      | cons e rest =>
        simp only [slotsOK, hh, Bool.and_eq_true] at hok
        simp only [renderSlots, hh] at hr
        cases hl : renderEnum e lay with
        | none => rw [hl] at hr; cases hr
        | some l =>
          cases hr' : renderSlots Sep.phys io d { st with enums := rest } ss with
          | none => rw [hl, hr'] at hr; cases hr
          | some ls =>
            rw [hl, hr'] at hr
            injection hr with hr; subst hr
            obtain ⟨ls', h1, h2⟩ := ih { st with enums := rest } i1 (fun x hx => i2 x (by rw [hh]; simp [hx])) i3 i4
              hok.2 hc.2 ls hr'
            obtain ⟨l', h3, h4⟩ := renderEnum_univ e lay (i2 e (by rw [hh]; simp)) hok.1 l hl
            refine ⟨(l', false) :: ls', by simp only [List.map_cons, Slot.univ, renderSlots, hh, h3, h1]; rfl, ?_⟩
            exact All2.cons ⟨h4, rfl⟩ h2
    | filler text crlf =>
      simp only [slotsOK, Bool.and_eq_true] at hok
      simp only [renderSlots] at hr
      cases hr' : renderSlots Sep.phys io d st ss with
      | none => rw [hr'] at hr; cases hr
      | some ls =>
        rw [hr'] at hr
        injection hr with hr; subst hr
        obtain ⟨ls', h1, h2⟩ := ih st i1 i2 i3 i4 hok.2 hc.2 ls hr'
        refine ⟨(text, false) :: ls', by simp only [List.map_cons, Slot.univ, renderSlots, h1], ?_⟩
        exact All2.cons ⟨UN.of_noCR _ (filler_noCR _ hok.1), rfl⟩ h2

/-- **the universal-newline text of a rendering is a rendering**: for a document and a layout of the
domain in which no cell and no comment inside a struct definition contains a lone CR, what text-mode
`open()` delivers for the file `renders d lay` is the file `renders d lay.univ` -/
theorem renders_univ (io : FloatIO F) (d : Doc F) (lay : Layout) (text : Str) (hd : docOK2 d = true)
    (hl : layoutOK io d lay = true) (hc : layoutCrOK lay = true) (ht : tokCrOK io d = true)
    (hr : renders io d lay = some text) : renders io d lay.univ = some (univNl text) := by
  obtain ⟨he, _, htab, _, hp, _⟩ := docOK2_props d hd
  unfold renders at hr ⊢
  cases hcs : renderSlots Sep.phys io d (initRSt d) lay.slots with
  | none => rw [hcs] at hr; cases hr
  | some cs =>
    rw [hcs] at hr
    simp only [Option.map_some, Option.some.injEq] at hr
    subst hr
    have hrows : ∀ q ∈ (initRSt d).rows, ∀ r ∈ q, List.all r (cellCrOK io) = true := by
      intro q hq r hr
      simp only [initRSt, List.mem_map] at hq
      obtain ⟨t, htm, rfl⟩ := hq
      simp only [tokCrOK, List.all_eq_true] at ht
      rw [List.all_eq_true]
      exact ht t htm r hr
    obtain ⟨cs', h1, h2⟩ := renderSlots_univ io d he lay.slots (initRSt d) hp he htab hrows hl hc cs hcs
    show (renderSlots Sep.phys io d (initRSt d) (lay.slots.map Slot.univ)).map (joinChunks lay.finalEol) = _
    rw [h1]
    simp only [Option.map_some, Option.some.injEq]
    exact ((joinChunks_UN lay.finalEol cs cs' h2).univ_eq).symm

/-- **file level, text mode**: a document of the domain, written in any layout of the domain `layoutOKU`
and read through text-mode `open()` (universal newlines), reads back as its canonical form -/
theorem parseFile_layU (io : FloatIO F) (h1 : H1 io) (d : Doc F) (lay : Layout) (text : Str)
    (hd : docOK2 d = true) (hl : layoutOKU io d lay = true) (hr : renders io d lay = some text) :
    parseFile io (univNl text) = .ok (canon d) := by
  simp only [layoutOKU, Bool.and_eq_true] at hl
  obtain ⟨⟨hw, hc⟩, ht⟩ := hl
  have hlo : layoutOK io d lay = true := by
    simp only [layoutOKW, Bool.and_eq_true] at hw; exact hw.1
  exact parseFile_layW io h1 d lay.univ (univNl text) hd (layoutOKW_univ io d lay hw hc)
    (renders_univ io d lay text hd hlo hc ht hr)

/-- the cells of a document of the domain are CR-free as printed whenever the float printer is -/
theorem tokCrOK_of_fmt (io : FloatIO F) (h3 : ∀ w x, '\r' ∉ io.fmtF w x) (d : Doc F) (hd : docOK2 d = true) :
    tokCrOK io d = true := by
  obtain ⟨_, _, htab, _, _, _⟩ := docOK2_props d hd
  have hsc : ∀ (ty : NpT) (labs : Option (List Str)) (arr : Bool) (v : Sc F), scOK ty labs arr v = true →
      '\r' ∉ scText io v := by
    intro ty labs arr v hv
    cases v with
    | int n =>
      intro hm
      exact absurd (fmtInt_chars n _ hm) (by decide)
    | flt w x => exact h3 w x
    | str s =>
      simp only [scOK, Bool.and_eq_true] at hv
      have hs : strOK s = true := by
        have := hv.1.2
        cases arr
        · simpa using this
        · simp only [if_true, arrElemOK, Bool.and_eq_true] at this; exact this.1
      simp only [strOK, Bool.and_eq_true] at hs
      exact cellChar_noCR s hs.1.1
  have hcells : ∀ (cols : List Col) (r : List (Cell F)), cellsOK d.enums cols r = true →
      List.all r (cellCrOK io) = true := by
    intro cols
    induction cols with
    | nil =>
      intro r hr
      cases r with
      | nil => rfl
      | cons _ _ => simp [cellsOK] at hr
    | cons c cs ih =>
      intro r hr
      cases r with
      | nil => simp [cellsOK] at hr
      | cons x xs =>
        simp only [cellsOK, Bool.and_eq_true] at hr
        simp only [List.all_cons, Bool.and_eq_true]
        refine ⟨?_, ih xs hr.2⟩
        cases x with
        | one v =>
          simp only [cellOK, Bool.and_eq_true] at hr
          simp only [cellCrOK, Bool.not_eq_true', ← Bool.not_eq_true]
          intro hcon
          exact hsc _ _ _ v hr.1.2 (List.contains_iff_mem.mp hcon)
        | many vs =>
          simp only [cellOK, Bool.and_eq_true, List.all_eq_true] at hr
          simp only [cellCrOK, List.all_eq_true]
          intro v hv
          simp only [Bool.not_eq_true', ← Bool.not_eq_true]
          intro hcon
          exact hsc _ _ _ v (hr.1.2 v hv) (List.contains_iff_mem.mp hcon)
  simp only [tokCrOK, List.all_eq_true]
  intro t htm r hr
  have := (tableOK2_props d.enums t (htab t htm)).2.2.2.2 r hr
  have h := hcells t.cols r this
  rw [List.all_eq_true] at h
  exact h

/-! ### raw mode at file level -/

/-- `yanny(file, raw=True)` on a file in any layout of the domain: the keyword pairs in order and, per
table, the rows of the document as plain lists, in that table's order -/
theorem parseRaw_layW (io : FloatIO F) (h1 : H1 io) (d : Doc F) (lay : Layout) (text : Str)
    (hd : docOK2 d = true) (hl : layoutOKW io d lay = true) (hr : renders io d lay = some text) :
    ∃ raw, parseRawS selectDef io text = .ok raw ∧ raw.pairs = d.hdr ∧
      raw.rows = d.tables.map (fun t => (upper t.name, t.rows)) ∧
      raw.front.tables = d.tables.map (fun t => (upper t.name, t.cols.map (·.name))) := by
  obtain ⟨infos, hsi, hio, hfront⟩ := front_layW io h1 d lay text hd hl hr
  have htyp := typing_file_layW io d lay hd hl
  have hloop := loop_layW io d lay hd hl infos hsi hio
  have hspecs : (d.tables.map (fun t => (upper t.name, t.cols.map (·.name)))).map
      (fun t => (t.1, colSpecs ((layStructs d lay).map (·.text)) t.1 t.2)) = laySpecs d := by
    unfold laySpecs
    rw [List.map_map]
    apply List.map_congr_left
    intro t hm
    simp only [Function.comp, (htyp t hm).1]
  have hinit : (d.tables.map (fun t => (upper t.name, t.cols.map (·.name)))).map
      (fun t => (t.1, ([] : List (List (Cell F))))) = d.tables.map (fun t => (upper t.name, [])) := by
    rw [List.map_map]; rfl
  unfold parseRawS
  simp only [colSpecsS_old, hfront, hspecs, hinit, hloop]
  exact ⟨_, rfl, rfl, rfl, rfl⟩

theorem parseRaw_layU (io : FloatIO F) (h1 : H1 io) (d : Doc F) (lay : Layout) (text : Str)
    (hd : docOK2 d = true) (hl : layoutOKU io d lay = true) (hr : renders io d lay = some text) :
    ∃ raw, parseRawS selectDef io (univNl text) = .ok raw ∧ raw.pairs = d.hdr ∧
      raw.rows = d.tables.map (fun t => (upper t.name, t.rows)) ∧
      raw.front.tables = d.tables.map (fun t => (upper t.name, t.cols.map (·.name))) := by
  simp only [layoutOKU, Bool.and_eq_true] at hl
  obtain ⟨⟨hw, hc⟩, ht⟩ := hl
  have hlo : layoutOK io d lay = true := by
    simp only [layoutOKW, Bool.and_eq_true] at hw; exact hw.1
  exact parseRaw_layW io h1 d lay.univ (univNl text) hd (layoutOKW_univ io d lay hw hc)
    (renders_univ io d lay text hd hlo hc ht hr)

end PydlVerif.YannyLay

/-
Helper lemmas for C02 (layouts): generic list facts, tokens in the three quoting styles,
trailing comments, typedef-name selection, agreement of the parameterised reader with C01's.
-/
import PydlVerif.Model.YannyLayout
import PydlVerif.Lemmas.YannyPair
namespace PydlVerif.Yanny

variable {F : Type}

/-! ### lists -/

theorem takeWhile_append_stop' {α} (p : α → Bool) (a b : List α) (ha : ∀ x ∈ a, p x = true)
    (hb : ∀ x, b.head? = some x → p x = false) : (a ++ b).takeWhile p = a := by
  cases b with
  | nil => simpa using takeWhile_all p a ha
  | cons y t => exact takeWhile_app_stop p a y t ha (hb y rfl)

theorem dropWhile_append_stop' {α} (p : α → Bool) (a b : List α) (ha : ∀ x ∈ a, p x = true)
    (hb : ∀ x, b.head? = some x → p x = false) : (a ++ b).dropWhile p = b := by
  cases b with
  | nil => simpa using dropWhile_all p a ha
  | cons y t => exact dropWhile_app_stop p a y t ha (hb y rfl)

theorem dropWhile_append_all {α} (p : α → Bool) (a b : List α) (ha : ∀ x ∈ a, p x = true) :
    (a ++ b).dropWhile p = b.dropWhile p := by
  induction a with
  | nil => rfl
  | cons x t ih =>
    have hx : p x = true := ha x (by simp)
    simp only [List.cons_append, List.dropWhile_cons_of_pos hx]
    exact ih (fun y hy => ha y (by simp [hy]))

theorem isBlank_isSpace (c : Char) (h : isBlank c = true) : isSpace c = true := by
  simp only [isBlank, Bool.or_eq_true, beq_iff_eq] at h
  rcases h with h | h <;> subst h <;> decide

theorem isSpace_not_wordCh (c : Char) (h : isSpace c = true) : isWordCh c = false := by
  simp only [isSpace, Bool.or_eq_true, beq_iff_eq] at h
  rcases h with ((((((((((h | h) | h) | h) | h) | h) | h) | h) | h) | h) | h) | h <;> subst h <;> decide

theorem rstrip_append_space (l ws : Str) (hws : ∀ c ∈ ws, isSpace c = true)
    (hl : ∀ x, l.getLast? = some x → isSpace x = false) : rstrip (l ++ ws) = l := by
  unfold rstrip
  rw [List.reverse_append, dropWhile_append_all _ _ _ (by intro x hx; exact hws x (by simpa using hx))]
  rw [lstrip_id l.reverse (by intro c hc; rw [List.head?_reverse] at hc; exact hl c hc)]
  simp

/-! ### tokens in the three quoting styles -/

theorem bareLegal_props (s : Str) (h : bareLegal s = true) :
    s ≠ [] ∧ (∀ a ∈ s, isSpace a = false ∧ a ≠ '#' ∧ a ≠ '"') ∧ s.head? ≠ some '{' := by
  simp only [bareLegal, Bool.and_eq_true, Bool.not_eq_true', List.all_eq_true, bne_iff_ne, ne_eq] at h
  refine ⟨?_, ?_, h.2⟩
  · intro e; subst e; simp at h
  · intro a ha
    have := h.1.2 a ha
    exact ⟨this.1.1, this.1.2, this.2⟩

theorem not_contains {s : Str} {c : Char} (h : (!s.contains c) = true) : c ∉ s := by
  intro hm
  simp [List.contains_iff_mem, hm] at h

/-- a token written in a style that is legal for it, a non-empty separator, more text: the reader
returns the token and exactly the text after the separator -/
theorem getToken_quote' (q : QStyle) (s sep rest : Str) (hl : tokLegal q s = true ∨ elemLegal q s = true)
    (hsep : sep ≠ []) (hb : ∀ c ∈ sep, isSpace c = true)
    (hr : ∀ c, rest.head? = some c → isSpace c = false) (hn : '\n' ∉ rest) :
    getToken (quoteTok q s ++ (sep ++ rest)) = .ok (s, rest) := by
  have hdrop : (sep ++ rest).dropWhile isSpace = rest := by
    rw [dropWhile_append_all _ _ _ hb]; exact lstrip_id rest hr
  cases q with
  | bare =>
    have hbl : bareLegal s = true := by
      rcases hl with hl | hl
      · simpa [tokLegal] using hl
      · simp only [elemLegal, Bool.and_eq_true] at hl; exact hl.1
    obtain ⟨hne, hall, hhead⟩ := bareLegal_props s hbl
    cases s with
    | nil => exact absurd rfl hne
    | cons c t =>
      have hns : ∀ a ∈ c :: t, (!isSpace a) = true := by
        intro a ha; simp [(hall a ha).1]
      have hc1 : c ≠ '"' := (hall c (by simp)).2.2
      have hc2 : c ≠ '{' := by intro e; subst e; simp at hhead
      cases sep with
      | nil => exact absurd rfl hsep
      | cons b sp =>
        have hbs : (!isSpace b) = false := by simp [hb b (by simp)]
        show getToken (c :: (t ++ (b :: sp ++ rest))) = _
        rw [getToken_bare c _ hc1 hc2]
        have e1 : c :: (t ++ (b :: sp ++ rest)) = (c :: t) ++ b :: (sp ++ rest) := by simp
        rw [e1, dropWhile_app_stop _ (c :: t) b _ hns hbs, takeWhile_app_stop _ (c :: t) b _ hns hbs]
        have e2 : (b :: (sp ++ rest)).dropWhile isSpace = rest := by
          have := hdrop
          simpa using this
        simp only [e2]
  | quoted =>
    have hq : '"' ∉ s := by
      rcases hl with hl | hl
      · simp only [tokLegal, Bool.and_eq_true] at hl; exact not_contains hl.1
      · simp only [elemLegal, Bool.and_eq_true] at hl; exact not_contains hl.1.1
    have hq' : ∀ a ∈ s, (a != '"') = true := by
      intro a ha
      have : a ≠ '"' := fun e => hq (e ▸ ha)
      simpa using this
    show getToken ('"' :: ((s ++ ['"']) ++ (sep ++ rest))) = _
    have e : (s ++ ['"']) ++ (sep ++ rest) = s ++ '"' :: (sep ++ rest) := by simp
    rw [e]
    unfold getToken
    simp only
    rw [dropWhile_app_stop _ s '"' _ hq' (by decide), takeWhile_app_stop _ s '"' _ hq' (by decide)]
    simp only [hdrop, restOfLine_id rest hn]
  | braced pad =>
    rcases hl with hl | hl
    · simp only [tokLegal, Bool.and_eq_true] at hl
      obtain ⟨⟨⟨⟨⟨hpad, hcb⟩, _⟩, _⟩, _⟩, hhd⟩ := hl
      have hcb' : ∀ a ∈ s, (a != '}') = true := by
        intro a ha
        have : a ≠ '}' := fun e => (not_contains hcb) (e ▸ ha)
        simpa using this
      have hpad' : ∀ a ∈ pad, isSpace a = true := by
        intro a ha
        exact isBlank_isSpace a (List.all_eq_true.mp hpad a ha)
      have hsh : ∀ c, (s ++ '}' :: (sep ++ rest)).head? = some c → isSpace c = false := by
        intro c hc
        cases s with
        | nil => simp at hc; subst hc; decide
        | cons a t =>
          simp at hc; subst hc
          simpa using hhd
      show getToken ('{' :: ((pad ++ s ++ ['}']) ++ (sep ++ rest))) = _
      have e : (pad ++ s ++ ['}']) ++ (sep ++ rest) = pad ++ (s ++ '}' :: (sep ++ rest)) := by simp
      rw [e]
      unfold getToken
      simp only
      rw [dropWhile_append_all _ pad _ hpad', lstrip_id _ hsh]
      rw [dropWhile_app_stop _ s '}' _ hcb' (by decide), takeWhile_app_stop _ s '}' _ hcb' (by decide)]
      simp only [hdrop, restOfLine_id rest hn]
    · simp [elemLegal] at hl

/-- the last token of a line, possibly followed by blanks -/
theorem getToken_quote_last' (q : QStyle) (s trail : Str) (hl : tokLegal q s = true ∨ elemLegal q s = true)
    (hb : ∀ c ∈ trail, isSpace c = true) (hn : '\n' ∉ trail) :
    getToken (quoteTok q s ++ trail) = .ok (s, []) := by
  have hdrop : trail.dropWhile isSpace = [] := dropWhile_all _ _ hb
  cases q with
  | bare =>
    have hbl : bareLegal s = true := by
      rcases hl with hl | hl
      · simpa [tokLegal] using hl
      · simp only [elemLegal, Bool.and_eq_true] at hl; exact hl.1
    obtain ⟨hne, hall, hhead⟩ := bareLegal_props s hbl
    cases s with
    | nil => exact absurd rfl hne
    | cons c t =>
      have hns : ∀ a ∈ c :: t, (!isSpace a) = true := by
        intro a ha; simp [(hall a ha).1]
      have hc1 : c ≠ '"' := (hall c (by simp)).2.2
      have hc2 : c ≠ '{' := by intro e; subst e; simp at hhead
      show getToken (c :: (t ++ trail)) = _
      rw [getToken_bare c _ hc1 hc2]
      cases trail with
      | nil =>
        have : (c :: (t ++ [])) = c :: t := by simp
        rw [this, dropWhile_all _ _ hns]
      | cons b sp =>
        have hbs : (!isSpace b) = false := by simp [hb b (by simp)]
        have e1 : c :: (t ++ b :: sp) = (c :: t) ++ b :: sp := by simp
        rw [e1, dropWhile_app_stop _ (c :: t) b _ hns hbs, takeWhile_app_stop _ (c :: t) b _ hns hbs]
        simp only [hdrop]
  | quoted =>
    have hq : '"' ∉ s := by
      rcases hl with hl | hl
      · simp only [tokLegal, Bool.and_eq_true] at hl; exact not_contains hl.1
      · simp only [elemLegal, Bool.and_eq_true] at hl; exact not_contains hl.1.1
    have hq' : ∀ a ∈ s, (a != '"') = true := by
      intro a ha
      have : a ≠ '"' := fun e => hq (e ▸ ha)
      simpa using this
    show getToken ('"' :: ((s ++ ['"']) ++ trail)) = _
    have e : (s ++ ['"']) ++ trail = s ++ '"' :: trail := by simp
    rw [e]
    unfold getToken
    simp only
    rw [dropWhile_app_stop _ s '"' _ hq' (by decide), takeWhile_app_stop _ s '"' _ hq' (by decide)]
    simp only [hdrop]
    rfl
  | braced pad =>
    rcases hl with hl | hl
    · simp only [tokLegal, Bool.and_eq_true] at hl
      obtain ⟨⟨⟨⟨⟨hpad, hcb⟩, _⟩, _⟩, _⟩, hhd⟩ := hl
      have hcb' : ∀ a ∈ s, (a != '}') = true := by
        intro a ha
        have : a ≠ '}' := fun e => (not_contains hcb) (e ▸ ha)
        simpa using this
      have hpad' : ∀ a ∈ pad, isSpace a = true := by
        intro a ha
        exact isBlank_isSpace a (List.all_eq_true.mp hpad a ha)
      have hsh : ∀ c, (s ++ '}' :: trail).head? = some c → isSpace c = false := by
        intro c hc
        cases s with
        | nil => simp at hc; subst hc; decide
        | cons a t =>
          simp at hc; subst hc
          simpa using hhd
      show getToken ('{' :: ((pad ++ s ++ ['}']) ++ trail)) = _
      have e : (pad ++ s ++ ['}']) ++ trail = pad ++ (s ++ '}' :: trail) := by simp
      rw [e]
      unfold getToken
      simp only
      rw [dropWhile_append_all _ pad _ hpad', lstrip_id _ hsh]
      rw [dropWhile_app_stop _ s '}' _ hcb' (by decide), takeWhile_app_stop _ s '}' _ hcb' (by decide)]
      simp only [hdrop]
      rfl
    · simp [elemLegal] at hl

/-! ### trailing comments -/

/-- the text after the last `#` is the comment when it has no `#` and an even number of `"`:
whatever the line is, it is cut there -/
theorem trailingComment_cut (l c : Str) (hc : '#' ∉ c) (hq : c.count '"' % 2 = 0) :
    trailingComment (l ++ '#' :: c) = rstrip l := by
  unfold trailingComment
  have hr : (l ++ '#' :: c).reverse = c.reverse ++ '#' :: l.reverse := by simp
  have hne : ∀ a ∈ c.reverse, (a != '#') = true := by
    intro a ha
    have : a ≠ '#' := fun e => hc (e ▸ (by simpa using ha))
    simpa using this
  simp only [hr]
  have h1 : (c.reverse ++ '#' :: l.reverse).contains '#' = true := by simp
  rw [takeWhile_app_stop _ c.reverse '#' _ hne (by decide), dropWhile_app_stop _ c.reverse '#' _ hne (by decide)]
  simp only [h1, if_true, List.count_reverse, hq]
  simp [rstrip]

/-! ### the name a typedef text defines -/

theorem tdNameOf_shape (pre g3 name g4 : Str) (h3 : ∀ c ∈ g3, isSpace c = true)
    (h4 : ∀ c ∈ g4, isSpace c = true) (hne : name ≠ []) (hw : ∀ c ∈ name, isWordCh c = true) :
    tdNameOf (pre ++ '}' :: (g3 ++ name ++ g4 ++ [';'])) = some name := by
  unfold tdNameOf
  have hr : (pre ++ '}' :: (g3 ++ name ++ g4 ++ [';'])).reverse =
      ';' :: (g4.reverse ++ (name.reverse ++ (g3.reverse ++ '}' :: pre.reverse))) := by simp
  rw [hr, dropWhile_head_false _ _ _ (by decide)]
  simp only
  have h4' : ∀ c ∈ g4.reverse, isSpace c = true := fun c hc => h4 c (by simpa using hc)
  have h3' : ∀ c ∈ g3.reverse, isSpace c = true := fun c hc => h3 c (by simpa using hc)
  have hw' : ∀ c ∈ name.reverse, isWordCh c = true := fun c hc => hw c (by simpa using hc)
  have hstop : ∀ x, (g3.reverse ++ '}' :: pre.reverse).head? = some x → isWordCh x = false := by
    intro x hx
    cases hg : g3.reverse with
    | nil => rw [hg] at hx; simp at hx; subst hx; decide
    | cons y t =>
      rw [hg] at hx; simp at hx; subst hx
      exact isSpace_not_wordCh _ (h3' _ (by rw [hg]; simp))
  have hnsp : ∀ x, (name.reverse ++ (g3.reverse ++ '}' :: pre.reverse)).head? = some x → isSpace x = false := by
    intro x hx
    cases hn : name.reverse with
    | nil => exact absurd (by simpa using hn) hne
    | cons y t =>
      rw [hn] at hx; simp at hx; subst hx
      have hy := hw' y (by rw [hn]; simp)
      cases hs : isSpace y with
      | false => rfl
      | true => rw [isSpace_not_wordCh _ hs] at hy; cases hy
  rw [dropWhile_append_all _ _ _ h4', lstrip_id _ hnsp]
  rw [takeWhile_append_stop' _ _ _ hw' hstop, dropWhile_append_stop' _ _ _ hw' hstop]
  have hne' : name.reverse.isEmpty = false := by
    cases hn : name.reverse with
    | nil => exact absurd (by simpa using hn) hne
    | cons y t => rfl
  simp only [hne', Bool.false_eq_true, if_false]
  rw [dropWhile_append_all _ _ _ h3', dropWhile_head_false _ _ _ (by decide)]
  simp

/-- among definitions with pairwise different names (ignoring case), the filter of `selectDef2`
keeps exactly the definition of the name asked for -/
theorem filter_by_name (defs : List (Str × Str)) (hname : ∀ d ∈ defs, tdNameOf d.2 = some d.1)
    (hd : (defs.map (fun d => upper d.1)).Nodup) (d : Str × Str) (hmem : d ∈ defs) (T : Str)
    (hT : upper T = upper d.1) :
    (defs.map (·.2)).filter (fun x => (tdNameOf x).map upper == some (upper T)) = [d.2] := by
  induction defs with
  | nil => cases hmem
  | cons x l ih =>
    simp only [List.map_cons, List.nodup_cons] at hd
    have hx : tdNameOf x.2 = some x.1 := hname x (by simp)
    have hnone : ∀ l' : List (Str × Str), (∀ e ∈ l', tdNameOf e.2 = some e.1) →
        upper d.1 ∉ l'.map (fun e => upper e.1) →
        (l'.map (·.2)).filter (fun y => (tdNameOf y).map upper == some (upper T)) = [] := by
      intro l' hn hni
      apply List.filter_eq_nil_iff.mpr
      intro y hy
      obtain ⟨e, he, rfl⟩ := List.mem_map.mp hy
      rw [hn e he, hT]
      intro hc
      have : upper e.1 = upper d.1 := by simpa using hc
      exact hni (List.mem_map.mpr ⟨e, he, this⟩)
    by_cases hk : upper x.1 = upper d.1
    · have hdx : d = x := by
        rcases List.mem_cons.mp hmem with h | h
        · exact h
        · exfalso
          apply hd.1
          rw [hk]
          exact List.mem_map.mpr ⟨d, h, rfl⟩
      subst hdx
      simp only [List.map_cons, List.filter_cons, hx, hT, Option.map_some, beq_self_eq_true, if_true]
      rw [← hT, hnone l (fun e he => hname e (by simp [he])) (by rw [← hk]; exact hd.1)]
    · have hdl : d ∈ l := by
        rcases List.mem_cons.mp hmem with h | h
        · subst h; exact absurd rfl hk
        · exact h
      have hf : ((tdNameOf x.2).map upper == some (upper T)) = false := by
        rw [hx, hT]
        simp [hk]
      simp only [List.map_cons, List.filter_cons, hf, Bool.false_eq_true, if_false]
      exact ih (fun e he => hname e (by simp [he])) hd.2 hdl

theorem selectDef2_by_name (defs : List (Str × Str)) (hname : ∀ d ∈ defs, tdNameOf d.2 = some d.1)
    (hd : (defs.map (fun d => upper d.1)).Nodup) (d : Str × Str) (hmem : d ∈ defs) (T : Str)
    (hT : upper T = upper d.1) : selectDef2 (defs.map (·.2)) T = some d.2 := by
  unfold selectDef2
  simp only [filter_by_name defs hname hd d hmem T hT]
  rfl

end PydlVerif.Yanny

namespace PydlVerif.Yanny

variable {F : Type}

/-! ### the parameterised reader at C01's selection rule is C01's reader -/

theorem typeOfS_old (st : List Str) (t v : Str) : typeOfS selectDef st t v = typeOf st t v := rfl

theorem colSpecsS_old (st : List Str) (t : Str) (vs : List Str) :
    colSpecsS selectDef st t vs = colSpecs st t vs := by
  induction vs with
  | nil => rfl
  | cons v vs ih => simp only [colSpecsS, colSpecs, colSpecS, colSpec, typeOfS_old, ih]; rfl

theorem rcolsOfS_old (st : List Str) (cache : List (Str × List Str)) (t : Str)
    (rows : List (List (Cell F))) (j : Nat) (vs : List Str) :
    rcolsOfS selectDef st cache t rows j vs = rcolsOf st cache t rows j vs := by
  induction vs generalizing j with
  | nil => rfl
  | cons v vs ih => simp only [rcolsOfS, rcolsOf, rcolOfS, rcolOf, typeOfS_old, ih]; rfl

theorem finishTablesS_old (st : List Str) (cache : List (Str × List Str))
    (rows : List (Str × List (List (Cell F)))) (ts : List (Str × List Str)) :
    finishTablesS selectDef st cache rows ts = finishTables st cache rows ts := by
  induction ts with
  | nil => rfl
  | cons x ts ih =>
    obtain ⟨name, cols⟩ := x
    simp only [finishTablesS, finishTables, finishTableS, finishTable, rcolsOfS_old, ih, rawRowsOf]; rfl

theorem parseFileS_old (io : FloatIO F) (text : Str) : parseFileS selectDef io text = parseFile io text := by
  unfold parseFileS parseRawS parseFile
  simp only [colSpecsS_old]
  cases lineLoop io ((front text).tables.map (fun t => (t.1, colSpecs ((front text).structs.map (·.text)) t.1 t.2)))
      ⟨[], (front text).tables.map (fun t => (t.1, []))⟩ (splitNl (front text).rest) with
  | error e => rfl
  | ok fin => simp only [finishTablesS_old]; rfl

/-! ### raw mode and the record arrays -/

/-- what the numpy assignment does to one value: nothing, or truncation of a string to the width -/
def all2 {α β : Type} (R : α → β → Prop) : List α → List β → Prop
  | [], [] => True
  | a :: as, b :: bs => R a b ∧ all2 R as bs
  | _, _ => False

def scSame (t : RT) (v w : Sc F) : Prop := w = v ∨ ∃ n s, t = .S n ∧ v = .str s ∧ w = .str (s.take n)

def cellSame (c : RCol) : Cell F → Cell F → Prop
  | .one v, .one w => scSame c.ty v w
  | .many vs, .many ws => all2 (scSame c.ty) vs ws
  | _, _ => False

def rowSame : List RCol → List (Cell F) → List (Cell F) → Prop
  | [], [], [] => True
  | c :: cs, x :: xs, y :: ys => cellSame c x y ∧ rowSame cs xs ys
  | _, _, _ => False

theorem castSc_same (t : RT) (v w : Sc F) (h : castSc t v = .ok w) : scSame t v w := by
  cases v with
  | int n =>
    simp only [castSc] at h
    split at h
    · injection h with h; exact Or.inl h.symm
    · cases h
  | flt fw x => simp only [castSc] at h; injection h with h; exact Or.inl h.symm
  | str s =>
    cases t with
    | S n => simp only [castSc] at h; injection h with h; exact Or.inr ⟨n, s, rfl, rfl, h.symm⟩
    | i2 => simp only [castSc] at h; injection h with h; exact Or.inl h.symm
    | i4 => simp only [castSc] at h; injection h with h; exact Or.inl h.symm
    | i8 => simp only [castSc] at h; injection h with h; exact Or.inl h.symm
    | f4 => simp only [castSc] at h; injection h with h; exact Or.inl h.symm
    | f8 => simp only [castSc] at h; injection h with h; exact Or.inl h.symm

theorem castScs_same (t : RT) (vs ws : List (Sc F)) (h : castScs t vs = .ok ws) :
    all2 (scSame t) vs ws := by
  induction vs generalizing ws with
  | nil => simp only [castScs] at h; injection h with h; subst h; exact trivial
  | cons v vs ih =>
    simp only [castScs] at h
    cases h1 : castSc t v with
    | error e => rw [h1] at h; cases h
    | ok w =>
      rw [h1] at h
      cases h2 : castScs t vs with
      | error e => rw [h2] at h; cases h
      | ok ws' =>
        rw [h2] at h
        injection h with h; subst h
        exact ⟨(castSc_same t v w h1), (ih ws' h2)⟩

theorem castCell_same (c : RCol) (x y : Cell F) (h : castCell c x = .ok y) : cellSame c x y := by
  cases x with
  | one v =>
    simp only [castCell] at h
    cases ha : c.alen with
    | some n => rw [ha] at h; cases h
    | none =>
      rw [ha] at h
      cases h1 : castSc c.ty v with
      | error e => rw [h1] at h; cases h
      | ok w => rw [h1] at h; injection h with h; subst h; exact castSc_same _ _ _ h1
  | many vs =>
    simp only [castCell] at h
    cases ha : c.alen with
    | none => rw [ha] at h; cases h
    | some n =>
      rw [ha] at h
      simp only at h
      split at h
      · cases h
      · cases h1 : castScs c.ty vs with
        | error e => rw [h1] at h; cases h
        | ok ws => rw [h1] at h; injection h with h; subst h; exact castScs_same _ _ _ h1

theorem castRow_same (cols : List RCol) (r r' : List (Cell F)) (h : castRow cols r = .ok r') :
    rowSame cols r r' := by
  induction cols generalizing r r' with
  | nil =>
    cases r with
    | nil => simp only [castRow] at h; injection h with h; subst h; trivial
    | cons x xs => simp [castRow] at h
  | cons c cs ih =>
    cases r with
    | nil => simp [castRow] at h
    | cons x xs =>
      simp only [castRow] at h
      cases h1 : castCell c x with
      | error e => rw [h1] at h; cases h
      | ok y =>
        rw [h1] at h
        cases h2 : castRow cs xs with
        | error e => rw [h2] at h; cases h
        | ok ys =>
          rw [h2] at h
          injection h with h; subst h
          exact ⟨castCell_same c x y h1, ih xs ys h2⟩

theorem castRows_same (cols : List RCol) (rs rs' : List (List (Cell F))) (h : castRows cols rs = .ok rs') :
    all2 (rowSame cols) rs rs' := by
  induction rs generalizing rs' with
  | nil => simp only [castRows] at h; injection h with h; subst h; exact trivial
  | cons r rs ih =>
    simp only [castRows] at h
    cases h1 : castRow cols r with
    | error e => rw [h1] at h; cases h
    | ok r' =>
      rw [h1] at h
      cases h2 : castRows cols rs with
      | error e => rw [h2] at h; cases h
      | ok rs'' =>
        rw [h2] at h
        injection h with h; subst h
        exact ⟨(castRow_same cols r r' h1), (ih rs'' h2)⟩


/-- the record array of a table holds the raw rows that have at least one cell, value by value -/
def tableSame (rows : List (Str × List (List (Cell F)))) (sy : Str × List Str) (tb : RTable F) : Prop :=
  tb.name = sy.1 ∧ tb.cols.map (·.name) = sy.2 ∧
  all2 (rowSame tb.cols) ((rawRowsOf rows sy.1).filter (fun r => !r.isEmpty)) tb.rows

theorem rcolsOfS_names (sel : Sel) (st : List Str) (cache : List (Str × List Str)) (t : Str)
    (rows : List (List (Cell F))) (j : Nat) (vs : List Str) (rc : List RCol)
    (h : rcolsOfS sel st cache t rows j vs = .ok rc) : rc.map (·.name) = vs := by
  induction vs generalizing j rc with
  | nil => simp only [rcolsOfS] at h; injection h with h; subst h; rfl
  | cons v vs ih =>
    simp only [rcolsOfS] at h
    cases h1 : rcolOfS sel st cache t v (rows.filterMap (fun r => r[j]?)) with
    | error e => rw [h1] at h; cases h
    | ok c =>
      rw [h1] at h
      cases h2 : rcolsOfS sel st cache t rows (j + 1) vs with
      | error e => rw [h2] at h; cases h
      | ok cs =>
        rw [h2] at h
        injection h with h; subst h
        have hn : c.name = v := by
          unfold rcolOfS at h1
          split at h1
          · cases h1
          · simp only at h1
            split at h1
            · cases h1
            · split at h1
              · split at h1
                · cases h1
                · injection h1 with h1; subst h1; rfl
              · injection h1 with h1; subst h1; rfl
        simp [hn, ih (j + 1) cs h2]

theorem finishTableS_same (sel : Sel) (st : List Str) (cache : List (Str × List Str))
    (rows : List (Str × List (List (Cell F)))) (sy : Str × List Str) (tb : RTable F)
    (h : finishTableS sel st cache sy.1 sy.2 (rawRowsOf rows sy.1) = .ok tb) : tableSame rows sy tb := by
  unfold finishTableS at h
  simp only at h
  cases h1 : rcolsOfS sel st cache sy.1 ((rawRowsOf rows sy.1).filter (fun r => !r.isEmpty)) 0 sy.2 with
  | error e => rw [h1] at h; cases h
  | ok rc =>
    rw [h1] at h
    simp only at h
    cases h2 : castRows rc ((rawRowsOf rows sy.1).filter (fun r => !r.isEmpty)) with
    | error e => rw [h2] at h; cases h
    | ok rs =>
      rw [h2] at h
      injection h with h; subst h
      exact ⟨rfl, rcolsOfS_names sel st cache _ _ 0 _ rc h1, castRows_same rc _ rs h2⟩

theorem finishTablesS_same (sel : Sel) (st : List Str) (cache : List (Str × List Str))
    (rows : List (Str × List (List (Cell F)))) (ts : List (Str × List Str)) (out : List (RTable F))
    (h : finishTablesS sel st cache rows ts = .ok out) : all2 (tableSame rows) ts out := by
  induction ts generalizing out with
  | nil => simp only [finishTablesS] at h; injection h with h; subst h; exact trivial
  | cons sy ts ih =>
    obtain ⟨name, cols⟩ := sy
    simp only [finishTablesS] at h
    cases h1 : finishTableS sel st cache name cols (rawRowsOf rows name) with
    | error e => rw [h1] at h; cases h
    | ok t =>
      rw [h1] at h
      cases h2 : finishTablesS sel st cache rows ts with
      | error e => rw [h2] at h; cases h
      | ok ts' =>
        rw [h2] at h
        injection h with h; subst h
        exact ⟨(finishTableS_same sel st cache rows (name, cols) t h1), (ih ts' h2)⟩

end PydlVerif.Yanny

namespace PydlVerif.Yanny

variable {F : Type}

/-! ### one data line in any layout -/

theorem dropWhile_head_not {α} (p : α → Bool) (l : List α) (y : α) (t : List α)
    (h : l.dropWhile p = y :: t) : p y = false := by
  induction l with
  | nil => simp at h
  | cons a l ih =>
    by_cases ha : p a = true
    · rw [List.dropWhile_cons_of_pos ha] at h; exact ih h
    · have ha' : p a = false := by simpa using ha
      rw [dropWhile_head_false p a l ha'] at h
      injection h with h1 _; subst h1; exact ha'

theorem mem_takeWhile_sat {α} (p : α → Bool) (l : List α) (x : α) (h : x ∈ l.takeWhile p) : p x = true := by
  induction l with
  | nil => simp at h
  | cons a l ih =>
    by_cases ha : p a = true
    · rw [List.takeWhile_cons_of_pos ha] at h
      rcases List.mem_cons.mp h with h | h
      · subst h; exact ha
      · exact ih h
    · rw [List.takeWhile_cons_of_neg ha] at h; cases h

/-- unified form: whatever follows starts with white space (or nothing follows) -/
theorem getToken_quote_any (q : QStyle) (s b : Str) (hl : tokLegal q s = true ∨ elemLegal q s = true)
    (hb : ∀ c, b.head? = some c → isSpace c = true) (hn : '\n' ∉ b) :
    getToken (quoteTok q s ++ b) = .ok (s, b.dropWhile isSpace) := by
  cases hd : b.dropWhile isSpace with
  | nil =>
    exact getToken_quote_last' q s b hl (dropWhile_nil_all _ _ hd)
      hn
  | cons y t =>
    have hy : isSpace y = false := dropWhile_head_not _ _ _ _ hd
    have hsplit : b = b.takeWhile isSpace ++ (y :: t) := by
      rw [← hd]; exact (List.takeWhile_append_dropWhile).symm
    have hsep : b.takeWhile isSpace ≠ [] := by
      cases b with
      | nil => simp at hd
      | cons a u =>
        have := hb a rfl
        simp [List.takeWhile, this]
    have hall : ∀ c ∈ b.takeWhile isSpace, isSpace c = true := by
      intro c hc
      exact mem_takeWhile_sat _ _ _ hc
    have hn' : '\n' ∉ y :: t := by
      intro hm
      apply hn
      rw [hsplit]
      exact List.mem_append_right _ hm
    have := getToken_quote' q s (b.takeWhile isSpace) (y :: t) hl hsep hall
      (by intro c hc; simp at hc; subst hc; exact hy) hn'
    rw [← hsplit] at this
    exact this

theorem quoteTok_props (q : QStyle) (s : Str) (hl : tokLegal q s = true ∨ elemLegal q s = true) :
    quoteTok q s ≠ [] ∧ (∀ c, (quoteTok q s).head? = some c → isSpace c = false) ∧ '\n' ∉ quoteTok q s := by
  cases q with
  | bare =>
    have hbl : bareLegal s = true := by
      rcases hl with hl | hl
      · simpa [tokLegal] using hl
      · simp only [elemLegal, Bool.and_eq_true] at hl; exact hl.1
    obtain ⟨hne, hall, _⟩ := bareLegal_props s hbl
    refine ⟨hne, ?_, ?_⟩
    · intro c hc
      cases s with
      | nil => simp [quoteTok] at hc
      | cons a t => simp [quoteTok] at hc; subst hc; exact (hall a (by simp)).1
    · intro hm
      have := (hall '\n' hm).1
      exact absurd this (by decide)
  | quoted =>
    have hnl : '\n' ∉ s := by
      rcases hl with hl | hl
      · simp only [tokLegal, Bool.and_eq_true] at hl; exact not_contains hl.2
      · simp only [elemLegal, Bool.and_eq_true] at hl; exact not_contains hl.1.2
    refine ⟨by simp [quoteTok], ?_, ?_⟩
    · intro c hc; simp [quoteTok] at hc; subst hc; decide
    · intro hm
      simp only [quoteTok, List.mem_cons, List.mem_append, List.mem_nil_iff, or_false] at hm
      rcases hm with h | h | h
      · exact absurd h (by decide)
      · exact hnl h
      · exact absurd h (by decide)
  | braced pad =>
    rcases hl with hl | hl
    · simp only [tokLegal, Bool.and_eq_true] at hl
      obtain ⟨⟨⟨⟨⟨hpad, _⟩, _⟩, _⟩, hnl⟩, _⟩ := hl
      refine ⟨by simp [quoteTok], ?_, ?_⟩
      · intro c hc; simp [quoteTok] at hc; subst hc; decide
      · intro hm
        simp only [quoteTok, List.mem_cons, List.mem_append, List.mem_nil_iff, or_false] at hm
        rcases hm with h | (h | h) | h
        · exact absurd h (by decide)
        · have := List.all_eq_true.mp hpad _ h
          exact absurd this (by decide)
        · exact (not_contains hnl) h
        · exact absurd h (by decide)
    · simp [elemLegal] at hl

theorem elem_no_close (q : QStyle) (s : Str) (hl : elemLegal q s = true) : '}' ∉ quoteTok q s := by
  cases q with
  | bare =>
    simp only [elemLegal, Bool.and_eq_true] at hl
    exact not_contains hl.2
  | quoted =>
    simp only [elemLegal, Bool.and_eq_true] at hl
    intro hm
    simp only [quoteTok, List.mem_cons, List.mem_append, List.mem_nil_iff, or_false] at hm
    rcases hm with h | h | h
    · exact absurd h (by decide)
    · exact (not_contains hl.2) h
    · exact absurd h (by decide)
  | braced pad => simp [elemLegal] at hl

theorem sep_logical_props (s : Sep) (h : s.ok = true) :
    s.logical ≠ [] ∧ (∀ c ∈ s.logical, isSpace c = true) ∧ '\n' ∉ s.logical ∧ '}' ∉ s.logical := by
  have key : ∀ l : Str, (∀ c ∈ l, isBlank c = true) →
      (∀ c ∈ l, isSpace c = true) ∧ '\n' ∉ l ∧ '}' ∉ l := by
    intro l hl
    refine ⟨fun c hc => isBlank_isSpace c (hl c hc), ?_, ?_⟩
    · intro hm; exact absurd (hl _ hm) (by decide)
    · intro hm; exact absurd (hl _ hm) (by decide)
  obtain ⟨a, cont⟩ := s
  cases cont with
  | none =>
    simp only [Sep.ok, Bool.and_eq_true, Bool.not_eq_true'] at h
    simp only [Sep.logical]
    have hb : ∀ c ∈ a, isBlank c = true := List.all_eq_true.mp h.1
    obtain ⟨k1, k2, k3⟩ := key a hb
    refine ⟨?_, k1, k2, k3⟩
    intro e; subst e; simp at h
  | some x =>
    obtain ⟨b, crlf, c⟩ := x
    simp only [Sep.ok, Bool.and_eq_true] at h
    simp only [Sep.logical]
    have hb : ∀ y ∈ a ++ ' ' :: c, isBlank y = true := by
      intro y hy
      simp only [List.mem_append, List.mem_cons] at hy
      rcases hy with hy | hy | hy
      · exact List.all_eq_true.mp h.1 y hy
      · subst hy; decide
      · exact List.all_eq_true.mp h.2.2 y hy
    obtain ⟨k1, k2, k3⟩ := key _ hb
    exact ⟨by simp, k1, k2, k3⟩

def scKind (c : Conv) : Sc F → Bool
  | .int _ => c == .int
  | .flt w _ => c == .flt w
  | .str _ => c == .str

def cellKind (col : ColSpec) : Cell F → Bool
  | .one v => !col.isArr && scKind col.conv v
  | .many vs => col.isArr && vs.all (scKind col.conv)

/-- as many cells as columns, each of its column's kind and shape -/
def rowKinds : List ColSpec → List (Cell F) → Bool
  | [], [] => true
  | c :: cs, x :: xs => cellKind c x && rowKinds cs xs
  | _, _ => false

theorem convert_kind (io : FloatIO F) (h1 : H1 io) (c : Conv) (v : Sc F) (hv : scKind c v = true) :
    convert io c (scText io v) = .ok v := by
  cases v with
  | int n =>
    have : c = .int := by simpa [scKind] using hv
    subst this
    simp [convert, scText, parseInt_fmtInt]
  | flt w x =>
    have : c = .flt w := by simpa [scKind] using hv
    subst this
    simp [convert, scText, h1 w x]
  | str s =>
    have : c = .str := by simpa [scKind] using hv
    subst this
    rfl

theorem convertAll_kind (io : FloatIO F) (h1 : H1 io) (c : Conv) (vs : List (Sc F))
    (hv : ∀ v ∈ vs, scKind c v = true) : convertAll io c (vs.map (scText io)) = .ok vs := by
  induction vs with
  | nil => rfl
  | cons v t ih =>
    simp only [List.map, convertAll, convert_kind io h1 c v (hv v (by simp)),
      ih (fun x hx => hv x (by simp [hx]))]

theorem arrayTokensAux_step (fuel : Nat) (d : Str) (hd : d ≠ []) (tok rest : Str)
    (hg : getToken d = .ok (tok, rest)) (toks : List Str) (hr : arrayTokensAux fuel rest = .ok toks) :
    arrayTokensAux (fuel + 1) d = .ok (tok :: toks) := by
  cases d with
  | nil => exact absurd rfl hd
  | cons c t => simp only [arrayTokensAux, hg, hr]

/-- the text of the remaining elements: no newline, no `}`, starts with white space -/
theorem renderElems_props (io : FloatIO F) (vs : List (Sc F)) (ls : List (Sep × QStyle)) (t : Str)
    (hok : elemsLayOK io vs ls = true) (ht : renderElems Sep.logical io vs ls = some t) :
    '\n' ∉ t ∧ '}' ∉ t ∧ (∀ c, t.head? = some c → isSpace c = true) := by
  induction vs generalizing ls t with
  | nil =>
    cases ls with
    | nil => simp only [renderElems] at ht; injection ht with ht; subst ht; simp
    | cons l ls => simp [renderElems] at ht
  | cons v vs ih =>
    cases ls with
    | nil => simp [renderElems] at ht
    | cons l ls =>
      obtain ⟨s, q⟩ := l
      simp only [elemsLayOK, Bool.and_eq_true] at hok
      simp only [renderElems] at ht
      cases hr : renderElems Sep.logical io vs ls with
      | none => rw [hr] at ht; cases ht
      | some t' =>
        rw [hr] at ht
        injection ht with ht; subst ht
        obtain ⟨i1, i2, _⟩ := ih ls t' hok.2 hr
        obtain ⟨s1, s2, s3, s4⟩ := sep_logical_props s hok.1.1
        obtain ⟨_, _, q3⟩ := quoteTok_props q (scText io v) (Or.inr hok.1.2)
        have q4 := elem_no_close q (scText io v) hok.1.2
        refine ⟨?_, ?_, ?_⟩
        · intro hm
          simp only [List.mem_append] at hm
          rcases hm with (h | h) | h
          · exact s3 h
          · exact q3 h
          · exact i1 h
        · intro hm
          simp only [List.mem_append] at hm
          rcases hm with (h | h) | h
          · exact s4 h
          · exact q4 h
          · exact i2 h
        · intro c hc
          cases hs : s.logical with
          | nil => exact absurd hs s1
          | cons y u =>
            rw [hs] at hc; simp at hc; subst hc
            exact s2 _ (by rw [hs]; simp)

theorem arrayTokensAux_layout (io : FloatIO F) (vs : List (Sc F)) :
    ∀ (ls : List (Sep × QStyle)) (q : QStyle) (v : Sc F) (cl t : Str),
      elemLegal q (scText io v) = true → elemsLayOK io vs ls = true → (∀ c ∈ cl, isBlank c = true) →
      renderElems Sep.logical io vs ls = some t →
      ∀ fuel, (quoteTok q (scText io v) ++ (t ++ cl)).length ≤ fuel →
        arrayTokensAux fuel (quoteTok q (scText io v) ++ (t ++ cl)) = .ok (scText io v :: vs.map (scText io)) := by
  induction vs with
  | nil =>
    intro ls q v cl t hq hok hcl ht fuel hf
    cases ls with
    | cons l ls => simp [renderElems] at ht
    | nil =>
      simp only [renderElems] at ht; injection ht with ht; subst ht
      obtain ⟨qne, _, _⟩ := quoteTok_props q (scText io v) (Or.inr hq)
      have hcls : ∀ c ∈ cl, isSpace c = true := fun c hc => isBlank_isSpace c (hcl c hc)
      have hcn : '\n' ∉ cl := by intro hm; exact absurd (hcl _ hm) (by decide)
      cases fuel with
      | zero =>
        exfalso
        cases hq' : quoteTok q (scText io v) with
        | nil => exact qne hq'
        | cons a u => rw [hq'] at hf; simp at hf
      | succ f =>
        simp only [List.nil_append, List.map]
        exact arrayTokensAux_step f _ (by simp [qne]) _ _
          (getToken_quote_last' q _ cl (Or.inr hq) hcls hcn) [] (by cases f <;> rfl)
  | cons v2 vs ih =>
    intro ls q v cl t hq hok hcl ht fuel hf
    cases ls with
    | nil => simp [renderElems] at ht
    | cons l ls =>
      obtain ⟨s2, q2⟩ := l
      simp only [elemsLayOK, Bool.and_eq_true] at hok
      simp only [renderElems] at ht
      cases hr : renderElems Sep.logical io vs ls with
      | none => rw [hr] at ht; cases ht
      | some t' =>
        rw [hr] at ht
        injection ht with ht; subst ht
        obtain ⟨qne, _, _⟩ := quoteTok_props q (scText io v) (Or.inr hq)
        obtain ⟨q2ne, q2h, q2n⟩ := quoteTok_props q2 (scText io v2) (Or.inr hok.1.2)
        obtain ⟨s1, s2a, s3, _⟩ := sep_logical_props s2 hok.1.1
        obtain ⟨i1, _, _⟩ := renderElems_props io vs ls t' hok.2 hr
        have hcn : '\n' ∉ cl := by intro hm; exact absurd (hcl _ hm) (by decide)
        have e : quoteTok q (scText io v) ++ (s2.logical ++ quoteTok q2 (scText io v2) ++ t' ++ cl) =
            quoteTok q (scText io v) ++ (s2.logical ++ (quoteTok q2 (scText io v2) ++ (t' ++ cl))) := by simp
        rw [e] at hf ⊢
        have hrest_head : ∀ c, (quoteTok q2 (scText io v2) ++ (t' ++ cl)).head? = some c → isSpace c = false := by
          intro c hc
          cases hq2 : quoteTok q2 (scText io v2) with
          | nil => exact absurd hq2 q2ne
          | cons a u => rw [hq2] at hc; simp at hc; subst hc; exact q2h a (by rw [hq2]; rfl)
        have hrest_nl : '\n' ∉ quoteTok q2 (scText io v2) ++ (t' ++ cl) := by
          intro hm
          simp only [List.mem_append] at hm
          rcases hm with h | h | h
          · exact q2n h
          · exact i1 h
          · exact hcn h
        cases fuel with
        | zero =>
          exfalso
          cases hq' : quoteTok q (scText io v) with
          | nil => exact qne hq'
          | cons a u => rw [hq'] at hf; simp at hf
        | succ f =>
          have hlen : (quoteTok q2 (scText io v2) ++ (t' ++ cl)).length ≤ f := by
            have h1 : 0 < (quoteTok q (scText io v)).length := List.length_pos_iff.mpr qne
            simp only [List.length_append] at hf ⊢
            omega
          have hrec := ih ls q2 v2 cl t' hok.1.2 hok.2 hcl hr f hlen
          simp only [List.map]
          exact arrayTokensAux_step f _ (by simp [qne]) _ _
            (getToken_quote' q _ s2.logical _ (Or.inr hq) s1 s2a hrest_head hrest_nl) _ hrec

/-- one cell in its layout, followed by the rest of the line: the reader returns the cell's data
text (which converts back to the cell) and resumes at the next cell -/
theorem getToken_cellLay (io : FloatIO F) (h1 : H1 io) (col : ColSpec) (x : Cell F) (l : CellLay) (a : Str)
    (hk : cellKind col x = true) (hok : cellLayOK io x l = true)
    (ha : renderCell Sep.logical io x l = some a) (b : Str)
    (hb : ∀ c, b.head? = some c → isSpace c = true) (hn : '\n' ∉ b) :
    a ≠ [] ∧ (∀ c, a.head? = some c → isSpace c = false) ∧ '\n' ∉ a ∧
    ∃ data, getToken (a ++ b) = .ok (data, b.dropWhile isSpace) ∧ parseCell io col data = .ok x := by
  cases x with
  | one v =>
    cases l with
    | many op q rest cl => simp [renderCell] at ha
    | one q =>
      simp only [renderCell] at ha; injection ha with ha; subst ha
      simp only [cellLayOK] at hok
      simp only [cellKind, Bool.and_eq_true, Bool.not_eq_true'] at hk
      obtain ⟨p1, p2, p3⟩ := quoteTok_props q (scText io v) (Or.inl hok)
      refine ⟨p1, p2, p3, scText io v, getToken_quote_any q _ b (Or.inl hok) hb hn, ?_⟩
      simp only [parseCell, hk.1, Bool.false_eq_true, if_false, convert_kind io h1 col.conv v hk.2]
  | many vs0 =>
    cases l with
    | one q => cases vs0 <;> simp [renderCell] at ha
    | many op q rest cl =>
      cases vs0 with
      | nil => simp [renderCell] at ha
      | cons v vs =>
        simp only [renderCell] at ha
        cases hr : renderElems Sep.logical io vs rest with
        | none => rw [hr] at ha; cases ha
        | some t =>
          rw [hr] at ha
          injection ha with ha; subst ha
          simp only [cellLayOK, Bool.and_eq_true] at hok
          obtain ⟨⟨⟨hop, hcl⟩, hq⟩, hel⟩ := hok
          simp only [cellKind, Bool.and_eq_true] at hk
          have hop' : ∀ c ∈ op, isSpace c = true := fun c hc => isBlank_isSpace c (List.all_eq_true.mp hop c hc)
          have hcl' : ∀ c ∈ cl, isBlank c = true := List.all_eq_true.mp hcl
          obtain ⟨qne, qh, qn⟩ := quoteTok_props q (scText io v) (Or.inr hq)
          have qc := elem_no_close q (scText io v) hq
          obtain ⟨i1, i2, _⟩ := renderElems_props io vs rest t hel hr
          have hcn : '\n' ∉ cl := by intro hm; exact absurd (hcl' _ hm) (by decide)
          have hcc : '}' ∉ cl := by intro hm; exact absurd (hcl' _ hm) (by decide)
          have hopn : '\n' ∉ op := by intro hm; exact absurd (List.all_eq_true.mp hop _ hm) (by decide)
          let inner := quoteTok q (scText io v) ++ (t ++ cl)
          have hinner_head : ∀ c, (inner ++ '}' :: b).head? = some c → isSpace c = false := by
            intro c hc
            cases hq' : quoteTok q (scText io v) with
            | nil => exact absurd hq' qne
            | cons y u =>
              simp only [inner, hq'] at hc; simp at hc; subst hc
              exact qh y (by rw [hq']; rfl)
          have hinner_close : ∀ y ∈ inner, (y != '}') = true := by
            intro y hy
            have : y ≠ '}' := by
              intro e; subst e
              simp only [inner, List.mem_append] at hy
              rcases hy with h | h | h
              · exact qc h
              · exact i2 h
              · exact hcc h
            simpa using this
          have htext : '{' :: (op ++ quoteTok q (scText io v) ++ t ++ cl ++ ['}']) ++ b =
              '{' :: (op ++ (inner ++ '}' :: b)) := by simp [inner]
          refine ⟨by simp, ?_, ?_, inner, ?_, ?_⟩
          · intro c hc; simp at hc; subst hc; decide
          · intro hm
            simp only [List.mem_cons, List.mem_append, List.mem_nil_iff, or_false] at hm
            rcases hm with h | ((((h | h) | h) | h) | h)
            · exact absurd h (by decide)
            · exact hopn h
            · exact qn h
            · exact i1 h
            · exact hcn h
            · exact absurd h (by decide)
          · rw [htext]
            unfold getToken
            simp only
            rw [dropWhile_append_all _ op _ hop', lstrip_id _ hinner_head]
            rw [dropWhile_app_stop _ inner '}' _ hinner_close (by decide),
              takeWhile_app_stop _ inner '}' _ hinner_close (by decide)]
            have hbn : '\n' ∉ b.dropWhile isSpace := fun hm => hn ((List.dropWhile_sublist _).subset hm)
            simp only [restOfLine_id _ hbn]
          · have hat : arrayTokens inner = .ok (scText io v :: vs.map (scText io)) :=
              arrayTokensAux_layout io vs rest q v cl t hq hel hcl' hr _ (Nat.le_refl _)
            have hall : ∀ w ∈ v :: vs, scKind col.conv w = true := List.all_eq_true.mp hk.2
            have hcv := convertAll_kind io h1 col.conv (v :: vs) hall
            simp only [List.map] at hcv
            simp only [parseCell, hk.1, if_true, hat, hcv]

/-- the cells of a line in any layout, each preceded by its separator: no newline, starts with
white space -/
theorem renderCells_props (io : FloatIO F) (h1 : H1 io) (sch : List ColSpec) (r : List (Cell F))
    (lays : List (Sep × CellLay)) (body : Str) (hk : rowKinds sch r = true)
    (hok : cellsLayOK io r lays = true) (hb : renderCells Sep.logical io r lays = some body) :
    '\n' ∉ body ∧ (∀ c, body.head? = some c → isSpace c = true) := by
  induction r generalizing sch lays body with
  | nil =>
    cases lays with
    | nil => simp only [renderCells] at hb; injection hb with hb; subst hb; simp
    | cons l ls => simp [renderCells] at hb
  | cons x xs ih =>
    cases lays with
    | nil => simp [renderCells] at hb
    | cons l ls =>
      obtain ⟨s, cl⟩ := l
      cases sch with
      | nil => simp [rowKinds] at hk
      | cons col cols =>
        simp only [rowKinds, Bool.and_eq_true] at hk
        simp only [cellsLayOK, Bool.and_eq_true] at hok
        simp only [renderCells] at hb
        cases hc : renderCell Sep.logical io x cl with
        | none => rw [hc] at hb; cases hb
        | some a =>
          cases hr : renderCells Sep.logical io xs ls with
          | none => rw [hc, hr] at hb; cases hb
          | some b' =>
            rw [hc, hr] at hb
            injection hb with hb; subst hb
            obtain ⟨i1, i2⟩ := ih cols ls b' hk.2 hok.2 hr
            obtain ⟨s1, s2, s3, _⟩ := sep_logical_props s hok.1.1
            obtain ⟨_, _, a3, _⟩ := getToken_cellLay io h1 col x cl a hk.1 hok.1.2 hc b' i2 i1
            refine ⟨?_, ?_⟩
            · intro hm
              simp only [List.mem_append] at hm
              rcases hm with (h | h) | h
              · exact s3 h
              · exact a3 h
              · exact i1 h
            · intro c hc'
              cases hs : s.logical with
              | nil => exact absurd hs s1
              | cons y u =>
                rw [hs] at hc'; simp at hc'; subst hc'
                exact s2 _ (by rw [hs]; simp)

/-- line level: the cells of a row written in any per-line layout (quoting styles, separators,
array padding, trailing blanks) read back as the row -/
theorem parseRow_layout' (io : FloatIO F) (h1 : H1 io) (sch : List ColSpec) (r : List (Cell F))
    (lays : List (Sep × CellLay)) (body trail : Str) (hk : rowKinds sch r = true)
    (hok : cellsLayOK io r lays = true) (hb : renderCells Sep.logical io r lays = some body)
    (ht : ∀ c ∈ trail, isBlank c = true) :
    parseRow io sch ((body ++ trail).dropWhile isSpace) = .ok r := by
  have hts : ∀ c ∈ trail, isSpace c = true := fun c hc => isBlank_isSpace c (ht c hc)
  have htn : '\n' ∉ trail := by intro hm; exact absurd (ht _ hm) (by decide)
  induction r generalizing sch lays body with
  | nil =>
    cases sch with
    | nil => rfl
    | cons c cs => simp [rowKinds] at hk
  | cons x xs ih =>
    cases lays with
    | nil => simp [renderCells] at hb
    | cons l ls =>
      obtain ⟨s, cl⟩ := l
      cases sch with
      | nil => simp [rowKinds] at hk
      | cons col cols =>
        simp only [rowKinds, Bool.and_eq_true] at hk
        simp only [cellsLayOK, Bool.and_eq_true] at hok
        simp only [renderCells] at hb
        cases hc : renderCell Sep.logical io x cl with
        | none => rw [hc] at hb; cases hb
        | some a =>
          cases hr : renderCells Sep.logical io xs ls with
          | none => rw [hc, hr] at hb; cases hb
          | some b' =>
            rw [hc, hr] at hb
            injection hb with hb; subst hb
            obtain ⟨i1, i2⟩ := renderCells_props io h1 cols xs ls b' hk.2 hok.2 hr
            obtain ⟨_, s2, _, _⟩ := sep_logical_props s hok.1.1
            have hbt_head : ∀ c, (b' ++ trail).head? = some c → isSpace c = true := by
              intro c hc'
              cases b' with
              | nil =>
                simp only [List.nil_append] at hc'
                exact hts c (List.mem_of_mem_head? hc')
              | cons y u => simp at hc'; subst hc'; exact i2 _ rfl
            have hbt_nl : '\n' ∉ b' ++ trail := by
              intro hm
              rcases List.mem_append.mp hm with h | h
              · exact i1 h
              · exact htn h
            obtain ⟨ane, ah, _, data, hg, hp⟩ :=
              getToken_cellLay io h1 col x cl a hk.1 hok.1.2 hc (b' ++ trail) hbt_head hbt_nl
            have e : (s.logical ++ a ++ b' ++ trail).dropWhile isSpace = a ++ (b' ++ trail) := by
              have : s.logical ++ a ++ b' ++ trail = s.logical ++ (a ++ (b' ++ trail)) := by simp
              rw [this, dropWhile_append_all _ _ _ s2]
              apply lstrip_id
              intro c hc'
              cases a with
              | nil => exact absurd rfl ane
              | cons y u => simp at hc'; subst hc'; exact ah _ rfl
            rw [e]
            have hmore : moreData (a ++ (b' ++ trail)) = true := by
              cases a with
              | nil => exact absurd rfl ane
              | cons y u => simp [moreData, ah y rfl]
            have hrec := ih cols ls b' hk.2 hok.2 hr
            simp only [parseRow, hmore, if_true, hg, hp, hrec]

end PydlVerif.Yanny

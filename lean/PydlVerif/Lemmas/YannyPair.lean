/-
Helper lemmas for C01 (header-pair line): `strip` of `key value`, first-token split.
-/
import PydlVerif.Lemmas.YannyRow
namespace PydlVerif.Yanny

theorem dropWhile_append_cases {α} (p : α → Bool) (a b : List α) :
    (a ++ b).dropWhile p = if a.dropWhile p = [] then b.dropWhile p else a.dropWhile p ++ b := by
  induction a with
  | nil => simp
  | cons x t ih =>
    by_cases hx : p x = true
    · simp only [List.cons_append, List.dropWhile_cons_of_pos hx, ih]
    · simp [List.dropWhile_cons_of_neg hx]

theorem rstrip_cons (a : Char) (t : Str) :
    rstrip (a :: t) = if rstrip t = [] ∧ isSpace a = true then [] else a :: rstrip t := by
  unfold rstrip
  rw [List.reverse_cons, dropWhile_append_cases]
  by_cases h : t.reverse.dropWhile isSpace = []
  · by_cases ha : isSpace a = true
    · simp [h, ha]
    · simp [h, ha]
  · simp [h]

theorem lstrip_rstrip_comm (v : Str) : lstrip (rstrip v) = rstrip (lstrip v) := by
  induction v with
  | nil => rfl
  | cons a t ih =>
    by_cases ha : isSpace a = true
    · have e1 : lstrip (a :: t) = lstrip t := by simp [lstrip, List.dropWhile_cons_of_pos ha]
      rw [e1, rstrip_cons]
      by_cases hr : rstrip t = []
      · simp only [hr, ha, and_self, if_true]
        rw [← ih, hr]
      · simp only [hr, false_and, if_false]
        rw [← ih]
        simp [lstrip, List.dropWhile_cons_of_pos ha]
    · have e1 : lstrip (a :: t) = a :: t := by simp [lstrip, List.dropWhile_cons_of_neg ha]
      rw [e1, rstrip_cons]
      simp only [ha, and_false, if_false]
      simp [lstrip, List.dropWhile_cons_of_neg ha]

theorem rstrip_nil_of_all (v : Str) (h : v.reverse.dropWhile isSpace = []) : lstrip v = [] := by
  have hall : ∀ a ∈ v, isSpace a = true := by
    intro a ha
    exact dropWhile_nil_all _ _ h a (by simpa using ha)
  exact dropWhile_all _ _ hall

end PydlVerif.Yanny

namespace PydlVerif.Yanny
variable {F : Type}

/-- `strip` of a header line and its first-token split -/
theorem getToken_pairLine (k v : Str) (hne : k ≠ [])
    (hsp : ∀ c ∈ k, isSpace c = false) (hh1 : k.head? ≠ some '"') (hh2 : k.head? ≠ some '{') :
    getToken (strip (k ++ ' ' :: v)) = .ok (k, strip v) := by
  have hns : ∀ a ∈ k, (!isSpace a) = true := by intro a ha; simp [hsp a ha]
  have hl : lstrip (k ++ ' ' :: v) = k ++ ' ' :: v := by
    cases k with
    | nil => exact absurd rfl hne
    | cons c t => exact dropWhile_head_false _ _ _ (hsp c (by simp))
  have hkrev : k.reverse.dropWhile isSpace = k.reverse := by
    apply lstrip_id
    intro c hc
    exact hsp c (by have := List.mem_of_mem_head? hc; simpa using this)
  obtain ⟨c, t, rfl⟩ : ∃ c t, k = c :: t := by
    cases k with
    | nil => exact absurd rfl hne
    | cons c t => exact ⟨c, t, rfl⟩
  have hc1 : c ≠ '"' := by intro e; subst e; simp at hh1
  have hc2 : c ≠ '{' := by intro e; subst e; simp at hh2
  unfold strip
  rw [hl]
  unfold rstrip
  rw [List.reverse_append, List.reverse_cons, List.append_assoc, dropWhile_append_cases]
  by_cases hw : v.reverse.dropWhile isSpace = []
  · -- the value is blank: the line is the key alone
    have hv : lstrip v = [] := rstrip_nil_of_all v hw
    simp only [hw, if_true]
    have e : ([' '] ++ (c :: t).reverse).dropWhile isSpace = (c :: t).reverse := by
      show (' ' :: (c :: t).reverse).dropWhile isSpace = _
      rw [List.dropWhile_cons_of_pos (by decide), hkrev]
    rw [e, List.reverse_reverse, getToken_bare c t hc1 hc2, dropWhile_all _ _ hns, hv]
    rfl
  · simp only [hw, if_false]
    rw [List.reverse_append, List.reverse_append, List.reverse_reverse]
    rw [show (c :: t ++ [' '].reverse ++ (v.reverse.dropWhile isSpace).reverse) =
        c :: (t ++ ' ' :: (v.reverse.dropWhile isSpace).reverse) by simp]
    rw [getToken_bare c _ hc1 hc2]
    have e1 : (c :: (t ++ ' ' :: (v.reverse.dropWhile isSpace).reverse)) =
        (c :: t) ++ ' ' :: (v.reverse.dropWhile isSpace).reverse := rfl
    rw [e1, dropWhile_app_stop _ (c :: t) ' ' _ hns (by decide),
      takeWhile_app_stop _ (c :: t) ' ' _ hns (by decide)]
    have e2 : (' ' :: (v.reverse.dropWhile isSpace).reverse).dropWhile isSpace = lstrip (rstrip v) := by
      rw [List.dropWhile_cons_of_pos (by decide)]; rfl
    simp only [e2, lstrip_rstrip_comm v]
    rfl

theorem trailingComment_nohash (l : Str) (h : '#' ∉ l) : trailingComment l = l := by
  unfold trailingComment
  simp only
  split
  · rename_i hc
    exact absurd (by simpa using hc) h
  · rfl

theorem mem_strip (l : Str) (c : Char) (h : c ∈ strip l) : c ∈ l := by
  unfold strip rstrip lstrip at h
  have h1 : c ∈ (l.dropWhile isSpace).reverse.dropWhile isSpace := by simpa using h
  have h2 := (List.dropWhile_sublist _).subset h1
  have h3 : c ∈ l.dropWhile isSpace := by simpa using h2
  exact (List.dropWhile_sublist _).subset h3

end PydlVerif.Yanny

/-
Helper lemmas for C01 (row level): what a datum is written as, what a written cell looks like,
and reading one written cell back.  Core Lean only.
-/
import PydlVerif.Lemmas.YannyTok
namespace PydlVerif.Yanny

variable {F : Type}

/-- (h1) what the writer prints for a float of width `w` is read back as that float -/
def H1 (io : FloatIO F) : Prop := ∀ w x, io.parseF w (io.fmtF w x) = some x

/-- (h2) the text printed for a float contains no `"`, `{`, `}` and no newline.  (The harness
samples the stronger statement of the design: non-empty, none of blank, tab, `# " { } ;`, newline.) -/
def H2 (io : FloatIO F) : Prop :=
  ∀ w x, ∀ c ∈ io.fmtF w x, c ≠ '"' ∧ c ≠ '{' ∧ c ≠ '}' ∧ c ≠ '\n'

/-- the datum is of the kind the column converts to; a string is in the token domain, and inside
an array additionally has no `}` -/
def scFits (c : Conv) (arr : Bool) : Sc F → Bool
  | .int _ => c == .int
  | .flt w _ => c == .flt w
  | .str s => c == .str && tokOK s && (!arr || !s.contains '}')

def cellFits (col : ColSpec) : Cell F → Bool
  | .one v => !col.isArr && scFits col.conv false v
  | .many vs => col.isArr && !vs.isEmpty && vs.all (scFits col.conv true)

/-- `RowOK`: as many cells as columns, each cell of its column's kind and shape -/
def rowFits : List ColSpec → List (Cell F) → Bool
  | [], [] => true
  | c :: cs, x :: xs => cellFits c x && rowFits cs xs
  | _, _ => false

theorem parseInt_fmtInt (n : Int) : parseInt (fmtInt n) = some n := by
  cases n with
  | ofNat m =>
    have hp := parseNat_fmtNat m
    have hc := fmtNat_chars m
    simp only [fmtInt]
    unfold parseInt
    split
    · rename_i t h
      have := hc '-' (by rw [h]; simp)
      exact absurd this (by decide)
    · rename_i t h
      have := hc '+' (by rw [h]; simp)
      exact absurd this (by decide)
    · simp [hp]
  | negSucc m =>
    simp only [fmtInt, parseInt, parseNat_fmtNat, Option.map]
    rfl

theorem intChar_ne (c : Char) (h : intChar c = true) : c ≠ '"' ∧ c ≠ '{' ∧ c ≠ '}' ∧ c ≠ '\n' := by
  refine ⟨?_, ?_, ?_, ?_⟩ <;> (intro e; subst e; exact absurd h (by decide))

theorem tokOK_of_chars (s : Str) (h : ∀ c ∈ s, c ≠ '"' ∧ c ≠ '{' ∧ c ≠ '\n') : tokOK s = true := by
  simp only [tokOK, Bool.and_eq_true, Bool.not_eq_true', bne_iff_ne, ne_eq]
  refine ⟨⟨?_, ?_⟩, ?_⟩
  · apply Bool.eq_false_iff.mpr
    intro hc
    have : '"' ∈ s := by simpa using hc
    exact (h _ this).1 rfl
  · cases s with
    | nil => simp
    | cons a t =>
      simp only [List.head?_cons, Option.some.injEq]
      exact (h a (by simp)).2.1
  · apply Bool.eq_false_iff.mpr
    intro hc
    have : '\n' ∈ s := by simpa using hc
    exact (h _ this).2.2 rfl

theorem tokOK_chars (s : Str) (h : tokOK s = true) : '"' ∉ s ∧ '\n' ∉ s := by
  simp only [tokOK, Bool.and_eq_true, Bool.not_eq_true'] at h
  refine ⟨?_, ?_⟩
  · intro hm
    have := h.1.1
    simp [hm] at this
  · intro hm
    have := h.2
    simp [hm] at this

/-- the text of a fitting datum is in the token domain -/
theorem scText_ok (io : FloatIO F) (h2 : H2 io) (c : Conv) (arr : Bool) (v : Sc F)
    (hv : scFits c arr v = true) :
    tokOK (scText io v) = true ∧ (arr = true → '}' ∉ scText io v) := by
  cases v with
  | int n =>
    have hc := fmtInt_chars n
    refine ⟨tokOK_of_chars _ (fun c hcm => ?_), fun _ hm => ?_⟩
    · have := intChar_ne c (hc c hcm)
      exact ⟨this.1, this.2.1, this.2.2.2⟩
    · exact (intChar_ne _ (hc _ hm)).2.2.1 rfl
  | flt w x =>
    refine ⟨tokOK_of_chars _ (fun c hcm => ?_), fun _ hm => ?_⟩
    · have := h2 w x c hcm
      exact ⟨this.1, this.2.1, this.2.2.2⟩
    · exact (h2 w x _ hm).2.2.1 rfl
  | str s =>
    simp only [scFits, Bool.and_eq_true, Bool.or_eq_true, Bool.not_eq_true'] at hv
    refine ⟨hv.1.2, fun ha hm => ?_⟩
    rcases hv.2 with h | h
    · rw [ha] at h; cases h
    · have h' : '}' ∉ s := by simpa using h
      exact h' hm

theorem convert_scText (io : FloatIO F) (h1 : H1 io) (c : Conv) (arr : Bool) (v : Sc F)
    (hv : scFits c arr v = true) : convert io c (scText io v) = .ok v := by
  cases v with
  | int n =>
    have : c = .int := by simpa [scFits] using hv
    subst this
    simp [convert, scText, parseInt_fmtInt]
  | flt w x =>
    have : c = .flt w := by simpa [scFits] using hv
    subst this
    simp [convert, scText, h1 w x]
  | str s =>
    simp only [scFits, Bool.and_eq_true] at hv
    have : c = .str := by simpa using hv.1.1
    subst this
    simp [convert, scText]

theorem convertAll_scText (io : FloatIO F) (h1 : H1 io) (c : Conv) (vs : List (Sc F))
    (hv : ∀ v ∈ vs, scFits c true v = true) : convertAll io c (vs.map (scText io)) = .ok vs := by
  induction vs with
  | nil => rfl
  | cons v t ih =>
    simp only [List.map, convertAll, convert_scText io h1 c true v (hv v (by simp)),
      ih (fun x hx => hv x (by simp [hx]))]

/-! ### the shape of a written cell -/

/-- what `getToken` returns for a written cell: the datum text, or the inside of the braces -/
def cellData (io : FloatIO F) : Cell F → Str
  | .one v => scText io v
  | .many vs => joinSp (vs.map (fun v => protect (scText io v)))

theorem body_props (io : FloatIO F) (h2 : H2 io) (c : Conv) (vs : List (Sc F))
    (hne : vs ≠ []) (hv : ∀ v ∈ vs, scFits c true v = true) :
    let body := joinSp (vs.map (fun v => protect (scText io v)))
    body ≠ [] ∧ (∀ x, body.head? = some x → isSpace x = false) ∧ '}' ∉ body ∧ '\n' ∉ body ∧
      good body = true := by
  intro body
  have hmem : ∀ ch ∈ body, ch = ' ' ∨ ch = '"' ∨ ∃ v ∈ vs, ch ∈ scText io v := by
    intro ch hch
    rcases mem_joinSp _ _ hch with h | ⟨a, ha, hc⟩
    · exact Or.inl h
    · obtain ⟨v, hvm, rfl⟩ := List.mem_map.mp ha
      rcases mem_protect _ _ hc with h | h
      · exact Or.inr (Or.inr ⟨v, hvm, h⟩)
      · exact Or.inr (Or.inl h)
  cases vs with
  | nil => exact absurd rfl hne
  | cons v t =>
    refine ⟨?_, ?_, ?_, ?_, ?_⟩
    · exact joinSp_ne_nil _ _ (protect_ne_nil _)
    · intro x hx
      have : body.head? = (protect (scText io v)).head? := joinSp_head _ _ (protect_ne_nil _)
      rw [this] at hx
      exact protect_head _ x hx
    · intro hm
      rcases hmem _ hm with h | h | ⟨w, hw, hc⟩
      · exact absurd h (by decide)
      · exact absurd h (by decide)
      · exact (scText_ok io h2 c true w (hv w hw)).2 rfl hc
    · intro hm
      rcases hmem _ hm with h | h | ⟨w, hw, hc⟩
      · exact absurd h (by decide)
      · exact absurd h (by decide)
      · exact (tokOK_chars _ (scText_ok io h2 c true w (hv w hw)).1).2 hc
    · apply good_joinSp
      intro a ha
      obtain ⟨w, hw, rfl⟩ := List.mem_map.mp ha
      exact good_protect _ (tokOK_chars _ (scText_ok io h2 c true w (hv w hw)).1).1

/-- a written cell: not empty, starts and ends with a non-blank, has no newline, is `good` -/
theorem fmtCell_props (io : FloatIO F) (h2 : H2 io) (col : ColSpec) (x : Cell F)
    (hx : cellFits col x = true) :
    fmtCell io x ≠ [] ∧ (∀ c, (fmtCell io x).head? = some c → isSpace c = false) ∧
    (∀ c, (fmtCell io x).getLast? = some c → isSpace c = false) ∧
    '\n' ∉ fmtCell io x ∧ good (fmtCell io x) = true := by
  cases x with
  | one v =>
    simp only [cellFits, Bool.and_eq_true] at hx
    have hs := scText_ok io h2 col.conv false v hx.2
    refine ⟨protect_ne_nil _, protect_head _, protect_last _, ?_, ?_⟩
    · intro hm
      rcases mem_protect _ _ hm with h | h
      · exact (tokOK_chars _ hs.1).2 h
      · exact absurd h (by decide)
    · exact good_protect _ (tokOK_chars _ hs.1).1
  | many vs =>
    simp only [cellFits, Bool.and_eq_true, Bool.not_eq_true', List.all_eq_true] at hx
    have hne : vs ≠ [] := by
      intro e; subst e; simp at hx
    have hb := body_props io h2 col.conv vs hne hx.2
    simp only at hb
    refine ⟨by simp [fmtCell], ?_, ?_, ?_, ?_⟩
    · intro c hc
      simp [fmtCell] at hc
      subst hc; decide
    · intro c hc
      have : (fmtCell io (.many vs)).getLast? = some '}' := by
        show ('{' :: (joinSp (vs.map (fun v => protect (scText io v))) ++ ['}'])).getLast? = _
        rw [show '{' :: (joinSp (vs.map (fun v => protect (scText io v))) ++ ['}']) =
          ('{' :: joinSp (vs.map (fun v => protect (scText io v)))) ++ ['}'] from rfl,
          List.getLast?_append]
        rfl
      rw [this] at hc
      injection hc with hc; subst hc; decide
    · intro hm
      simp only [fmtCell, List.mem_cons, List.mem_append, List.mem_nil_iff, or_false] at hm
      rcases hm with h | h | h
      · exact absurd h (by decide)
      · exact hb.2.2.2.1 h
      · exact absurd h (by decide)
    · show good ('{' :: (joinSp (vs.map (fun v => protect (scText io v))) ++ ['}'])) = true
      exact good_append ['{'] _ (by decide) (good_append _ ['}'] hb.2.2.2.2 (by decide))

/-- `getToken` on a written cell followed by more text -/
theorem getToken_fmtCell (io : FloatIO F) (h2 : H2 io) (col : ColSpec) (x : Cell F)
    (hx : cellFits col x = true) (rest : Str)
    (hr : ∀ c, rest.head? = some c → isSpace c = false) (hn : '\n' ∉ rest) :
    getToken (fmtCell io x ++ ' ' :: rest) = .ok (cellData io x, rest) := by
  cases x with
  | one v =>
    simp only [cellFits, Bool.and_eq_true] at hx
    exact getToken_protect _ rest (scText_ok io h2 col.conv false v hx.2).1 hr hn
  | many vs =>
    simp only [cellFits, Bool.and_eq_true, Bool.not_eq_true', List.all_eq_true] at hx
    have hne : vs ≠ [] := by
      intro e; subst e; simp at hx
    have hb := body_props io h2 col.conv vs hne hx.2
    simp only at hb
    obtain ⟨_, hhead, hbr, _, _⟩ := hb
    show getToken ('{' :: ((joinSp (vs.map (fun v => protect (scText io v))) ++ ['}']) ++ ' ' :: rest)) = _
    have e : (joinSp (vs.map (fun v => protect (scText io v))) ++ ['}']) ++ ' ' :: rest =
        joinSp (vs.map (fun v => protect (scText io v))) ++ '}' :: ' ' :: rest := by simp
    rw [e]
    have hb' : ∀ a ∈ joinSp (vs.map (fun v => protect (scText io v))), (a != '}') = true := by
      intro a ha
      have : a ≠ '}' := fun e => hbr (e ▸ ha)
      simpa using this
    have hl : (joinSp (vs.map (fun v => protect (scText io v))) ++ '}' :: ' ' :: rest).dropWhile isSpace =
        joinSp (vs.map (fun v => protect (scText io v))) ++ '}' :: ' ' :: rest := by
      apply lstrip_id
      intro c hc
      cases hj : joinSp (vs.map (fun v => protect (scText io v))) with
      | nil =>
        rw [hj] at hc
        simp at hc; subst hc; decide
      | cons a t =>
        rw [hj] at hc
        simp at hc
        exact hhead c (by rw [hj]; simp [hc])
    unfold getToken
    simp only [hl]
    rw [dropWhile_app_stop _ _ '}' _ hb' (by decide), takeWhile_app_stop _ _ '}' _ hb' (by decide)]
    have e2 : (' ' :: rest).dropWhile isSpace = rest := by
      rw [List.dropWhile_cons_of_pos (by decide)]
      exact lstrip_id rest hr
    simp only [e2, restOfLine_id rest hn, cellData]

/-- `getToken` on a written cell at the end of the line -/
theorem getToken_fmtCell_last (io : FloatIO F) (h2 : H2 io) (col : ColSpec) (x : Cell F)
    (hx : cellFits col x = true) : getToken (fmtCell io x) = .ok (cellData io x, []) := by
  cases x with
  | one v =>
    simp only [cellFits, Bool.and_eq_true] at hx
    exact getToken_protect_last _ (scText_ok io h2 col.conv false v hx.2).1
  | many vs =>
    simp only [cellFits, Bool.and_eq_true, Bool.not_eq_true', List.all_eq_true] at hx
    have hne : vs ≠ [] := by
      intro e; subst e; simp at hx
    have hb := body_props io h2 col.conv vs hne hx.2
    simp only at hb
    obtain ⟨_, hhead, hbr, _, _⟩ := hb
    show getToken ('{' :: (joinSp (vs.map (fun v => protect (scText io v))) ++ ['}'])) = _
    have hb' : ∀ a ∈ joinSp (vs.map (fun v => protect (scText io v))), (a != '}') = true := by
      intro a ha
      have : a ≠ '}' := fun e => hbr (e ▸ ha)
      simpa using this
    have hl : (joinSp (vs.map (fun v => protect (scText io v))) ++ ['}']).dropWhile isSpace =
        joinSp (vs.map (fun v => protect (scText io v))) ++ ['}'] := by
      apply lstrip_id
      intro c hc
      cases hj : joinSp (vs.map (fun v => protect (scText io v))) with
      | nil =>
        rw [hj] at hc
        simp at hc; subst hc; decide
      | cons a t =>
        rw [hj] at hc
        simp at hc
        exact hhead c (by rw [hj]; simp [hc])
    unfold getToken
    simp only [hl]
    rw [dropWhile_app_stop _ _ '}' [] hb' (by decide), takeWhile_app_stop _ _ '}' [] hb' (by decide)]
    rfl

/-- reading the token of a written cell back -/
theorem parseCell_cellData (io : FloatIO F) (h1 : H1 io) (h2 : H2 io) (col : ColSpec) (x : Cell F)
    (hx : cellFits col x = true) : parseCell io col (cellData io x) = .ok x := by
  cases x with
  | one v =>
    simp only [cellFits, Bool.and_eq_true, Bool.not_eq_true'] at hx
    simp only [parseCell, hx.1, Bool.false_eq_true, if_false, cellData,
      convert_scText io h1 col.conv false v hx.2]
  | many vs =>
    simp only [cellFits, Bool.and_eq_true, Bool.not_eq_true', List.all_eq_true] at hx
    have hne : vs ≠ [] := by
      intro e; subst e; simp at hx
    have hts : ∀ t ∈ vs.map (scText io), tokOK t = true := by
      intro t ht
      obtain ⟨v, hv, rfl⟩ := List.mem_map.mp ht
      exact (scText_ok io h2 col.conv true v (hx.2 v hv)).1
    have e : joinSp (vs.map (fun v => protect (scText io v))) = joinSp ((vs.map (scText io)).map protect) := by
      rw [List.map_map]; rfl
    simp only [parseCell, hx.1.1, if_true, cellData, e,
      arrayTokens_protect _ hts (by simpa using hne), convertAll_scText io h1 col.conv vs hx.2]

end PydlVerif.Yanny

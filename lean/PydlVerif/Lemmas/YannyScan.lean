/-
C01, file level: scanning a written struct text.
  typeSearch_struct      `re.search(r'(\S+)\s+VAR([\[<].*[\]>]|);', text).groups()` finds the member's own line
  columnsOf_structBody   `re.findall(r'\S+\s+\S+;', body)` + `stripArr` gives the column names
Core Lean only.
-/
import PydlVerif.Lemmas.YannyShape
namespace PydlVerif.YannyRT
open PydlVerif.Yanny

/-! ### characters -/

theorem scan_space_not_word (c : Char) (h : isSpace c = true) : isWordCh c = false := by
  simp only [isSpace, Bool.or_eq_true, beq_iff_eq] at h
  rcases h with ((((((((((h | h) | h) | h) | h) | h) | h) | h) | h) | h) | h) | h <;> subst h <;> decide

theorem scan_word_not_space (c : Char) (h : isWordCh c = true) : isSpace c = false := by
  cases hs : isSpace c with
  | false => rfl
  | true => rw [scan_space_not_word c hs] at h; cases h

theorem scan_word_ne (c d : Char) (h : isWordCh c = true) (hd : isWordCh d = false) : c ≠ d := by
  intro e; subst e; rw [h] at hd; cases hd

theorem scan_word_nonSp (c : Char) (h : isWordCh c = true) : nonSp c = true := by
  simp [nonSp, scan_word_not_space c h]

theorem scan_word_not_open (c : Char) (h : isWordCh c = true) : isOpenB c = false := by
  have h1 := scan_word_ne c '[' h (by decide)
  have h2 := scan_word_ne c '<' h (by decide)
  simp [isOpenB, h1, h2]

theorem scan_word_not_close (c : Char) (h : isWordCh c = true) : isCloseB c = false := by
  have h1 := scan_word_ne c ']' h (by decide)
  have h2 := scan_word_ne c '>' h (by decide)
  simp [isCloseB, h1, h2]

theorem scan_digit_word (c : Char) (h : c.isDigit = true) : isWordCh c = true := by
  simp [isWordCh, Char.isAlphanum, h]

/-- a character of an array suffix: `[`, `]` or a digit -/
def arrCh (c : Char) : Prop := c = '[' ∨ c = ']' ∨ c.isDigit = true

theorem scan_arr_nonSp (c : Char) (h : arrCh c) : nonSp c = true := by
  rcases h with h | h | h
  · subst h; decide
  · subst h; decide
  · exact scan_word_nonSp c (scan_digit_word c h)

theorem scan_arr_ne_semi (c : Char) (h : arrCh c) : c ≠ ';' := by
  rcases h with h | h | h
  · subst h; decide
  · subst h; decide
  · exact scan_word_ne c ';' (scan_digit_word c h) (by decide)

theorem scan_arr_ne_nl (c : Char) (h : arrCh c) : c ≠ '\n' := by
  rcases h with h | h | h
  · subst h; decide
  · subst h; decide
  · exact scan_word_ne c '\n' (scan_digit_word c h) (by decide)

/-! ### lists -/

theorem scan_dropWhile_app_all {α} (p : α → Bool) (l₁ l₂ : List α) (h : ∀ a ∈ l₁, p a = true) :
    (l₁ ++ l₂).dropWhile p = l₂.dropWhile p := by
  induction l₁ with
  | nil => rfl
  | cons a t ih =>
    have ha : p a = true := h a (by simp)
    simp [ha]
    exact ih (fun x hx => h x (by simp [hx]))

theorem scan_dropLast_getLast {α} (l : List α) (a : α) (h : l.getLast? = some a) : l.dropLast ++ [a] = l := by
  have hne : l ≠ [] := by intro e; subst e; cases h
  have := List.dropLast_concat_getLast hne
  rw [List.getLast?_eq_some_getLast hne] at h
  injection h with h
  rw [h] at this; exact this

/-! ### `stripPrefix` and `arrTail` -/

theorem stripPrefix_self_app (n rest : Str) : stripPrefix n (n ++ rest) = some rest := by
  induction n with
  | nil => cases rest <;> rfl
  | cons a t ih => simp [stripPrefix, ih]

theorem arrTail_head_none (c : Char) (t : Str) (h1 : isOpenB c = false) (h2 : c ≠ ';') :
    arrTail (c :: t) = none := by
  simp [arrTail, h1, h2]

/-- (L1 + L2) the test `VAR([\[<].*[\]>]|);` fails at a word `N` followed by `c` when `N` is not
`VAR`, or when `c` is none of `[`, `<`, `;` -/
theorem strip_arrTail_none (var N : Str) (c : Char) (rest : Str)
    (hv : ∀ x ∈ var, isWordCh x = true) (hN : ∀ x ∈ N, isWordCh x = true) (hc : isWordCh c = false)
    (h : var ≠ N ∨ (isOpenB c = false ∧ c ≠ ';')) (tail : Str)
    (hs : stripPrefix var (N ++ c :: rest) = some tail) : arrTail tail = none := by
  induction N generalizing var with
  | nil =>
    cases var with
    | nil =>
      rcases h with h | h
      · exact absurd rfl h
      · simp [stripPrefix] at hs; subst hs; exact arrTail_head_none c rest h.1 h.2
    | cons p ps =>
      have hp := scan_word_ne p c (hv p (by simp)) hc
      simp [stripPrefix, hp] at hs
  | cons x N' ih =>
    have hx : isWordCh x = true := hN x (by simp)
    cases var with
    | nil =>
      simp [stripPrefix] at hs; subst hs
      exact arrTail_head_none x _ (scan_word_not_open x hx) (scan_word_ne x ';' hx (by decide))
    | cons p ps =>
      simp only [List.cons_append, stripPrefix] at hs
      split at hs
      · rename_i hpx
        have hpx' : p = x := by simpa using hpx
        apply ih ps (fun y hy => hv y (by simp [hy])) (fun y hy => hN y (by simp [hy])) _ hs
        rcases h with h | h
        · left; intro e; apply h; rw [hpx', e]
        · right; exact h
      · cases hs

theorem lastCloseAux_end (B : Str) (i : Nat) (best : Option Nat) (h : 1 ≤ i + B.length) :
    lastCloseAux (B ++ [']', ';']) i best = some (i + B.length) := by
  induction B generalizing i best with
  | nil =>
    have hi : 1 ≤ i := by simpa using h
    simp [lastCloseAux, isCloseB, hi]
  | cons b B' ih =>
    simp only [List.cons_append, lastCloseAux]
    rw [ih]
    · simp; omega
    · simp at h ⊢; omega

/-- (L4) `([\[<].*[\]>]|);` at an array suffix that ends its line -/
theorem arrTail_arr (A rest : Str) (hA : arrOK A) : arrTail (A ++ ';' :: '\n' :: rest) = some A := by
  rcases hA with ⟨h1, h2⟩
  rcases h1 with h1 | ⟨hh, hl⟩
  · subst h1; simp [arrTail, isOpenB]
  · have hd : A.dropLast ++ [']'] = A := scan_dropLast_getLast A ']' hl
    cases hA' : A with
    | nil => rw [hA'] at hh; cases hh
    | cons a A' =>
      have ha : a = '[' := by rw [hA'] at hh; simpa using hh
      subst ha
      have hline : (('[' :: A') ++ ';' :: '\n' :: rest).takeWhile (· != '\n') = ('[' :: A') ++ [';'] := by
        have : ('[' :: A') ++ ';' :: '\n' :: rest = (('[' :: A') ++ [';']) ++ '\n' :: rest := by simp
        rw [this]
        apply takeWhile_app_stop
        · intro x hx
          rw [← hA'] at hx
          simp only [List.mem_append, List.mem_singleton] at hx
          rcases hx with hx | hx
          · have := scan_arr_ne_nl x (h2 x hx); simp [this]
          · subst hx; decide
        · decide
      have hB : 1 ≤ A.dropLast.length := by
        cases hdl : A.dropLast with
        | nil => rw [hdl, hA'] at hd; simp at hd
        | cons _ _ => simp
      have hlc : lastCloseAux (('[' :: A') ++ [';']) 0 none = some (A.dropLast.length) := by
        rw [← hA']
        have : A ++ [';'] = A.dropLast ++ [']', ';'] := by
          conv => lhs; rw [← hd]
          simp
        rw [this, lastCloseAux_end _ _ _ (by omega)]; simp
      have htake : (('[' :: A') ++ [';']).take (A.dropLast.length + 1) = '[' :: A' := by
        rw [← hA']
        have hlen : A.dropLast.length + 1 = A.length := by
          conv => rhs; rw [← hd]
          simp
        rw [hlen]; simp
      show arrTail ('[' :: (A' ++ ';' :: '\n' :: rest)) = _
      unfold arrTail
      simp only [isOpenB, beq_self_eq_true, Bool.true_or, if_true]
      rw [← List.cons_append, hline, hlc]
      simp only [htake]

/-! ### the scan of `typeSearchAux`, independent of the fuel -/

/-- with enough fuel the search on `s` gives `res` -/
def Finds (var s : Str) (res : Option (Str × Str)) : Prop :=
  ∀ fuel, s.length < fuel → typeSearchAux var fuel s = res

theorem finds_blanks (var ws t : Str) (res : Option (Str × Str)) (hws : ∀ c ∈ ws, isSpace c = true)
    (h : Finds var t res) : Finds var (ws ++ t) res := by
  induction ws with
  | nil => exact h
  | cons c ws' ih =>
    intro fuel hf
    cases fuel with
    | zero => cases hf
    | succ f =>
      have hc : isSpace c = true := hws c (by simp)
      simp only [List.cons_append, typeSearchAux, hc, if_true]
      apply ih (fun x hx => hws x (by simp [hx]))
      simp at hf ⊢; omega

/-- the two words and the blanks between them, as `typeSearchAux` splits the text -/
theorem scan_split (w bl r' : Str) (hw : ∀ c ∈ w, nonSp c = true)
    (hbl : bl ≠ []) (hbs : ∀ c ∈ bl, isSpace c = true) (hr : ∀ c, r'.head? = some c → isSpace c = false) :
    (w ++ bl ++ r').takeWhile nonSp = w ∧ (w ++ bl ++ r').dropWhile nonSp = bl ++ r' ∧
    (bl ++ r').dropWhile isSpace = r' := by
  cases bl with
  | nil => exact absurd rfl hbl
  | cons b bl' =>
    have hb : nonSp b = false := by simp [nonSp, hbs b (by simp)]
    refine ⟨?_, ?_, ?_⟩
    · rw [List.append_assoc, List.cons_append]; exact takeWhile_app_stop _ _ _ _ hw hb
    · rw [List.append_assoc, List.cons_append]; exact dropWhile_app_stop _ _ _ _ hw hb
    · rw [scan_dropWhile_app_all _ _ _ hbs]; exact lstrip_id _ hr

theorem finds_word_fail (var w bl r' : Str) (res : Option (Str × Str))
    (hne : w ≠ []) (hw : ∀ c ∈ w, nonSp c = true)
    (hbl : bl ≠ []) (hbs : ∀ c ∈ bl, isSpace c = true) (hr : ∀ c, r'.head? = some c → isSpace c = false)
    (hfail : ∀ tail, stripPrefix var r' = some tail → arrTail tail = none)
    (h : Finds var r' res) : Finds var (w ++ bl ++ r') res := by
  intro fuel hf
  obtain ⟨_, h2, h3⟩ := scan_split w bl r' hw hbl hbs hr
  cases fuel with
  | zero => cases hf
  | succ f =>
    cases hw' : w with
    | nil => exact absurd hw' hne
    | cons c w' =>
      have hc : isSpace c = false := by
        have := hw c (by rw [hw']; simp)
        simpa [nonSp] using this
      rw [hw'] at h2 hf
      have hblne : (bl ++ r').isEmpty = false := by
        cases bl with
        | nil => exact absurd rfl hbl
        | cons _ _ => rfl
      have hlen : r'.length < f := by
        have : 1 ≤ bl.length := by
          cases bl with
          | nil => exact absurd rfl hbl
          | cons _ _ => simp
        simp at hf; omega
      simp only [List.cons_append, List.append_assoc] at h2 ⊢
      simp only [typeSearchAux, hc, Bool.false_eq_true, if_false, h2, hblne, h3]
      cases hsp : stripPrefix var r' with
      | none => exact h f hlen
      | some tail => simp only [hfail tail hsp]; exact h f hlen

theorem finds_word_ok (var w bl r' tail a : Str)
    (hne : w ≠ []) (hw : ∀ c ∈ w, nonSp c = true)
    (hbl : bl ≠ []) (hbs : ∀ c ∈ bl, isSpace c = true) (hr : ∀ c, r'.head? = some c → isSpace c = false)
    (hsp : stripPrefix var r' = some tail) (ha : arrTail tail = some a) :
    Finds var (w ++ bl ++ r') (some (w, a)) := by
  intro fuel hf
  obtain ⟨h1, h2, h3⟩ := scan_split w bl r' hw hbl hbs hr
  cases fuel with
  | zero => cases hf
  | succ f =>
    cases hw' : w with
    | nil => exact absurd hw' hne
    | cons c w' =>
      have hc : isSpace c = false := by
        have := hw c (by rw [hw']; simp)
        simpa [nonSp] using this
      rw [hw'] at h1 h2
      have hblne : (bl ++ r').isEmpty = false := by
        cases bl with
        | nil => exact absurd rfl hbl
        | cons _ _ => rfl
      simp only [List.cons_append, List.append_assoc] at h1 h2 ⊢
      simp only [typeSearchAux, hc, Bool.false_eq_true, if_false, h1, h2, hblne, h3, hsp, ha]

/-! ### walking over the member lines -/

theorem memberLine_app (m : Str × Str × Str) (rest : Str) :
    memberLine m ++ rest = "\n    ".toList ++ (m.1 ++ [' '] ++ (m.2.1 ++ (m.2.2 ++ ';' :: rest))) := by
  unfold memberLine
  generalize "\n    ".toList = ind
  simp only [List.append_assoc, List.cons_append, List.nil_append]

theorem wordy_head (T R : Str) (hT : wordy T) : ∀ c, (T ++ R).head? = some c → isSpace c = false := by
  intro c hc
  cases hT' : T with
  | nil => exact absurd hT' hT.1
  | cons a t =>
    rw [hT'] at hc; simp at hc; subst hc
    exact scan_word_not_space _ (hT.2 _ (by rw [hT']; simp))

theorem wordy_nonSp (T : Str) (hT : wordy T) : ∀ c ∈ T, nonSp c = true :=
  fun c hc => scan_word_nonSp c (hT.2 c hc)

theorem arr_head (A X : Str) (hA : arrOK A) : ∃ c rest, A ++ ';' :: X = c :: rest ∧ isWordCh c = false := by
  cases hA' : A with
  | nil => exact ⟨';', X, rfl, by decide⟩
  | cons a A' =>
    refine ⟨a, A' ++ ';' :: X, rfl, ?_⟩
    rcases hA.1 with h | ⟨h, _⟩
    · rw [hA'] at h; cases h
    · rw [hA'] at h; simp at h; subst h; decide

/-- from the end of any word into the type word of the next member line -/
theorem finds_enter (var w0 T R : Str) (res : Option (Str × Str)) (hv : ∀ x ∈ var, isWordCh x = true)
    (hne : w0 ≠ []) (hw0 : ∀ c ∈ w0, nonSp c = true) (hT : wordy T)
    (h : Finds var (T ++ [' '] ++ R) res) : Finds var (w0 ++ "\n    ".toList ++ (T ++ [' '] ++ R)) res := by
  apply finds_word_fail var w0 _ _ res hne hw0 (by decide) (by decide) _ _ h
  · rw [List.append_assoc]; exact wordy_head T _ hT
  · intro tail hs
    rw [List.append_assoc] at hs
    exact strip_arrTail_none var T ' ' R hv hT.2 (by decide) (Or.inr ⟨by decide, by decide⟩) tail hs

theorem scan_members (var : Str) (hv : ∀ x ∈ var, isWordCh x = true) (pre : List (Str × Str × Str))
    (m : Str × Str × Str) (post w0 : Str) (hne : w0 ≠ []) (hw0 : ∀ c ∈ w0, nonSp c = true)
    (hpre : ∀ p ∈ pre, memOK p ∧ p.2.1 ≠ var) (hm : memOK m) (hmv : m.2.1 = var) :
    Finds var (w0 ++ (pre.map memberLine).flatten ++ memberLine m ++ '\n' :: post) (some (m.1, m.2.2)) := by
  induction pre generalizing w0 with
  | nil =>
    have e : w0 ++ (([] : List (Str × Str × Str)).map memberLine).flatten ++ memberLine m ++ '\n' :: post
        = w0 ++ "\n    ".toList ++ (m.1 ++ [' '] ++ (m.2.1 ++ (m.2.2 ++ ';' :: '\n' :: post))) := by
      rw [List.append_assoc, memberLine_app]; simp
    rw [e]
    apply finds_enter var w0 _ _ _ hv hne hw0 hm.1
    apply finds_word_ok var m.1 [' '] _ (m.2.2 ++ ';' :: '\n' :: post) m.2.2 hm.1.1 (wordy_nonSp _ hm.1)
      (by decide) (by decide) (wordy_head _ _ hm.2.1)
    · rw [← hmv]; exact stripPrefix_self_app _ _
    · exact arrTail_arr _ _ hm.2.2
  | cons p pre' ih =>
    obtain ⟨hp, hpv⟩ := hpre p (by simp)
    have e : w0 ++ ((p :: pre').map memberLine).flatten ++ memberLine m ++ '\n' :: post
        = w0 ++ "\n    ".toList ++ (p.1 ++ [' '] ++ (p.2.1 ++ (p.2.2 ++ ';' ::
            ((pre'.map memberLine).flatten ++ memberLine m ++ '\n' :: post)))) := by
      simp only [List.map_cons, List.flatten_cons, List.append_assoc]
      rw [memberLine_app]; simp
    rw [e]
    apply finds_enter var w0 _ _ _ hv hne hw0 hp.1
    have e2 : p.2.1 ++ (p.2.2 ++ ';' :: ((pre'.map memberLine).flatten ++ memberLine m ++ '\n' :: post))
        = (p.2.1 ++ p.2.2 ++ [';']) ++ (pre'.map memberLine).flatten ++ memberLine m ++ '\n' :: post := by
      simp
    apply finds_word_fail var p.1 [' '] _ _ hp.1.1 (wordy_nonSp _ hp.1) (by decide) (by decide)
      (wordy_head _ _ hp.2.1)
    · intro tail hs
      obtain ⟨c, rest, hc, hcw⟩ := arr_head p.2.2
        ((pre'.map memberLine).flatten ++ memberLine m ++ '\n' :: post) hp.2.2
      rw [hc] at hs
      exact strip_arrTail_none var p.2.1 c rest hv hp.2.1.2 hcw (Or.inl (fun e => hpv e.symm)) tail hs
    · rw [e2]
      apply ih
      · simp
      · intro c hc
        simp only [List.mem_append, List.mem_singleton] at hc
        rcases hc with (hc | hc) | hc
        · exact scan_word_nonSp c (hp.2.1.2 c hc)
        · exact scan_arr_nonSp c (hp.2.2.2 c hc)
        · subst hc; decide
      · intro q hq; exact hpre q (by simp [hq])

/-- what follows a member line of a struct body starts with a newline -/
theorem after_member (post : List (Str × Str × Str)) (X : Str) :
    ∃ post', (post.map memberLine).flatten ++ '\n' :: X = '\n' :: post' := by
  cases post with
  | nil => exact ⟨X, rfl⟩
  | cons q qs =>
    have hind : "\n    ".toList = '\n' :: "    ".toList := by decide
    simp only [List.map_cons, List.flatten_cons, List.append_assoc]
    rw [memberLine_app, hind]
    exact ⟨_, rfl⟩

/-- Goal 1: `re.search(r'(\S+)\s+VAR([\[<].*[\]>]|);', text).groups()` on a written struct finds the
line of the member called `VAR` -/
theorem typeSearch_struct (ms : List (Str × Str × Str)) (NAME : Str) (hms : ∀ m ∈ ms, memOK m)
    (hnd : (ms.map (fun m => m.2.1)).Nodup) (m : Str × Str × Str) (hm : m ∈ ms) :
    typeSearch m.2.1 (blockText "struct".toList (structBody ms) NAME) = some (m.1, m.2.2) := by
  obtain ⟨pre, post, rfl⟩ := List.append_of_mem hm
  have hmk : memOK m := hms m hm
  have hpre : ∀ p ∈ pre, memOK p ∧ p.2.1 ≠ m.2.1 := by
    intro p hp
    refine ⟨hms p (by simp [hp]), ?_⟩
    rw [List.map_append, List.nodup_append] at hnd
    exact hnd.2.2 p.2.1 (List.mem_map.mpr ⟨p, hp, rfl⟩) m.2.1 (by simp)
  obtain ⟨post', hpost'⟩ := after_member post ("} ".toList ++ (NAME ++ [';']))
  have h1 : "typedef ".toList = "typedef".toList ++ [' '] := by decide
  have h2 : " {".toList = [' ', '{'] := by decide
  have e : blockText "struct".toList (structBody (pre ++ m :: post)) NAME
      = "typedef".toList ++ [' '] ++ ("struct".toList ++ [' '] ++
          (['{'] ++ (pre.map memberLine).flatten ++ memberLine m ++ '\n' :: post')) := by
    unfold blockText structBody
    rw [h1, h2, ← hpost']
    generalize "typedef".toList = td
    generalize "struct".toList = st
    generalize "} ".toList = cl
    simp only [List.map_append, List.map_cons, List.flatten_append, List.flatten_cons, List.append_assoc,
      List.cons_append, List.nil_append]
  unfold typeSearch
  rw [e]
  have hst : wordy "struct".toList := ⟨by decide, by decide⟩
  have hF : Finds m.2.1 ("typedef".toList ++ [' '] ++ ("struct".toList ++ [' '] ++
          (['{'] ++ (pre.map memberLine).flatten ++ memberLine m ++ '\n' :: post'))) (some (m.1, m.2.2)) := by
    apply finds_word_fail m.2.1 "typedef".toList [' '] _ _ (by decide) (by decide) (by decide) (by decide)
    · rw [List.append_assoc]; exact wordy_head _ _ hst
    · intro tail hs
      rw [List.append_assoc] at hs
      exact strip_arrTail_none m.2.1 "struct".toList ' ' _ hmk.2.1.2 hst.2 (by decide)
        (Or.inr ⟨by decide, by decide⟩) tail hs
    · apply finds_word_fail m.2.1 "struct".toList [' '] _ _ hst.1 (wordy_nonSp _ hst) (by decide) (by decide)
      · intro c hc
        simp only [List.append_assoc, List.cons_append, List.nil_append, List.head?_cons,
          Option.some.injEq] at hc
        subst hc; decide
      · intro tail hs
        simp only [List.append_assoc, List.cons_append, List.nil_append] at hs
        exact strip_arrTail_none m.2.1 [] '{' _ hmk.2.1.2 (by simp) (by decide)
          (Or.inr ⟨by decide, by decide⟩) tail hs
      · exact scan_members m.2.1 hmk.2.1.2 pre m post' ['{'] (by simp) (by decide) hpre hmk rfl
  exact hF _ (Nat.lt_succ_self _)

/-! ### `bodyDefs` on a struct body -/

/-- with enough fuel `bodyDefsAux` on `s` gives `res` -/
def Defs (s : Str) (res : List (Str × Str)) : Prop :=
  ∀ fuel, s.length < fuel → bodyDefsAux fuel s = res

theorem defs_nil : Defs [] [] := by
  intro fuel _
  cases fuel <;> rfl

theorem defs_blanks (ws t : Str) (res : List (Str × Str)) (hws : ∀ c ∈ ws, isSpace c = true)
    (h : Defs t res) : Defs (ws ++ t) res := by
  induction ws with
  | nil => exact h
  | cons c ws' ih =>
    intro fuel hf
    cases fuel with
    | zero => cases hf
    | succ f =>
      have hc : isSpace c = true := hws c (by simp)
      simp only [List.cons_append, bodyDefsAux, hc, if_true]
      apply ih (fun x hx => hws x (by simp [hx]))
      simp at hf ⊢; omega

theorem lastSemiAux_end (u : Str) (i : Nat) (best : Option Nat) (h : 1 ≤ i + u.length) :
    lastSemiAux (u ++ [';']) i best = some (i + u.length) := by
  induction u generalizing i best with
  | nil =>
    have hi : 1 ≤ i := by simpa using h
    simp [lastSemiAux, hi]
  | cons b u' ih =>
    simp only [List.cons_append, lastSemiAux]
    rw [ih]
    · simp; omega
    · simp at h ⊢; omega

theorem noSemi_id (s : Str) (h : ∀ c ∈ s, c ≠ ';') : noSemi s = s := by
  unfold noSemi
  rw [List.filter_eq_self]
  intro c hc
  simp [h c hc]

/-- one match of `\S+\s+\S+;`: a word, blanks, a word `u;` that ends at a blank -/
theorem defs_pair (w bl u : Str) (b : Char) (rest : Str) (res : List (Str × Str))
    (hne : w ≠ []) (hw : ∀ c ∈ w, nonSp c = true)
    (hbl : bl ≠ []) (hbs : ∀ c ∈ bl, isSpace c = true)
    (hune : u ≠ []) (hu : ∀ c ∈ u, nonSp c = true) (hb : isSpace b = true)
    (h : Defs (b :: rest) res) :
    Defs (w ++ bl ++ (u ++ ';' :: b :: rest)) ((noSemi w, noSemi u) :: res) := by
  intro fuel hf
  have hr : ∀ c, (u ++ ';' :: b :: rest).head? = some c → isSpace c = false := by
    intro c hc
    cases hu' : u with
    | nil => exact absurd hu' hune
    | cons a t =>
      rw [hu'] at hc; simp at hc; subst hc
      have := hu a (by rw [hu']; simp)
      simpa [nonSp] using this
  obtain ⟨h1, h2, h3⟩ := scan_split w bl _ hw hbl hbs hr
  have hw2 : (u ++ ';' :: b :: rest).takeWhile nonSp = u ++ [';'] := by
    have : u ++ ';' :: b :: rest = (u ++ [';']) ++ b :: rest := by simp
    rw [this]
    apply takeWhile_app_stop
    · intro x hx
      simp only [List.mem_append, List.mem_singleton] at hx
      rcases hx with hx | hx
      · exact hu x hx
      · subst hx; decide
    · simp [nonSp, hb]
  have hul : 1 ≤ u.length := by
    cases u with
    | nil => exact absurd rfl hune
    | cons _ _ => simp
  have hls : lastSemi (u ++ [';']) = some u.length := by
    unfold lastSemi
    rw [lastSemiAux_end _ _ _ (by omega)]; simp
  cases fuel with
  | zero => cases hf
  | succ f =>
    cases hw' : w with
    | nil => exact absurd hw' hne
    | cons c w' =>
      have hc : isSpace c = false := by
        have := hw c (by rw [hw']; simp)
        simpa [nonSp] using this
      rw [hw'] at h1 h2 hf
      have hblne : (bl ++ (u ++ ';' :: b :: rest)).isEmpty = false := by
        cases bl with
        | nil => exact absurd rfl hbl
        | cons _ _ => rfl
      have hlen : (b :: rest).length < f := by
        simp at hf ⊢; omega
      have htake : (u ++ [';']).take u.length = u := by simp
      have hdrop : (u ++ ';' :: b :: rest).drop (u.length + 1) = b :: rest := by
        have : u ++ ';' :: b :: rest = (u ++ [';']) ++ b :: rest := by simp
        rw [this, List.drop_left' (by simp)]
      simp only [List.cons_append, List.append_assoc] at h1 h2 ⊢
      simp only [bodyDefsAux, hc, Bool.false_eq_true, if_false, h1, h2, hblne, h3, hw2, hls, htake, hdrop]
      rw [h f hlen]

theorem bodyDefs_structBody (ms : List (Str × Str × Str)) (hms : ∀ m ∈ ms, memOK m) :
    Defs (structBody ms) (ms.map (fun m => (m.1, m.2.1 ++ m.2.2))) := by
  unfold structBody
  induction ms with
  | nil =>
    exact defs_blanks ['\n'] [] [] (by decide) defs_nil
  | cons m ms' ih =>
    have hmk := hms m (by simp)
    obtain ⟨rest, hrest⟩ := after_member ms' []
    have e : ((m :: ms').map memberLine).flatten ++ ['\n']
        = "\n    ".toList ++ (m.1 ++ [' '] ++ ((m.2.1 ++ m.2.2) ++ ';' :: '\n' :: rest)) := by
      simp only [List.map_cons, List.flatten_cons, List.append_assoc]
      rw [memberLine_app, hrest]
      simp only [List.append_assoc]
    rw [e]
    apply defs_blanks _ _ _ (by decide)
    have hT : ∀ c ∈ m.1, c ≠ ';' := fun c hc => scan_word_ne c ';' (hmk.1.2 c hc) (by decide)
    have hNA : ∀ c ∈ m.2.1 ++ m.2.2, c ≠ ';' := by
      intro c hc
      rcases List.mem_append.mp hc with hc | hc
      · exact scan_word_ne c ';' (hmk.2.1.2 c hc) (by decide)
      · exact scan_arr_ne_semi c (hmk.2.2.2 c hc)
    have := defs_pair m.1 [' '] (m.2.1 ++ m.2.2) '\n' rest (ms'.map (fun m => (m.1, m.2.1 ++ m.2.2)))
      hmk.1.1 (wordy_nonSp _ hmk.1) (by decide) (by decide)
      (by intro e; exact hmk.2.1.1 (List.append_eq_nil_iff.mp e).1)
      (by
        intro c hc
        rcases List.mem_append.mp hc with hc | hc
        · exact scan_word_nonSp c (hmk.2.1.2 c hc)
        · exact scan_arr_nonSp c (hmk.2.2.2 c hc))
      (by decide)
      (by rw [← hrest]; exact ih (fun q hq => hms q (by simp [hq])))
    rw [noSemi_id _ hT, noSemi_id _ hNA] at this
    simpa using this

theorem stripArr_name (N A : Str) (hN : wordy N) (hA : arrOK A) : stripArr (N ++ A) = N := by
  rcases hA.1 with h | ⟨hh, hl⟩
  · subst h
    rw [List.append_nil]
    unfold stripArr
    cases hr : N.reverse with
    | nil => rfl
    | cons l t =>
      have hl : isWordCh l = true := hN.2 l (by
        have : l ∈ N.reverse := by rw [hr]; simp
        simpa using this)
      simp [scan_word_not_close l hl]
  · cases hA' : A with
    | nil => rw [hA'] at hh; cases hh
    | cons a A' =>
      have ha : a = '[' := by rw [hA'] at hh; simpa using hh
      subst ha
      have hd : A.dropLast ++ [']'] = A := scan_dropLast_getLast A ']' hl
      have hrev : (N ++ '[' :: A').reverse = ']' :: (N ++ A.dropLast).reverse := by
        rw [← hA', ← hd]; simp
      have hany : (N ++ '[' :: A').any isOpenB = true := by
        simp [isOpenB]
      have htw : (N ++ '[' :: A').takeWhile (fun c => !isOpenB c) = N := by
        apply takeWhile_app_stop
        · intro x hx; simp [scan_word_not_open x (hN.2 x hx)]
        · decide
      unfold stripArr
      rw [hrev]
      simp only [hany, htw]
      simp [isCloseB]

/-- Goal 2: the column list `_parse` extracts from a written struct body -/
theorem columnsOf_structBody (ms : List (Str × Str × Str)) (hms : ∀ m ∈ ms, memOK m) :
    columnsOf (structBody ms) = ms.map (fun m => m.2.1) := by
  unfold columnsOf bodyDefs
  rw [bodyDefs_structBody ms hms _ (Nat.lt_succ_self _), List.map_map]
  apply List.map_congr_left
  intro m hm
  exact stripArr_name _ _ (hms m hm).2.1 (hms m hm).2.2

end PydlVerif.YannyRT

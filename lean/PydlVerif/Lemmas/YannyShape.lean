/-
C01, file level: the shape of the definitions the writer emits, as plain text functions
(no `Except`), shared by the lemma files of the file-level round trip
(YannyFront: front half of `_parse`; YannyScan: scanning a written struct text;
 YannyTyping: typing functions on the written type; YannyGlue: line loop and record arrays).
-/
import PydlVerif.Lemmas.YannyPair
namespace PydlVerif.YannyRT
open PydlVerif.Yanny

/-- `typedef K {body} NAME;` -/
def blockText (K body name : Str) : Str :=
  "typedef ".toList ++ K ++ " {".toList ++ body ++ "} ".toList ++ name ++ [';']

/-- one member of a struct body, with the newline that precedes it: `\n    T N A;`
(`m = (T, N, A)`: type word, column name, array suffix) -/
def memberLine (m : Str × Str × Str) : Str :=
  "\n    ".toList ++ m.1 ++ ' ' :: m.2.1 ++ m.2.2 ++ [';']

/-- the text between the braces of a written struct -/
def structBody (ms : List (Str × Str × Str)) : Str := (ms.map memberLine).flatten ++ ['\n']

/-- the text between the braces of a written enum: `\n    A,\n    B\n` -/
def enumBody (labels : List Str) : Str :=
  '\n' :: (joinWith ",\n".toList (labels.map (fun n => "    ".toList ++ n)) ++ ['\n'])

/-- the type word `dtype_to_struct` writes for a column -/
def tyWord (enums : List EnumDecl) (c : Col) : Str :=
  match strSize c.ty with
  | some _ =>
    match enums.find? (fun e => e.col == c.name) with
    | some e => upper e.tyName
    | none => "char".toList
  | none => (cType c.ty).getD []

/-- the array suffix `dtype_to_struct` writes after the column name -/
def arrSuffix (enums : List EnumDecl) (c : Col) : Str :=
  (if c.alen > 0 then brack c.alen else []) ++
  match strSize c.ty with
  | some s =>
    match enums.find? (fun e => e.col == c.name) with
    | some _ => []
    | none => brack s
  | none => []

def member (enums : List EnumDecl) (c : Col) : Str × Str × Str :=
  (tyWord enums c, c.name, arrSuffix enums c)

/-- the struct text of a table (what `dtypeToStruct` returns on supported columns) -/
def structText (enums : List EnumDecl) (name : Str) (cols : List Col) : Str :=
  blockText "struct".toList (structBody (cols.map (member enums))) (upper name)

/-- the enum text of a declaration (what `enumText` returns for a non-empty label list) -/
def enumText' (e : EnumDecl) : Str := blockText "enum".toList (enumBody e.labels) (upper e.tyName)

/-- a non-empty word of `\w` characters -/
def wordy (s : Str) : Prop := s ≠ [] ∧ ∀ c ∈ s, isWordCh c = true

/-- an array suffix: empty, or `[` … `]` made of digits and brackets -/
def arrOK (a : Str) : Prop :=
  (a = [] ∨ (a.head? = some '[' ∧ a.getLast? = some ']')) ∧
  ∀ c ∈ a, c = '[' ∨ c = ']' ∨ c.isDigit = true

/-- a member `(T, N, A)` of a written struct: type word, column name, array suffix -/
def memOK (m : Str × Str × Str) : Prop := wordy m.1 ∧ wordy m.2.1 ∧ arrOK m.2.2

/-- body and name of a `typedef K {body} NAME;` block the typedef expression matches as a whole -/
def blockOK (body name : Str) : Prop :=
  body ≠ [] ∧ '}' ∉ body ∧ '{' ∉ body ∧ name ≠ [] ∧ ∀ c ∈ name, isWordCh c = true

def isKw (K : Str) : Prop := K = "struct".toList ∨ K = "enum".toList

/-- how `convert` will treat the cells of a column -/
def convOfCol (c : Col) : Conv :=
  match c.ty with
  | .i2 | .i4 | .i8 => .int
  | .f4 => .flt .f4
  | .f8 => .flt .f8
  | _ => .str

/-- the type text `yanny.type()` returns for a written column -/
def typOf (enums : List EnumDecl) (c : Col) : Str := tyWord enums c ++ normB (arrSuffix enums c)

end PydlVerif.YannyRT

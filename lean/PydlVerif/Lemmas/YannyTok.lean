/-
Helper lemmas for C01 (token level): takeWhile/dropWhile over appends, digits, protect, the
quote-parity bookkeeping behind `trailing_comment`, double-brace freedom.
Core Lean only.
-/
import PydlVerif.Model.YannyDom
namespace PydlVerif.Yanny

/-! ### lists -/

theorem takeWhile_app_stop {α} (p : α → Bool) (l₁ : List α) (b : α) (l₂ : List α)
    (h₁ : ∀ a ∈ l₁, p a = true) (hb : p b = false) : (l₁ ++ b :: l₂).takeWhile p = l₁ := by
  induction l₁ with
  | nil => simp [hb]
  | cons a t ih =>
    have ha : p a = true := h₁ a (by simp)
    simp [ha]
    exact ih (fun x hx => h₁ x (by simp [hx]))

theorem dropWhile_app_stop {α} (p : α → Bool) (l₁ : List α) (b : α) (l₂ : List α)
    (h₁ : ∀ a ∈ l₁, p a = true) (hb : p b = false) : (l₁ ++ b :: l₂).dropWhile p = b :: l₂ := by
  induction l₁ with
  | nil => simp [hb]
  | cons a t ih =>
    have ha : p a = true := h₁ a (by simp)
    simp [ha]
    exact ih (fun x hx => h₁ x (by simp [hx]))

theorem takeWhile_all {α} (p : α → Bool) (l : List α) (h : ∀ a ∈ l, p a = true) : l.takeWhile p = l := by
  induction l with
  | nil => rfl
  | cons a t ih =>
    have ha : p a = true := h a (by simp)
    simp [ha]
    exact ih (fun x hx => h x (by simp [hx]))

theorem dropWhile_all {α} (p : α → Bool) (l : List α) (h : ∀ a ∈ l, p a = true) : l.dropWhile p = [] := by
  induction l with
  | nil => rfl
  | cons a t ih =>
    have ha : p a = true := h a (by simp)
    simp [ha]
    exact ih (fun x hx => h x (by simp [hx]))

theorem dropWhile_nil_all {α} (p : α → Bool) (l : List α) (h : l.dropWhile p = []) : ∀ a ∈ l, p a = true := by
  induction l with
  | nil => intro a ha; cases ha
  | cons b t ih =>
    by_cases hb : p b = true
    · rw [List.dropWhile_cons_of_pos hb] at h
      intro a ha
      rcases List.mem_cons.mp ha with rfl | ha
      · exact hb
      · exact ih h a ha
    · rw [List.dropWhile_cons_of_neg hb] at h
      cases h

theorem dropWhile_head_false {α} (p : α → Bool) (a : α) (t : List α) (h : p a = false) :
    (a :: t).dropWhile p = a :: t := by simp [List.dropWhile, h]

/-! ### integers -/

theorem digitVal_digitChar : ∀ d : Fin 10, digitVal (digitChar d.val) = some d.val := by decide

theorem digitVal_digitChar' (d : Nat) (h : d < 10) : digitVal (digitChar d) = some d :=
  digitVal_digitChar ⟨d, h⟩

/-- a character the writer prints for an integer: `-` or a decimal digit -/
def intChar (c : Char) : Bool := c == '-' || ('0' ≤ c && c ≤ '9')

theorem intChar_digitChar : ∀ d : Fin 10, intChar (digitChar d.val) = true := by decide

theorem natDigitsAux_chars (f n : Nat) (acc : Str) (h : ∀ c ∈ acc, intChar c = true) :
    ∀ c ∈ natDigitsAux f n acc, intChar c = true := by
  induction f generalizing n acc with
  | zero => simpa [natDigitsAux] using h
  | succ f ih =>
    unfold natDigitsAux
    split
    · rename_i hlt
      intro c hc
      rcases List.mem_cons.mp hc with rfl | hc
      · exact intChar_digitChar ⟨n, hlt⟩
      · exact h c hc
    · apply ih
      intro c hc
      rcases List.mem_cons.mp hc with rfl | hc
      · exact intChar_digitChar ⟨n % 10, Nat.mod_lt _ (by decide)⟩
      · exact h c hc

theorem natDigitsAux_ne_nil (f n : Nat) (acc : Str) (h : acc ≠ [] ∨ 0 < f) : natDigitsAux f n acc ≠ [] := by
  induction f generalizing n acc with
  | zero =>
    rcases h with h | h
    · simpa [natDigitsAux] using h
    · exact absurd h (Nat.lt_irrefl 0)
  | succ f ih =>
    unfold natDigitsAux
    split
    · simp
    · exact ih _ _ (Or.inl (by simp))

theorem parse_natDigitsAux (f : Nat) : ∀ n, n < f → ∃ L : Nat, ∀ (acc : Str) (a : Nat),
    parseNatAux (natDigitsAux f n acc) a = parseNatAux acc (a * 10 ^ L + n) := by
  induction f with
  | zero => intro n h; exact absurd h (Nat.not_lt_zero n)
  | succ f ih =>
    intro n hn
    by_cases hlt : n < 10
    · refine ⟨1, fun acc a => ?_⟩
      simp [natDigitsAux, hlt, parseNatAux, digitVal_digitChar' n hlt]
    · obtain ⟨L, hL⟩ := ih (n / 10) (by omega)
      refine ⟨L + 1, fun acc a => ?_⟩
      simp only [natDigitsAux, hlt, if_false]
      rw [hL]
      simp only [parseNatAux, digitVal_digitChar' (n % 10) (Nat.mod_lt _ (by decide))]
      congr 1
      rw [Nat.pow_succ]
      have : n = 10 * (n / 10) + n % 10 := (Nat.div_add_mod n 10).symm
      rw [Nat.add_mul, Nat.mul_assoc]
      omega

theorem parseNat_fmtNat (n : Nat) : parseNat (fmtNat n) = some n := by
  unfold parseNat fmtNat
  have hne : natDigitsAux (n + 1) n [] ≠ [] := natDigitsAux_ne_nil _ _ _ (Or.inr (Nat.succ_pos n))
  obtain ⟨L, hL⟩ := parse_natDigitsAux (n + 1) n (Nat.lt_succ_self n)
  have h := hL [] 0
  cases hd : natDigitsAux (n + 1) n [] with
  | nil => exact absurd hd hne
  | cons c t =>
    rw [hd] at h
    simp only [List.isEmpty_cons, Bool.false_eq_true, if_false]
    rw [h]
    simp [parseNatAux]

theorem fmtNat_chars (n : Nat) : ∀ c ∈ fmtNat n, ('0' ≤ c && c ≤ '9') = true := by
  -- digits only: same induction as `natDigitsAux_chars` with the sharper predicate
  have key : ∀ (f n : Nat) (acc : Str), (∀ c ∈ acc, ('0' ≤ c && c ≤ '9') = true) →
      ∀ c ∈ natDigitsAux f n acc, ('0' ≤ c && c ≤ '9') = true := by
    have dg : ∀ d : Fin 10, ('0' ≤ digitChar d.val && digitChar d.val ≤ '9') = true := by decide
    intro f
    induction f with
    | zero => intro n acc h; simpa [natDigitsAux] using h
    | succ f ih =>
      intro n acc h
      unfold natDigitsAux
      split
      · rename_i hlt
        intro c hc
        rcases List.mem_cons.mp hc with rfl | hc
        · exact dg ⟨n, hlt⟩
        · exact h c hc
      · apply ih
        intro c hc
        rcases List.mem_cons.mp hc with rfl | hc
        · exact dg ⟨n % 10, Nat.mod_lt _ (by decide)⟩
        · exact h c hc
  exact key (n + 1) n [] (by simp)

theorem fmtInt_chars (n : Int) : ∀ c ∈ fmtInt n, intChar c = true := by
  cases n with
  | ofNat m =>
    intro c hc
    have := fmtNat_chars m c hc
    simp [intChar, this]
  | negSucc m =>
    intro c hc
    simp only [fmtInt] at hc
    rcases List.mem_cons.mp hc with rfl | hc
    · decide
    · have := fmtNat_chars (m + 1) c hc
      simp [intChar, this]

end PydlVerif.Yanny

namespace PydlVerif.Yanny

/-! ### protect / getToken -/

/-- a datum text the token reader hands back unchanged: no `"`, no leading `{`, no newline -/
def tokOK (s : Str) : Bool := !s.contains '"' && s.head? != some '{' && !s.contains '\n'

theorem getToken_bare (c : Char) (t : Str) (h1 : c ≠ '"') (h2 : c ≠ '{') :
    getToken (c :: t) =
      match (c :: t).dropWhile (fun x => !isSpace x) with
      | [] => .ok (c :: t, [])
      | r => .ok ((c :: t).takeWhile (fun x => !isSpace x), r.dropWhile isSpace) := by
  unfold getToken
  split
  · rename_i h; cases h
  · rename_i h; injection h with h _; exact absurd h h1
  · rename_i h; injection h with h _; exact absurd h h2
  · rename_i c' t' _ _ h; injection h with ha hb; subst ha; subst hb; rfl

theorem restOfLine_id (s : Str) (h : '\n' ∉ s) : restOfLine s = s := by
  unfold restOfLine
  apply takeWhile_all
  intro a ha
  have : a ≠ '\n' := fun e => h (e ▸ ha)
  simpa using this

theorem lstrip_id (s : Str) (h : ∀ c, s.head? = some c → isSpace c = false) : s.dropWhile isSpace = s := by
  cases s with
  | nil => rfl
  | cons a t => exact dropWhile_head_false _ _ _ (h a rfl)

theorem getToken_protect (s rest : Str) (hs : tokOK s = true)
    (hr : ∀ c, rest.head? = some c → isSpace c = false) (hn : '\n' ∉ rest) :
    getToken (protect s ++ ' ' :: rest) = .ok (s, rest) := by
  simp only [tokOK, Bool.and_eq_true, Bool.not_eq_true', bne_iff_ne, ne_eq] at hs
  obtain ⟨⟨hq, hb⟩, _⟩ := hs
  have hq' : ∀ a ∈ s, (a != '"') = true := by
    intro a ha
    have : a ≠ '"' := fun e => by subst e; simp [List.contains_iff_mem, ha] at hq
    simpa using this
  unfold protect
  by_cases hnq : needsQuote s = true
  · simp only [hnq, if_true]
    show getToken ('"' :: ((s ++ ['"']) ++ ' ' :: rest)) = _
    have e : (s ++ ['"']) ++ ' ' :: rest = s ++ '"' :: ' ' :: rest := by simp
    rw [e]
    unfold getToken
    simp only
    rw [dropWhile_app_stop _ s '"' _ hq' (by decide), takeWhile_app_stop _ s '"' _ hq' (by decide)]
    have e2 : (' ' :: rest).dropWhile isSpace = rest := by
      rw [List.dropWhile_cons_of_pos (by decide)]
      exact lstrip_id rest hr
    simp only [e2, restOfLine_id rest hn]
  · have hnq' : needsQuote s = false := by simpa using hnq
    simp only [hnq', Bool.false_eq_true, if_false]
    simp only [needsQuote, Bool.or_eq_false_iff] at hnq'
    obtain ⟨⟨hne, _⟩, hsp⟩ := hnq'
    have hns : ∀ a ∈ s, (!isSpace a) = true := by
      intro a ha
      have := List.any_eq_false.mp hsp a ha
      simpa using this
    cases s with
    | nil => simp at hne
    | cons c t =>
      have hc1 : c ≠ '"' := by
        have := hq' c (by simp)
        simpa using this
      have hc2 : c ≠ '{' := by
        intro e; subst e; simp at hb
      show getToken (c :: (t ++ ' ' :: rest)) = _
      rw [getToken_bare c _ hc1 hc2]
      have e1 : (c :: (t ++ ' ' :: rest)) = (c :: t) ++ ' ' :: rest := rfl
      rw [e1, dropWhile_app_stop _ (c :: t) ' ' rest hns (by decide),
        takeWhile_app_stop _ (c :: t) ' ' rest hns (by decide)]
      have e2 : (' ' :: rest).dropWhile isSpace = rest := by
        rw [List.dropWhile_cons_of_pos (by decide)]
        exact lstrip_id rest hr
      simp only [e2]

theorem getToken_protect_last (s : Str) (hs : tokOK s = true) : getToken (protect s) = .ok (s, []) := by
  simp only [tokOK, Bool.and_eq_true, Bool.not_eq_true', bne_iff_ne, ne_eq] at hs
  obtain ⟨⟨hq, hb⟩, _⟩ := hs
  have hq' : ∀ a ∈ s, (a != '"') = true := by
    intro a ha
    have : a ≠ '"' := fun e => by subst e; simp [ha] at hq
    simpa using this
  unfold protect
  by_cases hnq : needsQuote s = true
  · simp only [hnq, if_true]
    unfold getToken
    simp only
    rw [dropWhile_app_stop _ s '"' [] hq' (by decide), takeWhile_app_stop _ s '"' [] hq' (by decide)]
    rfl
  · have hnq' : needsQuote s = false := by simpa using hnq
    simp only [hnq', Bool.false_eq_true, if_false]
    simp only [needsQuote, Bool.or_eq_false_iff] at hnq'
    obtain ⟨⟨hne, _⟩, hsp⟩ := hnq'
    have hns : ∀ a ∈ s, (!isSpace a) = true := by
      intro a ha
      have := List.any_eq_false.mp hsp a ha
      simpa using this
    cases s with
    | nil => simp at hne
    | cons c t =>
      have hc1 : c ≠ '"' := by
        have := hq' c (by simp)
        simpa using this
      have hc2 : c ≠ '{' := by
        intro e; subst e; simp at hb
      rw [getToken_bare c _ hc1 hc2, dropWhile_all _ _ hns]

/-- every character of `protect s` is a character of `s` or the quote -/
theorem mem_protect (s : Str) (c : Char) (h : c ∈ protect s) : c ∈ s ∨ c = '"' := by
  unfold protect at h
  split at h
  · simp only [List.mem_cons, List.mem_append, List.mem_nil_iff, or_false] at h
    rcases h with h | h | h
    · exact Or.inr h
    · exact Or.inl h
    · exact Or.inr h
  · exact Or.inl h

theorem protect_ne_nil (s : Str) : protect s ≠ [] := by
  unfold protect
  split
  · simp
  · rename_i h
    intro e
    subst e
    simp [needsQuote] at h

/-- `protect s` starts with a non-blank character -/
theorem protect_head (s : Str) (c : Char) (h : (protect s).head? = some c) : isSpace c = false := by
  unfold protect at h
  split at h
  · simp at h; subst h; decide
  · rename_i hq
    have hq' : needsQuote s = false := by simpa using hq
    simp only [needsQuote, Bool.or_eq_false_iff] at hq'
    cases s with
    | nil => simp at h
    | cons a t =>
      simp at h; subst h
      have := List.any_eq_false.mp hq'.2 a (by simp)
      simpa using this

/-- `protect s` ends with a non-blank character -/
theorem protect_last (s : Str) (c : Char) (h : (protect s).getLast? = some c) : isSpace c = false := by
  unfold protect at h
  split at h
  · have : ('"' :: (s ++ ['"'])).getLast? = some '"' := by
      rw [show '"' :: (s ++ ['"']) = ('"' :: s) ++ ['"'] from rfl, List.getLast?_append]; rfl
    rw [this] at h
    injection h with h; subst h; decide
  · rename_i hq
    have hq' : needsQuote s = false := by simpa using hq
    simp only [needsQuote, Bool.or_eq_false_iff] at hq'
    have hm : c ∈ s := List.mem_of_getLast? h
    have := List.any_eq_false.mp hq'.2 c hm
    simpa using this

end PydlVerif.Yanny

namespace PydlVerif.Yanny

/-! ### joinSp -/

theorem joinSp_cons2 (a b : Str) (t : List Str) : joinSp (a :: b :: t) = a ++ ' ' :: joinSp (b :: t) := rfl

theorem mem_joinSp (l : List Str) (c : Char) (h : c ∈ joinSp l) : c = ' ' ∨ ∃ a ∈ l, c ∈ a := by
  induction l with
  | nil => simp [joinSp] at h
  | cons a t ih =>
    cases t with
    | nil => exact Or.inr ⟨a, by simp, by simpa [joinSp] using h⟩
    | cons b t =>
      rw [joinSp_cons2] at h
      simp only [List.mem_append, List.mem_cons] at h
      rcases h with h | h | h
      · exact Or.inr ⟨a, by simp, h⟩
      · exact Or.inl h
      · rcases ih h with h | ⟨x, hx, hc⟩
        · exact Or.inl h
        · exact Or.inr ⟨x, by simp [hx], hc⟩

theorem joinSp_head (a : Str) (t : List Str) (ha : a ≠ []) : (joinSp (a :: t)).head? = a.head? := by
  cases t with
  | nil => rfl
  | cons b t =>
    rw [joinSp_cons2]
    cases a with
    | nil => exact absurd rfl ha
    | cons x xs => rfl

theorem joinSp_ne_nil (a : Str) (t : List Str) (ha : a ≠ []) : joinSp (a :: t) ≠ [] := by
  cases t with
  | nil => exact ha
  | cons b t =>
    rw [joinSp_cons2]
    cases a with
    | nil => exact absurd rfl ha
    | cons x xs => simp

/-! ### the array loop -/

theorem arrayTokensAux_protect (ts : List Str) (hts : ∀ t ∈ ts, tokOK t = true) (hne : ts ≠ []) :
    ∀ fuel, (joinSp (ts.map protect)).length ≤ fuel →
      arrayTokensAux fuel (joinSp (ts.map protect)) = .ok ts := by
  induction ts with
  | nil => exact absurd rfl hne
  | cons t rest ih =>
    intro fuel hf
    cases rest with
    | nil =>
      simp only [List.map, joinSp] at hf ⊢
      cases hp : protect t with
      | nil => exact absurd hp (protect_ne_nil t)
      | cons c u =>
        rw [hp] at hf
        cases fuel with
        | zero => simp at hf
        | succ f =>
          unfold arrayTokensAux
          rw [← hp, getToken_protect_last t (hts t (by simp))]
          simp [arrayTokensAux]
    | cons u rest' =>
      have hR : ∀ c, (joinSp ((u :: rest').map protect)).head? = some c → isSpace c = false := by
        intro c hc
        simp only [List.map] at hc
        rw [joinSp_head _ _ (protect_ne_nil u)] at hc
        exact protect_head u c hc
      have hN : '\n' ∉ joinSp ((u :: rest').map protect) := by
        intro hm
        rcases mem_joinSp _ _ hm with h | ⟨a, ha, hc⟩
        · exact absurd h (by decide)
        · obtain ⟨x, hx, rfl⟩ := List.mem_map.mp ha
          rcases mem_protect x _ hc with h | h
          · have := hts x (by simp [List.mem_cons] at hx ⊢; exact Or.inr hx)
            simp only [tokOK, Bool.and_eq_true, Bool.not_eq_true'] at this
            have h3 := this.2
            simp [h] at h3
          · exact absurd h (by decide)
      have e : joinSp ((t :: u :: rest').map protect) = protect t ++ ' ' :: joinSp ((u :: rest').map protect) := rfl
      rw [e] at hf ⊢
      cases hp : protect t with
      | nil => exact absurd hp (protect_ne_nil t)
      | cons c w =>
        rw [hp] at hf
        cases fuel with
        | zero => simp at hf
        | succ f =>
          show arrayTokensAux (f + 1) (c :: (w ++ ' ' :: joinSp ((u :: rest').map protect))) = _
          unfold arrayTokensAux
          have e2 : c :: (w ++ ' ' :: joinSp ((u :: rest').map protect)) =
              protect t ++ ' ' :: joinSp ((u :: rest').map protect) := by rw [hp]; rfl
          rw [e2, getToken_protect t _ (hts t (by simp)) hR hN]
          have hlen : (joinSp ((u :: rest').map protect)).length ≤ f := by
            simp only [List.length_cons, List.length_append] at hf
            omega
          have := ih (fun x hx => hts x (by simp [hx])) (by simp) f hlen
          simp only [this]

theorem arrayTokens_protect (ts : List Str) (hts : ∀ t ∈ ts, tokOK t = true) (hne : ts ≠ []) :
    arrayTokens (joinSp (ts.map protect)) = .ok ts :=
  arrayTokensAux_protect ts hts hne _ (Nat.le_refl _)

/-! ### quote parity (`trailing_comment`) -/

/-- every `#` is met with an odd number of `"` before it (`q` = parity so far) -/
def hashInQ : Bool → Str → Bool
  | _, [] => true
  | q, c :: t =>
    if c == '"' then hashInQ (!q) t
    else if c == '#' then q && hashInQ q t
    else hashInQ q t

/-- parity of the number of `"` -/
def qpar : Str → Bool
  | [] => false
  | c :: t => if c == '"' then !qpar t else qpar t

/-- a piece of a line that leaves the quote state closed and has every `#` inside quotes -/
def good (p : Str) : Bool := hashInQ false p && !qpar p

theorem hashInQ_append (q : Bool) (a b : Str) :
    hashInQ q (a ++ b) = (hashInQ q a && hashInQ (q != qpar a) b) := by
  induction a generalizing q with
  | nil => simp [hashInQ, qpar]
  | cons c t ih =>
    simp only [List.cons_append, hashInQ, qpar]
    by_cases h1 : c = '"'
    · subst h1; simp [ih]
    · have h1' : (c == '"') = false := by simpa using h1
      simp only [h1', Bool.false_eq_true, if_false]
      by_cases h2 : c = '#'
      · subst h2; simp [ih, Bool.and_assoc]
      · have h2' : (c == '#') = false := by simpa using h2
        simp [h2', ih]

theorem qpar_append (a b : Str) : qpar (a ++ b) = (qpar a != qpar b) := by
  induction a with
  | nil => simp [qpar]
  | cons c t ih =>
    simp only [List.cons_append, qpar]
    by_cases h1 : c = '"'
    · subst h1; simp [ih]
    · have h1' : (c == '"') = false := by simpa using h1
      simp [h1', ih]

theorem good_append (a b : Str) (ha : good a = true) (hb : good b = true) : good (a ++ b) = true := by
  simp only [good, Bool.and_eq_true, Bool.not_eq_true'] at ha hb ⊢
  rw [hashInQ_append, qpar_append, ha.2, hb.2]
  simp [ha.1, hb.1]

theorem good_plain (s : Str) (h1 : '"' ∉ s) (h2 : '#' ∉ s) : good s = true := by
  have : ∀ q, hashInQ q s = true ∧ qpar s = false := by
    induction s with
    | nil => intro q; simp [hashInQ, qpar]
    | cons c t ih =>
      intro q
      have hc1 : (c == '"') = false := by
        have : c ≠ '"' := fun e => h1 (by simp [e])
        simpa using this
      have hc2 : (c == '#') = false := by
        have : c ≠ '#' := fun e => h2 (by simp [e])
        simpa using this
      have := ih (fun h => h1 (by simp [h])) (fun h => h2 (by simp [h])) q
      simp [hashInQ, qpar, hc1, hc2, this]
  simp [good, this false]

theorem hashInQ_true_noquote (s : Str) (h1 : '"' ∉ s) : hashInQ true s = true ∧ qpar s = false := by
  induction s with
  | nil => simp [hashInQ, qpar]
  | cons c t ih =>
    have hc1 : (c == '"') = false := by
      have : c ≠ '"' := fun e => h1 (by simp [e])
      simpa using this
    have := ih (fun h => h1 (by simp [h]))
    by_cases h2 : c = '#'
    · subst h2; simp [hashInQ, qpar, this]
    · have h2' : (c == '#') = false := by simpa using h2
      simp [hashInQ, qpar, hc1, h2', this]

theorem good_quoted (s : Str) (h1 : '"' ∉ s) : good ('"' :: (s ++ ['"'])) = true := by
  have h := hashInQ_true_noquote s h1
  simp only [good, hashInQ, qpar, beq_self_eq_true, if_true, Bool.not_false]
  rw [hashInQ_append, qpar_append, h.1, h.2]
  simp [hashInQ, qpar]

theorem good_protect (s : Str) (h1 : '"' ∉ s) : good (protect s) = true := by
  unfold protect
  split
  · exact good_quoted s h1
  · rename_i hq
    have hq' : needsQuote s = false := by simpa using hq
    simp only [needsQuote, Bool.or_eq_false_iff] at hq'
    apply good_plain s h1
    intro hm
    have := hq'.1.2
    simp [hm] at this

theorem good_joinSp (l : List Str) (h : ∀ a ∈ l, good a = true) : good (joinSp l) = true := by
  induction l with
  | nil => rfl
  | cons a t ih =>
    cases t with
    | nil => exact h a (by simp)
    | cons b t =>
      rw [joinSp_cons2]
      apply good_append _ _ (h a (by simp))
      exact good_append [' '] _ (by decide) (ih (fun x hx => h x (by simp [hx])))

/-- the core of `trailing_comment`: on a good line nothing is cut -/
theorem hashInQ_split (q : Bool) (pre post : Str) (h : hashInQ q (pre ++ '#' :: post) = true) :
    (q != qpar pre) = true := by
  rw [hashInQ_append] at h
  simp only [Bool.and_eq_true] at h
  have := h.2
  simp only [hashInQ] at this
  simp at this
  simpa using this.1

theorem count_quote_qpar (s : Str) : (s.count '"' % 2 == 1) = qpar s := by
  induction s with
  | nil => rfl
  | cons c t ih =>
    simp only [qpar, List.count_cons]
    by_cases h1 : c = '"'
    · subst h1
      simp only [beq_self_eq_true, if_true]
      rw [← ih]
      rcases Nat.mod_two_eq_zero_or_one (List.count '"' t) with h | h <;> simp [h, Nat.add_mod]
    · have h1' : (c == '"') = false := by simpa using h1
      simp [h1', ih]

theorem trailingComment_good (l : Str) (h : good l = true) : trailingComment l = l := by
  unfold trailingComment
  simp only
  split
  · rename_i hc
    -- split at the last '#'
    have hmem : '#' ∈ l := by
      have : '#' ∈ l.reverse := by simpa using hc
      simpa using this
    have hsplit : l.reverse = (l.reverse.takeWhile (· != '#')) ++ (l.reverse.dropWhile (· != '#')) :=
      (List.takeWhile_append_dropWhile).symm
    cases hd : l.reverse.dropWhile (· != '#') with
    | nil =>
      have : ∀ a ∈ l.reverse, (a != '#') = true := by
        exact dropWhile_nil_all _ _ hd
      have := this '#' (by simpa using hmem)
      simp at this
    | cons x pre' =>
      have hx : x = '#' := by
        have := List.head_dropWhile_not (p := (· != '#')) (l := l.reverse) (w := by rw [hd]; simp)
        simp only [hd, List.head_cons] at this
        simpa using this
      subst hx
      rw [hd] at hsplit
      have hl : l = pre'.reverse ++ '#' :: (l.reverse.takeWhile (· != '#')).reverse := by
        have := congrArg List.reverse hsplit
        simpa using this
      simp only [good, Bool.and_eq_true, Bool.not_eq_true'] at h
      have hq := h.1
      rw [hl] at hq
      have hodd := hashInQ_split false _ _ hq
      have htot := h.2
      rw [hl, qpar_append] at htot
      simp only [qpar] at htot
      have hpost : qpar (l.reverse.takeWhile (· != '#')).reverse = true := by
        simp at htot hodd
        rw [hodd] at htot
        simpa using htot.symm
      have hcnt : (List.takeWhile (fun x => x != '#') l.reverse).count '"' % 2 = 1 := by
        have := count_quote_qpar (l.reverse.takeWhile (· != '#')).reverse
        rw [hpost, List.count_reverse] at this
        simpa using this
      simp [hcnt]
  · rfl

/-! ### double braces -/

theorem doubleBraces_dbFree (l : Str) (h : dbFree l = true) : doubleBraces l = l := by
  unfold doubleBraces
  induction l with
  | nil => rfl
  | cons c t ih =>
    simp only [dbFree, Bool.and_eq_true, Option.isNone_iff_eq_none] at h
    simp only [dbGo, h.1, ih h.2]

end PydlVerif.Yanny

/-
C01, file level: the writer produces the shapes of YannyShape (A), these are well formed (B),
the typing functions of the reader on a written type text (C), the two per-column results given
the result of the scan (D), the enum labels read back from a written enum body (E).
Core Lean only.
-/
import PydlVerif.Lemmas.YannyShape
namespace PydlVerif.YannyRT
open PydlVerif.Yanny
variable {F : Type}

/-! ### characters -/

theorem ascii_ind (P : Char → Prop) (h : ∀ n : Fin 128, P (Char.ofNat n.val))
    (c : Char) (hc : c.toNat < 128) : P c := by
  have := h ⟨c.toNat, hc⟩
  simpa only [Char.ofNat_toNat] using this

theorem wordCh_lt (c : Char) (h : isWordCh c = true) : c.toNat < 128 := by
  simp only [isWordCh, Char.isAlphanum, Char.isAlpha, Char.isUpper, Char.isLower, Char.isDigit,
    Bool.or_eq_true, Bool.and_eq_true, decide_eq_true_eq, beq_iff_eq] at h
  show c.val.toNat < 128
  rcases h with ((⟨h1, h2⟩ | ⟨h1, h2⟩) | ⟨h1, h2⟩) | h
  · have : c.val.toNat ≤ 90 := UInt32.le_iff_toNat_le.mp h2; omega
  · have : c.val.toNat ≤ 122 := UInt32.le_iff_toNat_le.mp h2; omega
  · have : c.val.toNat ≤ 57 := UInt32.le_iff_toNat_le.mp h2; omega
  · subst h; decide

/-- a lower-case ASCII letter -/
def lowerCh (c : Char) : Bool := 'a' ≤ c && c ≤ 'z'

/-- what is used of a word character -/
def wordFacts (c : Char) : Prop :=
  isWordCh c.toUpper = true ∧ lowerCh c.toUpper = false ∧ isSpace c = false ∧ c ≠ ',' ∧
  c ≠ '[' ∧ c ≠ ']' ∧ c ≠ '{' ∧ c ≠ '}' ∧ c ≠ '<' ∧ c ≠ '>' ∧ c ≠ '\n'

instance (c : Char) : Decidable (wordFacts c) := by unfold wordFacts; infer_instance

set_option maxRecDepth 100000 in
theorem word_facts0 : ∀ n : Fin 128, isWordCh (Char.ofNat n.val) = true → wordFacts (Char.ofNat n.val) := by
  decide

theorem word_facts (c : Char) (h : isWordCh c = true) : wordFacts c :=
  ascii_ind (fun c => isWordCh c = true → wordFacts c) word_facts0 c (wordCh_lt c h) h

theorem digit_lt (c : Char) (h : ('0' ≤ c && c ≤ '9') = true) : c.toNat < 128 := by
  simp only [Bool.and_eq_true, decide_eq_true_eq, Char.le_def] at h
  have : c.val.toNat ≤ 57 := UInt32.le_iff_toNat_le.mp h.2
  show c.val.toNat < 128
  omega

/-- what is used of a decimal digit -/
def digitFacts (c : Char) : Prop :=
  c.isDigit = true ∧ c ≠ '[' ∧ c ≠ ']' ∧ c ≠ '<' ∧ c ≠ '>' ∧ c ≠ 'c' ∧ c ≠ '{' ∧ c ≠ '}' ∧ isCloseB c = false

instance (c : Char) : Decidable (digitFacts c) := by unfold digitFacts; infer_instance

set_option maxRecDepth 100000 in
theorem digit_facts0 : ∀ n : Fin 128, ('0' ≤ Char.ofNat n.val && Char.ofNat n.val ≤ '9') = true →
    digitFacts (Char.ofNat n.val) := by decide

theorem digit_facts (c : Char) (h : ('0' ≤ c && c ≤ '9') = true) : digitFacts c :=
  ascii_ind (fun c => ('0' ≤ c && c ≤ '9') = true → digitFacts c) digit_facts0 c (digit_lt c h) h

/-! ### words -/

theorem wordOK_wordy (s : Str) (h : wordOK s = true) : wordy s := by
  simp only [wordOK, Bool.and_eq_true, Bool.not_eq_true', List.all_eq_true] at h
  refine ⟨?_, h.1.2⟩
  intro e; subst e; simp at h

theorem identOK_wordy (s : Str) (h : identOK s = true) : wordy s := by
  cases s with
  | nil => simp [identOK] at h
  | cons a t =>
    simp only [identOK, Bool.and_eq_true, List.all_eq_true] at h
    exact ⟨by simp, h.1.2⟩

theorem wordy_upper (s : Str) (h : wordy s) : wordy (upper s) := by
  refine ⟨?_, ?_⟩
  · intro e; exact h.1 (by simpa [upper] using e)
  · intro c hc
    simp only [upper, List.mem_map] at hc
    obtain ⟨a, ha, rfl⟩ := hc
    exact (word_facts a (h.2 a ha)).1

theorem upper_noLower (s : Str) (h : wordy s) : ∀ c ∈ upper s, lowerCh c = false := by
  intro c hc
  simp only [upper, List.mem_map] at hc
  obtain ⟨a, ha, rfl⟩ := hc
  exact (word_facts a (h.2 a ha)).2.1

/-! ### A. the writer produces the shapes -/

theorem joinWith_lines (h : Str) (ls : List Str) (z : Str) :
    joinWith ['\n'] ((h :: ls) ++ [z]) = h ++ (ls.map ('\n' :: ·)).flatten ++ '\n' :: z := by
  induction ls generalizing h with
  | nil => simp [joinWith]
  | cons a t ih =>
    show joinWith ['\n'] (h :: ((a :: t) ++ [z])) = _
    have := ih a
    simp only [List.cons_append] at this ⊢
    rw [joinWith, this]
    simp

theorem dropWhile_head {α} (p : α → Bool) (l : List α) (h : ∀ c, l.head? = some c → p c = false) :
    l.dropWhile p = l := by
  cases l with
  | nil => rfl
  | cons a t => exact dropWhile_head_false _ _ _ (h a rfl)

theorem stripCommas_line (x : Str) (h1 : ∀ c, x.head? = some c → c ≠ ',')
    (h2 : ∀ c, x.getLast? = some c → c ≠ ',') (hne : x ≠ []) : stripCommas (x ++ [',']) = x := by
  unfold stripCommas
  have e1 : (x ++ [',']).dropWhile (· == ',') = x ++ [','] := by
    apply dropWhile_head
    intro c hc
    cases x with
    | nil => exact absurd rfl hne
    | cons a t =>
      simp at hc; subst hc
      simpa using h1 a rfl
  rw [e1, List.reverse_append]
  show ((',' :: x.reverse).dropWhile (· == ',')).reverse = x
  rw [List.dropWhile_cons_of_pos (by decide)]
  have e2 : x.reverse.dropWhile (· == ',') = x.reverse := by
    apply dropWhile_head
    intro c hc
    rw [List.head?_reverse] at hc
    simpa using h2 c hc
  rw [e2, List.reverse_reverse]

theorem enum_lines (init : List Str) (last : Str) :
    ((init.map (fun n => "    ".toList ++ n ++ [',']) ++ ["    ".toList ++ last]).map ('\n' :: ·)).flatten =
      '\n' :: joinWith ",\n".toList ((init ++ [last]).map (fun n => "    ".toList ++ n)) := by
  induction init with
  | nil => simp [joinWith]
  | cons a t ih =>
    have e : ((a :: t) ++ [last]).map (fun n => "    ".toList ++ n) =
        ("    ".toList ++ a) :: ((t ++ [last]).map (fun n => "    ".toList ++ n)) := rfl
    rw [e]
    cases hm : (t ++ [last]).map (fun n => "    ".toList ++ n) with
    | nil => simp at hm
    | cons b r =>
      rw [joinWith, ← hm, List.map_cons, List.cons_append, List.map_cons, List.flatten_cons, ih]
      simp

theorem enumText_shape (e : EnumDecl) (he : enumOK e = true) : enumText e = enumText' e := by
  simp only [enumOK, Bool.and_eq_true, Bool.not_eq_true', List.all_eq_true] at he
  obtain ⟨⟨⟨_, _⟩, hne⟩, hl⟩ := he
  have hne' : e.labels ≠ [] := by intro h; simp [h] at hne
  obtain ⟨init, last, hil⟩ : ∃ init last, e.labels = init ++ [last] :=
    ⟨e.labels.dropLast, e.labels.getLast hne', (List.dropLast_concat_getLast hne').symm⟩
  have hlast : wordy last := wordOK_wordy last (hl last (by simp [hil]))
  unfold enumText enumText' blockText enumBody
  simp only [hil]
  have e1 : ("typedef enum {".toList :: (init ++ [last]).map (fun n => "    ".toList ++ n ++ [','])) =
      ("typedef enum {".toList :: init.map (fun n => "    ".toList ++ n ++ [','])) ++
        [("    ".toList ++ last) ++ [',']] := by simp
  rw [e1, List.dropLast_concat, List.getLastD_concat]
  rw [stripCommas_line]
  · rw [show ("typedef enum {".toList :: init.map (fun n => "    ".toList ++ n ++ [','])) ++
        ["    ".toList ++ last] ++ ["} ".toList ++ upper e.tyName ++ [';']] =
        ("typedef enum {".toList :: (init.map (fun n => "    ".toList ++ n ++ [',']) ++
          ["    ".toList ++ last])) ++ ["} ".toList ++ upper e.tyName ++ [';']] by simp,
      joinWith_lines, enum_lines]
    simp
  · intro c hc; simp at hc; subst hc; decide
  · intro c hc
    have hm := List.mem_of_getLast? hc
    rcases List.mem_append.mp hm with h | h
    · have : c = ' ' := by simpa using h
      subst this; decide
    · exact (word_facts c (hlast.2 c h)).2.2.2.1
  · simp

theorem colLine_shape (enums : List EnumDecl) (c : Col) (h : supported c.ty = true) :
    colLine enums c =
      .ok ("    ".toList ++ tyWord enums c ++ ' ' :: c.name ++ arrSuffix enums c ++ [';']) := by
  unfold colLine tyWord arrSuffix
  cases hty : c.ty <;> simp only [hty, supported] at h <;> try (exact absurd h (by decide))
  all_goals simp only [strSize, cType, Option.getD_some, List.append_nil]
  all_goals cases enums.find? (fun e => e.col == c.name) <;> simp

/-- a member line without its leading newline -/
def memberTail (m : Str × Str × Str) : Str := "    ".toList ++ m.1 ++ ' ' :: m.2.1 ++ m.2.2 ++ [';']

theorem memberLine_tail (m : Str × Str × Str) : memberLine m = '\n' :: memberTail m := by
  unfold memberLine memberTail
  rfl

theorem colLines_shape (enums : List EnumDecl) (cols : List Col) (h : ∀ c ∈ cols, supported c.ty = true) :
    colLines enums cols = .ok (cols.map (fun c => memberTail (member enums c))) := by
  induction cols with
  | nil => rfl
  | cons c cs ih =>
    have h1 : colLine enums c = .ok (memberTail (member enums c)) := colLine_shape enums c (h c (by simp))
    simp only [colLines, h1, ih (fun x hx => h x (by simp [hx]))]
    rfl

theorem dtypeToStruct_shape (enums : List EnumDecl) (name : Str) (cols : List Col)
    (h : ∀ c ∈ cols, supported c.ty = true) :
    dtypeToStruct cols name enums = .ok (structText enums name cols) := by
  unfold dtypeToStruct
  rw [colLines_shape enums cols h]
  show Except.ok (joinWith ['\n'] (("typedef struct {".toList ::
    cols.map (fun c => memberTail (member enums c))) ++ ["} ".toList ++ upper name ++ [';']])) = _
  rw [joinWith_lines]
  have e : (cols.map (fun c => memberTail (member enums c))).map (fun x => '\n' :: x) =
      (cols.map (member enums)).map memberLine := by
    rw [List.map_map, List.map_map]
    rfl
  rw [e]
  unfold structText blockText structBody
  congr 1
  simp only [List.append_assoc]
  rfl

theorem structTexts_shape (enums : List EnumDecl) (ts : List (TableD F))
    (h : ∀ t ∈ ts, ∀ c ∈ t.cols, supported c.ty = true) :
    structTexts enums ts = .ok (ts.map (fun t => structText enums t.name t.cols)) := by
  induction ts with
  | nil => rfl
  | cons t ts ih =>
    simp only [structTexts, dtypeToStruct_shape enums t.name t.cols (h t (by simp)),
      ih (fun x hx => h x (by simp [hx]))]
    rfl

/-! ### B. well-formedness of what is written -/

theorem enumOK_of_find (enums : List EnumDecl) (he : ∀ e ∈ enums, enumOK e = true) (p : EnumDecl → Bool)
    (e : EnumDecl) (h : enums.find? p = some e) : wordy e.tyName ∧ e.labels ≠ [] ∧ ∀ l ∈ e.labels, wordy l := by
  have := he e (List.mem_of_find?_eq_some h)
  simp only [enumOK, Bool.and_eq_true, Bool.not_eq_true', List.all_eq_true] at this
  obtain ⟨⟨⟨_, h2⟩, h3⟩, h4⟩ := this
  refine ⟨wordOK_wordy _ h2, ?_, fun l hl => wordOK_wordy l (h4 l hl)⟩
  intro e0; simp [e0] at h3

theorem wordy_char : wordy "char".toList := ⟨by decide, by decide⟩

theorem cType_wordy (t : NpT) (w : Str) (h : cType t = some w) : wordy w := by
  cases t <;> simp only [cType, Option.some.injEq] at h <;> first | (subst h; exact ⟨by decide, by decide⟩) | cases h

theorem tyWord_wordy (enums : List EnumDecl) (c : Col) (hs : supported c.ty = true)
    (he : ∀ e ∈ enums, enumOK e = true) : wordy (tyWord enums c) := by
  unfold tyWord
  cases hty : c.ty <;> simp only [hty, supported] at hs <;> try (exact absurd hs (by decide))
  all_goals simp only [strSize, cType, Option.getD_some]
  all_goals first
    | exact ⟨by decide, by decide⟩
    | (cases hf : enums.find? (fun e => e.col == c.name) with
       | none => exact wordy_char
       | some e => exact wordy_upper _ (enumOK_of_find enums he _ e hf).1)

theorem brack_chars (n : Nat) : ∀ x ∈ brack n, x = '[' ∨ x = ']' ∨ ('0' ≤ x && x ≤ '9') = true := by
  intro x hx
  simp only [brack, List.mem_cons, List.mem_append, List.mem_nil_iff, or_false] at hx
  rcases hx with h | h | h
  · exact Or.inl h
  · exact Or.inr (Or.inr (fmtNat_chars n x h))
  · exact Or.inr (Or.inl h)

theorem brack_arrOK (n : Nat) : arrOK (brack n) := by
  refine ⟨Or.inr ⟨rfl, ?_⟩, ?_⟩
  · show ('[' :: (fmtNat n ++ [']'])).getLast? = some ']'
    rw [show '[' :: (fmtNat n ++ [']']) = ('[' :: fmtNat n) ++ [']'] from rfl, List.getLast?_concat]
  · intro x hx
    rcases brack_chars n x hx with h | h | h
    · exact Or.inl h
    · exact Or.inr (Or.inl h)
    · exact Or.inr (Or.inr (digit_facts x h).1)

theorem arrOK_nil : arrOK [] := ⟨Or.inl rfl, by simp⟩

theorem arrOK_append (a b : Str) (ha : arrOK a) (hb : arrOK b) : arrOK (a ++ b) := by
  cases a with
  | nil => simpa using hb
  | cons x a' =>
    cases b with
    | nil => simpa using ha
    | cons y b' =>
      refine ⟨Or.inr ⟨?_, ?_⟩, ?_⟩
      · rcases ha.1 with h | h
        · cases h
        · simpa using h.1
      · rcases hb.1 with h | h
        · cases h
        · rw [List.getLast?_append, h.2]; rfl
      · intro c hc
        rcases List.mem_append.mp hc with h | h
        · exact ha.2 c h
        · exact hb.2 c h

theorem arrSuffix_arrOK (enums : List EnumDecl) (c : Col) : arrOK (arrSuffix enums c) := by
  unfold arrSuffix
  apply arrOK_append
  · split
    · exact brack_arrOK _
    · exact arrOK_nil
  · split
    · split
      · exact arrOK_nil
      · exact brack_arrOK _
    · exact arrOK_nil

theorem member_ok (enums : List EnumDecl) (c : Col) (hc : colOK c = true) (he : ∀ e ∈ enums, enumOK e = true) :
    memOK (member enums c) := by
  simp only [colOK, Bool.and_eq_true] at hc
  exact ⟨tyWord_wordy enums c hc.2 he, identOK_wordy _ hc.1, arrSuffix_arrOK enums c⟩

theorem wordy_plain (s : Str) (h : wordy s) : ∀ c ∈ s, c ≠ '{' ∧ c ≠ '}' := by
  intro c hc
  have := word_facts c (h.2 c hc)
  exact ⟨this.2.2.2.2.2.2.1, this.2.2.2.2.2.2.2.1⟩

theorem arrOK_plain (a : Str) (h : arrOK a) : ∀ c ∈ a, c ≠ '{' ∧ c ≠ '}' := by
  intro c hc
  rcases h.2 c hc with h | h | h
  · subst h; exact ⟨by decide, by decide⟩
  · subst h; exact ⟨by decide, by decide⟩
  · constructor <;> (intro e; subst e; exact absurd h (by decide))

theorem memberLine_plain (m : Str × Str × Str) (hm : memOK m) : ∀ c ∈ memberLine m, c ≠ '{' ∧ c ≠ '}' := by
  intro c hc
  rw [memberLine_tail] at hc
  simp only [memberTail, List.mem_cons, List.mem_append, List.mem_nil_iff, or_false] at hc
  rcases hc with h | (((h | h) | h | h) | h) | h
  · subst h; exact ⟨by decide, by decide⟩
  · have : c = ' ' := by simpa using h
    subst this; exact ⟨by decide, by decide⟩
  · exact wordy_plain _ hm.1 c h
  · subst h; exact ⟨by decide, by decide⟩
  · exact wordy_plain _ hm.2.1 c h
  · exact arrOK_plain _ hm.2.2 c h
  · subst h; exact ⟨by decide, by decide⟩

theorem structBody_plain (ms : List (Str × Str × Str)) (hms : ∀ m ∈ ms, memOK m) :
    ∀ c ∈ structBody ms, c ≠ '{' ∧ c ≠ '}' := by
  intro c hc
  simp only [structBody, List.mem_append, List.mem_flatten, List.mem_map, List.mem_cons,
    List.mem_nil_iff, or_false] at hc
  rcases hc with ⟨l, ⟨m, hm, rfl⟩, hcl⟩ | h
  · exact memberLine_plain m (hms m hm) c hcl
  · subst h; exact ⟨by decide, by decide⟩

theorem structBody_blockOK (ms : List (Str × Str × Str)) (hms : ∀ m ∈ ms, memOK m) (name : Str)
    (hn : wordOK name = true) : blockOK (structBody ms) (upper name) := by
  have hu := wordy_upper name (wordOK_wordy name hn)
  refine ⟨by simp [structBody], ?_, ?_, hu.1, hu.2⟩
  · intro h; exact (structBody_plain ms hms _ h).2 rfl
  · intro h; exact (structBody_plain ms hms _ h).1 rfl

theorem mem_joinWith (sep : Str) (l : List Str) (c : Char) (h : c ∈ joinWith sep l) :
    c ∈ sep ∨ ∃ a ∈ l, c ∈ a := by
  induction l with
  | nil => simp [joinWith] at h
  | cons a t ih =>
    cases t with
    | nil => exact Or.inr ⟨a, by simp, by simpa [joinWith] using h⟩
    | cons b t =>
      rw [joinWith] at h
      simp only [List.mem_append] at h
      rcases h with (h | h) | h
      · exact Or.inr ⟨a, by simp, h⟩
      · exact Or.inl h
      · rcases ih h with h | ⟨x, hx, hc⟩
        · exact Or.inl h
        · exact Or.inr ⟨x, by simp [hx], hc⟩

theorem enumBody_plain (labels : List Str) (hl : ∀ l ∈ labels, wordy l) :
    ∀ c ∈ enumBody labels, c ≠ '{' ∧ c ≠ '}' := by
  intro c hc
  simp only [enumBody, List.mem_cons, List.mem_append, List.mem_nil_iff, or_false] at hc
  rcases hc with h | h | h
  · subst h; exact ⟨by decide, by decide⟩
  · rcases mem_joinWith _ _ _ h with h | ⟨a, ha, hca⟩
    · have : c = ',' ∨ c = '\n' := by simpa using h
      rcases this with h | h <;> (subst h; exact ⟨by decide, by decide⟩)
    · obtain ⟨n, hn, rfl⟩ := List.mem_map.mp ha
      rcases List.mem_append.mp hca with h | h
      · have : c = ' ' := by simpa using h
        subst this; exact ⟨by decide, by decide⟩
      · exact wordy_plain n (hl n hn) c h
  · subst h; exact ⟨by decide, by decide⟩

theorem enumBody_blockOK (e : EnumDecl) (he : enumOK e = true) : blockOK (enumBody e.labels) (upper e.tyName) := by
  have h := enumOK_of_find [e] (by simpa using he) (fun _ => true) e (by simp)
  have hu := wordy_upper _ h.1
  refine ⟨by simp [enumBody], ?_, ?_, hu.1, hu.2⟩
  · intro hm; exact (enumBody_plain _ h.2.2 _ hm).2 rfl
  · intro hm; exact (enumBody_plain _ h.2.2 _ hm).1 rfl

/-! ### C. typing of a written column -/

theorem normB_arrOK (a : Str) (h : arrOK a) : normB a = a := by
  unfold normB
  conv => rhs; rw [← List.map_id a]
  apply List.map_congr_left
  intro c hc
  have h1 : c ≠ '<' := by
    rcases h.2 c hc with h | h | h
    · subst h; decide
    · subst h; decide
    · intro e; subst e; exact absurd h (by decide)
  have h2 : c ≠ '>' := by
    rcases h.2 c hc with h | h | h
    · subst h; decide
    · subst h; decide
    · intro e; subst e; exact absurd h (by decide)
  simp [h1, h2]

theorem normB_arrSuffix (enums : List EnumDecl) (c : Col) : normB (arrSuffix enums c) = arrSuffix enums c :=
  normB_arrOK _ (arrSuffix_arrOK enums c)

theorem typOf_eq (enums : List EnumDecl) (c : Col) : typOf enums c = tyWord enums c ++ arrSuffix enums c := by
  rw [typOf, normB_arrSuffix]

theorem wordy_noOpen (s : Str) (h : wordy s) : ∀ x ∈ s, (x != '[') = true := by
  intro x hx
  have := (word_facts x (h.2 x hx)).2.2.2.2.1
  simpa using this

theorem baseType_typ (enums : List EnumDecl) (c : Col) (hc : colOK c = true)
    (he : ∀ e ∈ enums, enumOK e = true) : baseType (typOf enums c) = tyWord enums c := by
  simp only [colOK, Bool.and_eq_true] at hc
  have hw := wordy_noOpen _ (tyWord_wordy enums c hc.2 he)
  rw [typOf_eq, baseType]
  have ha := (arrSuffix_arrOK enums c).1
  cases hs : arrSuffix enums c with
  | nil => rw [List.append_nil]; exact takeWhile_all _ _ hw
  | cons x t =>
    rw [hs] at ha
    rcases ha with h | h
    · cases h
    · have : x = '[' := by simpa using h.1
      subst this
      exact takeWhile_app_stop _ _ _ _ hw (by decide)

theorem stripPrefix_head_ne (a : Char) (p : Str) (x : Char) (t : Str) (h : x ≠ a) :
    stripPrefix (a :: p) (x :: t) = none := by
  have : (a == x) = false := by simpa using (Ne.symm h)
  simp [stripPrefix, this]

theorem stripPrefix_app (p s : Str) : stripPrefix p (p ++ s) = some s := by
  induction p with
  | nil => cases s <;> rfl
  | cons a t ih => simp [stripPrefix, ih]

theorem findSub_noC (s : Str) (h : 'c' ∉ s) : findSub "char".toList s = none := by
  induction s with
  | nil => rfl
  | cons x t ih =>
    have hx : x ≠ 'c' := fun e => h (by simp [e])
    have sp : stripPrefix "char".toList (x :: t) = none := stripPrefix_head_ne 'c' _ x t hx
    rw [findSub, sp, ih (fun hm => h (by simp [hm]))]; rfl

theorem searchCharArr_noC (s : Str) (h : 'c' ∉ s) : searchCharArr s = false := by
  induction s with
  | nil => rfl
  | cons x t ih =>
    have hx : x ≠ 'c' := fun e => h (by simp [e])
    have sp : stripPrefix "char".toList (x :: t) = none := stripPrefix_head_ne 'c' _ x t hx
    rw [searchCharArr, matchCharArr, sp, ih (fun hm => h (by simp [hm]))]; rfl

/-- `'c' ∉ s → searchCharArr s = false ∧ hasSub "char" s = false` -/
theorem noC_search (s : Str) (h : 'c' ∉ s) : searchCharArr s = false ∧ hasSub "char".toList s = false :=
  ⟨searchCharArr_noC s h, by rw [hasSub, findSub_noC s h]; rfl⟩

/-- the array part of the suffix -/
def arrA (c : Col) : Str := if c.alen > 0 then brack c.alen else []

theorem brack_noC (n : Nat) : 'c' ∉ brack n := by
  intro h
  rcases brack_chars n _ h with h | h | h
  · exact absurd h (by decide)
  · exact absurd h (by decide)
  · exact absurd h (by decide)

theorem arrA_noC (c : Col) : 'c' ∉ arrA c := by
  unfold arrA
  split
  · exact brack_noC _
  · simp

theorem upper_noC (s : Str) (h : wordy s) : 'c' ∉ upper s := by
  intro hm
  exact absurd (upper_noLower s h _ hm) (by decide)

/-- the two kinds of written types: no `c` in the type word (enum or number), or `char` with its size -/
theorem col_cases (enums : List EnumDecl) (c : Col) (hs : supported c.ty = true)
    (he : ∀ e ∈ enums, enumOK e = true) :
    ('c' ∉ tyWord enums c ∧ arrSuffix enums c = arrA c) ∨
    (∃ s, strSize c.ty = some s ∧ enums.find? (fun e => e.col == c.name) = none ∧
      tyWord enums c = "char".toList ∧ arrSuffix enums c = arrA c ++ brack s) := by
  unfold tyWord arrSuffix arrA
  cases hty : c.ty <;> simp only [hty, supported] at hs <;> try (exact absurd hs (by decide))
  all_goals simp only [strSize, cType, Option.getD_some, List.append_nil]
  all_goals first
    | exact Or.inl ⟨by decide, trivial⟩
    | (cases hf : enums.find? (fun e => e.col == c.name) with
       | none => exact Or.inr ⟨_, rfl, rfl, rfl, rfl⟩
       | some e => exact Or.inl ⟨upper_noC _ (enumOK_of_find enums he _ e hf).1, by simp⟩)

theorem fmtNat_digits (n : Nat) : ∀ a ∈ fmtNat n, a.isDigit = true :=
  fun a ha => (digit_facts a (fmtNat_chars n a ha)).1

theorem digitsThenClose_fmt (n : Nat) (r : Str) : digitsThenClose (fmtNat n ++ ']' :: r) = some r := by
  unfold digitsThenClose
  rw [dropWhile_app_stop Char.isDigit (fmtNat n) ']' r (fmtNat_digits n) (by decide)]
  rfl

theorem matchCharArr_two (n s : Nat) (r : Str) :
    matchCharArr ("char".toList ++ '[' :: (fmtNat n ++ ']' :: '[' :: (fmtNat s ++ ']' :: r))) = true := by
  rw [matchCharArr, stripPrefix_app]
  simp only [digitsThenClose_fmt]
  rfl

theorem matchCharArr_one (s : Nat) :
    matchCharArr ("char".toList ++ '[' :: (fmtNat s ++ [']'])) = false := by
  rw [matchCharArr, stripPrefix_app]
  simp only [digitsThenClose_fmt]
  rfl

theorem searchCharArr_of_match (s : Str) (h : matchCharArr s = true) : searchCharArr s = true := by
  cases s with
  | nil => exact absurd h (by decide)
  | cons x t => rw [searchCharArr, h]; rfl

theorem hasSub_char (x : Str) : hasSub "char".toList ("char".toList ++ x) = true := by
  show hasSub "char".toList ('c' :: ("har".toList ++ x)) = true
  rw [hasSub, findSub, show 'c' :: ("har".toList ++ x) = "char".toList ++ x from rfl, stripPrefix_app]
  rfl

theorem isArrayT_typ (enums : List EnumDecl) (c : Col) (hc : colOK c = true)
    (he : ∀ e ∈ enums, enumOK e = true) : isArrayT (typOf enums c) = decide (c.alen > 0) := by
  simp only [colOK, Bool.and_eq_true] at hc
  have hw := tyWord_wordy enums c hc.2 he
  rw [typOf_eq]
  rcases col_cases enums c hc.2 he with ⟨hnc, hsuf⟩ | ⟨s, hs, hf, htw, hsuf⟩
  · rw [hsuf]
    have hnc' : 'c' ∉ tyWord enums c ++ arrA c := by
      intro hm
      rcases List.mem_append.mp hm with h | h
      · exact hnc h
      · exact arrA_noC c h
    obtain ⟨h1, h2⟩ := noC_search _ hnc'
    rw [isArrayT, h1, h2]
    have hlt : '<' ∉ tyWord enums c ++ arrA c := by
      intro hm
      rcases List.mem_append.mp hm with h | h
      · exact (word_facts _ (hw.2 _ h)).2.2.2.2.2.2.2.2.1 rfl
      · unfold arrA at h
        split at h
        · rcases brack_chars _ _ h with h | h | h <;> exact absurd h (by decide)
        · simp at h
    have hob : '[' ∈ tyWord enums c ++ arrA c ↔ c.alen > 0 := by
      constructor
      · intro hm
        rcases List.mem_append.mp hm with h | h
        · exact absurd rfl (word_facts _ (hw.2 _ h)).2.2.2.2.1
        · unfold arrA at h
          split at h
          · assumption
          · simp at h
      · intro h
        simp [arrA, h, brack]
    by_cases h : c.alen > 0
    · have := hob.mpr h
      simp [this, h]
    · have : '[' ∉ tyWord enums c ++ arrA c := fun hm => h (hob.mp hm)
      simp only [List.contains_eq_mem, this, hlt, h]
      rfl
  · rw [htw, hsuf]
    unfold arrA
    by_cases h : c.alen > 0
    · simp only [h, if_true, decide_true]
      have hm : matchCharArr ("char".toList ++ (brack c.alen ++ brack s)) = true := by
        rw [show brack c.alen ++ brack s = '[' :: (fmtNat c.alen ++ ']' :: '[' :: (fmtNat s ++ [']'])) by
          simp [brack]]
        exact matchCharArr_two _ _ []
      rw [isArrayT, searchCharArr_of_match _ hm]
      rfl
    · simp only [h, if_false, decide_false, List.nil_append]
      have h1 : searchCharArr ("char".toList ++ brack s) = false := by
        show searchCharArr ('c' :: ("har".toList ++ brack s)) = false
        rw [searchCharArr]
        have hm : matchCharArr ("char".toList ++ brack s) = false := matchCharArr_one s
        rw [show 'c' :: ("har".toList ++ brack s) = "char".toList ++ brack s from rfl, hm,
          searchCharArr_noC]
        · rfl
        · intro hm
          rcases List.mem_append.mp hm with h | h
          · exact absurd h (by decide)
          · exact brack_noC s h
      rw [isArrayT, h1, hasSub_char]
      rfl

theorem arrayLength_typ (enums : List EnumDecl) (c : Col) (hc : colOK c = true)
    (he : ∀ e ∈ enums, enumOK e = true) (h : c.alen > 0) : arrayLength (typOf enums c) = .ok c.alen := by
  simp only [colOK, Bool.and_eq_true] at hc
  have hw := wordy_noOpen _ (tyWord_wordy enums c hc.2 he)
  rw [typOf_eq]
  obtain ⟨B, hB⟩ : ∃ B, arrSuffix enums c = '[' :: (fmtNat c.alen ++ ']' :: B) := by
    rw [arrSuffix, if_pos h, brack]
    exact ⟨_, by rw [List.cons_append, List.append_assoc]; rfl⟩
  rw [hB, arrayLength]
  have h1 : (tyWord enums c ++ '[' :: (fmtNat c.alen ++ ']' :: B)).contains '[' = true := by simp
  have h2 : (tyWord enums c ++ '[' :: (fmtNat c.alen ++ ']' :: B)).contains ']' = true := by simp
  rw [h1, h2, dropWhile_app_stop _ _ '[' _ hw (by decide)]
  show (match parseNat ((fmtNat c.alen ++ ']' :: B).takeWhile (· != ']')) with
    | some n => Except.ok n
    | none => Except.error "ValueError") = _
  have hd : ∀ a ∈ fmtNat c.alen, (a != ']') = true := by
    intro a ha
    have := (digit_facts a (fmtNat_chars _ a ha)).2.2.1
    simpa using this
  rw [takeWhile_app_stop _ _ ']' B hd (by decide), parseNat_fmtNat]

theorem charLength_typ (enums : List EnumDecl) (c : Col) (s : Nat) (hs : strSize c.ty = some s)
    (hn : enums.find? (fun e => e.col == c.name) = none) (data : List (Cell F)) :
    charLength (typOf enums c) data = .ok s := by
  rw [typOf_eq]
  have hsuf : arrSuffix enums c = arrA c ++ brack s := by simp only [arrSuffix, hs, hn, arrA]
  have hr : (tyWord enums c ++ arrSuffix enums c).reverse =
      ']' :: ((fmtNat s).reverse ++ '[' :: (tyWord enums c ++ arrA c).reverse) := by
    rw [hsuf]; simp [brack]
  rw [charLength, lastBracket, hr, dropWhile_head_false _ _ _ (by decide)]
  show (match parseNat ((((fmtNat s).reverse ++ '[' :: (tyWord enums c ++ arrA c).reverse).takeWhile
      (· != '[')).reverse) with
    | some n => Except.ok n
    | none => if data.isEmpty then Except.ok 1 else Except.ok ((data.map cellMaxLen).foldl max 0)) = _
  have hd : ∀ a ∈ (fmtNat s).reverse, (a != '[') = true := by
    intro a ha
    have := (digit_facts a (fmtNat_chars _ a (by simpa using ha))).2.1
    simpa using this
  rw [takeWhile_app_stop _ _ '[' _ hd (by decide), List.reverse_reverse, parseNat_fmtNat]

theorem upper_beq (s : Str) (h : wordy s) (w : Str) (hw : w.any lowerCh = true) : (upper s == w) = false := by
  apply beq_false_of_ne
  intro e
  obtain ⟨x, hx, hl⟩ := List.any_eq_true.mp hw
  have := upper_noLower s h x (e ▸ hx)
  rw [this] at hl
  cases hl

theorem convOfBase_upper (s : Str) (h : wordy s) : convOfBase (upper s) = .str := by
  unfold convOfBase
  rw [upper_beq s h _ (by decide : "short".toList.any lowerCh = true),
    upper_beq s h _ (by decide : "int".toList.any lowerCh = true),
    upper_beq s h _ (by decide : "long".toList.any lowerCh = true),
    upper_beq s h _ (by decide : "float".toList.any lowerCh = true),
    upper_beq s h _ (by decide : "double".toList.any lowerCh = true)]
  rfl

theorem convOfBase_tyWord (enums : List EnumDecl) (c : Col) (hc : colOK c = true)
    (he : ∀ e ∈ enums, enumOK e = true) : convOfBase (tyWord enums c) = convOfCol c := by
  simp only [colOK, Bool.and_eq_true] at hc
  have hs := hc.2
  unfold tyWord convOfCol
  cases hty : c.ty <;> simp only [hty, supported] at hs <;> try (exact absurd hs (by decide))
  all_goals simp only [strSize, cType, Option.getD_some]
  all_goals first
    | rfl
    | (cases hf : enums.find? (fun e => e.col == c.name) with
       | none => rfl
       | some e => exact convOfBase_upper _ (enumOK_of_find enums he _ e hf).1)

/-! ### D. the per-column results, given the result of the scan -/

theorem typeOf_of_search (structs : List Str) (T text : Str) (enums : List EnumDecl) (c : Col)
    (hsel : selectDef structs T = some text)
    (hts : typeSearch c.name text = some (tyWord enums c, arrSuffix enums c)) :
    typeOf structs T c.name = .ok (typOf enums c) := by
  simp only [typeOf, hsel, hts, typOf]

theorem colSpec_of_search (structs : List Str) (T text : Str) (enums : List EnumDecl) (c : Col)
    (hsel : selectDef structs T = some text)
    (hts : typeSearch c.name text = some (tyWord enums c, arrSuffix enums c))
    (hc : colOK c = true) (he : ∀ e ∈ enums, enumOK e = true) :
    colSpec structs T c.name = .ok ⟨convOfCol c, decide (c.alen > 0)⟩ := by
  rw [colSpec, typeOf_of_search structs T text enums c hsel hts]
  show Except.ok (ColSpec.mk (convOfBase (baseType (typOf enums c))) (isArrayT (typOf enums c))) = _
  rw [baseType_typ enums c hc he, convOfBase_tyWord enums c hc he, isArrayT_typ enums c hc he]

theorem rcolOf_of_search (structs : List Str) (cache : List (Str × List Str)) (T text : Str)
    (enums : List EnumDecl) (c : Col) (data : List (Cell F))
    (hsel : selectDef structs T = some text)
    (hts : typeSearch c.name text = some (tyWord enums c, arrSuffix enums c))
    (hc : colOK c = true) (he : ∀ e ∈ enums, enumOK e = true)
    (hcache : ∀ e, enums.find? (fun e => e.col == c.name) = some e →
      lookupLast (upper e.tyName) cache = some e.labels)
    (hnum : ∀ w ∈ ["short".toList, "int".toList, "long".toList, "float".toList, "double".toList],
      lookupLast w cache = none) :
    rcolOf structs cache T c.name data =
      .ok ⟨c.name, (rtOfCol enums c).getD .i2, if c.alen > 0 then some c.alen else none⟩ := by
  unfold rcolOf
  simp only [typeOf_of_search structs T text enums c hsel hts, baseType_typ enums c hc he,
    isArrayT_typ enums c hc he]
  have hs : supported c.ty = true := by
    simp only [colOK, Bool.and_eq_true] at hc
    exact hc.2
  have hstr : ∀ s, strSize c.ty = some s →
      rtOfCol enums c = (match enums.find? (fun e => e.col == c.name) with
        | some e => some (RT.S (maxLen e.labels))
        | none => some (RT.S s)) := by
    intro s h
    unfold rtOfCol
    cases hty : c.ty <;> simp only [hty, strSize, Option.some.injEq] at h
    all_goals first | (subst h; rfl) | cases h
  have hstrcase : ∀ s, strSize c.ty = some s → ∀ a : Option Nat,
      (match
        if (tyWord enums c == "char".toList) = true then
          match charLength (typOf enums c) data with
          | Except.error e => Except.error e
          | Except.ok n => Except.ok (RT.S n)
        else
          match lookupLast (tyWord enums c) cache with
          | some labels => Except.ok (RT.S (maxLen labels))
          | none =>
            match rtOfBase (tyWord enums c) with
            | some t => Except.ok t
            | none => Except.error "KeyError" with
      | Except.error e => Except.error e
      | Except.ok t => Except.ok { name := c.name, ty := t, alen := a }) =
      (Except.ok { name := c.name, ty := (rtOfCol enums c).getD RT.i2, alen := a } : Except String RCol) := by
    intro s hss a
    have hro := hstr s hss
    cases hf : enums.find? (fun e => e.col == c.name) with
    | none =>
      have htw : tyWord enums c = "char".toList := by simp only [tyWord, hss, hf]
      rw [hf] at hro
      simp only [htw, charLength_typ enums c s hss hf data, hro]
      rfl
    | some e =>
      have htw : tyWord enums c = upper e.tyName := by simp only [tyWord, hss, hf]
      rw [hf] at hro
      simp only [htw, upper_beq _ (enumOK_of_find enums he _ e hf).1 _ (by decide : "char".toList.any lowerCh = true),
        hcache e hf, hro]
      rfl
  by_cases h : c.alen > 0 <;>
    simp only [h, decide_true, decide_false, if_true, if_false, Bool.false_eq_true,
      arrayLength_typ enums c hc he] <;>
    (cases hty : c.ty <;> simp only [hty, supported] at hs <;> try (exact absurd hs (by decide))) <;>
    first
      | exact hstrcase _ (by rw [hty]; rfl) _
      | (have htw : tyWord enums c = ((cType c.ty).getD []) := by simp only [tyWord, hty, strSize]
         have hro : rtOfCol enums c = (match c.ty with
            | .i2 => some RT.i2 | .i4 => some .i4 | .i8 => some .i8 | .f4 => some .f4 | _ => some .f8) := by
           simp only [rtOfCol, hty]
         have hl : lookupLast ((cType c.ty).getD []) cache = none := by
           rw [hty]; exact hnum _ (by simp [cType])
         rw [hty] at htw hro hl
         simp only [cType, Option.getD_some] at htw hl
         simp only [htw, hl, hro]
         rfl)

/-! ### E. enum labels read back from a written enum body -/

theorem joinWith_cons (sep a : Str) (t : List Str) :
    joinWith sep (a :: t) = a ++ (t.map (sep ++ ·)).flatten := by
  induction t generalizing a with
  | nil => simp [joinWith]
  | cons b t ih => rw [joinWith, ih b]; simp

/-- the labels after the first, each with the separator in front: `,\n    B,\n    C` -/
def labTail (t : List Str) : Str := (t.map (fun n => ",\n".toList ++ ("    ".toList ++ n))).flatten

theorem labTail_cons (b : Str) (t : List Str) :
    labTail (b :: t) = ',' :: '\n' :: ' ' :: ' ' :: ' ' :: ' ' :: (b ++ labTail t) := by
  simp [labTail]

theorem enumBody_cons (a : Str) (t : List Str) :
    enumBody (a :: t) = '\n' :: ' ' :: ' ' :: ' ' :: ' ' :: ((a ++ labTail t) ++ ['\n']) := by
  unfold enumBody
  rw [List.map_cons, joinWith_cons, List.map_map]
  simp [labTail, Function.comp_def]

theorem wordy_head_ns (a : Str) (h : wordy a) : ∃ x a', a = x :: a' ∧ isSpace x = false := by
  cases a with
  | nil => exact absurd rfl h.1
  | cons x a' => exact ⟨x, a', rfl, (word_facts x (h.2 x (by simp))).2.2.1⟩

theorem labTail_last (t : List Str) : ∀ (p a : Str), wordy a → (∀ l ∈ t, wordy l) →
    ∀ c, (p ++ a ++ labTail t).getLast? = some c → isSpace c = false := by
  induction t with
  | nil =>
    intro p a ha _ c hc
    simp only [labTail, List.map_nil, List.flatten_nil, List.append_nil, List.getLast?_append] at hc
    cases hl : a.getLast? with
    | none => exact absurd (List.getLast?_eq_none_iff.mp hl) ha.1
    | some x =>
      rw [hl] at hc
      simp only [Option.some_or, Option.some.injEq] at hc
      subst hc
      exact (word_facts x (ha.2 x (List.mem_of_getLast? hl))).2.2.1
  | cons b t ih =>
    intro p a _ ht c hc
    rw [labTail_cons] at hc
    have e : p ++ a ++ ',' :: '\n' :: ' ' :: ' ' :: ' ' :: ' ' :: (b ++ labTail t) =
        (p ++ a ++ [',', '\n', ' ', ' ', ' ', ' ']) ++ b ++ labTail t := by simp
    rw [e] at hc
    exact ih _ b (ht b (by simp)) (fun l hl => ht l (by simp [hl])) c hc

theorem strip_enumBody (a : Str) (t : List Str) (ha : wordy a) (ht : ∀ l ∈ t, wordy l) :
    strip (enumBody (a :: t)) = a ++ labTail t := by
  obtain ⟨x, a', rfl, hx⟩ := wordy_head_ns a ha
  have hl : lstrip (enumBody ((x :: a') :: t)) = (x :: a' ++ labTail t) ++ ['\n'] := by
    rw [enumBody_cons, lstrip]
    exact dropWhile_app_stop isSpace ['\n', ' ', ' ', ' ', ' '] x _ (by decide) hx
  rw [strip, hl, rstrip, List.reverse_append]
  show (('\n' :: (x :: a' ++ labTail t).reverse).dropWhile isSpace).reverse = _
  rw [List.dropWhile_cons_of_pos (by decide), dropWhile_head, List.reverse_reverse]
  intro c hc
  rw [List.head?_reverse] at hc
  exact labTail_last t [] (x :: a') ha ht c (by simpa using hc)

theorem splitCommaAux_noComma (w rest cur : Str) (h : ',' ∉ w) :
    splitCommaAux (w ++ rest) cur = splitCommaAux rest (w.reverse ++ cur) := by
  induction w generalizing cur with
  | nil => rfl
  | cons x w ih =>
    have hx : (x == ',') = false := by
      have : x ≠ ',' := fun e => h (by simp [e])
      simpa using this
    rw [List.cons_append, splitCommaAux, hx]
    simp only [Bool.false_eq_true, if_false]
    rw [ih _ (fun hm => h (by simp [hm]))]
    simp

theorem splitCommaAux_labTail (t : List Str) : ∀ (a cur : Str), ',' ∉ a → (∀ l ∈ t, ',' ∉ l) →
    splitCommaAux (a ++ labTail t) cur =
      (cur.reverse ++ a) :: t.map (fun n => '\n' :: ' ' :: ' ' :: ' ' :: ' ' :: n) := by
  induction t with
  | nil =>
    intro a cur ha _
    rw [splitCommaAux_noComma a _ cur ha]
    simp [labTail, splitCommaAux]
  | cons b t ih =>
    intro a cur ha ht
    rw [labTail_cons, splitCommaAux_noComma a _ cur ha, splitCommaAux]
    simp only [beq_self_eq_true, if_true]
    have hb : ',' ∉ '\n' :: ' ' :: ' ' :: ' ' :: ' ' :: b := by
      intro hm
      simp only [List.mem_cons] at hm
      rcases hm with h | h | h | h | h | h
      all_goals first | exact absurd h (by decide) | exact ht b (by simp) h
    have := ih ('\n' :: ' ' :: ' ' :: ' ' :: ' ' :: b) [] hb (fun l hl => ht l (by simp [hl]))
    simp only [List.cons_append, List.reverse_nil, List.nil_append] at this
    rw [this]
    simp

theorem splitComma_enumBody (labels : List Str) (hne : labels ≠ []) (hl : ∀ l ∈ labels, wordOK l = true) :
    splitComma (strip (enumBody labels)) = labels := by
  cases labels with
  | nil => exact absurd rfl hne
  | cons a t =>
    have hw : ∀ l ∈ a :: t, wordy l := fun l h => wordOK_wordy l (hl l h)
    have hnc : ∀ l ∈ a :: t, ',' ∉ l := fun l h hm => (word_facts _ ((hw l h).2 _ hm)).2.2.2.1 rfl
    rw [strip_enumBody a t (hw a (by simp)) (fun l h => hw l (by simp [h])), splitComma,
      splitCommaAux_labTail t a [] (hnc a (by simp)) (fun l h => hnc l (by simp [h]))]
    simp only [List.reverse_nil, List.nil_append, List.map_map]
    congr 1
    conv => rhs; rw [← List.map_id t]
    apply List.map_congr_left
    intro n hn
    obtain ⟨x, n', rfl, hx⟩ := wordy_head_ns n (hw n (by simp [hn]))
    show (['\n', ' ', ' ', ' ', ' '] ++ x :: n').dropWhile isSpace = x :: n'
    exact dropWhile_app_stop isSpace _ x n' (by decide) hx

end PydlVerif.YannyRT

/-
Executable model of pydl/pydlutils/bspline.py (class `bspline`): `__init__`
(breakpoint placement + padding), `intrv`, `bsplvn`, `action` (1-D: x2=None,
npoly=1), `value`; and of pydl/uniq.py as used by `action`.  Generic over
`[Scalar α]`: runs at `Float` (next to numpy float64) and at `Rat` (exact);
the proof files instantiate it at an ordered field.

Layout: the numerical core is written over a *knot accessor* `t : Nat → α`
(`intrvAdvance/intrvScan`, `bsplvnStep/bsplvnLoop/bsplvn1`, `coxDeBoor`), the
object-level functions (`intrv`, `bsplvn`, `action`, `value`) wrap the core with
`t i := gb[i]!`, `gb = breakpoints[mask]`, and reproduce the index bookkeeping
of the Python code (uniq, lower/upper, slices, un-sorting, mask).

Parameters with a contract (not re-implemented): `perm` = what `x.argsort()`
returned (a sorting permutation of the points); `r32` = the binary64→binary32→
binary64 rounding that numpy applies where the code stores `dtype='f'` values
(identity in the exact interpretations).
C09 (`fit`) and C10 (`iterfit`) build on `action`, `value`, `BS`.
-/
import PydlVerif.Model.Scalar
namespace PydlVerif.BSpline

abbrev R := Except String
def indexError {β} : R β := .error "IndexError"
def valueError {β} : R β := .error "ValueError"
def zeroDivisionError {β} : R β := .error "ZeroDivisionError"
def overflowError {β} : R β := .error "OverflowError"

section generic
variable {α : Type} [Scalar α]

/-! ## breakpoints: `bspline.__init__` lines 83-133 -/

/-- the keyword options of the constructor that concern the knots -/
structure BkOpts (α : Type) where
  bkpt : Option (List α) := none
  /-- the explicit `bkpt` array is a float32 array (then all padding arithmetic is float32) -/
  bkptF32 : Bool := false
  placed : Option (List α) := none
  bkspace : Option α := none
  nbkpts : Option Int := none
  everyn : Option Int := none
  bkspread : α

/-- `x.min()` / `x.max()` (finite values) -/
def minOf (x0 : α) (xs : List α) : α := xs.foldl (fun m y => if y < m then y else m) x0
def maxOf (x0 : α) (xs : List α) : α := xs.foldl (fun m y => if m < y then y else m) x0

/-- `argmin`: first index of the least value; the highest breakpoint that is patched is the
*last* index of the greatest value (`size-1-bkpt[::-1].argmax()`) -/
def argBest (better : α → α → Bool) : List α → Nat → Nat → α → Nat
  | [], _, best, _ => best
  | y :: ys, i, best, bv => if better y bv then argBest better ys (i+1) i y else argBest better ys (i+1) best bv
def argminOf (b0 : α) (bs : List α) : Nat := argBest (fun y m => decide (y < m)) bs 1 0 b0
def argmaxOf (b0 : α) (bs : List α) : Nat := argBest (fun y m => decide (m ≤ y)) bs 1 0 b0

/-- Python `int(q)` of a finite float: truncation toward zero -/
def truncInt (q : α) : Int := if q < 0 then - Scalar.floor (-q) else Scalar.floor q

/-- `np.arange(nb)*temp + startx` -/
def evenBkpt (nb : Nat) (temp startx : α) : List α :=
  (List.range nb).map (fun i => (Scalar.ofNat i : α) * temp + startx)

/-- lines 83-114: the short breakpoint vector and whether it is a float32 array.
`r32` is applied where the code casts to float32. -/
def shortBkpt (r32 : α → α) (x0 : α) (xs : List α) (o : BkOpts α) : R (List α × Bool) :=
  match o.bkpt with
  | some b => pure (b, o.bkptF32)
  | none =>
    let x := x0 :: xs
    let startx := minOf x0 xs
    let rangex := maxOf x0 xs - startx
    match o.placed with
    | some p =>
      let w := p.filter (fun v => decide (startx ≤ v) && decide (v ≤ startx + rangex))
      if w.length < 2 then pure (evenBkpt 2 rangex startx, false) else pure (w, false)
    | none =>
    match o.bkspace with
    | some s =>
      -- rangex/0.0 is inf or nan: int() raises OverflowError / ValueError
      if s == (0 : α) then (if rangex == (0 : α) then valueError else overflowError) else
      let nb0 := truncInt (rangex / s) + 1
      let nb : Nat := if nb0 < 2 then 2 else nb0.toNat
      pure (evenBkpt nb (rangex / (Scalar.ofNat (nb - 1) : α)) startx, false)
    | none =>
    match o.nbkpts with
    | some nb0 =>
      let nb : Nat := if nb0 < 2 then 2 else nb0.toNat
      pure (evenBkpt nb (rangex / (Scalar.ofNat (nb - 1) : α)) startx, false)
    | none =>
    match o.everyn with
    | some e =>
      if e == 0 then zeroDivisionError else
      let nx := x.length
      let nbk : Nat := if e < 0 then 1 else max (nx / e.toNat) 1
      if nbk == 1 then pure ([r32 x0], true) else
      -- xspot = int(nx/(nbkpts-1)) * arange(nbkpts), clipped to nx-1 (fix of D18)
      let step := nx / (nbk - 1)
      pure ((List.range nbk).map (fun i => r32 (x.getD (min (step * i) (nx - 1)) x0)), true)
    | none => valueError

/-- lines 126-130: `nord-1` knots `first - bkspace*i` in front and `last + bkspace*i` behind
(`ar`, `pr`: float32 rounding of the sum / product where the arrays are float32, else identity) -/
def padKnots (ar pr : α → α) (nord : Nat) (bkspace first last : α) (b2 : List α) : List α :=
  let lo := (List.range (nord - 1)).reverse.map (fun i => ar (first - pr (bkspace * (Scalar.ofNat (i+1) : α))))
  let hi := (List.range (nord - 1)).map (fun i => ar (last + pr (bkspace * (Scalar.ofNat (i+1) : α))))
  lo ++ b2 ++ hi

/-- lines 115-133: min/max patching and `nord-1` padding knots on each side -/
def padBkpt (r32 : α → α) (nord : Nat) (bkspread : α) (xmin xmax : α) (b : List α) (f32 : Bool) : R (List α) :=
  match b with
  | [] => valueError    -- argmin of an empty array
  | b0 :: bs =>
    let ar : α → α := if f32 then r32 else id
    let imin := argminOf b0 bs
    let imax := argmaxOf b0 bs
    let b1 := if xmin < b.getD imin b0 then b.set imin (ar xmin) else b
    let b2 := if b1.getD imax b0 < xmax then b1.set imax (ar xmax) else b1
    let nshort := b2.length
    let first := b2.getD 0 b0
    let last := b2.getD (nshort - 1) b0
    let spread := r32 bkspread
    let bkspace := if nshort == 1 then spread else ar ((b2.getD 1 b0 - first) * spread)
    -- bkspace*i : float32 product when bkspace is a float32 scalar
    let pr : α → α := if nshort == 1 then r32 else ar
    pure (padKnots ar pr nord bkspace first last b2)

/-- `bspline(x, nord, **opts).breakpoints` -/
def mkKnots (r32 : α → α) (xs : List α) (nord : Nat) (o : BkOpts α) : R (List α) :=
  match xs with
  | [] => valueError   -- x.min() of an empty array
  | x0 :: rest => do
    let (b, f32) ← shortBkpt r32 x0 rest o
    padBkpt r32 nord o.bkspread (minOf x0 rest) (maxOf x0 rest) b f32

/-! ## intrv (lines 283-307) -/

/-- the `while x[i] > gb[ileft+1] and ileft < n-1: ileft += 1` loop for one point -/
def intrvAdvance (t : Nat → α) (n : Nat) (x : α) : Nat → Nat → Nat
  | 0, i => i
  | fuel+1, i => if t (i+1) < x ∧ i + 1 < n then intrvAdvance t n x fuel (i+1) else i

/-- the scan over the points in the order given; `ileft` is carried along -/
def intrvScan (t : Nat → α) (n : Nat) : List α → Nat → List Nat
  | [], _ => []
  | x :: xs, i => let i' := intrvAdvance t n x (n - i) i; i' :: intrvScan t n xs i'

/-- interval index of one point, looked for from the first interval -/
def intrvOf (t : Nat → α) (nord n : Nat) (x : α) : Nat := intrvAdvance t n x (n - (nord - 1)) (nord - 1)

/-! ## bsplvn (lines 309-343) -/

/-- the inner `for l in range(j+1)` loop; `vs` are the not yet updated `vnikx[l..j]`,
the result are the new `vnikx[l..j+1]` -/
def bsplvnStep (dp dm : Nat → α) (j : Nat) : Nat → α → List α → List α
  | _, vmprev, [] => [vmprev]
  | l, vmprev, v :: vs =>
    let vm := v / (dp l + dm (j - l))
    (vm * dp l + vmprev) :: bsplvnStep dp dm j (l+1) (vm * dm (j - l)) vs

/-- the outer `while j < nord-1` loop -/
def bsplvnLoop (dp dm : Nat → α) : Nat → Nat → List α → List α
  | 0, _, v => v
  | fuel+1, j, v => bsplvnLoop dp dm fuel (j+1) (bsplvnStep dp dm j 0 0 v)

/-- the `nord` possibly non-zero B-spline values at `x`, given its interval `ileft`
(`deltap[l] = t[ileft+l+1]-x`, `deltam[l] = x-t[ileft-l]`); domain `ileft ≥ nord-1` -/
def bsplvn1 (t : Nat → α) (nord : Nat) (x : α) (ileft : Nat) : List α :=
  bsplvnLoop (fun l => t (ileft + l + 1) - x) (fun l => x - t (ileft - l)) (nord - 1) 0 [1]

/-! ## reference: the Cox-de Boor recursion -/

def cdbW (t : Nat → α) (j k : Nat) (x : α) : α :=
  if t j < t (j + k) then (x - t j) / (t (j + k) - t j) else 0
def cdbW' (t : Nat → α) (j k : Nat) (x : α) : α :=
  if t j < t (j + k) then (t (j + k) - x) / (t (j + k) - t j) else 0

/-- textbook B-spline `B_{j,k}(x)` of order `k` (degree `k-1`) on knots `t`, `0/0 := 0`,
half-open intervals `[t_j, t_{j+1})` -/
def coxDeBoor (t : Nat → α) : Nat → Nat → α → α
  | 0, _, _ => 0
  | 1, j, x => if t j ≤ x ∧ x < t (j+1) then 1 else 0
  | k+2, j, x => cdbW t j (k+1) x * coxDeBoor t (k+1) j x + cdbW' t (j+1) (k+1) x * coxDeBoor t (k+1) (j+1) x

/-- the same recursion with the order-1 functions tied to a given knot interval `i`
(the polynomial piece of `B_{j,k}` on interval `i`, also at the closed right end) -/
def coxDeBoorAt (t : Nat → α) (i : Nat) : Nat → Nat → α → α
  | 0, _, _ => 0
  | 1, j, _ => if j = i then 1 else 0
  | k+2, j, x => cdbW t j (k+1) x * coxDeBoorAt t i (k+1) j x + cdbW' t (j+1) (k+1) x * coxDeBoorAt t i (k+1) (j+1) x

/-! ## the object -/

structure BS (α : Type) where
  nord : Nat
  breakpoints : Array α
  mask : Array Bool
  coeff : Array α

/-- `mask.nonzero()[0]` -/
def goodIdx (mask : List Bool) : List Nat := (List.range mask.length).filter (fun i => mask.getD i false)

/-- `breakpoints[mask]` -/
def BS.gb (b : BS α) : Array α := ((goodIdx b.mask.toList).map (fun i => b.breakpoints[i]!)).toArray

/-- `coeff[mask[nord:].nonzero()[0]]` -/
def BS.goodcoeff (b : BS α) : Array α :=
  ((goodIdx (b.mask.toList.drop b.nord)).map (fun i => b.coeff[i]!)).toArray

def knotAt (gb : Array α) : Nat → α := fun i => gb[i]!

/-- `self.intrv(x)`; the first comparison reads `gb[nord]` -/
def BS.intrv (b : BS α) (xs : List α) : R (List Nat) :=
  let gb := b.gb
  if xs.isEmpty then pure [] else
  if gb.size ≤ b.nord then indexError else
  pure (intrvScan (knotAt gb) (gb.size - b.nord) xs (b.nord - 1))

/-- `self.bsplvn(x, ileft)` for `x` of dtype float64; `bkpt[ileft+j+1]`, `j ≤ nord-2`, raises
when it reads past the end (never when `ileft` comes from `intrv` and `gb.size ≥ 2 nord`) -/
def BS.bsplvn (b : BS α) (xs : List α) (ileft : List Nat) : R (List (List α)) :=
  if b.nord ≥ 2 ∧ ileft.any (fun i => decide (b.gb.size ≤ i + b.nord - 1)) then indexError else
  pure (List.zipWith (fun x i => bsplvn1 (knotAt b.gb) b.nord x i) xs ileft)

/-- pydl `uniq(q, arange(q.size))`: positions whose successor (cyclically) differs,
`[size-1]` when there is none -/
def uniqIdx (q : Array Nat) : List Nat :=
  let n := q.size
  let idx := (List.range n).filter (fun i => q[i]! != q[(i+1) % n]!)
  if idx.isEmpty then [n - 1] else idx

/-- `arr[idx] = vals` (later assignments win) -/
def scatter (arr : Array Int) (idx : List Nat) (vals : List Int) : Array Int :=
  (idx.zip vals).foldl (fun a (iv : Nat × Int) => a.setIfInBounds iv.1 iv.2) arr

/-- `lower`, `upper` of `action` from the interval indices of the (sorted) points -/
def lowerUpper (nord n : Nat) (indx : Array Nat) : Array Int × Array Int :=
  let nx := indx.size
  let m := n - nord + 1
  let aa := uniqIdx indx
  let upper := scatter (Array.replicate m (-1)) (aa.map (fun a => indx[a]! + 1 - nord)) (aa.map (fun (a : Nat) => (a : Int)))
  let rindx := indx.reverse
  let bb := uniqIdx rindx
  let lower := scatter (Array.replicate m 0) (bb.map (fun a => rindx[a]! + 1 - nord)) (bb.map (fun (a : Nat) => (nx : Int) - (a : Int) - 1))
  (lower, upper)

/-- `self.action(x)` with `x2=None`: `none` is the `(-2, 0, 0)` return -/
def BS.action (b : BS α) (xs : List α) : R (Option (List (List α) × Array Int × Array Int)) := do
  let nbkpt := b.gb.size
  if nbkpt < 2 * b.nord then pure none else
  let n := nbkpt - b.nord
  let indx ← b.intrv xs
  let bf ← b.bsplvn xs indx
  -- uniq of an empty array returns [-1]; indexing the empty indx with it raises
  if xs.isEmpty then indexError else
  let (lower, upper) := lowerUpper b.nord n indx.toArray
  pure (some (bf, lower, upper))

/-- `np.dot(action[p, :], goodcoeff[i : i+nord])` -/
def dotFrom (c : Nat → α) : List α → Nat → α
  | [], _ => 0
  | a :: as, off => a * c off + dotFrom c as (off+1)

/-- the `for i in range(n-nord+1)` loop of `value`: rows `lower[i]..upper[i]` get the
dot products with coefficients `i..i+nord-1` -/
def fillRows (rows : List (List α)) (c : Nat → α) (lower upper : Array Int) (m nx : Nat) : List α :=
  (List.range m).foldl (fun (y : List α) i =>
    if upper[i]! - lower[i]! + 1 > 0 then
      y.mapIdx (fun p v => if lower[i]! ≤ (p : Int) ∧ (p : Int) ≤ upper[i]! then dotFrom c (rows.getD p []) i else v)
    else y) (List.replicate nx 0)

/-- `yy = yfit.copy(); yy[xsort] = yfit` -/
def unsort (perm : List Nat) (yfit : List α) : List α :=
  (perm.zip yfit).foldl (fun (yy : List α) (pv : Nat × α) => yy.set pv.1 pv.2) yfit

/-- the validity mask of `value`: False outside `[gb[nord-1], gb[n]]` and inside the
span of a run of masked breakpoints -/
def maskOf (bp : Nat → α) (gbk : Nat → α) (goodbk : List Nat) (nord n : Nat) (xs : List α) : List Bool :=
  let hmm := (List.range (goodbk.length - 1)).filter (fun j => decide (goodbk.getD (j+1) 0 - goodbk.getD j 0 > 2))
  xs.map (fun x =>
    let outside := decide (x < gbk (nord - 1)) || decide (gbk n < x)
    let inGap := hmm.any (fun j => decide (bp (goodbk.getD j 0) ≤ x) && decide (x ≤ bp (goodbk.getD (j+1) 0 - 1)))
    !(outside || inGap))

/-- `self.value(x)` with `x2=None`, `action=None`; `perm` is `x.argsort()` -/
def BS.value (b : BS α) (xs : List α) (perm : List Nat) : R (List α × List Bool) := do
  let xwork := perm.map (fun p => xs.getD p 0)
  let act ← b.action xwork
  let gb := b.gb
  let nbkpt := gb.size
  let nx := xs.length
  let n := nbkpt - b.nord
  let gc := b.goodcoeff
  let yfit : List α := match act with
    | none => List.replicate nx 0
    | some (rows, lower, upper) => fillRows rows (fun i => gc[i]!) lower upper (n - b.nord + 1) nx
  let yy := unsort perm yfit
  -- gb[nord-1] with fewer than nord good breakpoints raises
  if nbkpt < b.nord ∨ b.nord = 0 then indexError else
  let goodbk := goodIdx b.mask.toList
  pure (yy, maskOf (fun i => b.breakpoints[i]!) (knotAt gb) goodbk b.nord n xs)

/-- pointwise description of `value` (what `value_spec` proves it equals):
`Σ_m bsplvn(x)[m] · coeff[indx(x)-nord+1+m]` -/
def splineAt (t : Nat → α) (c : Nat → α) (nord n : Nat) (x : α) : α :=
  let i := intrvOf t nord n x
  dotFrom c (bsplvn1 t nord x i) (i + 1 - nord)

end generic
end PydlVerif.BSpline

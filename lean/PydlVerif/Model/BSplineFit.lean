/-
Executable model of pydl/pydlutils/bspline.py: `bspline.fit` (1-D: x2=None, npoly=1),
`bspline.maskpoints`, `cholesky_band`, `cholesky_solve` - the code as it is after the fixes
of D6 (maskpoints: integer arithmetic, `uniq`, `goodbk[test]`) and D7 (cholesky_band: the
fallback loop carries out the trailing update and reports the failing column).

Generic over `[Scalar α]` (runs at `Float`; the proof files instantiate it at an ordered
field).  Builds on Model/BSpline.lean (`BS`, `BS.action`, `fillRows`, `unsort`).

Parameters with a contract (`Kernels`), never re-implemented in the model:
  `cholFactor` = scipy.linalg.cholesky_banded(l[:, 0:n], lower=True)  (`none` = LinAlgError)
  `cholSolve`  = scipy.linalg.cho_solve_banded((a[:, 0:n], True), b[0:n])
  `sqrt`, `isFinite` = np.sqrt, np.isfinite;  `perm` = `xdata.argsort()` inside `value`.

The normal equations are stored as the code stores them: `alpha.T.flat` (flat index
`col*bw + band`) and `beta`, as functions `Nat → α` that are updated at single flat indices
(`addAt`), with the same flat-index arithmetic (`bo + itop*bw`, `bi`) as the code.
-/
import PydlVerif.Model.BSpline
namespace PydlVerif.BSplineFit
open PydlVerif PydlVerif.BSpline

def typeError {β} : R β := .error "TypeError"

section generic
variable {α : Type} [Scalar α]

/-! ## assembly of the banded normal equations: `fit` lines 196-213 -/

/-- the parallel index arrays `(bo, bi)` of `fit`:
`bo = [arange(bw-k) + bw*k | k < bw]` (flat index into a `bw`-wide slab of `alpha.T`),
`bi = [arange(bw-k) + (bw+1)*k | k < bw]` (flat index into the `bw×bw` matrix `work`) -/
def scatterPairs (bw : Nat) : List (Nat × Nat) :=
  (List.range bw).flatMap fun k => (List.range (bw - k)).map fun r => (r + bw * k, r + (bw + 1) * k)

/-- `arr.flat[i] += v` on an array held as a function of the flat index -/
def addAt (g : Nat → α) (i : Nat) (v : α) : Nat → α := fun f => if f = i then g f + v else g f

/-- sum of a list (the order of numpy's / BLAS' summation is not modelled; compared within tolerance) -/
def sumL (l : List α) : α := l.foldr (· + ·) 0

/-- row `p` lies in the slice `lower[k] : upper[k]+1` -/
def rowIn (lower upper : Array Int) (k p : Nat) : Bool :=
  decide (lower[k]! ≤ (p : Int)) && decide ((p : Int) ≤ upper[k]!)

/-- `work.flat[i]` with `work = np.dot(a1[lo:hi+1, :].T, a2[lo:hi+1, :])`, `a2 = a1 * invvar` -/
def workAt (a1 : Nat → Nat → α) (w : Nat → α) (inK : Nat → Bool) (nx bw i : Nat) : α :=
  sumL ((List.range nx).map fun p => if inK p then a1 p (i / bw) * (a1 p (i % bw) * w p) else 0)

/-- `wb[a]` with `wb = np.dot(ydata[lo:hi+1], a2[lo:hi+1, :])` -/
def wbAt (a1 : Nat → Nat → α) (y w : Nat → α) (inK : Nat → Bool) (nx a : Nat) : α :=
  sumL ((List.range nx).map fun p => if inK p then y p * (a1 p a * w p) else 0)

/-- `alpha.T.flat[bo + itop*bw] += work.flat[bi]` -/
def scatterStep (bw itop : Nat) (work : Nat → α) (g : Nat → α) : Nat → α :=
  (scatterPairs bw).foldl (fun g oi => addAt g (oi.1 + itop * bw) (work oi.2)) g

/-- `beta[itop:ibottom+1] += wb` (`ibottom = min(itop, nfull) + bw - 1 = itop + bw - 1`, as `itop ≤ nfull - bw`) -/
def betaStep (bw itop : Nat) (wb : Nat → α) (g : Nat → α) : Nat → α :=
  (List.range bw).foldl (fun g a => addAt g (itop + a) (wb a)) g

/-- the loop `for k in range(nn-nord+1)` of `fit` (npoly = 1: `itop = k`, `bw = nord`):
returns `alpha.T.flat` and `beta` -/
def assemble (a1 : Nat → Nat → α) (y w : Nat → α) (lower upper : Array Int) (nx bw nseg : Nat) :
    (Nat → α) × (Nat → α) :=
  (List.range nseg).foldl (fun ab k =>
    if upper[k]! - lower[k]! + 1 > 0 then
      (scatterStep bw k (workAt a1 w (rowIn lower upper k) nx bw) ab.1,
       betaStep bw k (wbAt a1 y w (rowIn lower upper k) nx) ab.2)
    else ab) (fun _ => 0, fun _ => 0)

/-! ## cholesky_band / cholesky_solve -/

structure Kernels (α : Type) where
  sqrt : α → α
  isFinite : α → Bool
  /-- `cholFactor bw n A`: `A` = the `bw × n` lower band form; `none` = `LinAlgError` -/
  cholFactor : Nat → Nat → Array (Array α) → Option (Array (Array α))
  /-- `cholSolve bw n L b` -/
  cholSolve : Nat → Nat → Array (Array α) → Array α → Array α

/-- first item of the tuple returned by `cholesky_band`: `-1` and the factor, or the index
array of the bad columns (`scalar`: a Python int from the fallback loop) -/
inductive CholRes (α : Type) where
  | factor (L : Array (Array α))
  | bad (idx : List Nat) (scalar : Bool)

def get2 (m : Array (Array α)) (r c : Nat) : α := (m[r]!)[c]!
def modify2 (m : Array (Array α)) (r c : Nat) (f : α → α) : Array (Array α) :=
  m.modify r (fun row => row.modify c f)

/-- one column `j` of the fallback loop; `none` = "NaN found", else the updated matrix -/
def fallbackCol (K : Kernels α) (kn j : Nat) (lower : Array (Array α)) : Option (Array (Array α)) :=
  let d := K.sqrt (get2 lower 0 j)
  let lower := modify2 lower 0 j (fun _ => d)
  let lower := (List.range kn).foldl (fun m s => modify2 m (s+1) j (fun v => v / d)) lower
  let x : Array α := ((List.range kn).map (fun s => get2 lower (s+1) j)).toArray
  if !(decide (0 < d) && x.all K.isFinite) then none else
  some ((List.range kn).foldl (fun m i =>
    (List.range (kn - i)).foldl (fun m r => modify2 m r (j+1+i) (fun v => v - x[i]! * x[i+r]!)) m) lower)

def fallbackLoop (K : Kernels α) (kn : Nat) : List Nat → Array (Array α) → Sum Nat (Array (Array α))
  | [], lower => .inr lower
  | j :: js, lower =>
    match fallbackCol K kn j lower with
    | none => .inl j
    | some l' => fallbackLoop K kn js l'

/-- `L = zeros(l.shape); L[:, 0:n] = lower` -/
def padBand (bw n nn : Nat) (lower : Array (Array α)) : Array (Array α) :=
  ((List.range bw).map fun r => ((List.range nn).map fun c => if c < n then get2 lower r c else 0).toArray).toArray

/-- `cholesky_band(l, mininf)`; `l` is `bw × (n+bw)` -/
def choleskyBand (K : Kernels α) (l : Array (Array α)) (mininf : α) : R (CholRes α) :=
  let bw := l.size
  if bw = 0 then valueError else
  let nn := (l[0]!).size
  if nn < bw then valueError else
  let n := nn - bw
  let negative := (List.range n).filter (fun c => decide (get2 l 0 c ≤ mininf))
  if !negative.isEmpty || !(l.all (fun row => row.all K.isFinite)) then pure (.bad negative false) else
  match K.cholFactor bw n (l.map (fun row => row.extract 0 n)) with
  | some L => pure (.factor (padBand bw n nn L))
  | none =>
    match fallbackLoop K (bw - 1) (List.range n) l with
    | .inl j => pure (.bad [j] true)
    | .inr lower => pure (.factor (padBand bw n nn lower))

/-- `cholesky_solve(a, bb)`: the solution padded with zeros to the shape of `bb` -/
def choleskySolve (K : Kernels α) (a : Array (Array α)) (bb : Array α) : Array α :=
  let bw := a.size
  let n := bb.size - bw
  let x := K.cholSolve bw n (a.map (fun row => row.extract 0 n)) (bb.extract 0 n)
  ((List.range bb.size).map fun i => if i < n then x[i]! else 0).toArray

/-! ## maskpoints (lines 420-460, after the fix of D6) -/

/-- `np.where(v > 0, v, 0)` then `np.where(foo+nord < n-1, foo+nord, n-1)` -/
def insideIdx (nord n : Nat) (h : Nat) (jj : Int) : Nat :=
  let foo : Int := if (h : Int) + jj > 0 then (h : Int) + jj else 0
  if foo + nord < (n : Int) - 1 then (foo + nord).toNat else n - 1

/-- returns the status (-1 / -2) and the new breakpoint mask -/
def maskpoints (mask : Array Bool) (nord : Nat) (err : List Nat) : Int × Array Bool :=
  let goodbk := goodIdx mask.toList
  let nbkpt := goodbk.length
  if nbkpt ≤ 2 * nord then (-2, mask) else
  if err.isEmpty then (-2, mask) else
  -- hmm = err[uniq(err // npoly)] // npoly
  let ea := err.toArray
  let hmm := (uniqIdx ea).map (fun i => ea[i]!)
  let n := nbkpt - nord
  if hmm.any (fun h => decide (n ≤ h)) then (-2, mask) else
  -- for jj in range(-((nord+1)//2), nord//2)
  let jjs : List Int := (List.range ((nord + 1) / 2 + nord / 2)).map (fun (i : Nat) => (i : Int) - (((nord + 1) / 2 : Nat) : Int))
  let test : List Nat := jjs.flatMap (fun jj => hmm.map (fun h => insideIdx nord n h jj))
  if test.isEmpty then (-2, mask) else
  -- reality = goodbk[test]; the good breakpoints are True in the mask
  let reality := (List.range nbkpt).filter (fun i => test.contains i) |>.map (fun i => goodbk.getD i 0)
  if reality.any (fun i => mask[i]!) then
    (-1, reality.foldl (fun m i => m.setIfInBounds i false) mask)
  else (-2, mask)

/-! ## fit (lines 162-229) -/

/-- `self.coeff[goodbk] = sol[0:nfull]`: the successive values of `sol` go to the positions where `goodbk` is True -/
def putGood (coeff : Array α) (goodbk : List Bool) (sol : Array α) : Array α :=
  let idx := goodIdx goodbk
  (idx.zip (List.range idx.length)).foldl (fun c (ij : Nat × Nat) => c.setIfInBounds ij.1 sol[ij.2]!) coeff

/-- the `yfit` of `self.value(xdata, action=a1, lower=lower, upper=upper)` -/
def yfitOf (b : BS α) (rows : List (List α)) (lower upper : Array Int) (nx : Nat) (perm : List Nat) : R (List α) :=
  let gb := b.gb
  let n := gb.size - b.nord
  let gc := b.goodcoeff
  if gb.size < b.nord ∨ b.nord = 0 then indexError else
  pure (unsort perm (fillRows rows (fun i => gc[i]!) lower upper (n - b.nord + 1) nx))

structure FitOut (α : Type) where
  status : Int
  yfit : List α
  obj : BS α
  /-- what `cholesky_band` was given and returned (for the correspondence of the internals) -/
  alpha : Array (Array α) := #[]
  beta : Array α := #[]

/-- `alpha` (`bw × (nfull+bw)`) and `beta` as `fit` hands them to `cholesky_band` / `cholesky_solve` -/
def normalSystem (rows : List (List α)) (ys ws : List α) (lower upper : Array Int) (nx nord nn : Nat) :
    Array (Array α) × Array α :=
  let rowsA := (rows.map List.toArray).toArray
  let ya := ys.toArray
  let wa := ws.toArray
  let ab := assemble (fun p a => (rowsA[p]!)[a]!) (fun p => ya[p]!) (fun p => wa[p]!) lower upper nx nord (nn - nord + 1)
  (((List.range nord).map fun r => ((List.range (nn + nord)).map fun c => ab.1 (c * nord + r)).toArray).toArray,
   ((List.range (nn + nord)).map ab.2).toArray)

/-- `self.fit(xdata, ydata, invvar)`; `perm` = `xdata.argsort()` (used by `value`) -/
def fit (K : Kernels α) (b : BS α) (xs ys ws : List α) (perm : List Nat) : R (FitOut α) := do
  let nord := b.nord
  let goodbk := b.mask.toList.drop nord
  let nn := (goodIdx goodbk).length
  let nx := xs.length
  if nn < nord then pure { status := -2, yfit := List.replicate nx 0, obj := b } else
  if nord = 0 then valueError else          -- zero-size reshape / division by nfull = 0 paths; not a use of the class
  let nfull := nn
  let bw := nord
  let act ← b.action xs
  match act with
  | none => typeError                        -- `upper[k]` on the int 0 that `action` returned
  | some (rows, lower, upper) =>
  let nseg := nn - nord + 1
  if lower.size < nseg then indexError else
  let (alpha, beta) := normalSystem rows ys ws lower upper nx nord nn
  let minInfluence : α := (1.0e-10 : α) * sumL ws / (Scalar.ofNat nfull : α)
  let errb ← choleskyBand K alpha minInfluence
  match errb with
  | .bad idx _ =>
    let yfit ← yfitOf b rows lower upper nx perm
    let (st, mask') := maskpoints b.mask nord idx
    pure { status := st, yfit := yfit, obj := { b with mask := mask' }, alpha := alpha, beta := beta }
  | .factor a =>
    let sol := choleskySolve K a beta
    let b' : BS α := { b with coeff := putGood b.coeff goodbk sol }
    let yfit ← yfitOf b' rows lower upper nx perm
    pure { status := 0, yfit := yfit, obj := b', alpha := alpha, beta := beta }

end generic
end PydlVerif.BSplineFit

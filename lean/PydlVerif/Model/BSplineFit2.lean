/-
Executable model of the TWO-DIMENSIONAL path of pydl/pydlutils/bspline.py (x2 given, npoly ≥ 1), as the code is after
the four fixes of extension round 3 (orientation of the Legendre/Chebyshev basis, the `poly1` start row, float64
powers for `poly`, coefficient order "polynomial index fastest" in `fit`/`value`):

  `bspline.action(x, x2=...)` : `x2norm`, the `funcname` expansion (`polyBasis`), the tensor columns
                                `action[:, ii*npoly+jj] = bf1[:, ii]*temppoly[:, jj]` (`tensorRow`, `action2`);
  `bspline.fit(..., x2=...)`  : the `npoly`-blocked assembly (`itop = k*npoly`, `bw = npoly*nord`, `nfull = nn*npoly`:
                                `assembleP`, `normalSystemP`), `maskpoints(err)` with `err // npoly`, the store
                                `coeff[:, goodbk] = sol[0:nfull].reshape(nn, npoly).T` (`putGood2`), `fit2`;
  `bspline.value(x, x2=...)`  : `goodcoeff = coeff[:, coeffbk].T.ravel()`, rows of segment `i` times
                                `goodcoeff[i*npoly + arange(bw)]` (`fillRowsP`, `value2`).

Nothing of Model/BSpline.lean / Model/BSplineFit.lean is changed; `assembleP 1 = assemble` (proved in Lemmas/BSplineFit2).
Parameters with a contract: the `Kernels` of Model/BSplineFit.lean; `perm` = `argsort`; the coefficient tables of
`scipy.special.legendre(k)` / `chebyt(k)` are taken as the exact coefficients of P_k / T_k (three-term recurrence on
coefficient lists), evaluated like `np.polyval` (Horner from the leading coefficient, starting from 0).
-/
import PydlVerif.Model.BSplineFit
namespace PydlVerif.BSplineFit2
open PydlVerif PydlVerif.BSpline PydlVerif.BSplineFit

inductive Func where
  | poly | poly1 | chebyshev | legendre
  deriving DecidableEq, Repr

def Func.ofString : String → Option Func
  | "poly" => some .poly
  | "poly1" => some .poly1
  | "chebyshev" => some .chebyshev
  | "legendre" => some .legendre
  | _ => none

section generic
variable {α : Type} [Scalar α]

/-! ## the basis in the second variable: `action` lines 269-283 -/

/-- `x2norm = 2.0 * (x2 - xmin) / (xmax - xmin) - 1.0` -/
def x2norm (xmin xmax v : α) : α := (2.0 : α) * (v - xmin) / (xmax - xmin) - (1.0 : α)

/-- `temppoly[:, i] = temppoly[:, i-1] * x2norm` started from `s` -/
def powFrom (s t : α) : Nat → α
  | 0 => s
  | n+1 => powFrom s t n * t

/-- coefficient lists, lowest degree first -/
def polyAdd : List α → List α → List α
  | [], q => q
  | p, [] => p
  | a :: p, b :: q => (a + b) :: polyAdd p q

/-- `(T_k, T_{k+1})`: `T_{k+2} = 2 x T_{k+1} - T_k` -/
def chebCoeffs : Nat → List α × List α
  | 0 => ([1], [0, 1])
  | k+1 =>
    let ab := chebCoeffs k
    (ab.2, polyAdd ((0 : α) :: ab.2.map (fun c => (2.0 : α) * c)) (ab.1.map (fun c => -c)))

/-- `(P_k, P_{k+1})`: `(k+2) P_{k+2} = (2k+3) x P_{k+1} - (k+1) P_k` -/
def legCoeffs : Nat → List α × List α
  | 0 => ([1], [0, 1])
  | k+1 =>
    let ab := legCoeffs k
    (ab.2, (polyAdd ((0 : α) :: ab.2.map (fun c => (Scalar.ofNat (2 * k + 3) : α) * c))
      (ab.1.map (fun c => -((Scalar.ofNat (k + 1) : α) * c)))).map (fun c => c / (Scalar.ofNat (k + 2) : α)))

/-- `np.polyval(p, x)`: `y = 0; for c in p (leading first): y = y*x + c` -/
def polyval (cs : List α) (x : α) : α := cs.reverse.foldl (fun y c => y * x + c) 0

/-- row of `temppoly` for one point: `npoly` values -/
def polyBasis (f : Func) (npoly : Nat) (t : α) : List α :=
  match f with
  | .poly => (List.range npoly).map (fun l => powFrom 1 t l)
  | .poly1 => (List.range npoly).map (fun l => powFrom t t l)
  | .chebyshev => (List.range npoly).map (fun l => if l = 0 then 1 else if l = 1 then t else polyval (chebCoeffs (α := α) l).1 t)
  | .legendre => (List.range npoly).map (fun l => if l = 0 then 1 else if l = 1 then t else polyval (legCoeffs (α := α) l).1 t)

/-- `action[p, ii*npoly + jj] = bf1[p, ii] * temppoly[p, jj]` -/
def tensorRow (bf P : List α) : List α := bf.flatMap (fun b => P.map (fun q => b * q))

/-! ## the object -/

structure BS2 (α : Type) where
  /-- `nord`, `breakpoints`, `mask` (its 1-D `coeff` field is not used) -/
  base : BS α
  npoly : Nat
  /-- `coeff`, shape `(npoly, nc)` -/
  coeff2 : Array (Array α)
  xmin : α
  xmax : α
  func : Func

/-- `self.action(x, x2=x2)` -/
def BS2.action (b : BS2 α) (xs x2s : List α) : R (Option (List (List α) × Array Int × Array Int)) := do
  let act ← b.base.action xs
  match act with
  | none => pure none
  | some (bf, lower, upper) =>
    if x2s.length ≠ xs.length then valueError else
    let rows := List.zipWith (fun r v => tensorRow r (polyBasis b.func b.npoly (x2norm b.xmin b.xmax v))) bf x2s
    pure (some (rows, lower, upper))

/-- `goodcoeff = self.coeff[:, coeffbk].T.ravel()`: flat index `j*npoly + l` -/
def BS2.goodcoeff (b : BS2 α) : Array α :=
  ((goodIdx (b.base.mask.toList.drop b.base.nord)).flatMap (fun j => (List.range b.npoly).map (fun l => get2 b.coeff2 l j))).toArray

/-- the loop of `value`: rows `lower[i]..upper[i]` get the dot product with `goodcoeff[i*npoly + arange(bw)]` -/
def fillRowsP (npoly : Nat) (rows : List (List α)) (c : Nat → α) (lower upper : Array Int) (m nx : Nat) : List α :=
  (List.range m).foldl (fun (y : List α) i =>
    if upper[i]! - lower[i]! + 1 > 0 then
      y.mapIdx (fun p v => if lower[i]! ≤ (p : Int) ∧ (p : Int) ≤ upper[i]! then dotFrom c (rows.getD p []) (i * npoly) else v)
    else y) (List.replicate nx 0)

/-- `self.value(x, x2=x2)`; `perm` = `x.argsort()` -/
def BS2.value (b : BS2 α) (xs x2s : List α) (perm : List Nat) : R (List α × List Bool) := do
  let xwork := perm.map (fun p => xs.getD p 0)
  let x2work := perm.map (fun p => x2s.getD p 0)
  let act ← b.action xwork x2work
  let gb := b.base.gb
  let nbkpt := gb.size
  let nx := xs.length
  let nord := b.base.nord
  let n := nbkpt - nord
  let gc := b.goodcoeff
  let yfit : List α := match act with
    | none => List.replicate nx 0
    | some (rows, lower, upper) => fillRowsP b.npoly rows (fun i => gc[i]!) lower upper (n - nord + 1) nx
  let yy := unsort perm yfit
  if nbkpt < nord ∨ nord = 0 then indexError else
  let goodbk := goodIdx b.base.mask.toList
  pure (yy, maskOf (fun i => b.base.breakpoints[i]!) (knotAt gb) goodbk nord n xs)

/-! ## fit: the `npoly`-blocked assembly -/

/-- the loop `for k in range(nn-nord+1)` of `fit` with `itop = k*npoly` -/
def assembleP (npoly : Nat) (a1 : Nat → Nat → α) (y w : Nat → α) (lower upper : Array Int) (nx bw nseg : Nat) :
    (Nat → α) × (Nat → α) :=
  (List.range nseg).foldl (fun ab k =>
    if upper[k]! - lower[k]! + 1 > 0 then
      (scatterStep bw (k * npoly) (workAt a1 w (rowIn lower upper k) nx bw) ab.1,
       betaStep bw (k * npoly) (wbAt a1 y w (rowIn lower upper k) nx) ab.2)
    else ab) (fun _ => 0, fun _ => 0)

/-- `alpha` (`bw × (nfull+bw)`, `bw = npoly*nord`, `nfull = nn*npoly`) and `beta` -/
def normalSystemP (npoly : Nat) (rows : List (List α)) (ys ws : List α) (lower upper : Array Int) (nx nord nn : Nat) :
    Array (Array α) × Array α :=
  let rowsA := (rows.map List.toArray).toArray
  let ya := ys.toArray
  let wa := ws.toArray
  let bw := npoly * nord
  let nfull := nn * npoly
  let ab := assembleP npoly (fun p a => (rowsA[p]!)[a]!) (fun p => ya[p]!) (fun p => wa[p]!) lower upper nx bw (nn - nord + 1)
  (((List.range bw).map fun r => ((List.range (nfull + bw)).map fun c => ab.1 (c * bw + r)).toArray).toArray,
   ((List.range (nfull + bw)).map ab.2).toArray)

/-- `self.coeff[:, goodbk] = sol[0:nfull].reshape(nn, npoly).T`: row `l` receives `sol[j*npoly + l]` -/
def putGood2 (coeff2 : Array (Array α)) (goodbk : List Bool) (sol : Array α) (npoly : Nat) : Array (Array α) :=
  (List.range npoly).foldl (fun c l =>
    c.modify l (fun row => putGood row goodbk (((List.range (goodIdx goodbk).length).map fun j => sol[j * npoly + l]!).toArray))) coeff2

/-- `hmm = err[uniq(err // npoly)] // npoly` and the rest of `maskpoints` -/
def maskpointsP (mask : Array Bool) (nord npoly : Nat) (err : List Nat) : Int × Array Bool :=
  maskpoints mask nord (err.map (fun e => e / npoly))

def yfitOf2 (b : BS2 α) (rows : List (List α)) (lower upper : Array Int) (nx : Nat) (perm : List Nat) : R (List α) :=
  let gb := b.base.gb
  let nord := b.base.nord
  let n := gb.size - nord
  let gc := b.goodcoeff
  if gb.size < nord ∨ nord = 0 then indexError else
  pure (unsort perm (fillRowsP b.npoly rows (fun i => gc[i]!) lower upper (n - nord + 1) nx))

structure FitOut2 (α : Type) where
  status : Int
  yfit : List α
  obj : BS2 α
  alpha : Array (Array α) := #[]
  beta : Array α := #[]

/-- `self.fit(xdata, ydata, invvar, x2=x2)` -/
def fit2 (K : Kernels α) (b : BS2 α) (xs x2s ys ws : List α) (perm : List Nat) : R (FitOut2 α) := do
  let nord := b.base.nord
  let npoly := b.npoly
  let goodbk := b.base.mask.toList.drop nord
  let nn := (goodIdx goodbk).length
  let nx := xs.length
  if nn < nord then pure { status := -2, yfit := List.replicate nx 0, obj := b } else
  if nord = 0 ∨ npoly = 0 then valueError else
  let nfull := nn * npoly
  let act ← b.action xs x2s
  match act with
  | none => typeError
  | some (rows, lower, upper) =>
  let nseg := nn - nord + 1
  if lower.size < nseg then indexError else
  let (alpha, beta) := normalSystemP npoly rows ys ws lower upper nx nord nn
  let minInfluence : α := (1.0e-10 : α) * sumL ws / (Scalar.ofNat nfull : α)
  let errb ← choleskyBand K alpha minInfluence
  match errb with
  | .bad idx _ =>
    let yfit ← yfitOf2 b rows lower upper nx perm
    let (st, mask') := maskpointsP b.base.mask nord npoly idx
    pure { status := st, yfit := yfit, obj := { b with base := { b.base with mask := mask' } }, alpha := alpha, beta := beta }
  | .factor a =>
    let sol := choleskySolve K a beta
    let b' : BS2 α := { b with coeff2 := putGood2 b.coeff2 goodbk sol npoly }
    let yfit ← yfitOf2 b' rows lower upper nx perm
    pure { status := 0, yfit := yfit, obj := b', alpha := alpha, beta := beta }

end generic
end PydlVerif.BSplineFit2

/-
Textbook banded factorisation + triangular solves in the lower-band storage that
`cholesky_band` / `cholesky_solve` (pydl/pydlutils/bspline.py) hand to LAPACK
(`A[r][c] = A_full[c+r][c]`, `r < bw`), written once over `[Scalar α]`:

  `bandFactor V bw n A`   left-looking column factorisation `A = M E Mᵀ`
  `bandSolve  V bw n F b` forward substitution, diagonal scaling, back substitution

`V : Variant α` selects the form:
  `ldltV`       square-root-free `L D Lᵀ` (`M` unit lower, `E = D`): row 0 of the factor holds `d_c`,
                rows `1..bw-1` the sub-diagonals of `L`                      (exact run at `Rat`)
  `cholV sqrt`  Cholesky `L Lᵀ` (`E = I`): row 0 holds `sqrt(pivot)`          (run at `Float`)

These are NOT LAPACK: they are the kernels that the Lean driver executes as the `Kernels`
parameter of the model `fit` (Model/BSplineFit.lean), and the kernels about which
Lemmas/BandChol.lean / Props/C09.lean prove the factor + solve contract.
The order of the floating-point operations is that of the unblocked LAPACK routine `dpbtf2`
/ `dtbsv` (subtractions in order of increasing source column; `r = 1..bw-1` in the solves).
-/
import PydlVerif.Model.BSplineFit
namespace PydlVerif.BandChol
open PydlVerif PydlVerif.BSplineFit

/-- the array `#[s 0, .., s (n-1)]`, `s i = step #[s 0, .., s (i-1)] i` (every element is computed from the
already built prefix) -/
def buildUp {β : Type} (step : Array β → Nat → β) : Nat → Array β
  | 0 => #[]
  | i+1 =>
    let p := buildUp step i
    p.push (step p i)

/-- form of the factorisation `A = M E Mᵀ`: `root` maps the pivot to the stored diagonal entry `g`, `ew g` is the
entry of the diagonal matrix `E`, `md g` the diagonal entry of the triangular factor `M`; the sub-diagonal entries of
`M` are `(Schur complement entry) / g` -/
structure Variant (α : Type) where
  root : α → α
  ew : α → α
  md : α → α

section generic
variable {α : Type} [Scalar α]

/-- `L D Lᵀ`: stored diagonal = pivot `d`, `E = D`, `M = L` has unit diagonal -/
def ldltV : Variant α := { root := fun p => p, ew := fun g => g, md := fun _ => 1 }

/-- Cholesky `L Lᵀ`: stored diagonal = `sqrt(pivot)`, `E = I` -/
def cholV (sqrt : α → α) : Variant α := { root := sqrt, ew := fun _ => 1, md := fun g => g }

/-- entry `c+r, c` of the Schur complement when column `c` is reached (`cols[k][s]` = entry `k+s, k` of `M`,
`cols[k][0]` the stored diagonal):  `A[c+r][c] - Σ_{k<c, c+r-k<bw} M[c][k]·e_k·M[c+r][k]` -/
def colEntry (V : Variant α) (bw : Nat) (a : Nat → Nat → α) (cols : Array (Array α)) (c r : Nat) : α :=
  (List.range c).foldl (fun acc k =>
    if c + r < k + bw then acc - get2 cols k (c - k) * V.ew (get2 cols k 0) * get2 cols k (c + r - k) else acc) (a r c)

/-- column `c` of the factor: `[g, v_1/g, .., v_{bw-1}/g]`, `g = root(pivot)`; positions below the matrix
(`c + r ≥ n`) keep the input value (LAPACK does not reference them) -/
def newCol (V : Variant α) (bw n : Nat) (a : Nat → Nat → α) (cols : Array (Array α)) (c : Nat) : Array α :=
  let g := V.root (colEntry V bw a cols c 0)
  ((List.range bw).map fun r => if r = 0 then g else if c + r < n then colEntry V bw a cols c r / g else a r c).toArray

/-- the first `c` columns of the factor -/
def factorCols (V : Variant α) (bw n : Nat) (a : Nat → Nat → α) (c : Nat) : Array (Array α) :=
  buildUp (fun cols c => newCol V bw n a cols c) c

/-- `bandFactor V bw n A`: `A` is `bw × n` (lower band form); `none` when a pivot is not positive
(`LinAlgError` of `cholesky_banded`), else the factor in the same `bw × n` layout -/
def bandFactor (V : Variant α) (bw n : Nat) (A : Array (Array α)) : Option (Array (Array α)) :=
  let a := fun r c => get2 A r c
  let cols := factorCols V bw n a n
  if (List.range n).all (fun c => decide (0 < colEntry V bw a cols c 0)) then
    some ((List.range bw).map fun r => ((List.range n).map fun c => get2 cols c r).toArray).toArray
  else none

/-- forward substitution `M z = b`, row `i` from `z_0 .. z_{i-1}` -/
def fwdStep (V : Variant α) (bw : Nat) (F : Array (Array α)) (b z : Array α) (i : Nat) : α :=
  (List.range (bw - 1)).foldl (fun s t => if t + 1 ≤ i then s - get2 F (t + 1) (i - (t + 1)) * z[i - (t + 1)]! else s) b[i]!
    / V.md (get2 F 0 i)

/-- back substitution `Mᵀ x = w`; `xr` holds `x_{n-1}, x_{n-2}, ..` (reversed), step `ii` computes `x_{n-1-ii}` -/
def bwdStep (V : Variant α) (bw n : Nat) (F : Array (Array α)) (w xr : Array α) (ii : Nat) : α :=
  (List.range (bw - 1)).foldl (fun s t =>
      if (n - 1 - ii) + (t + 1) < n then s - get2 F (t + 1) (n - 1 - ii) * xr[ii - (t + 1)]! else s) w[n - 1 - ii]!
    / V.md (get2 F 0 (n - 1 - ii))

/-- `bandSolve V bw n F b`: solves `(M E Mᵀ) x = b` with the factor `F` of `bandFactor` -/
def bandSolve (V : Variant α) (bw n : Nat) (F : Array (Array α)) (b : Array α) : Array α :=
  let z := buildUp (fun z i => fwdStep V bw F b z i) n
  let w := ((List.range n).map fun i => z[i]! / V.ew (get2 F 0 i)).toArray
  let xr := buildUp (fun xr ii => bwdStep V bw n F w xr ii) n
  ((List.range n).map fun i => xr[n - 1 - i]!).toArray

/-- the kernels of the exact run: banded `L D Lᵀ`.  No square root exists in the exact interpretation: `sqrt := 0`
makes the model's fallback loop (entered only after `cholFactor` answered `none`) stop at its first column. -/
def kernelsLdlt : Kernels α :=
  { sqrt := fun _ => 0, isFinite := fun _ => true, cholFactor := bandFactor ldltV, cholSolve := bandSolve ldltV }

/-- the kernels of the floating-point run: banded Cholesky with the given `sqrt` -/
def kernelsChol (sqrt : α → α) (isFinite : α → Bool) : Kernels α :=
  { sqrt := sqrt, isFinite := isFinite, cholFactor := bandFactor (cholV sqrt), cholSolve := bandSolve (cholV sqrt) }

end generic
end PydlVerif.BandChol

/-
C11 model: `combine1fiber` (pydl/pydlspec2d/spec2d.py 71-382, as it is after the
fixes recorded in docs/C11.md), `aesthetics(method='damp')` (spec2d.py 48-61) and the
per-object shift of `preprocess_spectra` (pydl/pydlspec2d/spec1d.py 1285-1303).

Generic over `[Scalar α]`: executed at `Float` next to numpy float64, proved at an
ordered field (Props/C11.lean).  C-order flattened arrays; `xshape = [n]` or
`[nspec, ncol]`.

Parameters with a contract (not re-implemented here):
* `fit k bkspace x y ivar` - the call `iterfit(x, y, invvar=ivar, nord=3, groupbadpix=True,
  requiren=1, bkspace=bkptbin)` (`bkptbin = 1.2*binsz`) made for group `k` (C09/C10 model it).  It answers
  `Fit`: `coeffs` (all entries of `sset.coeff`), `value` = `sset.value` (values and
  validity mask for any list of abscissae, or what it raises), `bmask` = the returned
  `outmask`, one Bool per pixel of the group in the order given.  Contract used by the
  theorems: `bmask.length = x.length`, `value xs` returns two lists of `xs.length`.
* `argsort` - `ndarray.argsort()`: *a* sorting permutation of its argument.
* `med` - the median of one odd window (scipy.signal.medfilt kernel), `mean` - numpy
  `mean` of a non-empty list, `erf` - scipy.special.erf, `classify` - IEEE finiteness
  (`np.isfinite`): `.fin x` for a finite `x`, `.nonfin` for NaN/±inf; in an exact field
  every value is `.fin`.
Not modelled (no influence on the two returned arrays): `andmask`/`ormask`/`finalmask`,
`indisp`/`skyflux`, logging.  dtype float64 only; arrays C-contiguous (the code zeroes
rejected pixels through `objivar.ravel()`, a view only then).
-/
import PydlVerif.Model.Scalar
import PydlVerif.Model.Interp
namespace PydlVerif.Combine
open PydlVerif PydlVerif.Interp

abbrev R := Except String

/-- explicit value type of the non-finite scrub -/
inductive Val (α : Type) where
  | fin (x : α)
  | nonfin

section generic
variable {α : Type} [Scalar α]

/-- `EPS = np.finfo(np.float32).eps` = 2⁻²³ -/
def eps : α := 1 / Scalar.ofNat 8388608

/-- `a.min()`, `a.max()` of a non-empty array -/
def lmin (x0 : α) (xs : List α) : α := xs.foldl (fun m y => if y < m then y else m) x0
def lmax (x0 : α) (xs : List α) : α := xs.foldl (fun m y => if m < y then y else m) x0

/-- `np.absolute` -/
def absS (v : α) : α := if v < 0 then -v else v

/-- `arr[idx] = vals` (element by element, later assignments win) -/
def scatter {β : Type} (arr : List β) (idx : List Nat) (vals : List β) : List β :=
  (idx.zip vals).foldl (fun a (iv : Nat × β) => a.set iv.1 iv.2) arr

/-- `arr[idx] = v` -/
def scatterConst {β : Type} (arr : List β) (idx : List Nat) (v : β) : List β :=
  idx.foldl (fun a i => a.set i v) arr

/-- `idx[sel]` for a boolean selector -/
def select {β : Type} (idx : List β) (sel : List Bool) : List β :=
  ((idx.zip sel).filter (·.2)).map (·.1)

/-! ## the spline fit of one group (parameter) -/

structure Fit (α : Type) where
  /-- every entry of `sset.coeff` (a single 0 when the code stored the scalar 0) -/
  coeffs : List α
  /-- `sset.value(xs)` -/
  value : List α → R (List α × List Bool)
  /-- `bmask` -/
  bmask : List Bool

/-- `np.sum(np.absolute(sset.coeff)) == 0` -/
def coeffZero (c : List α) : Bool := Scalar.beq (c.foldl (fun s v => s + absS v) 0) 0

/-! ## grouping by `maxsep` (lines 193-201) -/

/-- `padwave`: the sorted good wavelengths with one sentinel on each side -/
def padwave (w0 : α) (ws : List α) (maxsep : α) : List α :=
  (lmin w0 ws - 2 * maxsep) :: (w0 :: ws) ++ [lmax w0 ws + 2 * maxsep]

/-- `ig1`, `ig2` -/
def ig1 (pad : List α) (ngood : Nat) (maxsep : α) : List Nat :=
  (List.range ngood).filter fun i => decide (maxsep < pad.getD (i+1) 0 - pad.getD i 0)
def ig2 (pad : List α) (ngood : Nat) (maxsep : α) : List Nat :=
  (List.range ngood).filter fun i => decide (maxsep < pad.getD (i+2) 0 - pad.getD (i+1) 0)

/-- the groups `isort[ig1[k] : ig2[k]+1]`; `ValueError` when `ig1.size != ig2.size`;
`isort` is non-empty here (`ngood > 0`) -/
def groupsOf (x : List α) (isort : List Nat) (maxsep : α) : R (List (List Nat)) :=
  match isort.map (fun i => x.getD i 0) with
  | [] => .error "ValueError"
  | w0 :: ws =>
    let pad := padwave w0 ws maxsep
    let a := ig1 pad isort.length maxsep
    let b := ig2 pad isort.length maxsep
    if a.length ≠ b.length then .error "ValueError"
    else .ok (List.zipWith (fun s e => (isort.drop s).take (e + 1 - s)) a b)

/-! ## the group loop (lines 216-277) -/

/-- what the loop over the groups updates -/
structure St (α : Type) where
  /-- `newflux` -/
  flux : List α
  /-- `newmask` (1 = the spline is valid at this output pixel) -/
  mask : List Bool
  /-- `fullcombmask` (1 = input pixel kept by its group's fit) -/
  fcm : List Bool
  /-- `objivar.ravel()` (rejected pixels are set to 0 in place) -/
  ivar : Option (List α)

/-- `inside`: output pixels within `[min - EPS, max + EPS]` of the group's wavelengths -/
def insideOf (newx : List α) (lo hi : α) : List Nat :=
  (List.range newx.length).filter fun p =>
    decide (lo - eps ≤ newx.getD p 0) && decide (newx.getD p 0 ≤ hi + eps)

/-- one pass of the `for igrp` loop; `x`, `y` are the raveled `inloglam`, `objflux` -/
def groupStep (fit : Nat → α → List α → List α → Option (List α) → R (Fit α))
    (bkspace : α) (x y newx : List α) (st : St α) (k : Nat) (ss : List Nat) : R (St α) := do
  let gx := ss.map (fun i => x.getD i 0)
  let fb : Option (Fit α) × List Bool ←
    if ss.length > 2 then do
      let f ← fit k bkspace gx (ss.map (fun i => y.getD i 0)) (st.ivar.map fun iv => ss.map (fun i => iv.getD i 0))
      if coeffZero f.coeffs then pure (none, List.replicate ss.length false) else pure (some f, f.bmask)
    else pure (none, List.replicate ss.length false)
  match gx with
  | [] => throw "ValueError"     -- `.min()` of an empty selection
  | g0 :: gr =>
    let inside := insideOf newx (lmin g0 gr) (lmax g0 gr)
    let bmask := fb.2
    let st1 : St α ←
      match fb.1 with
      | some f =>
        if inside.isEmpty then pure st else do
          let (vals, vm) ← f.value (inside.map (fun p => newx.getD p 0))
          let ireplace := bmask.map (!·)
          pure { st with
            flux := scatter st.flux inside vals
            mask := scatterConst st.mask (select inside vm) true
            ivar := if ireplace.any id then st.ivar.map (fun iv => scatterConst iv (select ss ireplace) 0)
                    else st.ivar }
      | none => pure st
    pure { st1 with fcm := scatter st1.fcm ss bmask }

def groupLoop (fit : Nat → α → List α → List α → Option (List α) → R (Fit α))
    (bkspace : α) (x y newx : List α) (st : St α) (groups : List (List Nat)) : R (St α) :=
  (List.range groups.length).foldlM (fun st k => groupStep fit bkspace x y newx st k (groups.getD k [])) st

/-! ## inverse variance (lines 284-310) -/

/-- one input pixel of one spectrum: wavelength, inverse variance, kept by the fit -/
structure Samp (α : Type) where
  x : α
  iv : α
  keep : Bool

/-- `(inloglam[these], objivar[these]*fullcombmask[these])` -/
def ivPts (s : List (Samp α)) : List (α × α) := s.map fun p => (p.x, p.iv * castB p.keep)
/-- `(inloglam[these], fullcombmask[these])` -/
def mkPts (s : List (Samp α)) : List (α × α) := s.map fun p => (p.x, castB p.keep)

/-- np.interp on a sample list (empty list: the caller never gets there) -/
def interpL (pts : List (α × α)) (lam : α) : α :=
  match pts with
  | [] => 0
  | (x0, f0) :: rest => npInterp x0 f0 rest lam

/-- what spectrum `s` adds to the output pixel at `lam` whose `newmask` is `nm`:
`none` when the pixel is not `inbetween`; otherwise
`np.interp(ivar*fcm) * (np.interp(fcm) >= 1-EPS) * newmask` -/
def contrib (s : List (Samp α)) (lam : α) (nm : Bool) : Option α :=
  match s with
  | [] => none
  | p0 :: rest =>
    let xs := rest.map (·.x)
    if lmin p0.x xs ≤ lam ∧ lam ≤ lmax p0.x xs then
      some (interpL (ivPts s) lam * castB (decide (1 - eps ≤ interpL (mkPts s) lam)) * castB nm)
    else none

/-- `newivar[p]` before the bad-region growth: the spectra add up in order -/
def rawIvarAt (specs : List (List (Samp α))) (lam : α) (nm : Bool) : α :=
  specs.foldl (fun acc s => match contrib s lam nm with | some c => acc + c | none => acc) 0

/-- the spectra that take part: `these = (specnum == j).nonzero()`, skipped when
`these.any()` is false (no index other than 0) -/
def specsOf (oneD : Bool) (nspec ncol : Nat) (x iv : List α) (fcm : List Bool) : List (List (Samp α)) :=
  let mk (idx : List Nat) : List (Samp α) := idx.map fun i => ⟨x.getD i 0, iv.getD i 0, fcm.getD i false⟩
  let all := if oneD then [List.range x.length]
             else (List.range nspec).map fun j => (List.range ncol).map fun c => j * ncol + c
  (all.filter fun idx => idx.any (· != 0)).map mk

def rawIvar (specs : List (List (Samp α))) (newx : List α) (mask : List Bool) : List α :=
  (List.range newx.length).map fun p => rawIvarAt specs (newx.getD p 0) (mask.getD p false)

/-! ## bad-region growth (lines 338-348) -/

/-- `smooth(a, 3)`: interior values `((a[i-1] + a[i]) + a[i+1])/3.0` (numpy's `sum` of a
3-slice, left to right), edge values unchanged -/
def smooth3 (a : List α) : List α :=
  let n := a.length
  (List.range n).map fun (i : Nat) =>
    if i < 1 ∨ n < i + 2 then a.getD i 0
    else (a.getD (i-1) 0 + a.getD i 0 + a.getD (i+1) 0) / 3.0

/-- `badregion = |smooth(newivar,3)| < EPS` -/
def badRegion (a : List α) : List Bool := (smooth3 a).map fun v => decide (absS v < eps)

/-- pixel `p` is zeroed when some bad `i` has `max(i-2,0) = p` or `min(i+2,n-1) = p` -/
def grown (bad : List Bool) (n p : Nat) : Bool :=
  (List.range n).any fun i => bad.getD i false && (i - 2 == p || min (i + 2) (n - 1) == p)

def growBad (a : List α) : List α :=
  let bad := badRegion a
  (List.range a.length).map fun p => if grown bad a.length p then 0 else a.getD p 0

/-! ## non-finite scrub (lines 352-357) -/

def isFin (classify : α → Val α) (v : α) : Bool :=
  match classify v with | .fin _ => true | .nonfin => false

/-- both values of a pixel are kept when both are finite, both become 0 otherwise -/
def scrub (classify : α → Val α) (flux ivar : List α) : List (α × α) :=
  List.zipWith (fun f v => if isFin classify f && isFin classify v then (f, v) else (0, 0)) flux ivar

/-! ## aesthetics -/

/-- `aesthetics(flux, invvar, 'damp')` (the branch taken when some `invvar == 0`) -/
def damp (erf : α → α) (flux invvar : List α) : R (List α) :=
  let good := (List.range invvar.length).filter fun i => !(isZeroI (invvar.getD i 0))
  match good with
  | [] => .error "ValueError"      -- `goodpts.min()` of an empty array
  | g0 :: _ =>
    let mingood := g0
    let maxgood := good.getLast?.getD g0
    let nflux := flux.length
    let f0 := maskinterp1 flux (invvar.map isZeroI) true
    let f1 := if mingood > 0 then
        let damp1 : α := Scalar.ofNat (min mingood 250)
        f0.mapIdx fun i v => v * (0.5 * (1.0 + erf (((Scalar.ofNat i : α) - Scalar.ofNat mingood) / damp1)))
      else f0
    let f2 := if maxgood < nflux - 1 then
        let damp2 : α := Scalar.ofNat (min (max maxgood 1) 250)
        f1.mapIdx fun i v => v * (0.5 * (1.0 + erf (((Scalar.ofNat maxgood : α) - Scalar.ofNat i) / damp2)))
      else f1
    .ok f2

/-- `aesthetics(newflux, newivar, method)` as called by combine1fiber -/
def aesth (mean : List α → α) (erf : α → α) (flux ivar : List α) (m : Method) : R (List α) :=
  match m with
  | .damp => if (ivar.map isZeroI).any id then damp erf flux ivar else .ok flux
  | _ =>
    aesthetics flux ivar m
      (mean (((flux.zip ivar).filter fun (fv : α × α) => decide (fv.2 > 0)).map (·.1)))

/-! ## the whole function -/

structure Input (α : Type) where
  xshape : List Nat
  fshape : List Nat
  ishape : Option (List Nat)
  x : List α
  flux : List α
  ivar : Option (List α)
  newx : List α
  binsz : Option α := none
  maxsep : Option α := none
  /-- the `aesthetics` keyword (default 'traditional') -/
  method : Method := .traditional

/-- `binsz` default: `inloglam[0,1]-inloglam[0,0]` / `inloglam[1]-inloglam[0]` -/
def binszOf (inp : Input α) : R α :=
  match inp.binsz with
  | some b => pure b
  | none =>
    match inp.xshape with
    | [n] => if n < 2 then throw "IndexError" else pure (inp.x.getD 1 0 - inp.x.getD 0 0)
    | [ns, nc] => if ns < 1 ∨ nc < 2 then throw "IndexError" else pure (inp.x.getD 1 0 - inp.x.getD 0 0)
    | _ => throw "IndexError"

/-- lines 207-213: every spectrum's positive inverse variances are replaced by their running
median of width 101 (`djs_median(…, width=101)`, boundary 'none'); the caller's array is
changed, so `saved_objivar` is the smoothed array as well -/
def smoothIvar (med : List α → α) (nspec ncol : Nat) (iv : List α) : R (List α) :=
  (List.range nspec).foldlM (fun (cur : List α) spec => do
    let igood := (List.range ncol).filter fun c => decide (cur.getD (spec * ncol + c) 0 > 0)
    if igood.isEmpty then pure cur else do
      let m ← medianFilt med (igood.map fun c => cur.getD (spec * ncol + c) 0) 101
      pure (scatter cur (igood.map fun c => spec * ncol + c) m)) iv

/-- lines 279-290: `objivar = saved_objivar * (objivar > 0)` for stacked input (where
`saved_objivar` is the very array that was smoothed and zeroed), unit weights without `objivar` -/
def workIvar (oneD : Bool) (npix : Nat) (iv : Option (List α)) : List α :=
  match iv with
  | some v => if oneD then v else v.map fun a => a * castB (decide (a > 0))
  | none => List.replicate npix 1

/-- lines 291-357: (flux, ivar) per output pixel after adding up the spectra, growing the bad
regions and scrubbing non-finite values -/
def finishPairs (classify : α → Val α) (oneD : Bool) (nspec ncol : Nat) (x newx : List α) (st : St α) :
    List (α × α) :=
  let iv := workIvar oneD x.length st.ivar
  scrub classify st.flux (growBad (rawIvar (specsOf oneD nspec ncol x iv st.fcm) newx st.mask))

/-- lines 361-370: `aesthetics` is called only when some output pixel is good -/
def aesthIf (mean : List α → α) (erf : α → α) (flux ivar : List α) (m : Method) : R (List α) :=
  if ivar.any (fun v => decide (v > 0)) then aesth mean erf flux ivar m else pure flux

/-- lines 279-382 on the state the group loop leaves: inverse variance, growth, scrub, then
aesthetics -/
def finish (mean : List α → α) (erf : α → α) (classify : α → Val α)
    (oneD : Bool) (nspec ncol : Nat) (x newx : List α) (method : Method) (st : St α) :
    R (List α × List α) := do
  let s := finishPairs classify oneD nspec ncol x newx st
  let flux' ← aesthIf mean erf (s.map (·.1)) (s.map (·.2)) method
  pure (flux', s.map (·.2))

/-- `combine1fiber(inloglam, objflux, newloglam, objivar, binsz=, maxsep=, aesthetics=)` -/
def combine1fiber (fit : Nat → α → List α → List α → Option (List α) → R (Fit α))
    (argsort : List α → List Nat) (med : List α → α) (mean : List α → α) (erf : α → α)
    (classify : α → Val α) (inp : Input α) : R (List α × List α) := do
  if inp.fshape ≠ inp.xshape then throw "ValueError"
  match inp.ishape with
  | some s => if s ≠ inp.xshape then throw "ValueError"
  | none => pure ()
  let binsz ← binszOf inp
  let maxsep : α := match inp.maxsep with | some m => m | none => 2.0 * binsz
  let (oneD, nspec, ncol) ← match inp.xshape with
    | [n] => pure (true, 1, n)
    | [ns, nc] => pure (false, ns, nc)
    | _ => throw "ValueError"
  let npix := inp.x.length
  let nfinal := inp.newx.length
  let nonzero : List Nat := match inp.ivar with
    | none => List.range npix
    | some iv => (List.range npix).filter fun i => decide (iv.getD i 0 > 0)
  if nonzero.isEmpty then pure (List.replicate nfinal 0, List.replicate nfinal 0) else
  let perm := argsort (nonzero.map fun i => inp.x.getD i 0)
  let isort := perm.map fun p => nonzero.getD p 0
  let groups ← groupsOf inp.x isort maxsep
  let iv0 ← match inp.ivar with
    | some iv => if oneD then pure (some iv) else some <$> smoothIvar med nspec ncol iv
    | none => pure none
  let st0 : St α := ⟨List.replicate nfinal 0, List.replicate nfinal false, List.replicate npix false, iv0⟩
  let st ← groupLoop fit (1.2 * binsz) inp.x inp.flux inp.newx st0 groups
  finish mean erf classify oneD nspec ncol inp.x inp.newx inp.method st

/-- the arguments of the `iterfit` calls, in call order (groups of more than two pixels):
used to compare what the model would hand to the fit with what the code handed to it -/
def fitCalls (x y : List α) (iv : Option (List α)) (groups : List (List Nat)) :
    List (List α × List α × Option (List α)) :=
  (groups.filter fun ss => ss.length > 2).map fun ss =>
    (ss.map (fun i => x.getD i 0), ss.map (fun i => y.getD i 0), iv.map fun v => ss.map (fun i => v.getD i 0))

/-! ## preprocess_spectra: the per-object shift (spec1d.py 1285-1303) -/

/-- `rowloglam - logshift[iobj]` on the pixels with `loglam > 0` -/
def shiftRow (loglam : List α) (s : α) : List α :=
  (loglam.filter fun l => decide (l > 0)).map fun l => l - s

/-- `flux[iobj, indx]` -/
def pickRow (loglam row : List α) : List α :=
  ((loglam.zip row).filter fun (lv : α × α) => decide (lv.1 > 0)).map (·.2)

end generic
end PydlVerif.Combine

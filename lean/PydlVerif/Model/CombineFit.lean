/-
C11 model, part 2 (extension round): the `fit` parameter of `Combine.combine1fiber` instantiated with
the code that is behind it - the call

    iterfit(x, y, invvar=ivar | None, nord=3, groupbadpix=True, requiren=1, bkspace=bkptbin)

of pydl/pydlutils/bspline.py 556-703, as combine1fiber (spec2d.py 222-239) makes it.  C10's
`IterFit.iterfit` covers `invvar` given, no `requiren`, `groupbadpix=False` and refuses the branch
`maskwork.sum() <= 1 or not sset.mask.any()`; the three missing pieces are modelled HERE, next to
C10's definitions, which are reused unchanged (`Params`, `St`, `Outcome`, `rejectOpts`,
`maskedWeights`, `countTrue`, C09 `fit`, C17 `djsReject`, C08 `mkKnots`, `BS.value`, `unsort`):

* `requiren` (lines 664-678): the walk over the sorted points that masks every good breakpoint whose
  interval `[bk[goodbk[ileft]], bk[goodbk[ileft+1]])` holds fewer than `requiren` points of positive
  weight - with the code's `i < nx-1` guard (the last point is never counted) and the running count
  that is carried over to the next interval only when it is reset (`rqSkip`, `rqCount`, `requirenMask`);
* `invvar=None` (lines 598-606): `var = ydata.var()*(nx/(nx-1))`, 1 when 0, weights `1/var`
  (`defaultIvar`; `var` = numpy's population variance is a parameter);
* the degenerate branch (lines 661-663): `sset.coeff = 0` (the Python int), `iiter = maxiter+1`, then -
  as coded - one more `djs_reject` against the yfit of the previous pass when `error == 0`
  (`iterBodyRq`, flag `cz`).
* `groupbadpix=True` is handed to `djs_reject`, where it is read only inside `if maxrej is not None:`
  (math.py 352-415); `iterfit` never passes `maxrej`, so the keyword has no effect and C17's `djsReject`
  (without that block) IS the call.  `upper = lower = 5`, `maxiter = 10` are iterfit's defaults.

`fitFull` packs the result as the `Fit` record of Model/Combine.lean: `coeffs` (the single 0 when the int
was stored), `value` = C08 `BS.value` of the returned object, `bmask` = the returned `outmask`.
-/
import PydlVerif.Model.IterFit
import PydlVerif.Model.Combine
namespace PydlVerif.Combine
open PydlVerif PydlVerif.BSpline PydlVerif.BSplineFit PydlVerif.IterFit

section generic
variable {α : Type} [Scalar α]

/-! ## requiren (bspline.py 664-678) -/

/-- `while xwork[i] < bk and i < nx-1: i += 1` (fuel: `i` can grow at most to `nx-1`) -/
def rqSkip (xw : Nat → α) (b : α) (nx : Nat) : Nat → Nat → Nat
  | 0, i => i
  | f+1, i => if xw i < b ∧ i < nx - 1 then rqSkip xw b nx f (i+1) else i

/-- `while xwork[i] >= lo and xwork[i] < hi and i < nx-1: ct += invwork[i]*maskwork[i] > 0; i += 1` -/
def rqCount (xw : Nat → α) (good : Nat → Bool) (lo hi : α) (nx : Nat) : Nat → Nat → Nat → Nat × Nat
  | 0, i, ct => (i, ct)
  | f+1, i, ct =>
    if lo ≤ xw i ∧ xw i < hi ∧ i < nx - 1 then rqCount xw good lo hi nx f (i+1) (ct + if good i then 1 else 0)
    else (i, ct)

/-- the `requiren` block: the new `sset.mask`.  `goodbk` is the index array computed at the top of the
pass (it does not follow the changes made here); `goodbk[nord]` on too short an array raises; the
subscript `goodbk[ileft+1]` stays in range for `nord ≥ 2` (combine1fiber: 3), smaller orders are refused -/
def requirenMask (b : BS α) (xw iw : List α) (mw : List Bool) (requiren : Nat) : R (Array Bool) :=
  let goodbk := goodIdx b.mask.toList
  let ng := goodbk.length
  let nx := xw.length
  if b.nord < 2 then .error "Unmodelled" else
  if ng ≤ b.nord then indexError else
  let bk (j : Nat) : α := b.breakpoints[goodbk.getD j 0]!
  let xa := xw.toArray
  let x (i : Nat) : α := xa[i]!
  let ia := iw.toArray
  let ma := mw.toArray
  let good (i : Nat) : Bool := decide (0 < ia[i]! * Reject.castB ma[i]!)
  let i0 := rqSkip x (bk b.nord) nx nx 0
  let r := (List.range' b.nord (ng - b.nord + 1 - b.nord)).foldl
    (fun (s : Nat × Nat × Array Bool) ileft =>
      let (i, ct) := rqCount x good (bk ileft) (bk (ileft+1)) nx nx s.1 s.2.1
      if ct ≥ requiren then (i, 0, s.2.2) else (i, ct, s.2.2.setIfInBounds (goodbk.getD ileft 0) false))
    (i0, 0, b.mask)
  pure r.2.2

/-! ## the loop with `requiren` and the degenerate branch -/

/-- one pass of the `while` loop of `iterfit` (lines 659-692) with `requiren`; the Bool says that the pass
took the branch `sset.coeff = 0` -/
def iterBodyRq (K : Kernels α) (p : Params α) (requiren : Option Nat) (xw yw iw : List α) (s : IterFit.St α) :
    R (Outcome α × Bool) := do
  if countTrue s.maskwork ≤ 1 ∨ !(s.sset.mask.any id) then
    -- `sset.coeff = 0; iiter = maxiter + 1`, then `iiter += 1`; `error`, `yfit` are those of the previous pass
    let st : IterFit.St α := { s with iiter := p.maxiter + 2 }
    if s.error = 0 then
      let (m, q) ← Reject.djsReject K.sqrt (rejectOpts p) yw (some s.yfit) (some s.maskwork) (some s.maskwork) iw
      pure (.done { st with maskwork := m, qdone := q }, true)
    else pure (.done st, true)
  else
    let sset' : BS α ← match requiren with
      | none => pure s.sset
      | some r => do
        let m ← requirenMask s.sset xw iw s.maskwork r
        pure { s.sset with mask := m }
    let out ← fit K sset' xw yw (maskedWeights iw s.maskwork) (List.range xw.length)
    let st : IterFit.St α := { s with sset := out.obj, yfit := out.yfit, error := out.status, iiter := s.iiter + 1 }
    if out.status = -2 then pure (.failed out.obj, false)
    else if out.status = 0 then
      let (m, q) ← Reject.djsReject K.sqrt (rejectOpts p) yw (some out.yfit) (some s.maskwork) (some s.maskwork) iw
      pure (.done { st with maskwork := m, qdone := q }, false)
    else pure (.done st, false)

/-- `while (error != 0 or not qdone) and iiter <= maxiter:` (fuel `maxiter + 1`); the Bool: `sset.coeff` is the int 0 -/
def iterLoopRq (K : Kernels α) (p : Params α) (requiren : Option Nat) (xw yw iw : List α) :
    Nat → IterFit.St α → Bool → R (Outcome α × Bool)
  | 0, s, cz => pure (.done s, cz)
  | fuel+1, s, cz =>
    if (s.error ≠ 0 ∨ s.qdone = false) ∧ s.iiter ≤ p.maxiter then do
      match ← iterBodyRq K p requiren xw yw iw s with
      | (.failed b, z) => pure (.failed b, z)
      | (.done s', z) => iterLoopRq K p requiren xw yw iw fuel s' z
    else pure (.done s, cz)

/-- what `iterfit` returns: the object, whether its `coeff` is the int 0, and `outmask` -/
structure RqOut (α : Type) where
  sset : BS α
  cz : Bool
  outmask : List Bool

/-- `IterFit.iterCore` with `requiren` and the degenerate branch -/
def iterCoreRq (K : Kernels α) (r32 : α → α) (p : Params α) (requiren : Option Nat) (xw yw iw : List α) :
    R (BS α × Bool × Option (List Bool)) := do
  let mask0 := iw.map (fun v => decide (0 < v))
  if !(mask0.any id) then valueError else
  let goodx := ((xw.zip mask0).filter (fun xm => xm.2)).map (fun xm => xm.1)
  let knots ← mkKnots r32 goodx p.nord p.opts
  let sset : BS α := { nord := p.nord, breakpoints := knots.toArray, mask := Array.replicate knots.length true,
                       coeff := Array.replicate (knots.length - p.nord) 0 }
  if countTrue mask0 < p.nord then pure (sset, false, none) else
  let s0 : IterFit.St α := { sset := sset, maskwork := mask0, yfit := List.replicate xw.length 0, error := 0, qdone := false, iiter := 0 }
  match ← iterLoopRq K p requiren xw yw iw (p.maxiter + 1) s0 false with
  | (.failed b, _) => pure (b, false, none)
  | (.done s, cz) => pure (s.sset, cz, some s.maskwork)

/-- lines 598-606: the weights when `invvar is None`; `var` = `ydata.var()` (population variance, numpy) -/
def defaultIvar (var : List α → α) (ys : List α) : R (List α) :=
  let nx := ys.length
  if nx < 2 then zeroDivisionError else
  let v := var ys * ((Scalar.ofNat nx : α) / (Scalar.ofNat (nx - 1) : α))
  let v := if Scalar.beq v 0 then (1.0 : α) else v
  pure (List.replicate nx (1 / v))

/-- `iterfit(xdata, ydata, invvar=ivs | None, requiren=…, **bspline options)`; `perm` = `xdata.argsort()` -/
def iterfitRq (K : Kernels α) (r32 : α → α) (var : List α → α) (p : Params α) (requiren : Option Nat)
    (xs ys : List α) (ivs : Option (List α)) (perm : List Nat) : R (RqOut α) := do
  let nx := xs.length
  if ys.length ≠ nx then valueError else
  let ivs ← match ivs with
    | some iv => if iv.length ≠ nx then valueError else pure iv
    | none => defaultIvar var ys
  if nx ≤ 1 then .error "Unmodelled" else             -- `invvar.size == 1`: `outmask` is the scalar True
  let xw := perm.map (fun i => xs.getD i 0)
  let yw := perm.map (fun i => ys.getD i 0)
  let iw := perm.map (fun i => ivs.getD i 0)
  let (sset, cz, m) ← iterCoreRq K r32 p requiren xw yw iw
  match m with
  | none => pure ⟨sset, cz, List.replicate nx true⟩
  | some maskwork => pure ⟨sset, cz, unsort perm maskwork⟩

/-- the options of combine1fiber's call: `nord=3`, `bkspace=bkptbin`, iterfit's defaults `upper=lower=5`,
`maxiter=10`, bspline's default `bkspread=1` -/
def c1fParams (bkspace : α) : Params α :=
  { upper := some 5.0, lower := some 5.0, maxiter := 10, nord := 3, opts := { bkspace := some bkspace, bkspread := 1.0 } }

/-- **the `fit` parameter of `combine1fiber`, instantiated**: group `k` is fitted by the modelled `iterfit`;
`argsort` is `ndarray.argsort()` (used for the group's wavelengths and inside `sset.value`) -/
def fitFull (K : Kernels α) (r32 : α → α) (var : List α → α) (argsort : List α → List Nat)
    (_k : Nat) (bkspace : α) (x y : List α) (iv : Option (List α)) : R (Fit α) := do
  let o ← iterfitRq K r32 var (c1fParams bkspace) (some 1) x y iv (argsort x)
  pure { coeffs := if o.cz then [0] else o.sset.coeff.toList
         value := fun xs => if o.cz then .error "TypeError" else o.sset.value xs (argsort xs)
         bmask := o.outmask }

/-- `combine1fiber` with nothing of the spline fit left as a recorded answer -/
def combine1fiberFull (K : Kernels α) (r32 : α → α) (var : List α → α) (argsortG : List α → List Nat)
    (argsort : List α → List Nat) (med : List α → α) (mean : List α → α) (erf : α → α)
    (classify : α → Val α) (inp : Input α) : R (List α × List α) :=
  combine1fiber (fitFull K r32 var argsortG) argsort med mean erf classify inp

/-! ## preprocess_spectra: the loop over the objects (spec1d.py 1285-1303)

1-D `loglam` (one wavelength vector for all objects), `newloglam` given (`fullloglam = newloglam`,
`dloglam = fullloglam[1] - fullloglam[0]`; the `newloglam=None` branch goes through `wavevector` and is not
modelled), `logshift = np.log10(1 + zfit)` as numpy computed it (a parameter: libm). -/

/-- the arguments of the `combine1fiber` call made for object `iobj`:
`combine1fiber(rowloglam - logshift[iobj], flux[iobj, indx], fullloglam, objivar=ivar[iobj, indx], binsz=dloglam,
aesthetics=aesthetics)` with `indx = loglam > 0`.  A dead fibre (no pixel with `ivar > 0`) is not special here: the
code makes the call all the same and `combine1fiber` answers with zeros (`ngood == 0`, `combine_dead_fibre`). -/
def preprocessInput (loglam : List α) (logshift : List α) (flux ivar : List (List α)) (newx : List α)
    (method : Interp.Method) (iobj : Nat) : Input α :=
  let x := shiftRow loglam (logshift.getD iobj 0)
  let f := pickRow loglam (flux.getD iobj [])
  let v := pickRow loglam (ivar.getD iobj [])
  { xshape := [x.length], fshape := [f.length], ishape := some [v.length], x := x, flux := f, ivar := some v,
    newx := newx, binsz := some (newx.getD 1 0 - newx.getD 0 0), maxsep := none, method := method }

/-- the loop `for iobj in range(nobj)`: `fullflux[iobj, :]`, `fullivar[iobj, :]` of every object, in order; an
exception of any call ends the function (`fullloglam[1]` needs two output pixels) -/
def preprocessSpectra (c1f : Input α → R (List α × List α)) (loglam : List α) (logshift : List α)
    (flux ivar : List (List α)) (newx : List α) (method : Interp.Method) : R (List (List α × List α)) :=
  if newx.length < 2 then indexError else
  (List.range flux.length).mapM fun iobj => c1f (preprocessInput loglam logshift flux ivar newx method iobj)

end generic
end PydlVerif.Combine

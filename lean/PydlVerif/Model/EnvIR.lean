/-
Effect IR for C20 ("a failing pipeline call leaves the process environment as it
found it"): a small statement language that keeps, of a Python function, only
  * its control flow (sequence, if, loop, try/finally, try/except, return, raise),
  * its effects on `os.environ` (lookup, del, pop, assignment),
  * the local names in which environment values are saved,
and nothing else: every other call / subscript / attribute access / operator is a
`fault` point that may raise, every other test is an oracle-decided `choice`.
The terms are produced from the Python AST by harness/xlate/c20_envir.py.

`run` is a big-step semantics driven by an oracle (which fault points raise,
which branch an opaque test takes, whether an `except` clause matches, how often
a loop body runs, what value an opaque expression has).  The oracle is indexed by
a tick counter as well as by the static point id, so different visits of the same
point may behave differently.

`ana` is an abstract interpreter (which variables may differ from their value on
entry; which locals hold the entry value of which variable; which locals are
None / a string) and `restores` the checker built on it.  Soundness of the
checker is proved in Props/C20.lean.  Core Lean only.
-/
namespace PydlVerif.EnvIR

abbrev Var := String            -- name of an environment variable
abbrev Loc := String            -- name of a Python local
abbrev Env := Var → Option String
/-- value of a local as far as it matters here: Python `None`, a string, or anything else
(unbound, a number, ...) -/
inductive Val | none | str (s : String) | other
  deriving DecidableEq, Repr

def Val.ofOpt : Option String → Val
  | .none => .none
  | .some s => .str s

def Val.isStr : Val → Bool
  | .str _ => true
  | _ => false

abbrev Store := Loc → Val

structure Oracle where
  /-- (tick, point id): does this fault point raise / is the first branch taken /
  does the except clause match -/
  flag : Nat → Nat → Bool
  /-- (tick, loop id): number of times the loop body is entered -/
  iters : Nat → Nat → Nat
  /-- (tick, point id): value of an opaque expression -/
  val : Nat → Nat → Val

inductive Outcome | ok | raised | ret
  deriving DecidableEq, Repr

structure St where
  env : Env
  sto : Store
  tick : Nat

inductive Stmt where
  | skip
  | fault (id : Nat)                 -- anything that may raise (call, subscript, attribute, operator)
  | raise                            -- `raise ...`
  | ret                              -- `return` (value evaluation is a preceding `fault`)
  | need (v : Var)                   -- `os.environ[v]` evaluated: raises iff v is unset
  | save (x : Loc) (v : Var)         -- `x = os.environ.get(v)`: never raises
  | load (x : Loc) (v : Var)         -- `x = os.environ[v]`: raises iff unset, else binds x
  | setNone (x : Loc)                -- `x = None`
  | kill (x : Loc) (id : Nat)        -- `x = <opaque>` (any other binding of x)
  | del (v : Var)                    -- `del os.environ[v]`: raises iff unset
  | pop (v : Var)                    -- `os.environ.pop(v, None)`: never raises
  | setExpr (v : Var) (id : Nat)     -- `os.environ[v] = <opaque>`: raises if the value is not a string
  | setFrom (v : Var) (x : Loc)      -- `os.environ[v] = x`: raises if x is not a string
  | seq (a b : Stmt)
  | choice (id : Nat) (a b : Stmt)   -- `if <opaque>: a else: b`
  | ifNone (x : Loc) (a b : Stmt)    -- `if x is None: a else: b`
  | ifSet (v : Var) (a b : Stmt)     -- `if v in os.environ: a else: b`
  | loop (id : Nat) (body : Stmt)    -- `for`/`while`: body zero or more times
  | tryFinally (a b : Stmt)
  | tryExcept (id : Nat) (a h : Stmt) -- handler may or may not match (oracle)
  | scope (a : Stmt)                 -- inlined callee: its `return` ends the scope only
  deriving Repr, DecidableEq

def Env.set (e : Env) (v : Var) (x : Option String) : Env := fun w => if w = v then x else e w
def Store.set (e : Store) (v : Loc) (x : Val) : Store := fun w => if w = v then x else e w

def St.next (s : St) : St := { s with tick := s.tick + 1 }

/-- run `f` up to `n` times, stopping at the first outcome that is not `ok` -/
def iter (f : St → St × Outcome) : Nat → St → St × Outcome
  | 0, s => (s, .ok)
  | k + 1, s =>
    match f s with
    | (s', .ok) => iter f k s'
    | r => r

def run (o : Oracle) : Stmt → St → St × Outcome
  | .skip, s => (s, .ok)
  | .fault i, s => (s.next, if o.flag s.tick i then .raised else .ok)
  | .raise, s => (s, .raised)
  | .ret, s => (s, .ret)
  | .need v, s => (s, if (s.env v).isSome then .ok else .raised)
  | .save x v, s => ({ s with sto := s.sto.set x (Val.ofOpt (s.env v)) }, .ok)
  | .load x v, s =>
    match s.env v with
    | some t => ({ s with sto := s.sto.set x (.str t) }, .ok)
    | none => (s, .raised)
  | .setNone x, s => ({ s with sto := s.sto.set x .none }, .ok)
  | .kill x i, s => ({ s.next with sto := s.sto.set x (o.val s.tick i) }, .ok)
  | .del v, s =>
    match s.env v with
    | some _ => ({ s with env := s.env.set v none }, .ok)
    | none => (s, .raised)
  | .pop v, s => ({ s with env := s.env.set v none }, .ok)
  | .setExpr v i, s =>
    match o.val s.tick i with
    | .str t => ({ s.next with env := s.env.set v (some t) }, .ok)
    | _ => (s.next, .raised)
  | .setFrom v x, s =>
    match s.sto x with
    | .str t => ({ s with env := s.env.set v (some t) }, .ok)
    | _ => (s, .raised)
  | .seq a b, s =>
    match run o a s with
    | (s', .ok) => run o b s'
    | r => r
  | .choice i a b, s => if o.flag s.tick i then run o a s.next else run o b s.next
  | .ifNone x a b, s => if s.sto x = .none then run o a s else run o b s
  | .ifSet v a b, s => if (s.env v).isSome then run o a s else run o b s
  | .loop i body, s => iter (run o body) (o.iters s.tick i) s.next
  | .tryFinally a b, s =>
    match run o a s with
    | (s', oa) =>
      match run o b s' with
      | (s'', .ok) => (s'', oa)
      | r => r
  | .tryExcept i a h, s =>
    match run o a s with
    | (s', .raised) => if o.flag s'.tick i then run o h s'.next else (s'.next, .raised)
    | r => r
  | .scope a, s =>
    match run o a s with
    | (s', .ret) => (s', .ok)
    | r => r

/-- environment variables a statement may write -/
def writes : Stmt → List Var
  | .del v => [v] | .pop v => [v] | .setExpr v _ => [v] | .setFrom v _ => [v]
  | .seq a b => writes a ++ writes b
  | .choice _ a b => writes a ++ writes b
  | .ifNone _ a b => writes a ++ writes b
  | .ifSet _ a b => writes a ++ writes b
  | .loop _ a => writes a
  | .tryFinally a b => writes a ++ writes b
  | .tryExcept _ a b => writes a ++ writes b
  | .scope a => writes a
  | _ => []

/-- locals a statement may bind -/
def assigns : Stmt → List Loc
  | .save x _ => [x] | .load x _ => [x] | .setNone x => [x] | .kill x _ => [x]
  | .seq a b => assigns a ++ assigns b
  | .choice _ a b => assigns a ++ assigns b
  | .ifNone _ a b => assigns a ++ assigns b
  | .ifSet _ a b => assigns a ++ assigns b
  | .loop _ a => assigns a
  | .tryFinally a b => assigns a ++ assigns b
  | .tryExcept _ a b => assigns a ++ assigns b
  | .scope a => assigns a
  | _ => []

/-! ## abstract interpreter -/

/-- what is known at a program point, relative to the environment `orig` on entry:
`dirty`  - variables whose value may differ from `orig` (all others are equal to it);
`holds`  - `(x, v)`: local `x` holds `orig v` (a string, or None when `v` was unset);
`isNone` - locals known to be None;  `isStr` - locals known to be strings. -/
structure Abs where
  dirty : List Var
  holds : List (Loc × Var)
  isNone : List Loc
  isStr : List Loc
  deriving Repr, DecidableEq

def Abs.init : Abs := ⟨[], [], [], []⟩

def Abs.forget (a : Abs) (x : Loc) : Abs :=
  { a with holds := a.holds.filter (fun p => p.1 ≠ x),
           isNone := a.isNone.filter (· ≠ x),
           isStr := a.isStr.filter (· ≠ x) }

def Abs.markDirty (a : Abs) (v : Var) : Abs :=
  if a.dirty.contains v then a else { a with dirty := v :: a.dirty }

def Abs.markClean (a : Abs) (v : Var) : Abs := { a with dirty := a.dirty.filter (· ≠ v) }

/-- it is known that `v` was unset on entry: some local holds its entry value and is None -/
def Abs.origNone (a : Abs) (v : Var) : Bool :=
  a.holds.any (fun p => p.2 = v && a.isNone.contains p.1)

/-- after `x = <current value of v>` -/
def Abs.bind (a : Abs) (x : Loc) (v : Var) : Abs :=
  let b := a.forget x
  if a.dirty.contains v then b else { b with holds := (x, v) :: b.holds }

def Abs.join (a b : Abs) : Abs :=
  { dirty := a.dirty ++ b.dirty.filter (fun v => !a.dirty.contains v),
    holds := a.holds.filter (b.holds.contains ·),
    isNone := a.isNone.filter (b.isNone.contains ·),
    isStr := a.isStr.filter (b.isStr.contains ·) }

/-- `none` = unreachable -/
def joinO : Option Abs → Option Abs → Option Abs
  | none, b => b
  | a, none => a
  | some a, some b => some (a.join b)

/-- loop invariant by widening: everything the body may write is dirty, nothing is
known about the locals it may bind -/
def Abs.widen (a : Abs) (ws : List Var) (xs : List Loc) : Abs :=
  { dirty := a.dirty ++ ws.filter (fun v => !a.dirty.contains v),
    holds := a.holds.filter (fun p => !xs.contains p.1),
    isNone := a.isNone.filter (fun x => !xs.contains x),
    isStr := a.isStr.filter (fun x => !xs.contains x) }

/-- `a.le b`: everything described by `a` is described by `b` -/
def Abs.le (a b : Abs) : Bool :=
  a.dirty.all (b.dirty.contains ·) && b.holds.all (a.holds.contains ·) &&
  b.isNone.all (a.isNone.contains ·) && b.isStr.all (a.isStr.contains ·)

def leO : Option Abs → Abs → Bool
  | none, _ => true
  | some a, b => a.le b

/-- abstract result: state on normal completion (`n`), when an exception propagates (`e`),
when a `return` propagates (`r`); `none` = cannot happen -/
structure Res where
  n : Option Abs
  e : Option Abs
  r : Option Abs
  deriving Repr

def Res.bot : Res := ⟨none, none, none⟩

def Res.join (x y : Res) : Res := ⟨joinO x.n y.n, joinO x.e y.e, joinO x.r y.r⟩

/-- the component that describes an outcome -/
def Res.sel (x : Res) : Outcome → Option Abs
  | .ok => x.n
  | .raised => x.e
  | .ret => x.r

/-- `q` = result of a finaliser started after the protected block was left with outcome `oa`:
completing normally the finaliser keeps `oa`, raising or returning it replaces it -/
def Res.after (q : Res) : Outcome → Res
  | .ok => q
  | .raised => ⟨none, joinO q.n q.e, q.r⟩
  | .ret => ⟨none, q.e, joinO q.n q.r⟩

/-- apply a transfer function to a possibly unreachable state -/
def onO (f : Abs → Res) : Option Abs → Res
  | none => Res.bot
  | some a => f a

def ana : Stmt → Abs → Res
  | .skip, a => ⟨some a, none, none⟩
  | .fault _, a => ⟨some a, some a, none⟩
  | .raise, a => ⟨none, some a, none⟩
  | .ret, a => ⟨none, none, some a⟩
  | .need _, a => ⟨some a, some a, none⟩
  | .save x v, a => ⟨some (a.bind x v), none, none⟩
  | .load x v, a =>
    let b := a.bind x v
    ⟨some { b with isStr := x :: b.isStr }, some a, none⟩
  | .setNone x, a =>
    let b := a.forget x
    ⟨some { b with isNone := x :: b.isNone }, none, none⟩
  | .kill x _, a => ⟨some (a.forget x), none, none⟩
  | .del v, a => ⟨some (if a.origNone v then a.markClean v else a.markDirty v), some a, none⟩
  | .pop v, a => ⟨some (if a.origNone v then a.markClean v else a.markDirty v), none, none⟩
  | .setExpr v _, a => ⟨some (a.markDirty v), some a, none⟩
  | .setFrom v x, a =>
    ⟨some (if a.holds.contains (x, v) then a.markClean v else a.markDirty v),
     if a.isStr.contains x then none else some a, none⟩
  | .seq p q, a =>
    let r1 := ana p a
    (Res.mk none r1.e r1.r).join (onO (ana q) r1.n)
  | .choice _ p q, a => (ana p a).join (ana q a)
  | .ifNone x p q, a =>
    -- not None: a string if x holds an entry value (those are None or strings), else unknown
    (ana p { a with isNone := x :: a.isNone }).join
      (ana q (if a.holds.any (fun p => p.1 = x) then { a with isStr := x :: a.isStr } else a))
  | .ifSet _ p q, a => (ana p a).join (ana q a)
  | .loop _ body, a =>
    -- the state at the loop head is itself an invariant when the body re-establishes it;
    -- otherwise widen
    let r0 := ana body a
    if leO r0.n a then ⟨some a, r0.e, r0.r⟩ else
    let inv := a.widen (writes body) (assigns body)
    let rb := ana body inv
    ⟨some inv, rb.e, rb.r⟩
  | .tryFinally p q, a =>
    -- the finaliser runs after each way of leaving `p`; completing normally it keeps that way,
    -- raising or returning it replaces it
    let r := ana p a
    ((onO (ana q) r.n).after .ok).join
      (((onO (ana q) r.e).after .raised).join ((onO (ana q) r.r).after .ret))
  | .tryExcept _ p h, a =>
    let r := ana p a
    r.join (onO (ana h) r.e)
  | .scope p, a =>
    let r := ana p a
    ⟨joinO r.n r.r, r.e, none⟩

def cleanO : Option Abs → Bool
  | none => true
  | some a => a.dirty.isEmpty

/-- the checker: `p` writes no variable outside `vs`, and on every exit (normal, exception,
return) no variable is (possibly) different from its value on entry -/
def restores (p : Stmt) (vs : List Var) : Bool :=
  (writes p).all (vs.contains ·) && cleanO (ana p Abs.init).n && cleanO (ana p Abs.init).e &&
  cleanO (ana p Abs.init).r

/-! ## rendering (used to tie the JSON form run by the driver to the Lean term in Gen/) -/

def q (s : String) : String := "\"" ++ s ++ "\""

def render : Stmt → String
  | .skip => "skip"
  | .fault i => s!"(fault {i})"
  | .raise => "raise"
  | .ret => "ret"
  | .need v => s!"(need {q v})"
  | .save x v => s!"(save {q x} {q v})"
  | .load x v => s!"(load {q x} {q v})"
  | .setNone x => s!"(setNone {q x})"
  | .kill x i => s!"(kill {q x} {i})"
  | .del v => s!"(del {q v})"
  | .pop v => s!"(pop {q v})"
  | .setExpr v i => s!"(setExpr {q v} {i})"
  | .setFrom v x => s!"(setFrom {q v} {q x})"
  | .seq a b => s!"(seq {render a} {render b})"
  | .choice i a b => s!"(choice {i} {render a} {render b})"
  | .ifNone x a b => s!"(ifNone {q x} {render a} {render b})"
  | .ifSet v a b => s!"(ifSet {q v} {render a} {render b})"
  | .loop i a => s!"(loop {i} {render a})"
  | .tryFinally a b => s!"(tryFinally {render a} {render b})"
  | .tryExcept i a b => s!"(tryExcept {i} {render a} {render b})"
  | .scope a => s!"(scope {render a})"

end PydlVerif.EnvIR

/-
C07: SDSS bitmask names ⇄ values.  Follows pydl/pydlutils/sdss.py
(`set_maskbits`, `sdss_flagval`, `sdss_flagname`, `sdss_flagexist`).

A Python `dict` is an association list in insertion order whose keys are
distinct; assigning to an existing key replaces the value *in place*
(`dput`).  The cache is `{GROUP: {LABEL: bit}}`.  Values are `BitVec 64`
(`numpy.uint64`: addition wraps, `2**bit` is 0 for `bit ≥ 64`).
Core Lean only.
-/
namespace PydlVerif.Flags

inductive Err where
  | KeyError
  | OverflowError
deriving DecidableEq, Repr

abbrev R := Except Err

/-- decidable equality of results (own instance, no global `deriving` on `Except`) -/
instance decEqR {α} [DecidableEq α] : DecidableEq (R α) := fun a b =>
  match a, b with
  | .ok x, .ok y => if h : x = y then isTrue (by rw [h]) else isFalse (by intro e; cases e; exact h rfl)
  | .error x, .error y => if h : x = y then isTrue (by rw [h]) else isFalse (by intro e; cases e; exact h rfl)
  | .ok _, .error _ => isFalse (by intro e; cases e)
  | .error _, .ok _ => isFalse (by intro e; cases e)

/-- `{LABEL: bit}` in dict order -/
abbrev Group := List (String × Nat)
/-- `{GROUP: {LABEL: bit}}` in dict order -/
abbrev Db := List (String × Group)

/-- `str.upper()` (ASCII inputs only: trusted base) -/
def upper (s : String) : String := String.ofList (s.toList.map Char.toUpper)

/-- `d[k]` / `k in d` -/
def dget {β} (k : String) : List (String × β) → Option β
  | [] => none
  | (k', v) :: t => if k' = k then some v else dget k t

/-- `d[k] = v`: replace in place or append -/
def dput {β} (k : String) (v : β) : List (String × β) → List (String × β)
  | [] => [(k, v)]
  | (k', v') :: t => if k' = k then (k', v) :: t else (k', v') :: dput k v t

/-! ### set_maskbits -/

/-- one `maskbits` row of the file -/
structure Row where
  flag : String
  bit : Nat
  label : String
deriving Repr, DecidableEq

/-- one `maskalias` row of the file -/
structure Alias where
  alias : String
  flag : String
deriving Repr, DecidableEq

/-- loop body over MASKBITS: `maskbits[flag][label] = bit` or a new one-entry dict -/
def addRow (db : Db) (r : Row) : Db :=
  match dget r.flag db with
  | some g => dput r.flag (dput r.label r.bit g) db
  | none => dput r.flag [(r.label, r.bit)] db

/-- loop body over MASKALIAS: `maskbits[alias] = maskbits[flag].copy()`; unknown `flag` is a KeyError -/
def addAlias (db : Db) (a : Alias) : R Db :=
  match dget a.flag db with
  | some g => pure (dput a.alias g db)
  | none => throw .KeyError

def setMaskbits (rows : List Row) (aliases : List Alias) : R Db :=
  aliases.foldlM addAlias (rows.foldl addRow [])

/-! ### sdss_flagval -/

/-- `bitname`: a `str` or a list of `str` -/
inductive Names where
  | one (s : String)
  | many (l : List String)
deriving Repr

def Names.toList : Names → List String
  | .one s => [s]
  | .many l => l

/-- body of the accumulation loop, names already upper-cased, `grp = maskbits.get(flagu)` -/
def flagvalStep (grp : Option Group) (acc : BitVec 64) (n : String) : R (BitVec 64) :=
  match grp with
  | none => throw .KeyError
  | some g =>
    match dget n g with
    | some b => pure (acc + BitVec.twoPow 64 b)
    | none => throw .KeyError

/-- the accumulation loop.  The group test sits inside the loop, so an empty name list never raises. -/
def flagvalG (grp : Option Group) (names : List String) : R (BitVec 64) :=
  names.foldlM (flagvalStep grp) 0

def flagval (db : Db) (g : String) (ls : List String) : R (BitVec 64) :=
  flagvalG (dget (upper g) db) (ls.map upper)

/-! ### sdss_flagname -/

/-- `flagvalue` as it arrives: a Python `int`, a `numpy.int64` or a `numpy.uint64` -/
inductive Val where
  | pyint (i : Int)
  | i64 (i : Int)
  | u64 (n : Nat)
deriving Repr

/-- `np.uint64(flagvalue)`: Python ints outside `[0, 2^64)` raise OverflowError (numpy 2),
numpy scalars are cast C-style -/
def Val.toU64 : Val → R (BitVec 64)
  | .pyint i => if 0 ≤ i ∧ i < 2 ^ 64 then pure (BitVec.ofInt 64 i) else throw .OverflowError
  | .i64 i => pure (BitVec.ofInt 64 i)
  | .u64 n => pure (BitVec.ofNat 64 n)

/-- `[bit for bit in range(64) if v & (1 << bit) != 0]` -/
def setBits (v : BitVec 64) : List Nat := (List.range 64).filter (fun b => v.getLsbD b)

/-- `[x for x in d.items() if x[1] == bit]`, first element's label if any -/
def firstWithBit (g : Group) (b : Nat) : Option String :=
  (g.find? (fun x => x.2 == b)).map (·.1)

/-- the loop over the set bits: the group is looked up once per set bit, so value 0 never raises -/
def flagnameG (grp : Option Group) (v : BitVec 64) : R (List String) := do
  let found ← (setBits v).mapM (fun b =>
    match grp with
    | none => throw Err.KeyError
    | some g => pure (firstWithBit g b))
  pure (found.filterMap id)

def flagnameU (db : Db) (g : String) (v : BitVec 64) : R (List String) :=
  flagnameG (dget (upper g) db) v

def flagname (db : Db) (g : String) (val : Val) : R (List String) := do
  let v ← val.toU64
  flagnameU db g v

/-- `concat=True` -/
def flagnameConcat (db : Db) (g : String) (val : Val) : R String :=
  (fun l => " ".intercalate l) <$> flagname db g val

/-! ### sdss_flagexist -/

structure Exist where
  l : Bool
  f : Bool
  which : List Bool
deriving Repr, DecidableEq

def existG (grp : Option Group) (names : List String) : Exist :=
  match grp with
  | none => ⟨false, false, names.map (fun _ => false)⟩
  | some g =>
    let which := names.map (fun n => (dget n g).isSome)
    ⟨which.count true == which.length, true, which⟩

def flagexist (db : Db) (g : String) (ls : List String) : Exist :=
  existG (dget (upper g) db) (ls.map upper)

/-- the four return shapes -/
inductive ExistRet where
  | l (l : Bool)
  | lf (l f : Bool)
  | lw (l : Bool) (which : List Bool)
  | lfw (l f : Bool) (which : List Bool)
deriving Repr, DecidableEq

def Exist.shape (e : Exist) (flagexist whichexist : Bool) : ExistRet :=
  if flagexist && whichexist then .lfw e.l e.f e.which
  else if flagexist then .lf e.l e.f
  else if whichexist then .lw e.l e.which
  else .l e.l

end PydlVerif.Flags

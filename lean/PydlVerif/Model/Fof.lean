/-
Model of pydl/pydlutils/spheregroup.py, friends-of-friends part (property C05):
  class groups.__init__            -> `groupsRun`
  chunks.friendsoffriends          -> `friendsRun`  (cross-chunk merge = `mergeGroup`, `resolve`)
  spheregroup (lines 514-564)      -> `sphereRun`
Core Lean only.

Representation.  numpy int arrays are *functional arrays* `Nat → α` with the
update `upd`; the sentinel `-1` of firstGroup / nextGroup / inGroup is `none`.
`freeze n f` is extensionally `f` (theorem `freeze_eq`) and only serves to keep
look-ups O(1) when the model is executed.
A loop `k = start; while k != -1: body(k); k = next[k]` whose body does not
write `next` is modelled as `for k in walk next fuel start: body(k)`; `walk`
stops when the fuel (the array length) is used up, in which case the real loop
would not terminate: `walkEnds` reports it and every model carries an `ok` flag.
The separation test `sep <= distance` is the parameter `close i j`; the chunk
grid (`chunks.__init__/assign`) is the parameter `chunks` (list of the cell
lists in the order `for i in range(nDec): for j in range(nRa[i])`).
-/
namespace PydlVerif.Fof

/-- functional array (a structure, so that every model function returns data and is evaluated strictly) -/
structure Arr (α : Type) where
  get : Nat → α

instance {α} : CoeFun (Arr α) (fun _ => Nat → α) := ⟨Arr.get⟩

def Arr.const {α} (v : α) : Arr α := ⟨fun _ => v⟩

/-- `a[i] = v` -/
def upd {α} (f : Arr α) (i : Nat) (v : α) : Arr α := ⟨fun j => if j = i then v else f.get j⟩

/-- same array, first `n` entries tabulated (execution speed only, see `freeze_eq`) -/
def freeze {α} (n : Nat) (f : Arr α) : Arr α :=
  let a : Array α := Array.ofFn (n := n) (fun i => f.get i.val)
  ⟨fun j => if h : j < a.size then a[j] else f.get j⟩

/-- the indices visited by `k = start; while k != -1: ...; k = next[k]` -/
def walk (next : Arr (Option Nat)) : Nat → Option Nat → List Nat
  | _, none => []
  | 0, some _ => []
  | fuel+1, some k => k :: walk next fuel (next k)

/-- the loop reached `-1` within the fuel -/
def walkEnds (next : Arr (Option Nat)) : Nat → Option Nat → Bool
  | _, none => true
  | 0, some _ => false
  | fuel+1, some k => walkEnds next fuel (next k)

/-- firstGroup / nextGroup -/
structure Lists where
  first : Arr (Option Nat)
  next : Arr (Option Nat)

/-- `for j in range(cnt-1, -1, -1): next[j] = first[g[j]]; first[g[j]] = j` -/
def link (g : Arr Nat) : Nat → Lists → Lists
  | 0, s => s
  | j+1, s => link g j ⟨upd s.first (g j) (some j), upd s.next j (s.first (g j))⟩

/-- `(mult[c] = 0;) j = first[c]; while j != -1: mult[c] += 1; j = next[j]` -/
def countStep (fuel : Nat) (L : Lists) (reset : Bool) (mult : Arr Nat) (c : Nat) : Arr Nat :=
  (walk L.next fuel (L.first c)).foldl (fun m _ => upd m c (m c + 1)) (if reset then upd mult c 0 else mult)

def countAll (fuel : Nat) (L : Lists) (reset : Bool) (ng : Nat) (mult : Arr Nat) : Arr Nat :=
  (List.range ng).foldl (countStep fuel L reset) mult

def countOk (fuel : Nat) (L : Lists) (ng : Nat) : Bool :=
  (List.range ng).all (fun c => walkEnds L.next fuel (L.first c))

/-! ### renumbering in order of appearance (groups 445-455, spheregroup 538-547) -/

structure Ren where
  inG : Arr Nat
  done : Arr Bool
  cnt : Nat
  ok : Bool

def renStep (fuel : Nat) (L : Lists) (s : Ren) (i : Nat) : Ren :=
  if s.done i then s else
    let l := walk L.next fuel (L.first (s.inG i))
    ⟨l.foldl (fun g j => upd g j s.cnt) s.inG, l.foldl (fun d j => upd d j true) s.done, s.cnt + 1,
     s.ok && walkEnds L.next fuel (L.first (s.inG i))⟩

def renumber (n : Nat) (L : Lists) (inG : Arr Nat) : Ren :=
  (List.range n).foldl (renStep n L) ⟨inG, Arr.const false, 0, true⟩

/-! ### class groups -/

structure GS where
  nG : Nat
  mult : Arr Nat
  L : Lists
  inG : Arr Nat
  ok : Bool

structure Scan where
  nTmp : Nat
  minG : Nat
  mult : Arr Nat

/-- lines 416-421 -/
def scanStep (close : Nat → Nat → Bool) (inG : Arr Nat) (i : Nat) (a : Scan) (j : Nat) : Scan :=
  if close i j then ⟨a.nTmp + 1, min a.minG (inG j), upd a.mult a.nTmp j⟩ else a

/-- lines 425-431, one `j` -/
def relabelOne (n minG : Nat) (L : Lists) (mult : Arr Nat) (s : (Arr Nat) × Bool) (jj : Nat) :
    (Arr Nat) × Bool :=
  let t := mult jj
  if s.1 t < n then
    (upd ((walk L.next n (L.first (s.1 t))).foldl (fun g k => upd g k minG) s.1) t minG,
     s.2 && walkEnds L.next n (L.first (s.1 t)))
  else (upd s.1 t minG, s.2)

/-- one pass of the loop `for i in range(nTargets)` (lines 413-441) -/
def groupsStep (n : Nat) (close : Nat → Nat → Bool) (s : GS) (i : Nat) : GS :=
  let sc := (List.range n).foldl (scanStep close s.inG i) ⟨0, s.nG, s.mult⟩
  let r := (List.range sc.nTmp).foldl (relabelOne n sc.minG s.L sc.mult) (s.inG, s.ok)
  let nG := if sc.minG = s.nG then s.nG + 1 else s.nG
  let first0 := (List.range (i+1)).foldl (fun (f : Arr (Option Nat)) j => upd f j none) s.L.first
  let L := link r.1 (i+1) ⟨first0, s.L.next⟩
  ⟨nG, freeze n sc.mult, ⟨freeze n L.first, freeze n L.next⟩, freeze n r.1, r.2⟩

def groupsInit : GS := ⟨0, Arr.const 0, ⟨Arr.const none, Arr.const none⟩, ⟨fun j => j⟩, true⟩

def groupsLoop (n : Nat) (close : Nat → Nat → Bool) : GS :=
  (List.range n).foldl (groupsStep n close) groupsInit

structure Out where
  inG : Arr Nat
  mult : Arr Nat
  L : Lists
  nG : Nat
  ok : Bool

/-- `groups(coordinates, distance, separation)` with `close i j := separation(x_i, x_j) <= distance` -/
def groupsRun (n : Nat) (close : Nat → Nat → Bool) : Out :=
  let s := groupsLoop n close
  let r := renumber n s.L s.inG
  let L := link r.inG n ⟨Arr.const none, s.L.next⟩
  ⟨r.inG, countAll n L true r.cnt s.mult, L, r.cnt, s.ok && r.ok && countOk n L r.cnt⟩

/-! ### chunks.friendsoffriends -/

/-- `while mapGroups[c] != c: c = mapGroups[c]` -/
def findRoot (mapG : Arr Nat) : Nat → Nat → Nat
  | 0, c => c
  | f+1, c => if mapG c = c then c else findRoot mapG f (mapG c)

def findRootOk (mapG : Arr Nat) : Nat → Nat → Bool
  | 0, c => mapG c == c
  | f+1, c => if mapG c = c then true else findRootOk mapG f (mapG c)

/-- lines 311-315: path compression towards `minE` -/
def compress (minE : Nat) : Nat → (Arr Nat) → Nat → (Arr Nat)
  | 0, m, c => upd m c minE
  | f+1, m, c => if m c = c then upd m c minE else compress minE f (upd m c minE) (m c)

def compressOk (minE : Nat) : Nat → (Arr Nat) → Nat → Bool
  | 0, m, c => m c == c
  | f+1, m, c => if m c = c then true else compressOk minE f (upd m c minE) (m c)

structure MS where
  inG : Arr (Option Nat)
  mapG : Arr Nat
  nMap : Nat
  ok : Bool

/-- lines 296-302, one member `p` (global index) -/
def passA (nMap : Nat) (mapG : Arr Nat) (a : (Arr (Option Nat)) × Nat × Bool) (p : Nat) :
    (Arr (Option Nat)) × Nat × Bool :=
  match a.1 p with
  | some e => (a.1, min a.2.1 (findRoot mapG (nMap+1) e), a.2.2 && findRootOk mapG (nMap+1) e)
  | none => (upd a.1 p (some nMap), a.2.1, a.2.2)

/-- lines 310-315, one member -/
def passB (nMap minE : Nat) (inG : Arr (Option Nat)) (a : (Arr Nat) × Bool) (p : Nat) : (Arr Nat) × Bool :=
  match inG p with
  | some e => (compress minE (nMap+2) a.1 e, a.2 && compressOk minE (nMap+2) a.1 e)
  | none => (a.1, false)   -- cannot happen: pass A labelled every member

/-- lines 293-317 for one group of one chunk, `ps` = its members (global indices, increasing local order) -/
def mergeGroup (n : Nat) (s : MS) (ps : List Nat) : MS :=
  let a := ps.foldl (passA s.nMap s.mapG) (s.inG, 9*n, true)
  let minE := a.2.1
  -- `mapGroups` has 9*nPoints entries: writing entry nMap beyond that is an IndexError
  let ok := s.ok && a.2.2 && decide (s.nMap < 9*n)
  if minE = 9*n then ⟨freeze n a.1, freeze (s.nMap+1) (upd s.mapG s.nMap s.nMap), s.nMap + 1, ok⟩
  else
    let b := ps.foldl (passB s.nMap minE a.1) (upd s.mapG s.nMap minE, true)
    ⟨freeze n a.1, freeze (s.nMap+1) b.1, s.nMap + 1, ok && b.2⟩

def cget (chunk : Array Nat) (l : Nat) : Nat := chunk.getD l 0

/-- lines 290-317 for one non-empty cell -/
def mergeChunk (n : Nat) (close : Nat → Nat → Bool) (s : MS) (chunk : Array Nat) : MS :=
  if chunk.size = 0 then s else
  let G := groupsRun chunk.size (fun a b => close (cget chunk a) (cget chunk b))
  let s' := (List.range G.nG).foldl
    (fun s k => mergeGroup n s ((walk G.L.next chunk.size (G.L.first k)).map (cget chunk))) s
  { s' with ok := s'.ok && G.ok && countOk chunk.size G.L G.nG }

/-- lines 323-331 -/
def resolveStep (a : (Arr Nat) × Nat) (i : Nat) : (Arr Nat) × Nat :=
  if a.1 i = i then (upd a.1 i a.2, a.2 + 1) else (upd a.1 i (a.1 (a.1 i)), a.2)

def resolve (nMap : Nat) (mapG : Arr Nat) : (Arr Nat) × Nat :=
  (List.range nMap).foldl resolveStep (mapG, 0)

def mergeAll (n : Nat) (close : Nat → Nat → Bool) (chunks : List (Array Nat)) : MS :=
  chunks.foldl (mergeChunk n close) ⟨Arr.const none, Arr.const 0, 0, true⟩

/-- the labelling after lines 322-333 (`none`: the point was in no cell and the code indexes with -1) -/
def mergedLabel (s : MS) : Arr (Option Nat) :=
  let r := resolve s.nMap s.mapG
  ⟨fun p => (s.inG p).map r.1.get⟩

def friendsRun (n : Nat) (close : Nat → Nat → Bool) (chunks : List (Array Nat)) : Out :=
  let s := mergeAll n close chunks
  let r := resolve s.nMap s.mapG
  let lab := mergedLabel s
  let inG : Arr Nat := freeze n ⟨fun p => (lab p).getD 0⟩
  let L0 := link inG n ⟨Arr.const none, Arr.const none⟩
  let L : Lists := ⟨freeze n L0.first, freeze n L0.next⟩
  ⟨inG, freeze n (countAll n L false r.2 (Arr.const 0)), L, r.2,
   s.ok && (List.range n).all (fun p => (lab p).isSome) && countOk n L r.2⟩

/-- spheregroup, lines 514-564, after the grid has been built -/
def sphereRun (n : Nat) (close : Nat → Nat → Bool) (chunks : List (Array Nat)) : Except String Out :=
  if n = 1 then .error "PydlutilsException" else
  let F := friendsRun n close chunks
  let r := renumber n F.L F.inG
  let L := link r.inG n ⟨Arr.const none, F.L.next⟩
  .ok ⟨r.inG, countAll n L false F.nG (Arr.const 0), L, F.nG, F.ok && r.ok && countOk n L F.nG⟩

end PydlVerif.Fof

/-
Model of `pydl.pydlutils.spheregroup.spheregroup` END TO END (property C05, extension round 2):
the grid that spheregroup actually builds - `chunks(ra, dec, chunksize)` then
`assign(ra, dec, linklength)` of the SAME list (Model/Sphere.lean, shared with C04) - handed to the
friends-of-friends part (Model/Fof.lean: `sphereRun`).

  spheregroup lines 533-553         -> `spheregroup`  (n = 1 check, chunksize rule, chunks, assign)
  friendsoffriends lines 307-309    -> `cellLists`    (the cells in the loop order of the code)
  chunkfriendsoffriends + groups.sphereradec + gcirc(units=0) -> `closeOf`, `gcircRad`
Core Lean only.
-/
import PydlVerif.Model.Sphere
import PydlVerif.Model.Fof
namespace PydlVerif.FofGrid
open PydlVerif PydlVerif.Sphere PydlVerif.Fof

/-- `for i in range(nDec): for j in range(nRa[i]): chunkList[i][j]` -/
def cellLists (nDec : Nat) (nRa : Array Nat) (cl : Tab CellSt) : List (Array Nat) :=
  (List.range nDec).flatMap fun i => (List.range (nRa.getD i 0)).map fun j => (cl.get (i, j)).1.toArray

section
variable {α : Type} [Trig α]

/-- `gcirc(ra1, dec1, ra2, dec2, units=0)`: radians in, radians out (goddard/astro.py 110-116) -/
def gcircRad (rarad1 dcrad1 rarad2 dcrad2 : α) : α :=
  let deldec2 := (dcrad2 - dcrad1) / 2
  let delra2 := (rarad2 - rarad1) / 2
  let sindis := Trig.sqrt (Trig.sin deldec2 * Trig.sin deldec2 +
    Trig.cos dcrad1 * Trig.cos dcrad2 * Trig.sin delra2 * Trig.sin delra2)
  2 * Trig.arcsin sindis

/-- the closeness test of `groups` as `chunkfriendsoffriends` sets it up: coordinates and linking length
converted with `np.deg2rad`, `sphereradec(x_i, x_j) <= distance` -/
def closeOf (ra dec : Array α) (ll : α) (i j : Nat) : Bool :=
  decide (gcircRad (deg2rad (ra.getD i 0)) (deg2rad (dec.getD i 0)) (deg2rad (ra.getD j 0)) (deg2rad (dec.getD j 0))
    ≤ deg2rad ll)

/-- the chunk size rule, spheregroup lines 539-544 -/
def groupChunkSize (ll : α) (chunksize : Option α) : α :=
  let four : α := 4
  match chunksize with
  | some c => if c < four * ll then four * ll else c
  | none => if four * ll < (0.1 : α) then 0.1 else four * ll

/-- `spheregroup(ra, dec, linklength, chunksize)` -/
def spheregroup (ra dec : Array α) (ll : α) (chunksize : Option α) : Except String Out := do
  if ra.size = 1 then throw "PydlutilsException: Cannot group only one point!"
  let cs := groupChunkSize ll chunksize
  let g ← chunksInit ra dec cs
  let cl ← assign g ra dec ll
  sphereRun ra.size (closeOf ra dec ll) (cellLists g.nDec g.nRa cl)

end
end PydlVerif.FofGrid

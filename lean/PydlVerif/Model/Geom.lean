/-
Executable model of the great-circle geometry of pydl (property C18).

  gcirc                      pydl/goddard/astro.py  gcirc (haversine formula, three unit conventions)
  rotFwd / rotInv            the rotation about the node axis by the inclination used in
                             pydl/pydlutils/coord.py radec_to_munu / munu_to_radec
  radecToMunu / munuToRadec  the two frame transforms, degrees in, degrees out (node 95 deg,
                             inclination stripe_to_incl(stripe)), longitudes wrapped to [0, 360)
                             as astropy's Longitude does on the range that can occur
  stripeToEta / stripeToIncl pydl/pydlutils/coord.py
  anglesToX / xToAngles      pydl/pydlutils/mangle.py

Written once over `[Trig α]`; runs at Float through the driver, is interpreted at ℝ
(`realTrig`) in the proof file.  sqrt sin cos arcsin arccos atan2 are parameters (libm).
The rotation itself only needs + - * and negation, so that it can also be read over
any commutative ring.
-/
import PydlVerif.Model.Scalar
namespace PydlVerif.Geom
open PydlVerif

abbrev V3 (α : Type) := α × α × α

section ring
variable {α : Type} [Add α] [Sub α] [Mul α] [Neg α]

/-- radec_to_munu: `x2 = x1; y2 = y1*cosi + z1*sini; z2 = -y1*sini + z1*cosi` -/
def rotFwd (c s : α) (v : V3 α) : V3 α :=
  (v.1, v.2.1 * c + v.2.2 * s, -v.2.1 * s + v.2.2 * c)

/-- munu_to_radec: `xx = x; yy = y*cosi - z*sini; zz = y*sini + z*cosi` -/
def rotInv (c s : α) (v : V3 α) : V3 α :=
  (v.1, v.2.1 * c - v.2.2 * s, v.2.1 * s + v.2.2 * c)

def dot (u v : V3 α) : α := u.1 * v.1 + u.2.1 * v.2.1 + u.2.2 * v.2.2

end ring

section trig
variable {α : Type} [Trig α]

/-- `np.deg2rad`, `np.radians`: `x * (pi/180)` -/
def deg2rad (x : α) : α := x * (Trig.pi / 180)
/-- `np.rad2deg`, `np.degrees`: `x * (180/pi)` -/
def rad2deg (x : α) : α := x * (180 / Trig.pi)

/-- the haversine term under the square root of `gcirc` (radians in) -/
def hav (ra1 dec1 ra2 dec2 : α) : α :=
  let deldec2 := (dec2 - dec1) / 2
  let delra2 := (ra2 - ra1) / 2
  Trig.sin deldec2 * Trig.sin deldec2 +
    Trig.cos dec1 * Trig.cos dec2 * Trig.sin delra2 * Trig.sin delra2

/-- `gcirc(..., units=0)`: `2 arcsin (sqrt hav)` -/
def gcircRad (ra1 dec1 ra2 dec2 : α) : α :=
  2 * Trig.arcsin (Trig.sqrt (hav ra1 dec1 ra2 dec2))

/-- `gcirc` with its `units` switch; anything but 0, 1, 2 is a ValueError -/
def gcirc (units : Int) (ra1 dec1 ra2 dec2 : α) : Except String α :=
  if units == 0 then
    pure (gcircRad ra1 dec1 ra2 dec2)
  else if units == 1 then
    pure (rad2deg (gcircRad (deg2rad (15 * ra1)) (deg2rad dec1) (deg2rad (15 * ra2)) (deg2rad dec2)) * 3600)
  else if units == 2 then
    pure (rad2deg (gcircRad (deg2rad ra1) (deg2rad dec1) (deg2rad ra2) (deg2rad dec2)) * 3600)
  else
    throw "ValueError"

/-- `stripe_to_eta` -/
def stripeToEta (stripe : α) : α :=
  let eta := stripe * 2.5 - 57.5
  if 46 < stripe then eta - 180 else eta

/-- `stripe_to_incl` -/
def stripeToIncl (stripe : α) : α := stripeToEta stripe + 32.5

/-- the node of every SDSS stripe (frame attribute default) -/
def node : α := 95

/-- unit vector of longitude `lon`, latitude `lat` (radians): `(cos lat cos lon, cos lat sin lon, sin lat)`
    in the order of factors of radec_to_munu (`cosdec * cosra`, `cosdec * sinra`, `sindec`) -/
def unitVec (lon lat : α) : V3 α :=
  (Trig.cos lat * Trig.cos lon, Trig.cos lat * Trig.sin lon, Trig.sin lat)

/-- the vector built in munu_to_radec: `(cosmu*cosnu, sinmu*cosnu, sinnu)` -/
def munuVec (mu nu : α) : V3 α :=
  (Trig.cos mu * Trig.cos nu, Trig.sin mu * Trig.cos nu, Trig.sin nu)

/-- longitude / latitude (radians) of a vector as both transforms compute them: `arctan2(y, x)`,
    `arcsin(clip(z, -1, 1))` (the clip is the fix of the NaN defect found by this check) -/
def vecLon (v : V3 α) : α := Trig.atan2 v.2.1 v.1
/-- `np.clip(z, -1.0, 1.0)` = `minimum(maximum(z, -1), 1)` -/
def clip1 (z : α) : α :=
  let m := if z < -1 then -1 else z
  if 1 < m then 1 else m
def vecLat (v : V3 α) : α := Trig.arcsin (clip1 v.2.2)

/-- astropy `Longitude` wrapping into [0, 360) on the range (-180+95 .. 180+95) that `arctan2 + node` has -/
def wrap360 (x : α) : α :=
  if x < 0 then x + 360 else if 360 ≤ x then x - 360 else x

/-- Cartesian part of radec_to_munu (node and inclination in degrees) -/
def radecToVec2 (nodeDeg inclDeg ra dec : α) : V3 α :=
  let i := deg2rad inclDeg
  rotFwd (Trig.cos i) (Trig.sin i) (unitVec (deg2rad (ra - nodeDeg)) (deg2rad dec))

/-- Cartesian part of munu_to_radec -/
def munuToVec1 (nodeDeg inclDeg mu nu : α) : V3 α :=
  let i := deg2rad inclDeg
  rotInv (Trig.cos i) (Trig.sin i) (munuVec (deg2rad (mu - nodeDeg)) (deg2rad nu))

/-- ICRS → SDSSMuNu, degrees → degrees, general node / inclination -/
def radecToMunuNI (nodeDeg inclDeg ra dec : α) : α × α :=
  let v := radecToVec2 nodeDeg inclDeg ra dec
  (wrap360 (rad2deg (vecLon v) + nodeDeg), rad2deg (vecLat v))

/-- SDSSMuNu → ICRS, degrees → degrees, general node / inclination -/
def munuToRadecNI (nodeDeg inclDeg mu nu : α) : α × α :=
  let v := munuToVec1 nodeDeg inclDeg mu nu
  (wrap360 (rad2deg (vecLon v) + nodeDeg), rad2deg (vecLat v))

/-- `ICRS(ra, dec).transform_to(SDSSMuNu(stripe=stripe))` -/
def radecToMunu (stripe ra dec : α) : α × α := radecToMunuNI node (stripeToIncl stripe) ra dec

/-- `SDSSMuNu(mu, nu, stripe=stripe).transform_to(ICRS())` -/
def munuToRadec (stripe mu nu : α) : α × α := munuToRadecNI node (stripeToIncl stripe) mu nu

/-- `angles_to_x` for one row (degrees in) -/
def anglesToX (latitude : Bool) (phi theta : α) : V3 α :=
  let p := deg2rad phi
  let t := if latitude then deg2rad (90 - theta) else deg2rad theta
  let st := Trig.sin t
  (Trig.cos p * st, Trig.sin p * st, Trig.cos t)

/-- `x_to_angles` for one row (degrees out); note `r` is the SQUARED norm, as coded -/
def xToAngles (latitude : Bool) (v : V3 α) : α × α :=
  let phi := rad2deg (Trig.atan2 v.2.1 v.1)
  let r := v.1 * v.1 + v.2.1 * v.2.1 + v.2.2 * v.2.2
  let theta := rad2deg (Trig.arccos (v.2.2 / r))
  (phi, if latitude then 90 - theta else theta)

end trig
end PydlVerif.Geom

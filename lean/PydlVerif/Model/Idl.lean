/-
Executable model of pydl/smooth.py, pydl/median.py, pydl/uniq.py, pydl/rebin.py
(property C14).  Core Lean only.  Generic over `[Scalar α]`: run at `Float`
next to numpy's float64, at `Rat` for the exact index decisions, and at an
ordered field in the proof file.

What is modelled from outside pydl (parameters with a contract, DESIGN §3):
* `ndarray.sum()` of a contiguous float64 vector = numpy's pairwise summation
  (`pwSum`, the 8-accumulator blocks of ≤ 128 elements and the halving above),
  added to the reduction identity `0`; sums along a non-innermost axis are
  plain left-to-right sums (`axisSum`);
* `numpy.median` for odd counts / `even`: middle element, or mean of the two
  middle elements, of the sorted data (`isort`);
* `scipy.signal.medfilt / medfilt2d`: middle element of the sorted, zero-padded
  window (`medfilt1`, `medfilt2`); odd kernel sizes only (ValueError otherwise).
-/
import PydlVerif.Model.Scalar
namespace PydlVerif.Idl
open PydlVerif

abbrev R (α : Type) := Except String α
def valueError {α} : R α := .error "ValueError"
def indexError {α} : R α := .error "IndexError"
def zeroDivisionError {α} : R α := .error "ZeroDivisionError"

section numeric
variable {α : Type} [Scalar α]

/-! ## numpy summation -/

/-- left-to-right sum starting from `acc` -/
def seqSum (acc : α) (l : List α) : α := l.foldl (· + ·) acc

/-- elementwise addition of two accumulator vectors -/
def addv (r b : List α) : List α := List.zipWith (· + ·) r b

/-- `k` further blocks of 8 added onto the 8 accumulators -/
def accum (r : List α) : Nat → List α → List α
  | 0, _ => r
  | k + 1, rest => accum (addv r (rest.take 8)) k (rest.drop 8)

/-- the tree that combines the 8 accumulators -/
def tree8 : List α → α
  | [r0, r1, r2, r3, r4, r5, r6, r7] => ((r0 + r1) + (r2 + r3)) + ((r4 + r5) + (r6 + r7))
  | l => seqSum 0 l

/-- numpy `pairwise_sum` for 8 ≤ n ≤ 128: eight running accumulators over the
    multiple-of-8 prefix, combined as a tree, the remainder added one by one -/
def pwBlock (l : List α) : α :=
  let n := l.length
  let m := n - n % 8
  let r := accum (l.take 8) (m / 8 - 1) ((l.take m).drop 8)
  seqSum (tree8 r) (l.drop m)

/-- numpy `pairwise_sum` (fuel = number of halvings still allowed; `l.length` is plenty) -/
def pwSum : Nat → List α → α
  | 0, l => seqSum 0 l
  | fuel + 1, l =>
    let n := l.length
    if n < 8 then seqSum 0 l
    else if n ≤ 128 then pwBlock l
    else
      let n2 := n / 2 - (n / 2) % 8
      pwSum fuel (l.take n2) + pwSum fuel (l.drop n2)

/-- `a.sum()` of a contiguous vector: the reduction starts from the identity 0 -/
def npSum (l : List α) : α := 0 + pwSum l.length l

/-- `a.sum(k)`: pairwise when the reduced axis is the innermost one in memory
    (all later axes have length 1), otherwise slice after slice, left to right -/
def axisSum (innermost : Bool) (l : List α) : α :=
  if innermost then npSum l else seqSum 0 l

/-! ## smooth (pydl/smooth.py) -/

/-- the window width after `if owidth % 2 == 0: width = owidth + 1` -/
def oddWidth (owidth : Int) : Int := if owidth % 2 == 0 then owidth + 1 else owidth

def smooth (x : List α) (owidth : Int) (edgeTruncate : Bool) : List α :=
  let width := oddWidth owidth
  if width < 3 then x else
  let w := width.toNat
  let n := x.length
  let istart := (w - 1) / 2
  let iend : Int := (n : Int) - ((w + 1) / 2 : Nat)
  let w2 := w / 2
  (List.range n).map fun i =>
    if i < istart then
      if edgeTruncate then
        (npSum (x.take (istart + i + 1)) + Scalar.ofNat (istart - i) * x.getD 0 0) / Scalar.ofNat w
      else x.getD i 0
    else if (i : Int) > iend then
      if edgeTruncate then
        (npSum (x.drop (i - istart)) + Scalar.ofNat ((i : Int) - iend).toNat * x.getD (n - 1) 0)
          / Scalar.ofNat w
      else x.getD i 0
    else npSum ((x.drop (i - w2)).take (2 * w2 + 1)) / Scalar.ofNat w

/-! ## median (pydl/median.py) -/

/-- insertion into a sorted list -/
def insertS (a : α) : List α → List α
  | [] => [a]
  | b :: t => if a ≤ b then a :: b :: t else b :: insertS a t

/-- insertion sort: stands for `numpy.sort` / `argsort` / the selection inside the filters -/
def isort (l : List α) : List α := l.foldr insertS []

/-- `median(array)` without width and axis (the array flattened) -/
def medianPlain (x : List α) (even : Bool) : R α :=
  let n := x.length
  let s := isort x
  if n % 2 == 1 || even then
    -- numpy.median
    if n == 0 then pure ((0 : α) / 0)
    else if n % 2 == 1 then pure (s.getD (n / 2) 0)
    else pure (npSum [s.getD (n / 2 - 1) 0, s.getD (n / 2) 0] / Scalar.ofNat 2)
  else
    -- f[f.argsort()[f.size // 2]]
    if n == 0 then indexError else pure (s.getD (n / 2) 0)

/-- `scipy.signal.medfilt` on a vector, odd kernel size `k` -/
def medfilt1 (k : Nat) (x : List α) : List α :=
  let h := k / 2
  (List.range x.length).map fun i =>
    let win := (List.range k).map fun j => if i + j < h then (0 : α) else x.getD (i + j - h) 0
    (isort win).getD h 0

/-- element (i, j) of a list of rows, 0 outside -/
def get2 (x : List (List α)) (i j : Nat) : α := (x.getD i []).getD j 0

/-- `scipy.signal.medfilt2d` with a k × k kernel, k odd -/
def medfilt2 (k : Nat) (x : List (List α)) : List (List α) :=
  let h := k / 2
  let n1 := (x.getD 0 []).length
  (List.range x.length).map fun i => (List.range n1).map fun j =>
    let win := (List.range k).flatMap fun a => (List.range k).map fun b =>
      if i + a < h ∨ j + b < h then (0 : α) else get2 x (i + a - h) (j + b - h)
    (isort win).getD (k * k / 2) 0

/-- is index `i` one of the edge points that `median` restores? -/
def isEdge (n width i : Nat) : Bool :=
  decide (i < (width - 1) / 2) || decide ((i : Int) > (n : Int) - ((width + 1) / 2 : Nat))

/-- `median(array, width)` for a 1-D array; `mf` is the median filter -/
def medianRun1 (mf : Nat → List α → List α) (x : List α) (width : Nat) : R (List α) :=
  let n := x.length
  let k := min width n
  if k % 2 == 0 then valueError else
  let med := mf k x
  pure ((List.range n).map fun i => if isEdge n width i then x.getD i 0 else med.getD i 0)

/-- `median(array, width)` for a 2-D array (list of `n0` rows of length `n1`) -/
def medianRun2 (mf : Nat → List (List α) → List (List α)) (x : List (List α)) (n1 : Nat)
    (width : Nat) : R (List (List α)) :=
  let n0 := x.length
  let k := min width (n0 * n1)
  if k % 2 == 0 then valueError else
  let med := mf k x
  pure ((List.range n0).map fun i => (List.range n1).map fun j =>
    if isEdge n0 width i || isEdge n1 width j then get2 x i j else get2 med i j)

/-! ## rebin (pydl/rebin.py) -/

/-- one lane, expanding `d0 → d` (`d0 < d`, `d0 ∣ d`) -/
def laneExpand (sample : Bool) (d0 d : Nat) (x : List α) : List α :=
  let f : α := Scalar.ofNat d0 / Scalar.ofNat d
  (List.range d).map fun i =>
    if sample then
      -- fp = (i*d0[k])//d[k]
      x.getD (i * d0 / d) 0
    else
      let p := f * Scalar.ofNat i
      let fp := (Scalar.floor p).toNat
      if p < Scalar.ofNat (d0 - 1) then
        x.getD fp 0 + (p - Scalar.ofNat fp) * (x.getD (fp + 1) 0 - x.getD fp 0)
      else x.getD fp 0

/-- the sample pick as the code computed it before the D11 fix (`int(floor((d0/d)*i))`);
    kept for the failing-input search and for the record in the proof file -/
def laneExpandSampleFloat (d0 d : Nat) (x : List α) : List α :=
  let f : α := Scalar.ofNat d0 / Scalar.ofNat d
  (List.range d).map fun i => x.getD (Scalar.floor (f * Scalar.ofNat i)).toNat 0

/-- one lane, shrinking `d0 → d` (`d < d0`, `d ∣ d0`) -/
def laneShrink (sample innermost : Bool) (d0 d : Nat) (x : List α) : List α :=
  let f := d0 / d
  (List.range d).map fun i =>
    if sample then x.getD (f * i) 0
    else axisSum innermost ((x.drop (f * i)).take f) / Scalar.ofNat f

/-- one lane along axis `k` -/
def laneRebin (sample innermost : Bool) (d0 d : Nat) (x : List α) : List α :=
  if d > d0 then laneExpand sample d0 d x
  else if d = d0 then x
  else laneShrink sample innermost d0 d x

end numeric

/-- C-ordered N-dimensional array -/
structure ND (α : Type) where
  shape : List Nat
  data : Array α

def prod (l : List Nat) : Nat := l.foldl (· * ·) 1

/-- apply `f` to every lane along axis `k` (old length `d0`, new length `d`):
    element `(o, i, t)` of the result is element `i` of `f (lane o t)` -/
def mapAxis {α : Type} [Inhabited α] (f : List α → List α) (outer d0 d inner : Nat)
    (data : Array α) : Array α :=
  let lanes : Array (Array α) := Array.ofFn (n := outer * inner) fun q =>
    let o := q.val / inner
    let t := q.val % inner
    (f ((List.range d0).map fun j => data[(o * d0 + j) * inner + t]!)).toArray
  Array.ofFn (n := outer * d * inner) fun q =>
    let t := q.val % inner
    let i := q.val / inner % d
    let o := q.val / inner / d
    lanes[o * inner + t]![i]!

section numeric
variable {α : Type} [Scalar α]

/-- the divisibility checks of the first loop (first offending axis decides) -/
def rebinCheck : List Nat → List Nat → R Unit
  | d0 :: s, d :: ds =>
    if d > d0 then
      if d0 = 0 then zeroDivisionError
      else if d % d0 != 0 then valueError else rebinCheck s ds
    else if d = d0 then rebinCheck s ds
    else
      if d = 0 then zeroDivisionError
      else if d0 % d != 0 then valueError else rebinCheck s ds
  | _, _ => pure ()

/-- the second loop: axis after axis; `done` = new lengths of the axes already treated -/
def rebinAxes (sample : Bool) : (done : List Nat) → (todo0 todo : List Nat) → Array α → Array α
  | done, d0 :: s, d :: ds, data =>
    let outer := prod done
    let inner := prod s
    let data' := mapAxis (laneRebin sample (inner == 1) d0 d) outer d0 d inner data
    rebinAxes sample (done ++ [d]) s ds data'
  | _, _, _, data => data

def rebin (x : ND α) (d : List Nat) (sample : Bool) : R (ND α) := do
  if x.shape.length != d.length then valueError
  rebinCheck x.shape d
  pure ⟨d, rebinAxes sample [] x.shape d x.data⟩

end numeric

/-! ## uniq (pydl/uniq.py) -/

section uniq
variable {β : Type} [BEq β]

/-- `(x != roll(x, -1)).nonzero()[0]` -/
def neqNext (x : List β) : List Nat :=
  (List.range x.length).filter fun i =>
    match x[i]?, x[(i + 1) % x.length]? with
    | some a, some b => a != b
    | _, _ => false

/-- `uniq(x)` -/
def uniq (x : List β) : List Int :=
  let r := neqNext x
  if r.isEmpty then [(x.length : Int) - 1] else r.map Int.ofNat

/-- numpy fancy indexing `x[index]` (negative subscripts count from the end) -/
def take? (x : List β) (index : List Int) : R (List β) :=
  index.mapM fun j =>
    let n : Int := x.length
    if j < -n ∨ j ≥ n then indexError
    else match x[(if j < 0 then j + n else j).toNat]? with
      | some v => pure v
      | none => indexError

/-- `uniq(x, index)` -/
def uniqIndex (x : List β) (index : List Int) : R (List Int) := do
  let q ← take? x index
  let r := neqNext q
  if r.isEmpty then pure [(q.length : Int) - 1]
  else pure (r.map fun i => index.getD i 0)

end uniq

end PydlVerif.Idl

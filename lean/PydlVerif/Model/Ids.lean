/-
C06: SDSS objID / specObjID packing.  Follows pydl/pydlutils/sdss.py
(sdss_objid, sdss_specobjid, unwrap_specobjid) and pydl/photoop/photoobj.py
(unwrap_objid).  Field values are unbounded `Int` on the way in (the code
range-checks int64 arrays), the packed ID is a `Nat` below 2^64.
Every rejection of the real code is a `ValueError`; the model returns
`Except.error "ValueError"`.
-/
namespace PydlVerif.Ids

abbrev R := Except String

deriving instance DecidableEq for Except

def valueError {α} : R α := .error "ValueError"

def inR (x lo hi : Int) : Bool := decide (lo ≤ x) && decide (x < hi)

structure ObjF where
  sv : Int
  rerun : Int
  run : Int
  camcol : Int
  ff : Int
  field : Int
  obj : Int
deriving Repr, DecidableEq

/-- the seven range checks of `sdss_objid`, in code order -/
def ObjF.ok (f : ObjF) : Bool :=
  inR f.ff 0 2 && inR f.sv 0 16 && inR f.rerun 0 (2^11) && inR f.run 0 (2^16) &&
  inR f.camcol 1 7 && inR f.field 0 (2^12) && inR f.obj 0 (2^16)

def packObjidRaw (f : ObjF) : Nat :=
  (f.sv.toNat <<< 59) ||| (f.rerun.toNat <<< 48) ||| (f.run.toNat <<< 32) |||
  (f.camcol.toNat <<< 29) ||| (f.ff.toNat <<< 28) ||| (f.field.toNat <<< 16) ||| f.obj.toNat

def packObjid (f : ObjF) : R Nat :=
  if f.ok then pure (packObjidRaw f) else valueError

/-- array form: each check is `.any()` over the whole array, then one vector expression -/
def packObjids (fs : List ObjF) : R (List Nat) :=
  if fs.any (fun f => !inR f.ff 0 2) then valueError
  else if fs.any (fun f => !inR f.sv 0 16) then valueError
  else if fs.any (fun f => !inR f.rerun 0 (2^11)) then valueError
  else if fs.any (fun f => !inR f.run 0 (2^16)) then valueError
  else if fs.any (fun f => !inR f.camcol 1 7) then valueError
  else if fs.any (fun f => !inR f.field 0 (2^12)) then valueError
  else if fs.any (fun f => !inR f.obj 0 (2^16)) then valueError
  else pure (fs.map packObjidRaw)

/-- `unwrap_objid` on the two's-complement pattern `v < 2^64` of the int64 input -/
def unpackObjid (v : Nat) : ObjF :=
  { sv := ((v >>> 59) &&& (2^4 - 1) : Nat)
    rerun := ((v >>> 48) &&& (2^11 - 1) : Nat)
    run := ((v >>> 32) &&& (2^16 - 1) : Nat)
    camcol := ((v >>> 29) &&& (2^3 - 1) : Nat)
    ff := ((v >>> 28) &&& (2^1 - 1) : Nat)
    field := ((v >>> 16) &&& (2^12 - 1) : Nat)
    obj := (v &&& (2^16 - 1) : Nat) }

/-! ### specObjID -/

structure SpecF where
  plate : Int
  fiber : Int
  mjd : Int      -- true MJD (> 50000)
  run2d : Int
  line : Int     -- `line | index`: at most one of them may be given
deriving Repr, DecidableEq

def SpecF.ok (f : SpecF) : Bool :=
  inR f.plate 0 (2^14) && inR f.fiber 0 (2^12) && inR (f.mjd - 50000) 0 (2^14) &&
  inR f.run2d 0 (2^14) && inR f.line 0 (2^10)

def packSpecRaw (f : SpecF) : Nat :=
  (f.plate.toNat <<< 50) ||| (f.fiber.toNat <<< 38) ||| ((f.mjd - 50000).toNat <<< 24) |||
  (f.run2d.toNat <<< 10) ||| f.line.toNat

def packSpec (f : SpecF) : R Nat :=
  if f.ok then pure (packSpecRaw f) else valueError

/-- `line` and `index` both supplied is refused before anything else -/
def packSpecLI (plate fiber mjd run2d : Int) (line index : Option Int) : R Nat :=
  match line, index with
  | some _, some _ => valueError
  | some l, none => packSpec ⟨plate, fiber, mjd, run2d, l⟩
  | none, some i => packSpec ⟨plate, fiber, mjd, run2d, i⟩
  | none, none => packSpec ⟨plate, fiber, mjd, run2d, 0⟩

def unpackSpec (v : Nat) : SpecF :=
  { plate := ((v >>> 50) &&& (2^14 - 1) : Nat)
    fiber := ((v >>> 38) &&& (2^12 - 1) : Nat)
    mjd := ((v >>> 24) &&& (2^14 - 1) : Nat) + 50000
    run2d := ((v >>> 10) &&& (2^14 - 1) : Nat)
    line := (v &&& (2^10 - 1) : Nat) }

/-! ### run2d strings -/

def isDigit (c : Char) : Bool := c.isDigit

def digitsVal (cs : List Char) : Nat := Nat.ofDigitChars 10 cs 0

/-- longest digit prefix and the rest (`\d+` is greedy and cannot backtrack past a non-digit) -/
def spanDigits (cs : List Char) : List Char × List Char := (cs.takeWhile isDigit, cs.dropWhile isDigit)

/-- the documented encoding of 'vN_M_P' -/
def run2dOfNMP (n m p : Nat) : R Nat :=
  if 5 ≤ n && n ≤ 6 && m ≤ 99 && p ≤ 99 then pure ((n - 5) * 10000 + m * 100 + p) else valueError

/-- `re.match(r'v(\d+)_(\d+)_(\d+)', s)`: prefix match -/
def matchVNMP (cs : List Char) : Option (Nat × Nat × Nat) :=
  match cs with
  | 'v' :: r =>
    let (n, r1) := spanDigits r
    if n.isEmpty then none else
    match r1 with
    | '_' :: r2 =>
      let (m, r3) := spanDigits r2
      if m.isEmpty then none else
      match r3 with
      | '_' :: r4 =>
        let (p, _) := spanDigits r4
        if p.isEmpty then none else some (digitsVal n, digitsVal m, digitsVal p)
      | _ => none
    | _ => none
  | _ => none

/-- string form of run2d: plain decimal digits, else a 'vN_M_P' prefix, else ValueError.
Domain: ASCII strings that are either all digits or not accepted by Python's `int()`. -/
def parseRun2d (s : String) : R Nat :=
  let cs := s.toList
  if !cs.isEmpty && cs.all isDigit then pure (digitsVal cs)
  else match matchVNMP cs with
    | some (n, m, p) => run2dOfNMP n m p
    | none => valueError

/-- `unwrap_specobjid` rebuild of the string: (N, M, P) -/
def nmpOfRun2d (r : Nat) : Nat × Nat × Nat := (r / 10000 + 5, (r % 10000) / 100, r % 100)

def fmtRun2d (r : Nat) : String :=
  let (n, m, p) := nmpOfRun2d r
  s!"v{n}_{m}_{p}"

/-! ### run2d strings, every string a caller can write (extension round)

`sdss_specobjid` first tries `int(run2d)` and only on `ValueError` the regular expression.  Python's `int()` accepts
surrounding white space, one sign, single underscores between digits and every Unicode decimal digit (category Nd); `\d`
of `re` (str patterns) is the same Nd set.  The two tables below are what the running interpreter does (Python 3.12 /
Unicode 15.0); `harness/xlate/c06_consts.py` re-derives both from the interpreter on every run (`int(chr(c))`,
`re.fullmatch(r'\d', chr(c))`, `int(chr(c)+'7')`, `int('7'+chr(c))` for every code point) and `Gen/C06Consts.lean`
checks them equal to these. -/

/-- code points of the digit zero of every Nd block; a block is ten consecutive code points 0..9 -/
def ndZeros : List Nat :=
  [48, 1632, 1776, 1984, 2406, 2534, 2662, 2790, 2918, 3046, 3174, 3302, 3430, 3558, 3664, 3792, 3872, 4160, 4240,
   6112, 6160, 6470, 6608, 6784, 6800, 6992, 7088, 7232, 7248, 42528, 43216, 43264, 43472, 43504, 43600, 44016, 65296,
   66720, 68912, 69734, 69872, 69942, 70096, 70384, 70736, 70864, 71248, 71360, 71472, 71904, 72016, 72784, 73040,
   73120, 73552, 92768, 92864, 93008, 120782, 120792, 120802, 120812, 120822, 123200, 123632, 124144, 125264, 130032]

/-- inclusive code point ranges `int()` skips at both ends of the string -/
def pySpaces : List (Nat × Nat) :=
  [(9, 13), (32, 32), (133, 133), (160, 160), (5760, 5760), (8192, 8202), (8232, 8233), (8239, 8239), (8287, 8287),
   (12288, 12288)]

/-- decimal value of a character (`Py_UNICODE_TODECIMAL`), `none` when it is not a decimal digit -/
def pyDigit (c : Char) : Option Nat :=
  (ndZeros.find? (fun z => decide (z ≤ c.toNat) && decide (c.toNat < z + 10))).map (fun z => c.toNat - z)

def isNd (c : Char) : Bool := (pyDigit c).isSome

def pyIsSpace (c : Char) : Bool := pySpaces.any (fun r => decide (r.1 ≤ c.toNat) && decide (c.toNat ≤ r.2))

/-- after a digit: more digits, each optionally preceded by ONE underscore; `acc` is the value so far -/
def pyIntDigits : List Char → Nat → Option Nat
  | [], acc => some acc
  | c :: r, acc =>
    if c = '_' then
      match r with
      | [] => none
      | d :: r' => match pyDigit d with
        | some v => pyIntDigits r' (acc * 10 + v)
        | none => none
    else match pyDigit c with
      | some v => pyIntDigits r (acc * 10 + v)
      | none => none

/-- unsigned body of an integer literal in base 10: starts with a digit -/
def pyIntBody : List Char → Option Nat
  | [] => none
  | c :: r => match pyDigit c with
    | some v => pyIntDigits r v
    | none => none

def pyStrip (cs : List Char) : List Char := ((cs.dropWhile pyIsSpace).reverse.dropWhile pyIsSpace).reverse

/-- `sys.get_int_max_str_digits()`: `int()` refuses (ValueError) a literal with more digit characters than this,
leading zeros included (the interpreter's default; re-read from the interpreter by the translator on every run) -/
def pyMaxDigits : Nat := 4300

def pyIntBodyLim (r : List Char) : Option Nat :=
  if (r.filter (fun c => c != '_')).length > pyMaxDigits then none else pyIntBody r

/-- `int(s)` for a str `s` (base 10): `none` is ValueError -/
def pyInt (cs : List Char) : Option Int :=
  match pyStrip cs with
  | '+' :: r => (pyIntBodyLim r).map (fun n => (n : Int))
  | '-' :: r => (pyIntBodyLim r).map (fun n => -(n : Int))
  | r => (pyIntBodyLim r).map (fun n => (n : Int))

/-- `int(g)` of a regular-expression group `\d+` -/
def digitsValU (cs : List Char) : Nat := cs.foldl (fun a c => a * 10 + (pyDigit c).getD 0) 0

def spanNd (cs : List Char) : List Char × List Char := (cs.takeWhile isNd, cs.dropWhile isNd)

/-- the three groups of `re.match(r'v(\d+)_(\d+)_(\d+)', s)` with Unicode `\d`: prefix match, greedy groups (a group can
never give a character back: what follows it must be `_`, which is not a digit) -/
def matchGroupsU (cs : List Char) : Option (List Char × List Char × List Char) :=
  match cs with
  | 'v' :: r =>
    let (n, r1) := spanNd r
    if n.isEmpty then none else
    match r1 with
    | '_' :: r2 =>
      let (m, r3) := spanNd r2
      if m.isEmpty then none else
      match r3 with
      | '_' :: r4 =>
        let (p, _) := spanNd r4
        if p.isEmpty then none else some (n, m, p)
      | _ => none
    | _ => none
  | _ => none

/-- `[int(g) for g in m.groups()]`; `int(g)` of a group longer than the digit limit is a ValueError as well -/
def matchVNMPU (cs : List Char) : Option (Nat × Nat × Nat) :=
  match matchGroupsU cs with
  | some (n, m, p) =>
    if n.length > pyMaxDigits || m.length > pyMaxDigits || p.length > pyMaxDigits then none
    else some (digitsValU n, digitsValU m, digitsValU p)
  | none => none

/-- what a run2d string denotes: an integer (`int()` accepted it) or a version triple (the expression matched) -/
inductive Run2dDen where
  | int (i : Int)
  | nmp (n m p : Nat)
deriving Repr, DecidableEq

def denoteRun2d (cs : List Char) : Option Run2dDen :=
  match pyInt cs with
  | some i => some (.int i)
  | none => match matchVNMPU cs with
    | some (n, m, p) => some (.nmp n m p)
    | none => none

/-- the run2d number of a denotation (the integer is range-checked later, with the other fields) -/
def run2dOfDen : Run2dDen → R Int
  | .int i => pure i
  | .nmp n m p => (fun (r : Nat) => (r : Int)) <$> run2dOfNMP n m p

/-- the `isinstance(run2d, str)` branch of `sdss_specobjid`, total over all strings -/
def parseRun2dFull (cs : List Char) : R Int :=
  match denoteRun2d cs with
  | some d => run2dOfDen d
  | none => valueError

/-- scalar call with a string run2d: line/index conflict first, then the string, then ranges and packing -/
def packSpecStr (plate fiber mjd : Int) (s : List Char) (line index : Option Int) : R Nat :=
  match line, index with
  | some _, some _ => valueError
  | _, _ => do
    let r ← parseRun2dFull s
    packSpecLI plate fiber mjd r line index

/-- the string `unwrap_specobjid` gives back for the ID a string call produced -/
def canonRun2d (r : Int) : List Char := (fmtRun2d r.toNat).toList

/-! ### fixed-width integer columns (extension round)
Catalogue columns are 8/16/32/64-bit signed or unsigned integers.  `sdss_objid` casts every column with
`astype(np.int64)` before the range checks; `sdss_specobjid` casts the MJD column to int64 before the offset is removed,
range-checks the other columns in their own type (NumPy compares an integer array with a Python int exactly) and casts
with `astype(np.uint64)` for the shifts.  All shifts and ORs are 64-bit machine operations (`BitVec 64`, wrapping). -/

structure IntCol where
  signed : Bool
  w : Nat
  x : BitVec w

/-- the number an element of the column denotes -/
def IntCol.val (c : IntCol) : Int := if c.signed then c.x.toInt else (c.x.toNat : Int)

/-- `astype(np.int64)` / `astype(np.uint64)` (the same 64 bits): sign extension of a signed, zero extension of an
unsigned column; for `w = 64` the bits are reinterpreted -/
def IntCol.to64 (c : IntCol) : BitVec 64 := if c.signed then c.x.signExtend 64 else c.x.setWidth 64

/-- `(x < lo) | (x >= hi)` is false, `x` an int64 -/
def inRM (x : BitVec 64) (lo hi : Int) : Bool := decide (lo ≤ x.toInt) && decide (x.toInt < hi)

/-- `sdss_objid` on one row of columns of arbitrary integer types (argument order = bit order, as `ObjF`) -/
def packObjidCols (sv rerun run camcol ff field obj : IntCol) : R (BitVec 64) :=
  if inRM ff.to64 0 2 && inRM sv.to64 0 16 && inRM rerun.to64 0 (2^11) && inRM run.to64 0 (2^16) &&
      inRM camcol.to64 1 7 && inRM field.to64 0 (2^12) && inRM obj.to64 0 (2^16)
  then pure ((sv.to64 <<< 59) ||| (rerun.to64 <<< 48) ||| (run.to64 <<< 32) ||| (camcol.to64 <<< 29) |||
    (ff.to64 <<< 28) ||| (field.to64 <<< 16) ||| obj.to64)
  else valueError

/-- `sdss_specobjid` on one row of columns of arbitrary integer types -/
def packSpecCols (plate fiber mjd run2d line : IntCol) : R (BitVec 64) :=
  let m := mjd.to64 - 50000#64
  if inR plate.val 0 (2^14) && inR fiber.val 0 (2^12) && inRM m 0 (2^14) && inR run2d.val 0 (2^14) &&
      inR line.val 0 (2^10)
  then pure ((plate.to64 <<< 50) ||| (fiber.to64 <<< 38) ||| (m <<< 24) ||| (run2d.to64 <<< 10) ||| line.to64)
  else valueError

/-- array form of `sdss_specobjid`: each check is `.any()` over the whole array, then one vector expression -/
def packSpecs (fs : List SpecF) : R (List Nat) :=
  if fs.any (fun f => !inR f.plate 0 (2^14)) then valueError
  else if fs.any (fun f => !inR f.fiber 0 (2^12)) then valueError
  else if fs.any (fun f => !inR (f.mjd - 50000) 0 (2^14)) then valueError
  else if fs.any (fun f => !inR f.run2d 0 (2^14)) then valueError
  else if fs.any (fun f => !inR f.line 0 (2^10)) then valueError
  else pure (fs.map packSpecRaw)

/-! ### constant tables
The shift / mask / range constants in one place.  `harness/xlate/c06_consts.py` extracts the same
tables from the Python source on every run and `Gen/C06Consts.lean` checks them equal to these;
`Props/C06.lean` proves that the model functions above are exactly the table-driven ones. -/

def objShiftTable : List (String × Nat) :=
  [("skyversion", 59), ("rerun", 48), ("run", 32), ("camcol", 29), ("firstfield", 28), ("field", 16), ("objnum", 0)]
def objRangeTable : List (String × Int × Int) :=
  [("firstfield", 0, 2), ("skyversion", 0, 16), ("rerun", 0, 2048), ("run", 0, 65536), ("camcol", 1, 7),
   ("field", 0, 4096), ("objnum", 0, 65536)]
def specShiftTable : List (String × Nat) :=
  [("plate", 50), ("fiber", 38), ("mjd", 24), ("run2d", 10), ("line", 0), ("index", 0)]
def specRangeTable : List (String × Int × Int) :=
  [("plate", 0, 16384), ("fiber", 0, 4096), ("mjd", 0, 16384), ("run2d", 0, 16384), ("line", 0, 1024), ("index", 0, 1024)]
def objUnpackTable : List (String × Nat × Nat × Nat) :=
  [("skyversion", 59, 15, 0), ("rerun", 48, 2047, 0), ("run", 32, 65535, 0), ("camcol", 29, 7, 0),
   ("firstfield", 28, 1, 0), ("frame", 16, 4095, 0), ("id", 0, 65535, 0)]
def specUnpackTable : List (String × Nat × Nat × Nat) :=
  [("plate", 50, 16383, 0), ("fiber", 38, 4095, 0), ("mjd", 24, 16383, 50000), ("run2d", 10, 16383, 0), ("line", 0, 1023, 0)]
def mjdOffset : Int := 50000
/-- the range checks of `sdss_astrombad` (the only other function of the package that range-checks objID fields; no
function outside the four ID functions shifts or masks an ID) -/
def astrombadRangeTable : List (String × Int × Int) := [("run", 0, 65536), ("camcol", 1, 7), ("field", 0, 4096)]
/-- `sdss_astrombad` accepts (run, camcol, field) -/
def okAstrombad (run camcol field : Int) : Bool :=
  inR run 0 (2^16) && inR camcol 1 7 && inR field 0 (2^12)

def val (vals : List (String × Int)) (k : String) : Int := (vals.lookup k).getD 0

/-- `(a << s1) | (b << s2) | ...` over a shift table -/
def packByTable (tab : List (String × Nat)) (vals : List (String × Int)) : Nat :=
  tab.foldl (fun acc e => acc ||| ((val vals e.1).toNat <<< e.2)) 0

/-- every `(x < lo) | (x >= hi)` test of a range table passes -/
def okByTable (tab : List (String × Int × Int)) (vals : List (String × Int)) : Bool :=
  tab.all (fun e => inR (val vals e.1) e.2.1 e.2.2)

/-- `np.bitwise_and(v >> shift, mask) + offset` per row of an unpack table -/
def unpackByTable (tab : List (String × Nat × Nat × Nat)) (v : Nat) : List (String × Int) :=
  tab.map (fun e => (e.1, (((v >>> e.2.1) &&& e.2.2.1 : Nat) : Int) + (e.2.2.2 : Nat)))

def ObjF.vals (f : ObjF) : List (String × Int) :=
  [("skyversion", f.sv), ("rerun", f.rerun), ("run", f.run), ("camcol", f.camcol), ("firstfield", f.ff),
   ("field", f.field), ("objnum", f.obj)]

/-- what `sdss_specobjid` range-checks and shifts: MJD already minus the offset, `line` and `index` separately -/
def specVals (plate fiber mjd run2d line index : Int) : List (String × Int) :=
  [("plate", plate), ("fiber", fiber), ("mjd", mjd - mjdOffset), ("run2d", run2d), ("line", line), ("index", index)]

end PydlVerif.Ids

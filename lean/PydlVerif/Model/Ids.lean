/-
C06: SDSS objID / specObjID packing.  Follows pydl/pydlutils/sdss.py
(sdss_objid, sdss_specobjid, unwrap_specobjid) and pydl/photoop/photoobj.py
(unwrap_objid).  Field values are unbounded `Int` on the way in (the code
range-checks int64 arrays), the packed ID is a `Nat` below 2^64.
Every rejection of the real code is a `ValueError`; the model returns
`Except.error "ValueError"`.
-/
namespace PydlVerif.Ids

abbrev R := Except String

deriving instance DecidableEq for Except

def valueError {α} : R α := .error "ValueError"

def inR (x lo hi : Int) : Bool := decide (lo ≤ x) && decide (x < hi)

structure ObjF where
  sv : Int
  rerun : Int
  run : Int
  camcol : Int
  ff : Int
  field : Int
  obj : Int
deriving Repr, DecidableEq

/-- the seven range checks of `sdss_objid`, in code order -/
def ObjF.ok (f : ObjF) : Bool :=
  inR f.ff 0 2 && inR f.sv 0 16 && inR f.rerun 0 (2^11) && inR f.run 0 (2^16) &&
  inR f.camcol 1 7 && inR f.field 0 (2^12) && inR f.obj 0 (2^16)

def packObjidRaw (f : ObjF) : Nat :=
  (f.sv.toNat <<< 59) ||| (f.rerun.toNat <<< 48) ||| (f.run.toNat <<< 32) |||
  (f.camcol.toNat <<< 29) ||| (f.ff.toNat <<< 28) ||| (f.field.toNat <<< 16) ||| f.obj.toNat

def packObjid (f : ObjF) : R Nat :=
  if f.ok then pure (packObjidRaw f) else valueError

/-- array form: each check is `.any()` over the whole array, then one vector expression -/
def packObjids (fs : List ObjF) : R (List Nat) :=
  if fs.any (fun f => !inR f.ff 0 2) then valueError
  else if fs.any (fun f => !inR f.sv 0 16) then valueError
  else if fs.any (fun f => !inR f.rerun 0 (2^11)) then valueError
  else if fs.any (fun f => !inR f.run 0 (2^16)) then valueError
  else if fs.any (fun f => !inR f.camcol 1 7) then valueError
  else if fs.any (fun f => !inR f.field 0 (2^12)) then valueError
  else if fs.any (fun f => !inR f.obj 0 (2^16)) then valueError
  else pure (fs.map packObjidRaw)

/-- `unwrap_objid` on the two's-complement pattern `v < 2^64` of the int64 input -/
def unpackObjid (v : Nat) : ObjF :=
  { sv := ((v >>> 59) &&& (2^4 - 1) : Nat)
    rerun := ((v >>> 48) &&& (2^11 - 1) : Nat)
    run := ((v >>> 32) &&& (2^16 - 1) : Nat)
    camcol := ((v >>> 29) &&& (2^3 - 1) : Nat)
    ff := ((v >>> 28) &&& (2^1 - 1) : Nat)
    field := ((v >>> 16) &&& (2^12 - 1) : Nat)
    obj := (v &&& (2^16 - 1) : Nat) }

/-! ### specObjID -/

structure SpecF where
  plate : Int
  fiber : Int
  mjd : Int      -- true MJD (> 50000)
  run2d : Int
  line : Int     -- `line | index`: at most one of them may be given
deriving Repr, DecidableEq

def SpecF.ok (f : SpecF) : Bool :=
  inR f.plate 0 (2^14) && inR f.fiber 0 (2^12) && inR (f.mjd - 50000) 0 (2^14) &&
  inR f.run2d 0 (2^14) && inR f.line 0 (2^10)

def packSpecRaw (f : SpecF) : Nat :=
  (f.plate.toNat <<< 50) ||| (f.fiber.toNat <<< 38) ||| ((f.mjd - 50000).toNat <<< 24) |||
  (f.run2d.toNat <<< 10) ||| f.line.toNat

def packSpec (f : SpecF) : R Nat :=
  if f.ok then pure (packSpecRaw f) else valueError

/-- `line` and `index` both supplied is refused before anything else -/
def packSpecLI (plate fiber mjd run2d : Int) (line index : Option Int) : R Nat :=
  match line, index with
  | some _, some _ => valueError
  | some l, none => packSpec ⟨plate, fiber, mjd, run2d, l⟩
  | none, some i => packSpec ⟨plate, fiber, mjd, run2d, i⟩
  | none, none => packSpec ⟨plate, fiber, mjd, run2d, 0⟩

def unpackSpec (v : Nat) : SpecF :=
  { plate := ((v >>> 50) &&& (2^14 - 1) : Nat)
    fiber := ((v >>> 38) &&& (2^12 - 1) : Nat)
    mjd := ((v >>> 24) &&& (2^14 - 1) : Nat) + 50000
    run2d := ((v >>> 10) &&& (2^14 - 1) : Nat)
    line := (v &&& (2^10 - 1) : Nat) }

/-! ### run2d strings -/

def isDigit (c : Char) : Bool := c.isDigit

def digitsVal (cs : List Char) : Nat := Nat.ofDigitChars 10 cs 0

/-- longest digit prefix and the rest (`\d+` is greedy and cannot backtrack past a non-digit) -/
def spanDigits (cs : List Char) : List Char × List Char := (cs.takeWhile isDigit, cs.dropWhile isDigit)

/-- the documented encoding of 'vN_M_P' -/
def run2dOfNMP (n m p : Nat) : R Nat :=
  if 5 ≤ n && n ≤ 6 && m ≤ 99 && p ≤ 99 then pure ((n - 5) * 10000 + m * 100 + p) else valueError

/-- `re.match(r'v(\d+)_(\d+)_(\d+)', s)`: prefix match -/
def matchVNMP (cs : List Char) : Option (Nat × Nat × Nat) :=
  match cs with
  | 'v' :: r =>
    let (n, r1) := spanDigits r
    if n.isEmpty then none else
    match r1 with
    | '_' :: r2 =>
      let (m, r3) := spanDigits r2
      if m.isEmpty then none else
      match r3 with
      | '_' :: r4 =>
        let (p, _) := spanDigits r4
        if p.isEmpty then none else some (digitsVal n, digitsVal m, digitsVal p)
      | _ => none
    | _ => none
  | _ => none

/-- string form of run2d: plain decimal digits, else a 'vN_M_P' prefix, else ValueError.
Domain: ASCII strings that are either all digits or not accepted by Python's `int()`. -/
def parseRun2d (s : String) : R Nat :=
  let cs := s.toList
  if !cs.isEmpty && cs.all isDigit then pure (digitsVal cs)
  else match matchVNMP cs with
    | some (n, m, p) => run2dOfNMP n m p
    | none => valueError

/-- `unwrap_specobjid` rebuild of the string: (N, M, P) -/
def nmpOfRun2d (r : Nat) : Nat × Nat × Nat := (r / 10000 + 5, (r % 10000) / 100, r % 100)

def fmtRun2d (r : Nat) : String :=
  let (n, m, p) := nmpOfRun2d r
  s!"v{n}_{m}_{p}"

/-! ### constant tables
The shift / mask / range constants in one place.  `harness/xlate/c06_consts.py` extracts the same
tables from the Python source on every run and `Gen/C06Consts.lean` checks them equal to these;
`Props/C06.lean` proves that the model functions above are exactly the table-driven ones. -/

def objShiftTable : List (String × Nat) :=
  [("skyversion", 59), ("rerun", 48), ("run", 32), ("camcol", 29), ("firstfield", 28), ("field", 16), ("objnum", 0)]
def objRangeTable : List (String × Int × Int) :=
  [("firstfield", 0, 2), ("skyversion", 0, 16), ("rerun", 0, 2048), ("run", 0, 65536), ("camcol", 1, 7),
   ("field", 0, 4096), ("objnum", 0, 65536)]
def specShiftTable : List (String × Nat) :=
  [("plate", 50), ("fiber", 38), ("mjd", 24), ("run2d", 10), ("line", 0), ("index", 0)]
def specRangeTable : List (String × Int × Int) :=
  [("plate", 0, 16384), ("fiber", 0, 4096), ("mjd", 0, 16384), ("run2d", 0, 16384), ("line", 0, 1024), ("index", 0, 1024)]
def objUnpackTable : List (String × Nat × Nat × Nat) :=
  [("skyversion", 59, 15, 0), ("rerun", 48, 2047, 0), ("run", 32, 65535, 0), ("camcol", 29, 7, 0),
   ("firstfield", 28, 1, 0), ("frame", 16, 4095, 0), ("id", 0, 65535, 0)]
def specUnpackTable : List (String × Nat × Nat × Nat) :=
  [("plate", 50, 16383, 0), ("fiber", 38, 4095, 0), ("mjd", 24, 16383, 50000), ("run2d", 10, 16383, 0), ("line", 0, 1023, 0)]
def mjdOffset : Int := 50000

def val (vals : List (String × Int)) (k : String) : Int := (vals.lookup k).getD 0

/-- `(a << s1) | (b << s2) | ...` over a shift table -/
def packByTable (tab : List (String × Nat)) (vals : List (String × Int)) : Nat :=
  tab.foldl (fun acc e => acc ||| ((val vals e.1).toNat <<< e.2)) 0

/-- every `(x < lo) | (x >= hi)` test of a range table passes -/
def okByTable (tab : List (String × Int × Int)) (vals : List (String × Int)) : Bool :=
  tab.all (fun e => inR (val vals e.1) e.2.1 e.2.2)

/-- `np.bitwise_and(v >> shift, mask) + offset` per row of an unpack table -/
def unpackByTable (tab : List (String × Nat × Nat × Nat)) (v : Nat) : List (String × Int) :=
  tab.map (fun e => (e.1, (((v >>> e.2.1) &&& e.2.2.1 : Nat) : Int) + (e.2.2.2 : Nat)))

def ObjF.vals (f : ObjF) : List (String × Int) :=
  [("skyversion", f.sv), ("rerun", f.rerun), ("run", f.run), ("camcol", f.camcol), ("firstfield", f.ff),
   ("field", f.field), ("objnum", f.obj)]

/-- what `sdss_specobjid` range-checks and shifts: MJD already minus the offset, `line` and `index` separately -/
def specVals (plate fiber mjd run2d line index : Int) : List (String × Int) :=
  [("plate", plate), ("fiber", fiber), ("mjd", mjd - mjdOffset), ("run2d", run2d), ("line", line), ("index", index)]

end PydlVerif.Ids

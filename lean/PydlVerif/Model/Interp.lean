/-
C17 model, part 1: numpy.interp, djs_maskinterp1 / djs_maskinterp
(pydl/pydlutils/image.py), aesthetics (pydl/pydlspec2d/spec2d.py:21-68) and the
reflecting running median djs_median(width=, boundary='reflect')
(pydl/pydlutils/math.py:102-189 with the 1-D branch of pydl/median.py).

Generic over `[Scalar α]`; executed at `Float`, proved at any ordered field.
External kernels are parameters: `argsort` (np.argsort: *a* sorting
permutation), `med` (the median of one odd window - scipy.signal.medfilt's
kernel), the mean of the good flux values in aesthetics('mean') (numpy pairwise
summation).
-/
import PydlVerif.Model.Scalar
namespace PydlVerif.Interp
open PydlVerif

variable {α : Type} [Scalar α]

/-- bool → number, numpy's implicit cast in `float * bool` / `float + bool` -/
def castB (b : Bool) : α := if b then 1 else 0

/-- `x == 0` -/
def isZeroI (x : α) : Bool := Scalar.beq x 0

/-! ## numpy.interp -/

/-- The walk of `np.interp` to the right of the current sample `(x0, f0)`:
numpy's `arr_interp` finds `j` with `xp[j] ≤ x < xp[j+1]` (binary search; for an
increasing `xp` the same `j` as this linear walk), returns `fp[j]` when `j` is
the last sample or `xp[j] == x`, otherwise `slope*(x - xp[j]) + fp[j]` with
`slope = (fp[j+1]-fp[j])/(xp[j+1]-xp[j])`. (numpy's NaN repair branch is not
modelled: finite data only.) -/
def interpGo (x : α) : α → α → List (α × α) → α
  | _, f0, [] => f0
  | x0, f0, (x1, f1) :: rest =>
    if x < x1 then (if Scalar.beq x0 x then f0 else (f1 - f0) / (x1 - x0) * (x - x0) + f0)
    else interpGo x x1 f1 rest

/-- `np.interp(x, xp, fp)` for the non-empty sample list `(x0,f0) :: rest`
(default `left = fp[0]`, `right = fp[-1]`: constant ends). -/
def npInterp (x0 f0 : α) (rest : List (α × α)) (x : α) : α :=
  if x < x0 then f0 else interpGo x x0 f0 rest

/-- `np.interp` on possibly empty sample lists: numpy raises ValueError for empty `xp` -/
def npInterpE (pts : List (α × α)) (x : α) : Except String α :=
  match pts with
  | [] => .error "ValueError"
  | (x0, f0) :: rest => .ok (npInterp x0 f0 rest x)

/-! ## djs_maskinterp1 -/

/-- one sample in abscissa order: abscissa, value, masked (`mask != 0`) -/
structure Pt (α : Type) where
  x : α
  y : α
  bad : Bool

/-- `xp, fp = x[igood], ynew[igood]` -/
def goodPts (t : List (Pt α)) : List (α × α) :=
  (t.filter (fun p => !p.bad)).map (fun p => (p.x, p.y))

/-- `const=True`: `ynew[0:igood[0]] = ynew[igood[0]]`, `ynew[igood[-1]+1:] = ynew[igood[-1]]`
(positions in abscissa order); `first = igood[0]`, `last = igood[ngood-1]`. -/
def constEnds (first last : Nat) (out : List α) : List α :=
  (List.range out.length).map fun i =>
    if i < first then out.getD first 0 else if last < i then out.getD last 0 else out.getD i 0

/-- body of `djs_maskinterp1` on the samples in abscissa order (index order when
`xval is None`, `xval.argsort()` order otherwise):
all good → unchanged; no good sample → unchanged; one good sample → `zeros + y[igood[0]]`;
otherwise masked samples are replaced by `np.interp` over the good ones. -/
def interpCore (t : List (Pt α)) (const : Bool) : List α :=
  if t.all (fun p => !p.bad) then t.map (·.y) else
  match goodPts t with
  | [] => t.map (·.y)
  | (x0, f0) :: rest =>
    if rest.isEmpty then t.map (fun _ => 0 + f0) else
    let out := t.map (fun p => if p.bad then npInterp x0 f0 rest p.x else p.y)
    if const then
      constEnds (t.findIdx (fun p => !p.bad)) (t.length - 1 - t.reverse.findIdx (fun p => !p.bad)) out
    else out

/-- samples of the index mode: abscissa = pixel number -/
def ptsIdx (y : List α) (bad : List Bool) : List (Pt α) :=
  (List.range y.length).map fun i => ⟨Scalar.ofNat i, y.getD i 0, bad.getD i false⟩

/-- `djs_maskinterp1(yval, mask, xval=None, const)`; `bad = (mask != 0)`, same length as `y` -/
def maskinterp1 (y : List α) (bad : List Bool) (const : Bool) : List α :=
  interpCore (ptsIdx y bad) const

/-- samples of the x mode in the order `ii = xval.argsort()` -/
def ptsX (y : List α) (bad : List Bool) (x : List α) (ii : List Nat) : List (Pt α) :=
  ii.map fun k => ⟨x.getD k 0, y.getD k 0, bad.getD k false⟩

/-- `djs_maskinterp1(yval, mask, xval, const)`: work in the order `ii`, write back through `ii`
(`ynew[ii[p]] = s[p]`). `ii` is a permutation of `range n` (contract of argsort). -/
def maskinterp1X (y : List α) (bad : List Bool) (x : List α) (ii : List Nat) (const : Bool) : List α :=
  let s := interpCore (ptsX y bad x ii) const
  (List.range y.length).map fun i => s.getD (ii.idxOf i) 0

/-- insertion argsort (stable); for distinct keys the unique sorting permutation -/
def insertBy (x : List α) (k : Nat) : List Nat → List Nat
  | [] => [k]
  | j :: js => if x.getD k 0 < x.getD j 0 then k :: j :: js else j :: insertBy x k js

def argsortIns (x : List α) : List Nat :=
  (List.range x.length).foldl (fun acc k => insertBy x k acc) []

/-! ## djs_maskinterp: the axis loops -/

def prod (l : List Nat) : Nat := l.foldl (· * ·) 1

/-- C-order line through flat position `p` along numpy axis `k`:
`(stride, len, t, base)`; the line is `base + s*stride`, `s < len`, and `p` is its element `t`. -/
def lineOf (shape : List Nat) (k : Nat) (p : Nat) : Nat × Nat × Nat × Nat :=
  let stride := prod (shape.drop (k + 1))
  let len := shape.getD k 1
  let t := (p / stride) % len
  (stride, len, t, p - t * stride)

def gather {β} (d : β) (a : Array β) (base stride len : Nat) : List β :=
  (List.range len).map fun s => a.getD (base + s * stride) d

/-- `djs_maskinterp(yval, mask, xval, axis, const)` on C-order flattened arrays.
`axis` counts IDL-style: `axis = a` interpolates along numpy axis `ndim-1-a`
(the code's `axis == 0` branch runs over `ynew[i, :]`). Every output element is
element `t` of `djs_maskinterp1` applied to its line. -/
def maskinterp (argsort : List α → List Nat) (yshape mshape : List Nat) (xshape : Option (List Nat))
    (y : List α) (bad : List Bool) (x : List α) (axis : Option Int) (const : Bool) :
    Except String (List α) := do
  if mshape ≠ yshape then throw "ValueError"
  match xshape with
  | some xs => if xs ≠ yshape then throw "ValueError"
  | none => pure ()
  let ndim := yshape.length
  let one (yl : List α) (bl : List Bool) (xl : List α) : List α :=
    match xshape with
    | none => maskinterp1 yl bl const
    | some _ => maskinterp1X yl bl xl (argsort xl) const
  if ndim == 1 then
    pure (one y bad x)
  else
    match axis with
    | none => throw "ValueError"
    | some a =>
      if a < 0 ∨ a > (ndim : Int) - 1 then throw "ValueError"
      else if ndim != 2 && ndim != 3 then throw "ValueError"
      else
        let k := ndim - 1 - a.toNat
        let ya := y.toArray
        let ba := bad.toArray
        let xa := x.toArray
        pure <| (List.range y.length).map fun p =>
          let (stride, len, t, base) := lineOf yshape k p
          (one (gather 0 ya base stride len) (gather false ba base stride len)
            (gather 0 xa base stride len)).getD t 0

/-! ## aesthetics -/

inductive Method where
  | traditional | noconst | mean | nothing | damp | unknown

/-- `aesthetics(flux, invvar, method)` for 1-D flux; `goodMean` is
`flux[invvar > 0].mean()` computed by numpy (parameter).  `damp` is outside the
statement and not modelled. -/
def aesthetics (flux invvar : List α) (method : Method) (goodMean : α) : Except String (List α) :=
  let badpts := invvar.map isZeroI
  if badpts.any id then
    match method with
    | .traditional => .ok (maskinterp1 flux badpts true)
    | .noconst => .ok (maskinterp1 flux badpts false)
    | .mean => .ok ((flux.zip invvar).map fun (f, v) => if decide (v > 0) then f else goodMean)
    | .nothing => .ok flux
    | .damp => .error "unmodelled"
    | .unknown => .error "PydlException:Pydlspec2dException"
  else .ok flux

/-! ## djs_median(array, width=w, boundary='reflect'), 1-D -/

/-- 1-D branch of `pydl.median(array, width)`: `medfilt(array, min(width, size))`
(ValueError for an even kernel), then the first `(w-1)/2` and the last values
`i > size-(w+1)/2` are restored from the input; elsewhere the window
`[i-h, i+h]` lies inside the array and `med` is applied to it. -/
def medianFilt (med : List α → α) (a : List α) (w : Nat) : Except String (List α) :=
  let kw := min w a.length
  if kw % 2 == 0 then .error "ValueError" else
  let istart := (w - 1) / 2
  let iend : Int := (a.length : Int) - ((w + 1) / 2 : Nat)
  .ok <| (List.range a.length).map fun i =>
    if i < istart ∨ (i : Int) > iend then a.getD i 0
    else med ((a.drop (i - kw / 2)).take kw)

/-- `djs_median(array, width=w, boundary≠'none')` for 1-D `array`:
`padsize = ceil(w/2)`; reflected copies of the first and last `padsize` values are
put around the array (numpy raises ValueError when the array is shorter than
`padsize`, except that a single value is broadcast), `median(bigarr, w)` is taken
and the middle part returned. -/
def djsMedianReflect (med : List α → α) (a : List α) (w : Nat) : Except String (List α) :=
  if w == 1 then .ok a else
  let pad := (w + 1) / 2
  if a.length < pad ∧ a.length ≠ 1 then .error "ValueError" else
  let bigarr := if a.length < pad then List.replicate pad (a.getD 0 0) ++ a ++ List.replicate pad (a.getD 0 0)
    else (a.take pad).reverse ++ a ++ (a.drop (a.length - pad)).reverse
  match medianFilt med bigarr w with
  | .error e => .error e
  | .ok f => .ok ((f.drop pad).take a.length)

/-- median of an odd window: middle element of the sorted window (driver's `med`) -/
def insertSorted (v : α) : List α → List α
  | [] => [v]
  | u :: us => if v < u then v :: u :: us else u :: insertSorted v us

def medOdd (l : List α) : α := (l.foldl (fun acc v => insertSorted v acc) []).getD (l.length / 2) 0

/-! ## djs_median(array, width=w, boundary='reflect'), 2-D -/

/-- the source index of every position of one padded axis: `array[0:pad][::-1]`, the array, `array[n-pad:n][::-1]`
(numpy broadcasts an axis of length 1 into the `pad` positions) -/
def padIdx (n pad : Nat) : List Nat :=
  if n < pad then List.replicate pad 0 ++ List.range n ++ List.replicate pad 0
  else ((List.range n).take pad).reverse ++ List.range n ++ ((List.range n).drop (n - pad)).reverse

/-- 2-D branch of `pydl.median(array, width)` on a C-order flattened `b0 × b1` array:
`medfilt2d(array, min(width, size))` (zero padded; ValueError for an even kernel), then the rows and
columns `< (w-1)/2` or `> dim - (w+1)/2` are restored from the input.  The window is handed to `med` row by row. -/
def medianFilt2 (med : List α → α) (b0 b1 : Nat) (a : List α) (w : Nat) : Except String (List α) :=
  let kw := min w (b0 * b1)
  if kw % 2 == 0 then .error "ValueError" else
  let istart := (w - 1) / 2
  let iend0 : Int := (b0 : Int) - ((w + 1) / 2 : Nat)
  let iend1 : Int := (b1 : Int) - ((w + 1) / 2 : Nat)
  let hk := kw / 2
  let arr := a.toArray
  .ok <| (List.range (b0 * b1)).map fun p =>
    let i := p / b1
    let j := p % b1
    if i < istart ∨ (i : Int) > iend0 ∨ j < istart ∨ (j : Int) > iend1 then arr.getD p 0
    else med ((List.range kw).flatMap fun (di : Nat) => (List.range kw).map fun (dj : Nat) =>
      let r : Int := (i : Int) + (di : Int) - (hk : Int)
      let c : Int := (j : Int) + (dj : Int) - (hk : Int)
      if r < 0 ∨ r ≥ b0 ∨ c < 0 ∨ c ≥ b1 then 0 else arr.getD (r.toNat * b1 + c.toNat) 0)

/-- `djs_median(array, width=w, boundary='reflect')` for a 2-D `n0 × n1` array (C-order flattened):
`padsize = ceil(w/2)`; the array is surrounded by its reflections (edges and corners: the outer product of
the 1-D reflections; numpy refuses an axis shorter than `padsize` unless it has length 1, which is
broadcast), `median(bigarr, min(w, size))` is taken and the middle part returned. -/
def djsMedianReflect2 (med : List α → α) (n0 n1 : Nat) (a : List α) (w : Nat) : Except String (List α) :=
  if w == 1 then .ok a else
  let pad := (w + 1) / 2
  if (n0 < pad ∧ n0 ≠ 1) ∨ (n1 < pad ∧ n1 ≠ 1) then .error "ValueError" else
  let ri := padIdx n0 pad
  let ci := padIdx n1 pad
  let arr := a.toArray
  let bigarr := ri.flatMap fun r => ci.map fun c => arr.getD (r * n1 + c) 0
  match medianFilt2 med (n0 + 2 * pad) (n1 + 2 * pad) bigarr (min w (n0 * n1)) with
  | .error e => .error e
  | .ok f =>
    let fa := f.toArray
    .ok <| (List.range (n0 * n1)).map fun p => fa.getD ((p / n1 + pad) * (n1 + 2 * pad) + (p % n1 + pad)) 0

/-! ## aesthetics(method='damp') -/

/-- `aesthetics(flux, invvar, 'damp')` when some pixel is bad: `erf` is scipy's error function
(parameter).  `goodpts = invvar.nonzero()[0]`; no good pixel: `goodpts.min()` raises ValueError.
The whole interpolated spectrum (`const=True`) is multiplied by `0.5*(1+erf((pixels-mingood)/damp1))` when bad
pixels lead and by `0.5*(1+erf((maxgood-pixels)/damp2))` when bad pixels trail - good pixels included. -/
def aestheticsDamp (erf : α → α) (flux invvar : List α) : Except String (List α) :=
  let badpts := invvar.map isZeroI
  if badpts.any id then
    let goodpts := (List.range invvar.length).filter fun i => !(badpts.getD i true)
    match goodpts.head?, goodpts.getLast? with
    | some mingood, some maxgood =>
      let nf0 := maskinterp1 flux badpts true
      let l := 250
      let nf1 := if mingood > 0 then
          let damp1 : α := Scalar.ofNat (min mingood l)
          (List.range nf0.length).map fun i =>
            nf0.getD i 0 * (0.5 * (1.0 + erf ((Scalar.ofNat i - Scalar.ofNat mingood) / damp1)))
        else nf0
      let nf2 := if maxgood < flux.length - 1 then
          let damp2 : α := Scalar.ofNat (max (min maxgood l) 1)
          (List.range nf1.length).map fun i =>
            nf1.getD i 0 * (0.5 * (1.0 + erf ((Scalar.ofNat maxgood - Scalar.ofNat i) / damp2)))
        else nf1
      .ok nf2
    | _, _ => .error "ValueError"
  else .ok flux

/-! ## second extension round: the remaining branches of `djs_median(width=)` and of `aesthetics` (new definitions only) -/

/-- the `boundary` keyword of `djs_median` -/
inductive Boundary where
  | none | reflect | nearest | wrap | other

/-- `djs_median(array, width=w, boundary=b)` for a 1-D array: `width == 1` returns the input, `'none'` is
`median(array, width)`, every other value of `boundary` (known or not) is forced to the reflecting branch -/
def djsMedian1 (med : List α → α) (a : List α) (w : Nat) (b : Boundary) : Except String (List α) :=
  if w == 1 then .ok a else
  match b with
  | .none => medianFilt med a w
  | _ => djsMedianReflect med a w

/-- `djs_median(array, width=w, boundary=b)` for a 2-D `n0 × n1` array (C-order flattened): `width == 1` returns the
input, `'none'` is `median(array, width)`, `'reflect'` the reflecting branch; `'nearest'`, `'wrap'` ("not implemented")
and unknown values raise ValueError -/
def djsMedian2 (med : List α → α) (n0 n1 : Nat) (a : List α) (w : Nat) (b : Boundary) : Except String (List α) :=
  if w == 1 then .ok a else
  match b with
  | .none => medianFilt2 med n0 n1 a w
  | .reflect => djsMedianReflect2 med n0 n1 a w
  | _ => .error "ValueError"

/-- `aesthetics(flux, invvar, method)` with every method of the code: `'damp'` through `aestheticsDamp`
(`erf` = scipy's error function, parameter), the others through `aesthetics` -/
def aestheticsFull (erf : α → α) (flux invvar : List α) (method : Method) (goodMean : α) :
    Except String (List α) :=
  match method with
  | .damp => aestheticsDamp erf flux invvar
  | m => aesthetics flux invvar m goodMean

end PydlVerif.Interp

/-
Executable model of `iterfit` (pydl/pydlutils/bspline.py 550-696) for `invvar` given, `x2=None`, no
`requiren` / `oldset` / `fullbkpt` keyword, `groupbadpix=False` (maxrej is never passed): the sort,
the initial mask, the construction of the bspline object from the good points, the
fit → djs_reject → refit loop and the un-sorting of the mask.  The code as it is after the fix of
the loop condition (`qdone` starts as False; the loop runs while `error != 0 or not qdone`).

Builds on Model/BSpline.lean (`mkKnots`, `BS`, `unsort`), Model/BSplineFit.lean (`fit`, `Kernels`)
and Model/Reject.lean (`djsReject` of C17).  Parameters with a contract: `perm` = `xdata.argsort()`
(any sorting permutation), the `Kernels` of `fit`, `r32` (float32 rounding in the constructor).
-/
import PydlVerif.Model.BSplineFit
import PydlVerif.Model.Reject
namespace PydlVerif.IterFit
open PydlVerif PydlVerif.BSpline PydlVerif.BSplineFit

section generic
variable {α : Type} [Scalar α]

structure Params (α : Type) where
  upper : Option α
  lower : Option α
  maxiter : Nat
  nord : Nat
  opts : BkOpts α

/-- the variables of the `while` loop -/
structure St (α : Type) where
  sset : BS α
  maskwork : List Bool
  yfit : List α
  error : Int
  qdone : Bool
  iiter : Nat

inductive Outcome (α : Type) where
  | done (s : St α)
  /-- `return (sset, outmask)` on `error == -2`: the mask returned is the initial all-True `outmask` -/
  | failed (sset : BS α)

/-- how `iterfit` calls `djs_reject`: `invvar=`, `lower=`, `upper=`, `inmask=` (and `outmask=`) the current mask -/
def rejectOpts (p : Params α) : Reject.Opts α :=
  { useSigma := false, lower := p.lower, upper := p.upper, maxdev := none, hasIn := true, sticky := false, grow := 0 }

/-- `invwork*maskwork` (float64 array times bool array) -/
def maskedWeights (iw : List α) (mask : List Bool) : List α := List.zipWith (fun v m => v * Reject.castB m) iw mask

/-- `maskwork.sum()` -/
def countTrue (m : List Bool) : Nat := (m.filter id).length

/-- one pass of the loop body (lines 661-692) -/
def iterBody (K : Kernels α) (p : Params α) (xw yw iw : List α) (s : St α) : R (Outcome α) := do
  -- `if maskwork.sum() <= 1 or not sset.mask.any(): sset.coeff = 0; iiter = maxiter + 1` leaves an object whose
  -- `coeff` is the int 0; not modelled (refused)
  if countTrue s.maskwork ≤ 1 ∨ !(s.sset.mask.any id) then .error "Degenerate" else
  let out ← fit K s.sset xw yw (maskedWeights iw s.maskwork) (List.range xw.length)
  let st : St α := { s with sset := out.obj, yfit := out.yfit, error := out.status, iiter := s.iiter + 1 }
  if out.status = -2 then pure (.failed out.obj)
  else if out.status = 0 then
    let (m, q) ← Reject.djsReject K.sqrt (rejectOpts p) yw (some out.yfit) (some s.maskwork) (some s.maskwork) iw
    pure (.done { st with maskwork := m, qdone := q })
  else pure (.done st)

/-- `while (error != 0 or not qdone) and iiter <= maxiter:` (fuel = `maxiter + 1` passes at most) -/
def iterLoop (K : Kernels α) (p : Params α) (xw yw iw : List α) : Nat → St α → R (Outcome α)
  | 0, s => pure (.done s)
  | fuel+1, s =>
    if (s.error ≠ 0 ∨ s.qdone = false) ∧ s.iiter ≤ p.maxiter then do
      match ← iterBody K p xw yw iw s with
      | .failed b => pure (.failed b)
      | .done s' => iterLoop K p xw yw iw fuel s'
    else pure (.done s)

/-- everything `iterfit` does on the sorted work arrays: returns the spline object and `some maskwork`, or `none`
where the code returns the initial all-True `outmask` (fewer good points than `nord`, or `error == -2`) -/
def iterCore (K : Kernels α) (r32 : α → α) (p : Params α) (xw yw iw : List α) : R (BS α × Option (List Bool)) := do
  let mask0 := iw.map (fun v => decide (0 < v))       -- `(outmask & (invvar > 0))[xsort]`
  if !(mask0.any id) then valueError else             -- 'No valid data points.'
  let goodx := ((xw.zip mask0).filter (fun xm => xm.2)).map (fun xm => xm.1)
  let knots ← mkKnots r32 goodx p.nord p.opts         -- `bspline(xdata[xsort[maskwork]], **kwargs)`
  let sset : BS α := { nord := p.nord, breakpoints := knots.toArray, mask := Array.replicate knots.length true,
                       coeff := Array.replicate (knots.length - p.nord) 0 }
  if countTrue mask0 < p.nord then pure (sset, none) else
  let s0 : St α := { sset := sset, maskwork := mask0, yfit := List.replicate xw.length 0, error := 0, qdone := false, iiter := 0 }
  match ← iterLoop K p xw yw iw (p.maxiter + 1) s0 with
  | .failed b => pure (b, none)
  | .done s => pure (s.sset, some s.maskwork)

/-- `iterfit(xdata, ydata, invvar=invvar, upper=, lower=, maxiter=, nord=, <breakpoint option>)` → `(sset, outmask)` -/
def iterfit (K : Kernels α) (r32 : α → α) (p : Params α) (xs ys ivs : List α) (perm : List Nat) : R (BS α × List Bool) := do
  let nx := xs.length
  if ys.length ≠ nx then valueError else
  if ivs.length ≠ nx then valueError else
  if nx ≤ 1 then .error "Unmodelled" else             -- `invvar.size == 1`: `outmask` is the scalar True
  let xw := perm.map (fun i => xs.getD i 0)
  let yw := perm.map (fun i => ys.getD i 0)
  let iw := perm.map (fun i => ivs.getD i 0)
  let (sset, m) ← iterCore K r32 p xw yw iw
  match m with
  | none => pure (sset, List.replicate nx true)
  | some maskwork => pure (sset, unsort perm maskwork)  -- `outmask[xsort] = maskwork`

end generic
end PydlVerif.IterFit

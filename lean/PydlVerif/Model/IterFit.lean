/-
Executable model of `iterfit` (pydl/pydlutils/bspline.py 550-696) for `invvar` given, `x2=None`, no
`requiren` / `oldset` / `fullbkpt` keyword, `groupbadpix=False` (maxrej is never passed): the sort,
the initial mask, the construction of the bspline object from the good points, the
fit → djs_reject → refit loop and the un-sorting of the mask.  The code as it is after the fix of
the loop condition (`qdone` starts as False; the loop runs while `error != 0 or not qdone`).

Builds on Model/BSpline.lean (`mkKnots`, `BS`, `unsort`), Model/BSplineFit.lean (`fit`, `Kernels`)
and Model/Reject.lean (`djsReject` of C17).  Parameters with a contract: `perm` = `xdata.argsort()`
(any sorting permutation), the `Kernels` of `fit`, `r32` (float32 rounding in the constructor).
-/
import PydlVerif.Model.BSplineFit
import PydlVerif.Model.Reject
namespace PydlVerif.IterFit
open PydlVerif PydlVerif.BSpline PydlVerif.BSplineFit

section generic
variable {α : Type} [Scalar α]

structure Params (α : Type) where
  upper : Option α
  lower : Option α
  maxiter : Nat
  nord : Nat
  opts : BkOpts α

/-- the variables of the `while` loop -/
structure St (α : Type) where
  sset : BS α
  maskwork : List Bool
  yfit : List α
  error : Int
  qdone : Bool
  iiter : Nat

inductive Outcome (α : Type) where
  | done (s : St α)
  /-- `return (sset, outmask)` on `error == -2`: the mask returned is the initial all-True `outmask` -/
  | failed (sset : BS α)

/-- how `iterfit` calls `djs_reject`: `invvar=`, `lower=`, `upper=`, `inmask=` (and `outmask=`) the current mask -/
def rejectOpts (p : Params α) : Reject.Opts α :=
  { useSigma := false, lower := p.lower, upper := p.upper, maxdev := none, hasIn := true, sticky := false, grow := 0 }

/-- `invwork*maskwork` (float64 array times bool array) -/
def maskedWeights (iw : List α) (mask : List Bool) : List α := List.zipWith (fun v m => v * Reject.castB m) iw mask

/-- `maskwork.sum()` -/
def countTrue (m : List Bool) : Nat := (m.filter id).length

/-- one pass of the loop body (lines 661-692) -/
def iterBody (K : Kernels α) (p : Params α) (xw yw iw : List α) (s : St α) : R (Outcome α) := do
  -- `if maskwork.sum() <= 1 or not sset.mask.any(): sset.coeff = 0; iiter = maxiter + 1` leaves an object whose
  -- `coeff` is the int 0; not modelled (refused)
  if countTrue s.maskwork ≤ 1 ∨ !(s.sset.mask.any id) then .error "Degenerate" else
  let out ← fit K s.sset xw yw (maskedWeights iw s.maskwork) (List.range xw.length)
  let st : St α := { s with sset := out.obj, yfit := out.yfit, error := out.status, iiter := s.iiter + 1 }
  if out.status = -2 then pure (.failed out.obj)
  else if out.status = 0 then
    let (m, q) ← Reject.djsReject K.sqrt (rejectOpts p) yw (some out.yfit) (some s.maskwork) (some s.maskwork) iw
    pure (.done { st with maskwork := m, qdone := q })
  else pure (.done st)

/-- `while (error != 0 or not qdone) and iiter <= maxiter:` (fuel = `maxiter + 1` passes at most) -/
def iterLoop (K : Kernels α) (p : Params α) (xw yw iw : List α) : Nat → St α → R (Outcome α)
  | 0, s => pure (.done s)
  | fuel+1, s =>
    if (s.error ≠ 0 ∨ s.qdone = false) ∧ s.iiter ≤ p.maxiter then do
      match ← iterBody K p xw yw iw s with
      | .failed b => pure (.failed b)
      | .done s' => iterLoop K p xw yw iw fuel s'
    else pure (.done s)

/-- everything `iterfit` does on the sorted work arrays: returns the spline object and `some maskwork`, or `none`
where the code returns the initial all-True `outmask` (fewer good points than `nord`, or `error == -2`) -/
def iterCore (K : Kernels α) (r32 : α → α) (p : Params α) (xw yw iw : List α) : R (BS α × Option (List Bool)) := do
  let mask0 := iw.map (fun v => decide (0 < v))       -- `(outmask & (invvar > 0))[xsort]`
  if !(mask0.any id) then valueError else             -- 'No valid data points.'
  let goodx := ((xw.zip mask0).filter (fun xm => xm.2)).map (fun xm => xm.1)
  let knots ← mkKnots r32 goodx p.nord p.opts         -- `bspline(xdata[xsort[maskwork]], **kwargs)`
  let sset : BS α := { nord := p.nord, breakpoints := knots.toArray, mask := Array.replicate knots.length true,
                       coeff := Array.replicate (knots.length - p.nord) 0 }
  if countTrue mask0 < p.nord then pure (sset, none) else
  let s0 : St α := { sset := sset, maskwork := mask0, yfit := List.replicate xw.length 0, error := 0, qdone := false, iiter := 0 }
  match ← iterLoop K p xw yw iw (p.maxiter + 1) s0 with
  | .failed b => pure (b, none)
  | .done s => pure (s.sset, some s.maskwork)

/-- `iterfit(xdata, ydata, invvar=invvar, upper=, lower=, maxiter=, nord=, <breakpoint option>)` → `(sset, outmask)` -/
def iterfit (K : Kernels α) (r32 : α → α) (p : Params α) (xs ys ivs : List α) (perm : List Nat) : R (BS α × List Bool) := do
  let nx := xs.length
  if ys.length ≠ nx then valueError else
  if ivs.length ≠ nx then valueError else
  if nx ≤ 1 then .error "Unmodelled" else             -- `invvar.size == 1`: `outmask` is the scalar True
  let xw := perm.map (fun i => xs.getD i 0)
  let yw := perm.map (fun i => ys.getD i 0)
  let iw := perm.map (fun i => ivs.getD i 0)
  let (sset, m) ← iterCore K r32 p xw yw iw
  match m with
  | none => pure (sset, List.replicate nx true)
  | some maskwork => pure (sset, unsort perm maskwork)  -- `outmask[xsort] = maskwork`

/-! ## the full `iterfit` (second extension round; NEW definitions, the ones above are unchanged)

`requiren=` (lines 676-690), `oldset=` (lines 623-626, as the code is after the fix: the mask of the reused object is
reset to all-True and its coefficients to zeros; breakpoints and order are the old object's, the bspline keywords are
not read, there is no 'No valid data points' test and no `< nord` early return) and the branch
`maskwork.sum() <= 1 or not sset.mask.any()` (lines 672-674: `sset.coeff = 0` - the Python int -, `iiter = maxiter+1`, and
then, as coded, one more `djs_reject` against the `yfit` of the previous pass when `error == 0`).  `groupbadpix` is handed
to `djs_reject`, which reads it only under `if maxrej is not None:`; `iterfit` has no way to pass `maxrej` (`**kwargs` go
to the `bspline` constructor, which refuses the keyword), so the call is `Reject.djsRejectFull` with `maxrej=None`. -/

/-- `while xwork[i] < bk and i < nx-1: i += 1` -/
def reqSkip (xw : Nat → α) (b : α) (nx : Nat) : Nat → Nat → Nat
  | 0, i => i
  | f+1, i => if xw i < b ∧ i < nx - 1 then reqSkip xw b nx f (i+1) else i

/-- `while xwork[i] >= lo and xwork[i] < hi and i < nx-1: ct += invwork[i]*maskwork[i] > 0; i += 1`; `hi = none`: the
subscript `goodbk[ileft+1]` is out of range (`nord = 1`, last interval) - evaluated, and raising, only when the first
comparison holds (`and` short-circuits).  `none` = IndexError -/
def reqCount (xw : Nat → α) (good : Nat → Bool) (lo : α) (hi : Option α) (nx : Nat) : Nat → Nat → Nat → Option (Nat × Nat)
  | 0, i, ct => some (i, ct)
  | f+1, i, ct =>
    if lo ≤ xw i then
      match hi with
      | none => none
      | some h => if xw i < h ∧ i < nx - 1 then reqCount xw good lo hi nx f (i+1) (ct + if good i then 1 else 0)
                  else some (i, ct)
    else some (i, ct)

/-- the `requiren` block (lines 676-690): the new `sset.mask`.  `goodbk` and `sset.mask.sum()` are taken at the top of
the pass / of the `for` statement and do not follow the changes made in the loop; `goodbk[nord]` on too short an array raises -/
def requirenWalk (b : BS α) (xw iw : List α) (mw : List Bool) (requiren : Nat) : R (Array Bool) :=
  let goodbk := goodIdx b.mask.toList
  let ng := goodbk.length
  let nx := xw.length
  if b.nord = 0 then .error "Unmodelled" else
  if ng ≤ b.nord then indexError else
  let bk (j : Nat) : α := b.breakpoints[goodbk.getD j 0]!
  let bkO (j : Nat) : Option α := if j < ng then some (bk j) else none
  let xa := xw.toArray
  let x (i : Nat) : α := xa[i]!
  let ia := iw.toArray
  let ma := mw.toArray
  let good (i : Nat) : Bool := decide (0 < ia[i]! * Reject.castB ma[i]!)
  let i0 := reqSkip x (bk b.nord) nx nx 0
  let r := (List.range' b.nord (ng - b.nord + 1 - b.nord)).foldl
    (fun (s : Option (Nat × Nat × Array Bool)) ileft =>
      match s with
      | none => none
      | some (i, ct, m) =>
        match reqCount x good (bk ileft) (bkO (ileft+1)) nx nx i ct with
        | none => none
        | some (i', ct') =>
          if ct' ≥ requiren then some (i', 0, m) else some (i', ct', m.setIfInBounds (goodbk.getD ileft 0) false))
    (some (i0, 0, b.mask))
  match r with
  | none => indexError
  | some r => pure r.2.2

/-- how `iterfit` calls `djs_reject`, all keywords: `groupbadpix=groupbadpix`, `maxrej` / `groupdim` / `groupsize` left None -/
def rejectCall (sqrt : α → α) (p : Params α) (groupbadpix : Bool) (yw yfit : List α) (mask : List Bool) (iw : List α) :
    R (List Bool × Bool) :=
  Reject.djsRejectFull sqrt (rejectOpts p) { groupdim := none, groupsize := none, groupbadpix := groupbadpix } [yw.length]
    yw (some yfit) (some mask) (some mask) iw

/-- the options of the full call that are not in `Params` -/
structure FullOpts (α : Type) where
  requiren : Option Nat := none
  oldset : Option (BS α) := none
  groupbadpix : Bool := false

/-- one pass of the `while` loop (lines 671-702), all branches; the Bool says that the pass took the branch
`sset.coeff = 0` (the object then carries the Python int 0 as coefficients) -/
def iterBodyFull (K : Kernels α) (p : Params α) (requiren : Option Nat) (gbp : Bool) (xw yw iw : List α) (s : St α) :
    R (Outcome α × Bool) := do
  if countTrue s.maskwork ≤ 1 ∨ !(s.sset.mask.any id) then
    -- `sset.coeff = 0; iiter = maxiter + 1`, then `iiter += 1`; `error`, `yfit` are those of the previous pass
    let st : St α := { s with iiter := p.maxiter + 2 }
    if s.error = 0 then
      let (m, q) ← rejectCall K.sqrt p gbp yw s.yfit s.maskwork iw
      pure (.done { st with maskwork := m, qdone := q }, true)
    else pure (.done st, true)
  else
    let sset' : BS α ← match requiren with
      | none => pure s.sset
      | some r => do
        let m ← requirenWalk s.sset xw iw s.maskwork r
        pure { s.sset with mask := m }
    let out ← fit K sset' xw yw (maskedWeights iw s.maskwork) (List.range xw.length)
    let st : St α := { s with sset := out.obj, yfit := out.yfit, error := out.status, iiter := s.iiter + 1 }
    if out.status = -2 then pure (.failed out.obj, false)
    else if out.status = 0 then
      let (m, q) ← rejectCall K.sqrt p gbp yw out.yfit s.maskwork iw
      pure (.done { st with maskwork := m, qdone := q }, false)
    else pure (.done st, false)

/-- `while (error != 0 or not qdone) and iiter <= maxiter:` (fuel `maxiter + 1`); the Bool: `sset.coeff` is the int 0 -/
def iterLoopFull (K : Kernels α) (p : Params α) (requiren : Option Nat) (gbp : Bool) (xw yw iw : List α) :
    Nat → St α → Bool → R (Outcome α × Bool)
  | 0, s, cz => pure (.done s, cz)
  | fuel+1, s, cz =>
    if (s.error ≠ 0 ∨ s.qdone = false) ∧ s.iiter ≤ p.maxiter then do
      match ← iterBodyFull K p requiren gbp xw yw iw s with
      | (.failed b, z) => pure (.failed b, z)
      | (.done s', z) => iterLoopFull K p requiren gbp xw yw iw fuel s' z
    else pure (.done s, cz)

/-- `sset = kwargs['oldset']` with mask and coefficients reset (after the fix: arrays of the object's shapes) -/
def resetOld (b : BS α) : BS α :=
  { b with mask := Array.replicate b.breakpoints.size true, coeff := Array.replicate (b.breakpoints.size - b.nord) 0 }

/-- lines 623-642: the spline object the loop starts from, and whether `iterfit` returns at once
('Number of good data points fewer than nord') -/
def initSset (r32 : α → α) (p : Params α) (oldset : Option (BS α)) (xw : List α) (mask0 : List Bool) : R (BS α × Bool) :=
  match oldset with
  | some b => pure (resetOld b, false)
  | none =>
    if !(mask0.any id) then valueError else do          -- 'No valid data points.'
    let goodx := ((xw.zip mask0).filter (fun xm => xm.2)).map (fun xm => xm.1)
    let knots ← mkKnots r32 goodx p.nord p.opts
    let sset : BS α := { nord := p.nord, breakpoints := knots.toArray, mask := Array.replicate knots.length true,
                         coeff := Array.replicate (knots.length - p.nord) 0 }
    pure (sset, decide (countTrue mask0 < p.nord))

/-- everything the full `iterfit` does on the sorted work arrays: the object, whether its `coeff` is the int 0, and
`some maskwork` / `none` where the code returns the initial all-True `outmask` -/
def iterCoreFull (K : Kernels α) (r32 : α → α) (p : Params α) (o : FullOpts α) (xw yw iw : List α) :
    R (BS α × Bool × Option (List Bool)) := do
  let mask0 := iw.map (fun v => decide (0 < v))
  let (sset, few) ← initSset r32 p o.oldset xw mask0
  if few then pure (sset, false, none) else
  let s0 : St α := { sset := sset, maskwork := mask0, yfit := List.replicate xw.length 0, error := 0, qdone := false, iiter := 0 }
  match ← iterLoopFull K p o.requiren o.groupbadpix xw yw iw (p.maxiter + 1) s0 false with
  | (.failed b, _) => pure (b, false, none)
  | (.done s, cz) => pure (s.sset, cz, some s.maskwork)

/-- what the full `iterfit` returns: the object, whether its `coeff` is the int 0, and `outmask` -/
structure FullOut (α : Type) where
  sset : BS α
  cz : Bool
  outmask : List Bool

/-- `iterfit(xdata, ydata, invvar=, upper=, lower=, maxiter=, groupbadpix=, requiren=, oldset=, <bspline keywords>)` -/
def iterfitFull (K : Kernels α) (r32 : α → α) (p : Params α) (o : FullOpts α) (xs ys ivs : List α) (perm : List Nat) :
    R (FullOut α) := do
  let nx := xs.length
  if ys.length ≠ nx then valueError else
  if ivs.length ≠ nx then valueError else
  if nx ≤ 1 then .error "Unmodelled" else             -- `invvar.size == 1`: `outmask` is the scalar True
  let xw := perm.map (fun i => xs.getD i 0)
  let yw := perm.map (fun i => ys.getD i 0)
  let iw := perm.map (fun i => ivs.getD i 0)
  let (sset, cz, m) ← iterCoreFull K r32 p o xw yw iw
  match m with
  | none => pure ⟨sset, cz, List.replicate nx true⟩
  | some maskwork => pure ⟨sset, cz, unsort perm maskwork⟩  -- `outmask[xsort] = maskwork`

end generic
end PydlVerif.IterFit

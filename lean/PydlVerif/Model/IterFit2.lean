/-
C10, second extension round: `iterfit` with the second variable `x2` (pydl/pydlutils/bspline.py 560-706, the lines
that read `x2`), on top of C09's two-dimensional fit (Model/BSplineFit2.lean: `BS2`, `fit2`).  NEW definitions only.

    iterfit(xdata, ydata, invvar=, x2=x2, npoly=, upper=, lower=, maxiter=, groupbadpix=, <breakpoint option>)

* line 608-610: `x2.size != nx` raises ValueError;
* lines 643-657: `xmin = x2.min()`, `xmax = x2.max()` over ALL points in the caller's order (`lmin`, `lmax`),
  `xmax = xmin + 1` when they are equal; the keywords `xmin` / `xmax` / `funcname` that the code looks for in `kwargs`
  cannot be given (the whole of `kwargs` goes to the `bspline` constructor, which refuses them with TypeError), so
  `funcname` stays the constructor's 'legendre'; `npoly` is a constructor keyword (`coeff` of shape `(npoly, nc)`);
  the early return 'fewer good points than nord' comes BEFORE these lines (the object keeps `xmin = 0`, `xmax = 1`);
* line 664: `x2work = x2[xsort]`; line 691: `sset.fit(xwork, ywork, invwork*maskwork, x2=x2work)` = `fit2`;
* the rest of the loop is the one of `IterFit.iterBodyFull` (the degenerate branch included; `requiren` / `oldset` are not
  combined with `x2` here).
-/
import PydlVerif.Model.IterFit
import PydlVerif.Model.BSplineFit2
namespace PydlVerif.IterFit
open PydlVerif PydlVerif.BSpline PydlVerif.BSplineFit PydlVerif.BSplineFit2

section generic
variable {α : Type} [Scalar α]

/-- `x2.min()` (first element, then every element that is smaller) -/
def lmin (l : List α) : α := l.foldl (fun m v => if v < m then v else m) (l.getD 0 0)
/-- `x2.max()` -/
def lmax (l : List α) : α := l.foldl (fun m v => if m < v then v else m) (l.getD 0 0)

/-- the variables of the `while` loop, 2-D object -/
structure St2 (α : Type) where
  sset : BS2 α
  maskwork : List Bool
  yfit : List α
  error : Int
  qdone : Bool
  iiter : Nat

inductive Outcome2 (α : Type) where
  | done (s : St2 α)
  | failed (sset : BS2 α)

/-- one pass of the loop (lines 671-702) with `x2` -/
def iterBody2 (K : Kernels α) (p : Params α) (gbp : Bool) (xw x2w yw iw : List α) (s : St2 α) : R (Outcome2 α × Bool) := do
  if countTrue s.maskwork ≤ 1 ∨ !(s.sset.base.mask.any id) then
    let st : St2 α := { s with iiter := p.maxiter + 2 }
    if s.error = 0 then
      let (m, q) ← rejectCall K.sqrt p gbp yw s.yfit s.maskwork iw
      pure (.done { st with maskwork := m, qdone := q }, true)
    else pure (.done st, true)
  else
    let out ← fit2 K s.sset xw x2w yw (maskedWeights iw s.maskwork) (List.range xw.length)
    let st : St2 α := { s with sset := out.obj, yfit := out.yfit, error := out.status, iiter := s.iiter + 1 }
    if out.status = -2 then pure (.failed out.obj, false)
    else if out.status = 0 then
      let (m, q) ← rejectCall K.sqrt p gbp yw out.yfit s.maskwork iw
      pure (.done { st with maskwork := m, qdone := q }, false)
    else pure (.done st, false)

def iterLoop2 (K : Kernels α) (p : Params α) (gbp : Bool) (xw x2w yw iw : List α) :
    Nat → St2 α → Bool → R (Outcome2 α × Bool)
  | 0, s, cz => pure (.done s, cz)
  | fuel+1, s, cz =>
    if (s.error ≠ 0 ∨ s.qdone = false) ∧ s.iiter ≤ p.maxiter then do
      match ← iterBody2 K p gbp xw x2w yw iw s with
      | (.failed b, z) => pure (.failed b, z)
      | (.done s', z) => iterLoop2 K p gbp xw x2w yw iw fuel s' z
    else pure (.done s, cz)

/-- everything on the sorted work arrays; `xmin`, `xmax` = `x2.min()`, `x2.max()` of the caller's array -/
def iterCore2 (K : Kernels α) (r32 : α → α) (p : Params α) (npoly : Nat) (gbp : Bool) (xmin xmax : α) (xw x2w yw iw : List α) :
    R (BS2 α × Bool × Option (List Bool)) := do
  let mask0 := iw.map (fun v => decide (0 < v))
  if !(mask0.any id) then valueError else             -- 'No valid data points.'
  let goodx := ((xw.zip mask0).filter (fun xm => xm.2)).map (fun xm => xm.1)
  let knots ← mkKnots r32 goodx p.nord p.opts         -- `bspline(xdata[xsort[maskwork]], npoly=npoly, **kwargs)`
  let nc := knots.length - p.nord
  let base : BS α := { nord := p.nord, breakpoints := knots.toArray, mask := Array.replicate knots.length true,
                       coeff := Array.replicate nc 0 }
  let sset0 : BS2 α := { base := base, npoly := npoly, coeff2 := Array.replicate npoly (Array.replicate nc 0),
                         xmin := 0, xmax := 1.0, func := .legendre }
  if countTrue mask0 < p.nord then pure (sset0, false, none) else
  let xmax' := if Scalar.beq xmin xmax then xmin + 1 else xmax
  let sset : BS2 α := { sset0 with xmin := xmin, xmax := xmax' }
  let s0 : St2 α := { sset := sset, maskwork := mask0, yfit := List.replicate xw.length 0, error := 0, qdone := false, iiter := 0 }
  match ← iterLoop2 K p gbp xw x2w yw iw (p.maxiter + 1) s0 false with
  | (.failed b, _) => pure (b, false, none)
  | (.done s, cz) => pure (s.sset, cz, some s.maskwork)

structure Out2 (α : Type) where
  sset : BS2 α
  cz : Bool
  outmask : List Bool

/-- `iterfit(xdata, ydata, invvar=, x2=, npoly=, ...)` → `(sset, outmask)` -/
def iterfit2 (K : Kernels α) (r32 : α → α) (p : Params α) (npoly : Nat) (gbp : Bool) (xs ys ivs x2s : List α) (perm : List Nat) :
    R (Out2 α) := do
  let nx := xs.length
  if ys.length ≠ nx then valueError else
  if ivs.length ≠ nx then valueError else
  if x2s.length ≠ nx then valueError else
  if nx ≤ 1 then .error "Unmodelled" else
  let xw := perm.map (fun i => xs.getD i 0)
  let yw := perm.map (fun i => ys.getD i 0)
  let iw := perm.map (fun i => ivs.getD i 0)
  let x2w := perm.map (fun i => x2s.getD i 0)
  let (sset, cz, m) ← iterCore2 K r32 p npoly gbp (lmin x2s) (lmax x2s) xw x2w yw iw
  match m with
  | none => pure ⟨sset, cz, List.replicate nx true⟩
  | some maskwork => pure ⟨sset, cz, unsort perm maskwork⟩

end generic
end PydlVerif.IterFit

/- Helpers for the line protocol: field access, floats as bit patterns. -/
import Lean.Data.Json
open Lean
namespace PydlVerif.J

def err {α} (msg : String) : Except String α := .error msg

def fld (j : Json) (k : String) : Except String Json :=
  match j.getObjVal? k with
  | .ok v => .ok v
  | .error _ => err s!"missing field {k}"

def int (j : Json) : Except String Int :=
  match j.getInt? with
  | .ok v => .ok v
  | .error _ => err s!"not an int: {j.compress}"

def nat (j : Json) : Except String Nat := do
  let i ← int j
  if i < 0 then err s!"negative: {i}" else pure i.toNat

def str (j : Json) : Except String String :=
  match j.getStr? with
  | .ok v => .ok v
  | .error _ => err s!"not a string: {j.compress}"

def bool (j : Json) : Except String Bool :=
  match j.getBool? with
  | .ok v => .ok v
  | .error _ => err s!"not a bool: {j.compress}"

def arr (j : Json) : Except String (Array Json) :=
  match j.getArr? with
  | .ok v => .ok v
  | .error _ => err s!"not an array: {j.compress}"

def list {α} (f : Json → Except String α) (j : Json) : Except String (List α) := do
  let a ← arr j
  a.toList.mapM f

def array {α} (f : Json → Except String α) (j : Json) : Except String (Array α) := do
  let a ← arr j
  a.mapM f

def optional {α} (f : Json → Except String α) (j : Json) : Except String (Option α) :=
  if j.isNull then pure none else (some <$> f j)

/-- float sent as its 64-bit pattern -/
def float (j : Json) : Except String Float := do
  let n ← nat j
  pure (Float.ofBits n.toUInt64)

def bits (j : Json) : Except String UInt64 := do
  let n ← nat j
  pure n.toUInt64

def ofFloat (x : Float) : Json := Json.num (JsonNumber.fromNat x.toBits.toNat)
def ofNat (n : Nat) : Json := Json.num (JsonNumber.fromNat n)
def ofInt (n : Int) : Json := Json.num (JsonNumber.fromInt n)
def ofList {α} (f : α → Json) (l : List α) : Json := Json.arr (l.map f).toArray
def ofArray {α} (f : α → Json) (l : Array α) : Json := Json.arr (l.map f)
def ofRat (q : Rat) : Json := Json.arr #[ofInt q.num, ofNat q.den]

def fInt (j : Json) (k : String) : Except String Int := do int (← fld j k)
def fNat (j : Json) (k : String) : Except String Nat := do nat (← fld j k)
def fStr (j : Json) (k : String) : Except String String := do str (← fld j k)
def fBool (j : Json) (k : String) : Except String Bool := do bool (← fld j k)
def fFloat (j : Json) (k : String) : Except String Float := do float (← fld j k)
def fFloats (j : Json) (k : String) : Except String (Array Float) := do array float (← fld j k)
def fInts (j : Json) (k : String) : Except String (List Int) := do list int (← fld j k)
def fNats (j : Json) (k : String) : Except String (List Nat) := do list nat (← fld j k)
def fOpt {α} (f : Json → Except String α) (j : Json) (k : String) : Except String (Option α) :=
  match j.getObjVal? k with
  | .ok v => optional f v
  | .error _ => pure none

end PydlVerif.J

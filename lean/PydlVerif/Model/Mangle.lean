/-
Executable model of the Mangle membership code of pydl
(`pydl/pydlutils/mangle.py`, `pydl/photoop/window.py`), generic over the
operation class `Trig α` (run at `Float`, proved at `ℝ`).

  capDistance / isInCap      mangle.py  cap_distance, is_in_cap   (after the D10 fix: dot product clipped)
  isCapUsed                  mangle.py  is_cap_used
  isInPolygon                mangle.py  is_in_polygon  (loop over range(usencaps), vectorised over the points)
  isInWindow                 mangle.py  is_in_window   (while loop over the polygons, -1 = not yet found)
  setUseCaps                 mangle.py  set_use_caps   (after the D9 fix: `1 << i`; after the D19 fix: |cm_i + cm_j|)
  ofRecord                   mangle.py  ManglePolygon(FITS_record): rows 0..NCAPS-1 are kept
  balkansAssemble            window.py  window_read(balkans=True): XCAPS/CMCAPS of polygon k = bcaps[ICAP_k : ICAP_k+NCAPS_k]

A polygon is `(ncaps, useCaps, rows)`; `rows` are the stored caps, at least
`ncaps` of them for every polygon the readers can produce (a raw FITS row and a
balkans row carry `max_caps` rows, a `ManglePolygon` exactly `ncaps`).  Reading a
used cap beyond the stored rows is the `IndexError` numpy raises.
-/
import PydlVerif.Model.Scalar
namespace PydlVerif.Mangle
open PydlVerif

/-- one cap: centre (unit vector) and `cm = 1 - cos(radius)`, negative = complement -/
structure Cap (α : Type) where
  x : α
  y : α
  z : α
  cm : α

/-- a point is given as a Cartesian vector (3 columns) or as RA/Dec in degrees (2 columns) -/
inductive Point (α : Type) where
  | xyz (a b c : α)
  | radec (ra dec : α)

structure Polygon (α : Type) where
  ncaps : Nat
  useCaps : Nat
  rows : List (Cap α)

section
variable {α : Type} [Trig α]

/-- `np.abs` -/
def absS (v : α) : α := if v < 0 then -v else v

/-- `np.radians` = `x * (pi/180)` -/
def radians (v : α) : α := v * (Trig.pi / 180)

/-- `np.degrees` = `x * (180/pi)` -/
def degrees (v : α) : α := v * (180 / Trig.pi)

/-- `angles_to_x(points, latitude=True)` for one row -/
def anglesToX (ra dec : α) : α × α × α :=
  let phi := radians ra
  let theta := radians (90 - dec)
  let st := Trig.sin theta
  (Trig.cos phi * st, Trig.sin phi * st, Trig.cos theta)

def Point.toXyz : Point α → α × α × α
  | .xyz a b c => (a, b, c)
  | .radec ra dec => anglesToX ra dec

/-- `np.dot(xyz, x)` for one row -/
def dot (p : α × α × α) (c : Cap α) : α := p.1 * c.x + p.2.1 * c.y + p.2.2 * c.z

/-- `np.clip(d, -1.0, 1.0)` -/
def clip1 (d : α) : α := if d < -1 then -1 else if 1 < d then 1 else d

/-- `cap_distance` as a function of the (clipped) dot product -/
def capDistanceD (cm d : α) : α :=
  let cdist := degrees (Trig.arccos (1 - absS cm) - Trig.arccos d)
  if cm < 0 then cdist * (-1) else cdist

/-- `cap_distance(x, cm, points)` for one point -/
def capDistance (c : Cap α) (p : Point α) : α := capDistanceD c.cm (clip1 (dot p.toXyz c))

/-- `is_in_cap`: `cap_distance(...) >= 0.0` -/
def isInCap (c : Cap α) (p : Point α) : Bool := decide ((0 : α) ≤ capDistance c p)

end

/-- `is_cap_used`: `(use_caps & 1 << i) != 0` -/
def isCapUsed (useCaps i : Nat) : Bool := (useCaps &&& (1 <<< i)) != 0

section
variable {α : Type} [Trig α]

/-- `usencaps` of `is_in_polygon` -/
def useNcaps (pncaps : Nat) (ncaps : Int) : Nat := if ncaps > 0 then min ncaps.toNat pncaps else pncaps

/-- the `for icap in range(k)` loop of `is_in_polygon`, all points at once -/
def polyLoop (P : Polygon α) (pts : List (Point α)) : Nat → Except String (List Bool)
  | 0 => pure (pts.map fun _ => true)
  | k + 1 => do
    let acc ← polyLoop P pts k
    if isCapUsed P.useCaps k then
      match P.rows[k]? with
      | some c => pure (List.zipWith (fun a b => a && b) acc (pts.map (isInCap c)))
      | none => throw "IndexError"
    else pure acc

/-- `is_in_polygon(polygon, points, ncaps)` -/
def isInPolygon (P : Polygon α) (pts : List (Point α)) (ncaps : Int) : Except String (List Bool) :=
  polyLoop P pts (useNcaps P.ncaps ncaps)

/-- gather: the points whose entry is still -1 (`points[indx_not_in]`) -/
def notIn (st : List (Point α × Int)) : List (Point α) := (st.filter fun s => s.2 == -1).map (·.1)

/-- scatter: `in_polygon[indx_not_in[r]] = k` -/
def scatter : List (Point α × Int) → List Bool → Int → List (Point α × Int)
  | [], _, _ => []
  | s :: st, r, k =>
    if s.2 == -1 then
      match r with
      | b :: r' => (s.1, if b then k else -1) :: scatter st r' k
      | [] => s :: scatter st [] k
    else s :: scatter st r k

/-- body of the `while curr_polygon < npoly` loop -/
def windowStep (P : Polygon α) (ncaps : Int) (k : Nat) (st : List (Point α × Int)) :
    Except String (List (Point α × Int)) :=
  let rest := notIn st
  if rest.length > 0 then do
    let r ← isInPolygon P rest ncaps
    if r.any id then pure (scatter st r k) else pure st
  else pure st

def windowLoop (ncaps : Int) : List (Polygon α) → Nat → List (Point α × Int) → Except String (List (Point α × Int))
  | [], _, st => pure st
  | P :: rest, k, st => do
    let st' ← windowStep P ncaps k st
    windowLoop ncaps rest (k + 1) st'

/-- `is_in_window(polygons, points, ncaps)`: `(in_polygon >= 0, in_polygon)` -/
def isInWindow (polys : List (Polygon α)) (pts : List (Point α)) (ncaps : Int) :
    Except String (List (Bool × Int)) := do
  let st ← windowLoop ncaps polys 0 (pts.map fun p => (p, -1))
  pure (st.map fun s => (decide (s.2 ≥ 0), s.2))

/-! ### set_use_caps -/

/-- the test that makes cap `j` a double of cap `i` -/
def dupCaps (tol t2 : α) (allowNeg : Bool) (a b : Cap α) : Bool :=
  decide ((a.x - b.x) * (a.x - b.x) + (a.y - b.y) * (a.y - b.y) + (a.z - b.z) * (a.z - b.z) < t2) &&
    (decide (absS (a.cm - b.cm) < tol) || (decide (absS (a.cm + b.cm) < tol) && !allowNeg))

/-- `for i in index_list: use_caps |= 1 << i` -/
def orBits (u : Nat) (indexList : List Nat) : Nat := indexList.foldl (fun u i => u ||| (1 <<< i)) u

/-- inner loop `for j in range(i+1, ncaps)` -/
def dedupInner (dup : Nat → Nat → Bool) (i : Nat) (js : List Nat) (u : Nat) : Nat :=
  js.foldl (fun u j => if isCapUsed u j && dup i j then u - (1 <<< j) else u) u

/-- outer loop `for i in range(ncaps)` -/
def dedupLoop (dup : Nat → Nat → Bool) (n : Nat) (u : Nat) : Nat :=
  (List.range n).foldl (fun u i => if isCapUsed u i then dedupInner dup i (List.range' (i + 1) (n - (i + 1))) u else u) u

/-- double test on the rows of a polygon (indices are always < ncaps = rows.length here) -/
def dupAt (rows : List (Cap α)) (tol : α) (allowNeg : Bool) (i j : Nat) : Bool :=
  match rows[i]?, rows[j]? with
  | some a, some b => dupCaps tol (tol * tol) allowNeg a b
  | _, _ => false

/-- `set_use_caps(polygon, index_list, add, tol, allow_doubles, allow_neg_doubles)` for a
`ManglePolygon` (`ncaps` = number of stored rows) -/
def setUseCaps (rows : List (Cap α)) (useCaps : Nat) (indexList : List Nat) (add : Bool) (tol : α)
    (allowDoubles allowNeg : Bool) : Nat :=
  let u0 := orBits (if add then useCaps else 0) indexList
  if allowDoubles then u0 else dedupLoop (dupAt rows tol allowNeg) rows.length u0

/-! ### storage -/

/-- `ManglePolygon(FITS_record)`: `xcaps[0:ncaps]`, `cmcaps[0:ncaps]` -/
def ofRecord (P : Polygon α) : Polygon α := { P with rows := P.rows.take P.ncaps }

/-- one row of `window_blist.fits` that the assembly reads -/
structure BRow where
  icap : Nat
  ncaps : Nat

/-- `XCAPS[0:n] = X[icap:icap+n]`: numpy assigns a slice of the same length, broadcasts a
slice of length 1 and refuses every other length -/
def sliceAssign (bcaps : List (Cap α)) (icap n : Nat) : Except String (List (Cap α)) :=
  let s := (bcaps.drop icap).take n
  if s.length = n then pure s
  else match s with
    | [c] => pure (List.replicate n c)
    | _ => throw "ValueError"

/-- `window_read(balkans=True)`: polygon k gets NCAPS_k, USE_CAPS = (1 << NCAPS_k) - 1 and the
caps `bcaps[ICAP_k : ICAP_k + NCAPS_k]` -/
def balkansAssemble (blist : List BRow) (bcaps : List (Cap α)) : Except String (List (Polygon α)) :=
  blist.mapM fun b => do
    let rows ← sliceAssign bcaps b.icap b.ncaps
    pure { ncaps := b.ncaps, useCaps := (1 <<< b.ncaps) - 1, rows := rows }

end
end PydlVerif.Mangle

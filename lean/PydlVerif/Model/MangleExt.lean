/-
Further routines of pydl/pydlutils/mangle.py on top of `Model/Mangle.lean` (core Lean only):
`circle_cap`, `ManglePolygon.add_caps`, `ManglePolygon.polyn`, `ManglePolygon.copy`.
-/
import PydlVerif.Model.Mangle
namespace PydlVerif.Mangle
open PydlVerif

section
variable {α : Type} [Trig α]

/-- `circle_cap(radius, points)` for one point: `x` = the point (RA/Dec converted with `angles_to_x(latitude=True)`, a
Cartesian point copied), `cm = 1.0 - cos(radians(radius))` -/
def circleCap (radius : α) (p : Point α) : Cap α :=
  let x := p.toXyz
  { x := x.1, y := x.2.1, z := x.2.2, cm := 1 - Trig.cos (radians radius) }

/-- `polygon.add_caps(x, cm)`: the caps are appended, `ncaps` grows, weight / pixel / id and **the use-mask are kept**
(`newdata['use_caps'] = self.use_caps`): the new caps are stored but not in use until `set_use_caps` selects them.
The slice assignment `newdata['x'][0:self.ncaps] = self.x` needs `self.x` to hold exactly `ncaps` rows (ValueError else). -/
def addCaps (P : Polygon α) (new : List (Cap α)) : Except String (Polygon α) :=
  if P.rows.length = P.ncaps then
    .ok { ncaps := P.ncaps + new.length, useCaps := P.useCaps, rows := P.rows ++ new }
  else .error "ValueError"

/-- `self.polyn(other, n, complement)`: `self.add_caps(other.x[n], ±other.cm[n])`; `IndexError` when `other` has no cap `n` -/
def polyn (P other : Polygon α) (n : Nat) (complement : Bool) : Except String (Polygon α) :=
  match other.rows[n]? with
  | none => .error "IndexError"
  | some c => addCaps P [{ c with cm := (if complement then -1 else 1) * c.cm }]

/-- `polygon.copy()` = `ManglePolygon(polygon)`: same fields, the arrays copied -/
def copyPoly (P : Polygon α) : Polygon α := { ncaps := P.ncaps, useCaps := P.useCaps, rows := P.rows }

/-- `ManglePolygon(FITS_record)` for a table whose widest polygon has ONE cap: astropy then delivers `XCAPS` as a 3-vector
and `CMCAPS` as a scalar, and the constructor takes the branches `xcaps.shape == (3,)` / `cmcaps.shape == ()`:
`_x = zeros((1, 3)) + xcaps`, `cm = zeros((1,)) + cmcaps` - ONE stored cap whatever `NCAPS` says (no slice by `NCAPS`);
`NCAPS`, `USE_CAPS` are copied.  The addition to the zero array is kept (`0.0 + -0.0 = 0.0`: a negative zero loses its sign).  (`P.rows` = the stored caps of the row; anything but one cap is not this branch.) -/
def ofRecordScalar (P : Polygon α) : Except String (Polygon α) :=
  match P.rows with
  | [c] => .ok { ncaps := P.ncaps, useCaps := P.useCaps, rows := [⟨0 + c.x, 0 + c.y, 0 + c.z, 0 + c.cm⟩] }
  | _ => .error "not the scalar-column branch"

end
end PydlVerif.Mangle

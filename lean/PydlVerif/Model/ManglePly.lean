/-
Model of `read_mangle_polygons` (pydl/pydlutils/mangle.py) - Mangle's ASCII polygon format (.ply / .pol) - and of the
keyword constructor `ManglePolygon(**metad)` it ends in.  Core Lean only.

The parser is the composition `parseLex ∘ lexFile` BY DEFINITION:
* `lexFile` (characters): universal newlines, `readlines`, `str.strip`, and per line exactly the three lexical views the
  Python code takes of a line: `l.startswith('polygon')`, `r1.match(l)` with
  `r1 = polygon\s+(\d+)\s+\(([^)]+)\):` (hand-written scanner; the character classes that meet are disjoint, so the
  greedy scan without backtracking is the regular expression) followed by `g[1].strip().split(',')` and
  `m.strip().split()`, and `re.split(r'\s+', l.strip())`.
* `parseLex` (tokens): the first-line test, `p_lines`, `header = lines[1:p_lines[0]]`, the per-polygon loop with the
  `mtypes` conversions, the slice `lines[p+1:p+1+caps]`, `np.array` (ragged -> ValueError), the two shape asserts and
  the defaults of the keyword constructor (`weight` 1.0, `pixel` -1, `use_caps = (1 << ncaps) - 1`, `str` None).
`float(text)` is a parameter `parseF : List Char → Option α` (none = ValueError); `int(text)` is modelled (`pyInt`:
sign, digits, single underscores between digits).  Errors carry the Python exception class name.
ASCII text only (Python's `\s`, `\d`, `strip`, `split`, `int` know more Unicode characters).
-/
namespace PydlVerif.ManglePly

/-! ### characters -/

/-- ASCII characters for which `str.isspace()` holds (= what `strip`, `split` and the regex class `\s` remove) -/
def isWs (c : Char) : Bool :=
  c == ' ' || c == '\t' || c == '\n' || c == '\r' || c == '\x0b' || c == '\x0c' ||
  c == '\x1c' || c == '\x1d' || c == '\x1e' || c == '\x1f'

def isDig (c : Char) : Bool := '0' ≤ c && c ≤ '9'

def lstrip : List Char → List Char
  | [] => []
  | c :: cs => if isWs c then lstrip cs else c :: cs

/-- `str.strip()` -/
def strip (s : List Char) : List Char := (lstrip (lstrip s).reverse).reverse

/-- `str.split()`: the maximal runs of non-whitespace (`cur` = current run, reversed) -/
def splitWsAux : List Char → List Char → List (List Char)
  | [], cur => if cur.isEmpty then [] else [cur.reverse]
  | c :: cs, cur =>
    if isWs c then (if cur.isEmpty then splitWsAux cs [] else cur.reverse :: splitWsAux cs [])
    else splitWsAux cs (c :: cur)

def splitWs (s : List Char) : List (List Char) := splitWsAux s []

/-- `str.split(sep)` for a one-character separator: always at least one piece -/
def splitOnAux (sep : Char) : List Char → List Char → List (List Char)
  | [], cur => [cur.reverse]
  | c :: cs, cur => if c == sep then cur.reverse :: splitOnAux sep cs [] else splitOnAux sep cs (c :: cur)

def splitOn (sep : Char) (s : List Char) : List (List Char) := splitOnAux sep s []

/-- `re.split(r'\s+', s)` for a stripped `s`: the empty string gives `['']`, otherwise the whitespace-separated runs -/
def reSplitWs (s : List Char) : List (List Char) := if s.isEmpty then [[]] else splitWs s

/-- text mode of `open()`: `\r\n` and a lone `\r` become `\n` -/
def univNl : List Char → List Char
  | [] => []
  | '\r' :: '\n' :: cs => '\n' :: univNl cs
  | '\r' :: cs => '\n' :: univNl cs
  | c :: cs => c :: univNl cs

/-- `readlines()` without the line ends: pieces between `\n`, no extra empty line after a final `\n` -/
def splitLines (s : List Char) : List (List Char) :=
  let ps := splitOn '\n' s
  if ps.getLast? == some [] then ps.dropLast else ps

/-! ### `int(text)` -/

def digitVal (c : Char) : Option Nat := if isDig c then some (c.toNat - 48) else none

/-- after a digit: more digits, each optionally preceded by ONE underscore -/
def pyNatAux : List Char → Nat → Option Nat
  | [], acc => some acc
  | '_' :: c :: cs, acc => match digitVal c with
    | some d => pyNatAux cs (acc * 10 + d)
    | none => none
  | c :: cs, acc => match digitVal c with
    | some d => pyNatAux cs (acc * 10 + d)
    | none => none

def pyNat : List Char → Option Nat
  | [] => none
  | c :: cs => match digitVal c with
    | some d => pyNatAux cs d
    | none => none

/-- Python `int(tok)` for a token without whitespace; `none` = ValueError -/
def pyInt : List Char → Option Int
  | '+' :: cs => (pyNat cs).map Int.ofNat
  | '-' :: cs => (pyNat cs).map fun n => - Int.ofNat n
  | cs => (pyNat cs).map Int.ofNat

/-! ### the lexical views of one line -/

def kPolygon : List Char := ['p', 'o', 'l', 'y', 'g', 'o', 'n']

def dropPrefix : List Char → List Char → Option (List Char)
  | [], s => some s
  | _ :: _, [] => none
  | p :: ps, c :: cs => if p == c then dropPrefix ps cs else none

/-- `r1.match(line)`, `r1 = polygon\s+(\d+)\s+\(([^)]+)\):` : the two groups -/
def matchHeader (s : List Char) : Option (List Char × List Char) :=
  match dropPrefix kPolygon s with
  | none => none
  | some r =>
    let w1 := r.span isWs
    if w1.1.isEmpty then none else
    let ds := w1.2.span isDig
    if ds.1.isEmpty then none else
    let w2 := ds.2.span isWs
    if w2.1.isEmpty then none else
    match w2.2 with
    | '(' :: r3 =>
      let inn := r3.span (fun c => c != ')')
      if inn.1.isEmpty then none else
      match inn.2 with
      | ')' :: ':' :: _ => some (ds.1, inn.1)
      | _ => none
    | _ => none

/-- what the parser can see of one (stripped) line -/
structure LexLine where
  /-- `l.startswith('polygon')` -/
  starts : Bool
  /-- `r1.match(l)`: the digits of group 1, and group 2 `.strip().split(',')` with every piece `.strip().split()` -/
  hdr : Option (List Char × List (List (List Char)))
  /-- `re.split(r'\s+', l.strip())` -/
  toks : List (List Char)
  /-- the stripped line itself (kept for `PolygonList.header`) -/
  raw : List Char
deriving Repr, DecidableEq

def lexLine (l0 : List Char) : LexLine :=
  let l := strip l0
  { starts := (dropPrefix kPolygon l).isSome,
    hdr := (matchHeader l).map fun g => (g.1, (splitOn ',' (strip g.2)).map splitWs),
    toks := reSplitWs (strip l),
    raw := l }

/-- `lines = [l.strip() for l in ply.readlines()]`, lexed -/
def lexFile (text : List Char) : List LexLine := (splitLines (univNl text)).map lexLine

/-! ### the parser on lexed lines -/

structure Cap4 (α : Type) where
  x : α
  y : α
  z : α
  cm : α
deriving Repr, DecidableEq

/-- the `ManglePolygon` the reader builds: `ncaps = rows.length`, `use_caps = (1 << ncaps) - 1` -/
structure PlyPoly (α : Type) where
  id : Nat
  weight : α
  pixel : Int
  /-- `None` when the file gives no `str` (then `.str` is computed by `garea()` on demand) -/
  str : Option α
  rows : List (Cap4 α)
deriving Repr, DecidableEq

def PlyPoly.ncaps {α} (P : PlyPoly α) : Nat := P.rows.length
def PlyPoly.useCaps {α} (P : PlyPoly α) : Nat := (1 <<< P.rows.length) - 1

/-- the dictionary `metad` restricted to the keys of `mtypes` -/
structure Meta (α : Type) where
  caps : Option Int := none
  weight : Option α := none
  pixel : Option Int := none
  str : Option α := none

def kCaps : List Char := ['c', 'a', 'p', 's']
def kWeight : List Char := ['w', 'e', 'i', 'g', 'h', 't']
def kPixel : List Char := ['p', 'i', 'x', 'e', 'l']
def kStr : List Char := ['s', 't', 'r']

section
variable {α : Type} (parseF : List Char → Option α) (one : α)

/-- `m.strip().split()[1]`, `m.strip().split()[0]` : IndexError when a piece has fewer than two words -/
def metaPiece (piece : List (List Char)) : Except String (List Char × List Char) :=
  match piece with
  | v :: k :: _ => .ok (k, v)
  | _ => .error "IndexError"

def metaPieces : List (List (List Char)) → Except String (List (List Char × List Char))
  | [] => .ok []
  | p :: ps => match metaPiece p with
    | .error e => .error e
    | .ok kv => match metaPieces ps with
      | .ok r => .ok (kv :: r)
      | .error e => .error e

/-- `mtypes[key](value)` stored under `key` (a later piece with the same key overwrites) -/
def setMeta (m : Meta α) (kv : List Char × List Char) : Except String (Meta α) :=
  if kv.1 = kCaps then
    match pyInt kv.2 with
    | some n => .ok { m with caps := some n }
    | none => .error "ValueError"
  else if kv.1 = kWeight then
    match parseF kv.2 with
    | some x => .ok { m with weight := some x }
    | none => .error "ValueError"
  else if kv.1 = kPixel then
    match pyInt kv.2 with
    | some n => .ok { m with pixel := some n }
    | none => .error "ValueError"
  else if kv.1 = kStr then
    match parseF kv.2 with
    | some x => .ok { m with str := some x }
    | none => .error "ValueError"
  else .error "KeyError"

def setMetas : Meta α → List (List Char × List Char) → Except String (Meta α)
  | m, [] => .ok m
  | m, kv :: rest => match setMeta parseF m kv with
    | .ok m' => setMetas m' rest
    | .error e => .error e

def floats : List (List Char) → Except String (List α)
  | [] => .ok []
  | t :: ts => match parseF t with
    | none => .error "ValueError"
    | some x => match floats ts with
      | .ok xs => .ok (x :: xs)
      | .error e => .error e

/-- one cap line: `data = [float(d) for d in re.split(...)]`, `data[0:3]`, `data[-1]` -/
def capRow (l : LexLine) : Except String (List α × α) :=
  match floats parseF l.toks with
  | .error e => .error e
  | .ok data => match data.getLast? with
    | some cm => .ok (data.take 3, cm)
    | none => .error "IndexError"

def capRows : List LexLine → Except String (List (List α × α))
  | [] => .ok []
  | l :: ls => match capRow parseF l with
    | .error e => .error e
    | .ok r => match capRows ls with
      | .ok rs => .ok (r :: rs)
      | .error e => .error e

/-- `np.array(list of rows).shape`; `none` = rows of different lengths (ValueError: inhomogeneous shape) -/
def xShape {β : Type} (xs : List (List β)) : Option (List Nat) :=
  match xs with
  | [] => some [0]
  | r :: rs => if rs.all (fun q => q.length == r.length) then some [xs.length, r.length] else none

def toCap : List α × α → Option (Cap4 α)
  | ([a, b, c], cm) => some ⟨a, b, c, cm⟩
  | _ => none

def toCaps : List (List α × α) → Option (List (Cap4 α))
  | [] => some []
  | r :: rs => match toCap r, toCaps rs with
    | some c, some cs => some (c :: cs)
    | _, _ => none

/-- Python slice `l[a:b]` for `a ≥ 0` and any integer `b` -/
def pySlice {β : Type} (l : List β) (a : Nat) (b : Int) : List β :=
  let stop : Nat := if b < 0 then (Int.ofNat l.length + b).toNat else b.toNat
  (l.take stop).drop a

/-- the body of `for p in p_lines:` -/
def parseBlock (lines : List LexLine) (p : Nat) : Except String (PlyPoly α) :=
  match lines.drop p with
  | [] => .error "IndexError"
  | h :: _ =>
    match h.hdr with
    | none => .error "AttributeError"
    | some (ds, pieces) =>
      match metaPieces pieces with
      | .error e => .error e
      | .ok kvs =>
        match setMetas parseF {} kvs with
        | .error e => .error e
        | .ok md =>
          match md.caps with
          | none => .error "KeyError"
          | some caps =>
            match capRows parseF (pySlice lines (p + 1) (Int.ofNat (p + 1) + caps)) with
            | .error e => .error e
            | .ok rows =>
              match xShape (rows.map (·.1)) with
              | none => .error "ValueError"
              | some sh =>
                if caps < 0 ∨ sh ≠ [caps.toNat, 3] then .error "AssertionError" else
                match toCaps rows with
                | none => .error "AssertionError"
                | some cs =>
                  .ok { id := (pyNat ds).getD 0, weight := md.weight.getD one, pixel := md.pixel.getD (-1),
                        str := md.str, rows := cs }

def blocks (lines : List LexLine) : List Nat → Except String (List (PlyPoly α))
  | [] => .ok []
  | p :: ps => match parseBlock parseF one lines p with
    | .error e => .error e
    | .ok P => match blocks lines ps with
      | .ok Ps => .ok (P :: Ps)
      | .error e => .error e

/-- `[i for i, l in enumerate(lines) if l.startswith('polygon')]` -/
def pLinesFrom : Nat → List LexLine → List Nat
  | _, [] => []
  | k, l :: ls => if l.starts then k :: pLinesFrom (k + 1) ls else pLinesFrom (k + 1) ls

/-- `read_mangle_polygons` after lexing: `(PolygonList.header, polygons)` -/
def parseLex (lines : List LexLine) : Except String (List (List Char) × List (PlyPoly α)) :=
  match lines with
  | [] => .error "IndexError"
  | l0 :: _ =>
    -- `lines[0].strip().split()[0]`: for a stripped non-empty line `split()` is `re.split(r'\s+', ..)`
    match (if l0.raw.isEmpty then [] else l0.toks) with
    | [] => .error "IndexError"
    | t :: _ =>
      match pyInt t with
      | none => .error "PydlutilsException"
      | some _ =>
        match pLinesFrom 0 lines with
        | [] => .error "IndexError"
        | p0 :: ps =>
          match blocks parseF one lines (p0 :: ps) with
          | .error e => .error e
          | .ok polys => .ok (((lines.take p0).drop 1).map (·.raw), polys)

/-- `read_mangle_polygons(filename)` on the text of the file -/
def parsePly (text : List Char) : Except String (List (List Char) × List (PlyPoly α)) :=
  parseLex parseF one (lexFile text)

end

/-! ### canonical rendering (what Mangle and the harness write) -/

section
variable {α : Type} (fmtF : α → List Char) (fmtI : Int → List Char)

def sp : List Char := [' ']

/-- ` x y z cm` -/
def renderCap (c : Cap4 α) : List Char :=
  sp ++ fmtF c.x ++ sp ++ fmtF c.y ++ sp ++ fmtF c.z ++ sp ++ fmtF c.cm

/-- `polygon ID ( NCAPS caps, WEIGHT weight, PIXEL pixel, AREA str):` (the `str` entry only when the polygon has one) -/
def renderHeader (P : PlyPoly α) : List Char :=
  kPolygon ++ sp ++ fmtI (Int.ofNat P.id) ++ sp ++ ['(', ' '] ++ fmtI (Int.ofNat P.rows.length) ++ sp ++ kCaps ++ [',', ' '] ++
  fmtF P.weight ++ sp ++ kWeight ++ [',', ' '] ++ fmtI P.pixel ++ sp ++ kPixel ++
  (match P.str with
   | some s => [',', ' '] ++ fmtF s ++ sp ++ kStr
   | none => []) ++ [')', ':']

def renderBlock (P : PlyPoly α) : List (List Char) := renderHeader fmtF fmtI P :: P.rows.map (renderCap fmtF)

def kPolygons : List Char := ['p', 'o', 'l', 'y', 'g', 'o', 'n', 's']

/-- the lines of the file: `N polygons`, keyword lines, the polygon blocks -/
def renderLines (kw : List (List Char)) (polys : List (PlyPoly α)) : List (List Char) :=
  (fmtI (Int.ofNat polys.length) ++ sp ++ kPolygons) :: kw ++ polys.flatMap (renderBlock fmtF fmtI)

def joinLines : List (List Char) → List Char
  | [] => []
  | l :: ls => l ++ '\n' :: joinLines ls

def renderPly (kw : List (List Char)) (polys : List (PlyPoly α)) : List Char :=
  joinLines (renderLines fmtF fmtI kw polys)

/-! the canonical LEXED form of the same file -/

def lexCap (c : Cap4 α) : LexLine :=
  { starts := false, hdr := none, toks := [fmtF c.x, fmtF c.y, fmtF c.z, fmtF c.cm],
    raw := (renderCap fmtF c).drop 1 }

def lexHeader (P : PlyPoly α) : LexLine :=
  { starts := true,
    hdr := some (fmtI (Int.ofNat P.id),
      [[fmtI (Int.ofNat P.rows.length), kCaps], [fmtF P.weight, kWeight], [fmtI P.pixel, kPixel]] ++
      (match P.str with
       | some s => [[fmtF s, kStr]]
       | none => [])),
    toks := splitWs (renderHeader fmtF fmtI P),
    raw := renderHeader fmtF fmtI P }

def lexBlock (P : PlyPoly α) : List LexLine := lexHeader fmtF fmtI P :: P.rows.map (lexCap fmtF)

def lexFirst (n : Nat) : LexLine :=
  { starts := false, hdr := none, toks := [fmtI (Int.ofNat n), kPolygons], raw := fmtI (Int.ofNat n) ++ sp ++ kPolygons }

/-- keyword line (e.g. `snapped`, `pixelization 6s`): any line that does not start with `polygon` -/
def lexKw (l : List Char) : LexLine := { starts := false, hdr := none, toks := reSplitWs l, raw := l }

def canonLex (kw : List (List Char)) (polys : List (PlyPoly α)) : List LexLine :=
  lexFirst fmtI polys.length :: kw.map lexKw ++ polys.flatMap (lexBlock fmtF fmtI)

end

end PydlVerif.ManglePly

/-
C17 model, part 2: djs_reject (pydl/pydlutils/math.py:192-451; `djsReject`: WITHOUT the
`maxrej`/`groupdim`/`groupsize`/`groupbadpix` block; `djsRejectFull` further down: the
call with `maxrej=None` on data of any shape), and skymask (pydl/pydlspec2d/spec1d.py:1089-1124)
with its own small copy of smooth() (pydl/smooth.py) on integers.

The elementwise numpy expressions over equally shaped arrays are written as a map
over per-pixel records (`Pix`); shape mismatches are refused before (ValueError),
as the code does.  `sqrt` is a parameter (libm).
-/
import PydlVerif.Model.Scalar
namespace PydlVerif.Reject
open PydlVerif

variable {α : Type} [Scalar α]

def castB (b : Bool) : α := if b then 1 else 0

/-- `x == 0` (IEEE: true for -0.0 as well) -/
def isZero (x : α) : Bool := x == 0

/-- one pixel: data, model, `sigma` or `invvar` (field `s`), inmask, previous outmask -/
structure Pix (α : Type) where
  d : α
  m : α
  s : α
  inm : Bool
  prev : Bool

structure Opts (α : Type) where
  useSigma : Bool          -- `sigma is not None` (else `invvar` is used)
  lower : Option α
  upper : Option α
  maxdev : Option α
  hasIn : Bool             -- `inmask is not None`
  sticky : Bool
  grow : Nat

/-- `if lower is not None: badness += ((-diff/(sigma + (sigma == 0))) > 0) * qbad` (sigma) or
`badness += ((-diff * sqrt(invvar)) > 0) * qbad` (invvar); bool*bool is a bool, added as 0/1 -/
def addLow (sqrt : α → α) (o : Opts α) (p : Pix α) (b : α) : α :=
  let diff := p.d - p.m
  match o.lower with
  | none => b
  | some lo =>
    if o.useSigma then
      b + castB (decide ((-diff) / (p.s + castB (isZero p.s)) > 0) && decide (diff < (-lo) * p.s))
    else
      b + castB (decide ((-diff) * sqrt p.s > 0) && decide (diff * sqrt p.s < -lo))

/-- the same for `upper` -/
def addUp (sqrt : α → α) (o : Opts α) (p : Pix α) (b : α) : α :=
  let diff := p.d - p.m
  match o.upper with
  | none => b
  | some up =>
    if o.useSigma then
      b + castB (decide (diff / (p.s + castB (isZero p.s)) > 0) && decide (diff > up * p.s))
    else
      b + castB (decide (diff * sqrt p.s > 0) && decide (diff * sqrt p.s > up))

/-- `if maxdev is not None: badness += absolute(diff) / maxdev * (absolute(diff) > maxdev)` -/
def addDev (o : Opts α) (p : Pix α) (b : α) : α :=
  let diff := p.d - p.m
  match o.maxdev with
  | none => b
  | some md =>
    let ad := if diff < 0 then -diff else diff
    b + ad / md * castB (decide (ad > md))

/-- the working array `badness` of one pixel, in the code's order of accumulation, then
`badness *= inmask` (if given) and `badness *= outmask` (if sticky) -/
def badness (sqrt : α → α) (o : Opts α) (p : Pix α) : α :=
  let b3 := addDev o p (addUp sqrt o p (addLow sqrt o p 0))
  let b4 := if o.hasIn then b3 * castB p.inm else b3
  if o.sticky then b4 * castB p.prev else b4

/-- `newmask[idx] = 0` for an index array -/
def setFalse (m : List Bool) (idxs : List Nat) : List Bool :=
  idxs.foldl (fun a i => a.set i false) m

/-- the `grow` block (after the D12 repair):
`irejects = (newmask == 0).nonzero()[0]`, computed once; for `k = 1..grow`
`newmask[maximum(irejects-k, 0)] = 0; newmask[minimum(irejects+k, n-1)] = 0`.
(`r - k` on ℕ is `max (r-k) 0`.) -/
def growMask (grow : Nat) (m : List Bool) : List Bool :=
  let irej := (List.range m.length).filter (fun i => !(m.getD i true))
  if grow > 0 ∧ irej ≠ [] then
    (List.range' 1 grow).foldl
      (fun acc k => setFalse (setFalse acc (irej.map (· - k)))
                      (irej.map (fun r => min (r + k) (m.length - 1)))) m
  else m

/-- `djs_reject(data, model, outmask, inmask, sigma|invvar, lower, upper, maxdev, grow, sticky)`
→ `(outmask, qdone)` for pixels already zipped (equal shapes). -/
def djsRejectPix (sqrt : α → α) (o : Opts α) (px : List (Pix α)) : List Bool × Bool :=
  let newmask0 := px.map (fun p => isZero (badness sqrt o p))
  let grown := growMask o.grow newmask0
  let m1 := if o.hasIn then List.zipWith (fun a p => a && p.inm) grown px else grown
  let m2 := if o.sticky then List.zipWith (fun a p => a && p.prev) m1 px else m1
  (m2, List.all (List.zipWith (fun a p => a == p.prev) m2 px) id)

/-- the shape checks in front (ValueError), `outmask=None` → all ones, `model=None` →
`(inmask or outmask, False)`; `s` is `sigma` or `invvar` already broadcast to the data length. -/
def djsReject (sqrt : α → α) (o : Opts α) (data : List α) (model : Option (List α))
    (outmask inmask : Option (List Bool)) (s : List α) : Except String (List Bool × Bool) := do
  let n := data.length
  let prev ← match outmask with
    | none => pure (List.replicate n true)
    | some om => if om.length ≠ n then throw "ValueError" else pure om
  match model with
  | none => pure ((match inmask with | some im => im | none => prev), false)
  | some mdl =>
    if mdl.length ≠ n then throw "ValueError"
    let inm ← match inmask with
      | none => pure (List.replicate n true)
      | some im => if im.length ≠ n then throw "ValueError" else pure im
    if s.length ≠ n then throw "ValueError"
    let px := (List.range n).map fun i =>
      (⟨data.getD i 0, mdl.getD i 0, s.getD i 0, inm.getD i true, prev.getD i true⟩ : Pix α)
    pure (djsRejectPix sqrt { o with hasIn := inmask.isSome } px)

/-! ## djs_reject on data of any shape, called with `maxrej=None`
(the code after repair 0812fab: `grow` acts on the C-order flattened array) -/

/-- the end of `djs_reject` from the working array `badness`: `newmask = badness == 0`, grow
on the flattened array, `& inmask`, `& outmask` if sticky, `qdone` -/
def finishMask (o : Opts α) (px : List (Pix α)) (bad : List α) : List Bool × Bool :=
  let newmask0 := bad.map isZero
  let grown := growMask o.grow newmask0
  let m1 := if o.hasIn then List.zipWith (fun a p => a && p.inm) grown px else grown
  let m2 := if o.sticky then List.zipWith (fun a p => a && p.prev) m1 px else m1
  (m2, List.all (List.zipWith (fun a p => a == p.prev) m2 px) id)

/-- the group options of a call that leaves `maxrej=None` (what `iterfit` / `combine1fiber` do:
`djs_reject(..., groupbadpix=True)`) -/
structure GroupOpts where
  groupdim : Option (List Nat)
  groupsize : Option (List Nat)
  groupbadpix : Bool

/-- `djs_reject(data, model, ..., maxrej=None, groupdim=, groupsize=, groupbadpix=)` for data of any shape
(arrays C-order flattened, `shape = data.shape`): both the consistency checks of the group options and the
block that uses them sit under `if maxrej is not None:`, so nothing of `g` is read; every remaining step is
elementwise or - `grow` - acts on the flattened array, so the routine is `djsReject` on the flattening.
Calls WITH `maxrej` are not modelled (outside the property statement; see docs/C17.md "observed"). -/
def djsRejectFull (sqrt : α → α) (o : Opts α) (_g : GroupOpts) (_shape : List Nat) (data : List α)
    (model : Option (List α)) (outmask inmask : Option (List Bool)) (s : List α) :
    Except String (List Bool × Bool) :=
  djsReject sqrt o data model outmask inmask s

/-! ## smooth() on integers and skymask -/

/-- `ndarray.sum()` of an integer slice -/
def sumL (l : List Int) : Int := l.sum

/-- `smooth(signal, owidth, edge_truncate)` of pydl/smooth.py on an integer array:
the float quotient is stored back into the integer array (truncation toward 0 =
`Int.tdiv`; exact here because skymask passes multiples of `width`).
numpy slices clip at the array ends. -/
def smoothInt (signal : List Int) (owidth : Nat) (edgeTruncate : Bool) : List Int :=
  let width := if owidth % 2 == 0 then owidth + 1 else owidth
  if width < 3 then signal else
  let n := signal.length
  let istart := (width - 1) / 2
  let iend : Int := (n : Int) - ((width + 1) / 2 : Nat)
  let w2 := width / 2
  (List.range n).map fun i =>
    if i < istart then
      if edgeTruncate then
        Int.tdiv (sumL (signal.take (istart + i + 1)) + ((istart - i : Nat) : Int) * signal.getD 0 0) width
      else signal.getD i 0
    else if (i : Int) > iend then
      if edgeTruncate then
        Int.tdiv (sumL (signal.drop (i - istart)) + ((i : Int) - iend) * signal.getD (n - 1) 0) width
      else signal.getD i 0
    else
      Int.tdiv (sumL ((signal.drop (i - w2)).take (2 * w2 + 1))) width

/-- bit `k` of the two's complement integer `m` (`/` is floor division for a positive divisor) -/
def bit (m : Int) (k : Nat) : Bool := (m / (2 ^ k : Int)) % 2 == 1

/-- BADSKYCHI (bit 27) or REDMONSTER (bit 28) set in the (two's complement) mask value:
`(ormask & badskychi) != 0` or `(ormask & redmonster) != 0` -/
def flagged (m : Int) : Bool := bit m 27 || bit m 28

/-- `badmask` of one row before the dilation: `zeros | ((ormask & badskychi) != 0) | ((ormask & redmonster) != 0)` -/
def skyBad0 (ormask : Option (List Int)) (npix : Nat) : List Int :=
  match ormask with
  | none => List.replicate npix 0
  | some om => om.map (fun m => if flagged m then 1 else 0)

/-- `badmask` of one row after the dilation `smooth(badmask*width, width, True) > 0` -/
def skyBad (ormask : Option (List Int)) (npix ngrow : Nat) : List Int :=
  if ngrow > 0 then
    (smoothInt ((skyBad0 ormask npix).map (· * ((2 * ngrow + 1 : Nat) : Int))) (2 * ngrow + 1) true).map
      (fun v => if v > 0 then 1 else 0)
  else skyBad0 ormask npix

/-- one row of `skymask(invvar, andmask, ormask, ngrow)`: `invvar * (1 - badmask)` -/
def skymaskRow (invvar : List α) (ormask : Option (List Int)) (ngrow : Nat) : List α :=
  List.zipWith (fun v b => v * Scalar.ofNat (1 - b).toNat) invvar (skyBad ormask invvar.length ngrow)

end PydlVerif.Reject

/-
C17 model, part 2: djs_reject (pydl/pydlutils/math.py:192-451; `djsReject`: WITHOUT the
`maxrej`/`groupdim`/`groupsize`/`groupbadpix` block; `djsRejectFull` further down: the
call with `maxrej=None` on data of any shape; `djsRejectMaxrej`: the call WITH `maxrej`, block included), and skymask (pydl/pydlspec2d/spec1d.py:1089-1124)
with its own small copy of smooth() (pydl/smooth.py) on integers.

The elementwise numpy expressions over equally shaped arrays are written as a map
over per-pixel records (`Pix`); shape mismatches are refused before (ValueError),
as the code does.  `sqrt` is a parameter (libm).
-/
import PydlVerif.Model.Scalar
namespace PydlVerif.Reject
open PydlVerif

variable {α : Type} [Scalar α]

def castB (b : Bool) : α := if b then 1 else 0

/-- `x == 0` (IEEE: true for -0.0 as well) -/
def isZero (x : α) : Bool := x == 0

/-- one pixel: data, model, `sigma` or `invvar` (field `s`), inmask, previous outmask -/
structure Pix (α : Type) where
  d : α
  m : α
  s : α
  inm : Bool
  prev : Bool

structure Opts (α : Type) where
  useSigma : Bool          -- `sigma is not None` (else `invvar` is used)
  lower : Option α
  upper : Option α
  maxdev : Option α
  hasIn : Bool             -- `inmask is not None`
  sticky : Bool
  grow : Nat

/-- `if lower is not None: badness += ((-diff/(sigma + (sigma == 0))) > 0) * qbad` (sigma) or
`badness += ((-diff * sqrt(invvar)) > 0) * qbad` (invvar); bool*bool is a bool, added as 0/1 -/
def addLow (sqrt : α → α) (o : Opts α) (p : Pix α) (b : α) : α :=
  let diff := p.d - p.m
  match o.lower with
  | none => b
  | some lo =>
    if o.useSigma then
      b + castB (decide ((-diff) / (p.s + castB (isZero p.s)) > 0) && decide (diff < (-lo) * p.s))
    else
      b + castB (decide ((-diff) * sqrt p.s > 0) && decide (diff * sqrt p.s < -lo))

/-- the same for `upper` -/
def addUp (sqrt : α → α) (o : Opts α) (p : Pix α) (b : α) : α :=
  let diff := p.d - p.m
  match o.upper with
  | none => b
  | some up =>
    if o.useSigma then
      b + castB (decide (diff / (p.s + castB (isZero p.s)) > 0) && decide (diff > up * p.s))
    else
      b + castB (decide (diff * sqrt p.s > 0) && decide (diff * sqrt p.s > up))

/-- `if maxdev is not None: badness += absolute(diff) / maxdev * (absolute(diff) > maxdev)` -/
def addDev (o : Opts α) (p : Pix α) (b : α) : α :=
  let diff := p.d - p.m
  match o.maxdev with
  | none => b
  | some md =>
    let ad := if diff < 0 then -diff else diff
    b + ad / md * castB (decide (ad > md))

/-- the working array `badness` of one pixel, in the code's order of accumulation, then
`badness *= inmask` (if given) and `badness *= outmask` (if sticky) -/
def badness (sqrt : α → α) (o : Opts α) (p : Pix α) : α :=
  let b3 := addDev o p (addUp sqrt o p (addLow sqrt o p 0))
  let b4 := if o.hasIn then b3 * castB p.inm else b3
  if o.sticky then b4 * castB p.prev else b4

/-- `newmask[idx] = 0` for an index array -/
def setFalse (m : List Bool) (idxs : List Nat) : List Bool :=
  idxs.foldl (fun a i => a.set i false) m

/-- the `grow` block (after the D12 repair):
`irejects = (newmask == 0).nonzero()[0]`, computed once; for `k = 1..grow`
`newmask[maximum(irejects-k, 0)] = 0; newmask[minimum(irejects+k, n-1)] = 0`.
(`r - k` on ℕ is `max (r-k) 0`.) -/
def growMask (grow : Nat) (m : List Bool) : List Bool :=
  let irej := (List.range m.length).filter (fun i => !(m.getD i true))
  if grow > 0 ∧ irej ≠ [] then
    (List.range' 1 grow).foldl
      (fun acc k => setFalse (setFalse acc (irej.map (· - k)))
                      (irej.map (fun r => min (r + k) (m.length - 1)))) m
  else m

/-- `djs_reject(data, model, outmask, inmask, sigma|invvar, lower, upper, maxdev, grow, sticky)`
→ `(outmask, qdone)` for pixels already zipped (equal shapes). -/
def djsRejectPix (sqrt : α → α) (o : Opts α) (px : List (Pix α)) : List Bool × Bool :=
  let newmask0 := px.map (fun p => isZero (badness sqrt o p))
  let grown := growMask o.grow newmask0
  let m1 := if o.hasIn then List.zipWith (fun a p => a && p.inm) grown px else grown
  let m2 := if o.sticky then List.zipWith (fun a p => a && p.prev) m1 px else m1
  (m2, List.all (List.zipWith (fun a p => a == p.prev) m2 px) id)

/-- the shape checks in front (ValueError), `outmask=None` → all ones, `model=None` →
`(inmask or outmask, False)`; `s` is `sigma` or `invvar` already broadcast to the data length. -/
def djsReject (sqrt : α → α) (o : Opts α) (data : List α) (model : Option (List α))
    (outmask inmask : Option (List Bool)) (s : List α) : Except String (List Bool × Bool) := do
  let n := data.length
  let prev ← match outmask with
    | none => pure (List.replicate n true)
    | some om => if om.length ≠ n then throw "ValueError" else pure om
  match model with
  | none => pure ((match inmask with | some im => im | none => prev), false)
  | some mdl =>
    if mdl.length ≠ n then throw "ValueError"
    let inm ← match inmask with
      | none => pure (List.replicate n true)
      | some im => if im.length ≠ n then throw "ValueError" else pure im
    if s.length ≠ n then throw "ValueError"
    let px := (List.range n).map fun i =>
      (⟨data.getD i 0, mdl.getD i 0, s.getD i 0, inm.getD i true, prev.getD i true⟩ : Pix α)
    pure (djsRejectPix sqrt { o with hasIn := inmask.isSome } px)

/-! ## djs_reject on data of any shape, called with `maxrej=None`
(the code after repair 0812fab: `grow` acts on the C-order flattened array) -/

/-- the end of `djs_reject` from the working array `badness`: `newmask = badness == 0`, grow
on the flattened array, `& inmask`, `& outmask` if sticky, `qdone` -/
def finishMask (o : Opts α) (px : List (Pix α)) (bad : List α) : List Bool × Bool :=
  let newmask0 := bad.map isZero
  let grown := growMask o.grow newmask0
  let m1 := if o.hasIn then List.zipWith (fun a p => a && p.inm) grown px else grown
  let m2 := if o.sticky then List.zipWith (fun a p => a && p.prev) m1 px else m1
  (m2, List.all (List.zipWith (fun a p => a == p.prev) m2 px) id)

/-- the group options of a call that leaves `maxrej=None` (what `iterfit` / `combine1fiber` do:
`djs_reject(..., groupbadpix=True)`) -/
structure GroupOpts where
  groupdim : Option (List Nat)
  groupsize : Option (List Nat)
  groupbadpix : Bool

/-- `djs_reject(data, model, ..., maxrej=None, groupdim=, groupsize=, groupbadpix=)` for data of any shape
(arrays C-order flattened, `shape = data.shape`): both the consistency checks of the group options and the
block that uses them sit under `if maxrej is not None:`, so nothing of `g` is read; every remaining step is
elementwise or - `grow` - acts on the flattened array, so the routine is `djsReject` on the flattening.
Calls WITH `maxrej` are not modelled (outside the property statement; see docs/C17.md "observed"). -/
def djsRejectFull (sqrt : α → α) (o : Opts α) (_g : GroupOpts) (_shape : List Nat) (data : List α)
    (model : Option (List α)) (outmask inmask : Option (List Bool)) (s : List α) :
    Except String (List Bool × Bool) :=
  djsReject sqrt o data model outmask inmask s

/-! ## djs_reject called WITH `maxrej` (third extension round; new definitions only)

The block `if maxrej is not None:` of `djs_reject` as the code is.  What the repository code does with it:
the consistency checks in front use `len()` (TypeError for a scalar `maxrej`/`groupdim`/`groupsize` whenever the
partner option is given); the loop `for ivec in range(max(dimnum))` takes Python's builtin `max` of the array
`dimnum = djs_laxisnum(data.shape, groupdim[iloop]-1)`: for 1-D data `djs_laxisnum` returns zeros (`if ndimen == 1: pass`),
so the range is empty; for 2-D / 3-D data the builtin `max` iterates over the first axis and either compares whole
sub-arrays (ValueError "truth value of an array is ambiguous") or returns a sub-array that `range` refuses (TypeError);
without `groupdim`, `dimnum = [0]` and the range is empty.  The loop body (lines 380-427) is a PARAMETER here. -/

/-- a Python argument that is a scalar or a sequence (list / ndarray of integers) -/
inductive PyArg where
  | scalar (v : Int)
  | seq (l : List Int)
  deriving Repr

/-- `len(x)`: TypeError for a scalar -/
def pyLen : PyArg → Except String Nat
  | .scalar _ => throw "TypeError"
  | .seq l => pure l.length

/-- the options of a call with `maxrej` given -/
structure MaxrejOpts where
  maxrej : PyArg
  groupdim : Option PyArg
  groupsize : Option PyArg
  groupbadpix : Bool

/-- lines 286-296: `len(maxrej) != len(groupdim)` / `len(maxrej) != len(groupsize)` (ValueError; TypeError from `len`
of a scalar), defaults `groupdim = []`, `groupsize = len(data)` (TypeError for 0-d data).  Returns the `groupdim`
sequence and `groupsize`. -/
def maxrejChecks (g : MaxrejOpts) (shape : List Nat) : Except String (List Int × PyArg) := do
  let gd ← match g.groupdim with
    | some d => do
      let lm ← pyLen g.maxrej
      let ld ← pyLen d
      if lm ≠ ld then throw "ValueError"
      match d with
      | .seq l => pure l
      | .scalar _ => throw "TypeError"
    | none => pure []
  let gs ← match g.groupsize with
    | some sz => do
      let lm ← pyLen g.maxrej
      let ls ← pyLen sz
      if lm ≠ ls then throw "ValueError"
      pure sz
    | none => match shape with
      | [] => throw "TypeError"
      | n :: _ => pure (.scalar n)
  pure (gd, gs)

/-- `djs_laxisnum(dims, iaxis)` (pydl/pydlutils/misc.py), result C-order flattened: 1-D → zeros whatever `iaxis`
(`if ndimen == 1: pass`); 2-D / 3-D → the index along axis `iaxis`, ValueError for another `iaxis`; 0-d or more than
three dimensions → ValueError -/
def laxisnum (dims : List Nat) (iaxis : Int) : Except String (List Nat) :=
  let size := dims.foldl (· * ·) 1
  match dims.length with
  | 1 => pure (List.replicate size 0)
  | 2 | 3 =>
    if 0 ≤ iaxis ∧ iaxis < dims.length then
      let a := iaxis.toNat
      let stride := (dims.drop (a + 1)).foldl (· * ·) 1
      pure ((List.range size).map fun p => (p / stride) % dims.getD a 1)
    else throw "ValueError"
  | _ => throw "ValueError"

/-- `range(max(dimnum))` with Python's builtin `max` on an ndarray of shape `dshape` (flattened values `flat`):
the number of iterations, or the exception.  1-D: the maximum (ValueError when empty).  N-D (`r` sub-arrays of
`m` elements): `r = 0` → ValueError (empty sequence); `r = 1` → the sub-array itself → `range` TypeError;
`r ≥ 2` → `bool(sub > sub)`: ValueError unless `m = 1`, then a sub-array again → TypeError. -/
def rangeMax (dshape : List Nat) (flat : List Nat) : Except String Nat :=
  match dshape with
  | [] => throw "TypeError"
  | [n] => if n = 0 then throw "ValueError" else pure (flat.foldl max 0)
  | r :: rest =>
    let m := rest.foldl (· * ·) 1
    if r = 0 then throw "ValueError"
    else if r = 1 then throw "TypeError"
    else if m = 1 then throw "TypeError" else throw "ValueError"

/-- lines 363-369: `groupdim[iloop] > ndim` → ValueError; `dimnum` (shape, flattened values) = `djs_laxisnum(data.shape,
groupdim[iloop]-1)`, or `np.asarray([0])` without `groupdim` -/
def maxrejDimnum (gd : List Int) (shape : List Nat) (iloop : Nat) : Except String (List Nat × List Nat) :=
  if gd.length > 0 then
    if gd.getD iloop 0 > (shape.length : Int) then throw "ValueError"
    else match laxisnum shape (gd.getD iloop 0 - 1) with
      | .ok dn => pure (shape, dn)
      | .error e => throw e
  else pure ([1], [0])

/-- one turn of `for iloop in ...` (lines 359-427) with the loop body as a parameter `body iloop dimnum ivec badness`:
`for ivec in range(max(dimnum)): body` -/
def maxrejStep (body : Nat → List Nat → Nat → List α → Except String (List α)) (gd : List Int)
    (shape : List Nat) (b : List α) (iloop : Nat) : Except String (List α) :=
  match maxrejDimnum gd shape iloop with
  | .error e => .error e
  | .ok dd =>
    match rangeMax dd.1 dd.2 with
    | .error e => .error e
    | .ok k => (List.range k).foldlM (fun b ivec => body iloop dd.2 ivec b) b

/-- lines 355-427: `for iloop in range(max(len(groupdim), 1))` -/
def maxrejBlock (body : Nat → List Nat → Nat → List α → Except String (List α)) (gd : List Int)
    (shape : List Nat) (bad : List α) : Except String (List α) :=
  (List.range (max gd.length 1)).foldlM (maxrejStep body gd shape) bad

/-- lines 387-388 (groupbadpix): `goodtemp = badness == 0`;
`groups_lower = (-1*np.diff(np.insert(goodtemp, 0, 1)) == 1).nonzero()[0]`.  `np.insert` flattens and keeps dtype bool,
`np.diff` of a bool array is `!=` of neighbours (bool), `-1*bool` is the integer `-1` or `0`. -/
def groupsLower (bad : List α) : List Nat :=
  let ins := true :: bad.map isZero
  let diff := List.zipWith (fun a b => a != b) ins.tail ins
  (List.range diff.length).filter fun i => (-1 : Int) * (if diff.getD i false then 1 else 0) == 1

/-- the loop body as far as it can be read without ever being run (no input reaches it, see the theorems):
`groupbadpix` → `ngroups = len(groups_lower)` groups, none → nothing happens; otherwise
`ngroups = nin/groupsize + 1` is a float (or `int / list` fails) and `range(ngroups)` raises TypeError. -/
def maxrejBody (g : MaxrejOpts) (_iloop : Nat) (_dimnum : List Nat) (_ivec : Nat) (bad : List α) :
    Except String (List α) :=
  if g.groupbadpix then
    if (groupsLower bad).length = 0 then pure bad else throw "unmodelled: groups of bad pixels"
  else throw "TypeError"

/-- `djs_reject(data, model, ..., maxrej=, groupdim=, groupsize=, groupbadpix=)` on data of any shape (arrays C-order
flattened): the checks of `djsReject` in the code's order with the `maxrej` checks between the `inmask` check and
the first use of `sigma`/`invvar`, the working array, the `maxrej` block, the end of the routine. -/
def djsRejectMaxrej (sqrt : α → α) (body : Nat → List Nat → Nat → List α → Except String (List α))
    (o : Opts α) (g : MaxrejOpts) (shape : List Nat) (data : List α)
    (model : Option (List α)) (outmask inmask : Option (List Bool)) (s : List α) :
    Except String (List Bool × Bool) := do
  let n := data.length
  let prev ← match outmask with
    | none => pure (List.replicate n true)
    | some om => if om.length ≠ n then throw "ValueError" else pure om
  match model with
  | none => pure ((match inmask with | some im => im | none => prev), false)
  | some mdl =>
    if mdl.length ≠ n then throw "ValueError"
    let inm ← match inmask with
      | none => pure (List.replicate n true)
      | some im => if im.length ≠ n then throw "ValueError" else pure im
    let gg ← maxrejChecks g shape
    if s.length ≠ n then throw "ValueError"
    let px := (List.range n).map fun i =>
      (⟨data.getD i 0, mdl.getD i 0, s.getD i 0, inm.getD i true, prev.getD i true⟩ : Pix α)
    let o' := { o with hasIn := inmask.isSome }
    let bad ← maxrejBlock body gg.1 shape (px.map (badness sqrt o'))
    pure (finishMask o' px bad)

/-! ## smooth() on integers and skymask -/

/-- `ndarray.sum()` of an integer slice -/
def sumL (l : List Int) : Int := l.sum

/-- `smooth(signal, owidth, edge_truncate)` of pydl/smooth.py on an integer array:
the float quotient is stored back into the integer array (truncation toward 0 =
`Int.tdiv`; exact here because skymask passes multiples of `width`).
numpy slices clip at the array ends. -/
def smoothInt (signal : List Int) (owidth : Nat) (edgeTruncate : Bool) : List Int :=
  let width := if owidth % 2 == 0 then owidth + 1 else owidth
  if width < 3 then signal else
  let n := signal.length
  let istart := (width - 1) / 2
  let iend : Int := (n : Int) - ((width + 1) / 2 : Nat)
  let w2 := width / 2
  (List.range n).map fun i =>
    if i < istart then
      if edgeTruncate then
        Int.tdiv (sumL (signal.take (istart + i + 1)) + ((istart - i : Nat) : Int) * signal.getD 0 0) width
      else signal.getD i 0
    else if (i : Int) > iend then
      if edgeTruncate then
        Int.tdiv (sumL (signal.drop (i - istart)) + ((i : Int) - iend) * signal.getD (n - 1) 0) width
      else signal.getD i 0
    else
      Int.tdiv (sumL ((signal.drop (i - w2)).take (2 * w2 + 1))) width

/-- bit `k` of the two's complement integer `m` (`/` is floor division for a positive divisor) -/
def bit (m : Int) (k : Nat) : Bool := (m / (2 ^ k : Int)) % 2 == 1

/-- BADSKYCHI (bit 27) or REDMONSTER (bit 28) set in the (two's complement) mask value:
`(ormask & badskychi) != 0` or `(ormask & redmonster) != 0` -/
def flagged (m : Int) : Bool := bit m 27 || bit m 28

/-- `badmask` of one row before the dilation: `zeros | ((ormask & badskychi) != 0) | ((ormask & redmonster) != 0)` -/
def skyBad0 (ormask : Option (List Int)) (npix : Nat) : List Int :=
  match ormask with
  | none => List.replicate npix 0
  | some om => om.map (fun m => if flagged m then 1 else 0)

/-- `badmask` of one row after the dilation `smooth(badmask*width, width, True) > 0` -/
def skyBad (ormask : Option (List Int)) (npix ngrow : Nat) : List Int :=
  if ngrow > 0 then
    (smoothInt ((skyBad0 ormask npix).map (· * ((2 * ngrow + 1 : Nat) : Int))) (2 * ngrow + 1) true).map
      (fun v => if v > 0 then 1 else 0)
  else skyBad0 ormask npix

/-- one row of `skymask(invvar, andmask, ormask, ngrow)`: `invvar * (1 - badmask)` -/
def skymaskRow (invvar : List α) (ormask : Option (List Int)) (ngrow : Nat) : List α :=
  List.zipWith (fun v b => v * Scalar.ofNat (1 - b).toNat) invvar (skyBad ormask invvar.length ngrow)

/-- all rows of `skymask` (third extension round): the loop `for k in range(nrows)` treats every row on its own;
`if ngrow > 0:` - a zero or negative `ngrow` means no dilation (`Int.toNat`) -/
def skymaskRows (invvar : List (List α)) (ormask : Option (List (List Int))) (ngrow : Int) : List (List α) :=
  match ormask with
  | none => invvar.map (fun r => skymaskRow r none ngrow.toNat)
  | some oms => List.zipWith (fun r o => skymaskRow r (some o) ngrow.toNat) invvar oms

/-- `skymask(invvar, andmask, ormask, ngrow)` on an array of shape `shape` given by its rows:
`nrows, npix = invvar.shape` raises ValueError unless the array is 2-D; `andmask` is ignored by the code -/
def skymaskImage (shape : List Nat) (invvar : List (List α)) (ormask : Option (List (List Int))) (ngrow : Int) :
    Except String (List (List α)) :=
  if shape.length ≠ 2 then throw "ValueError" else pure (skymaskRows invvar ormask ngrow)

end PydlVerif.Reject

/-
Scalar / Trig operation classes: the numeric models are written once over an
abstract scalar type and instantiated at `Float` (to run next to numpy's
float64), at core `Rat` (exact run) and, in the proof files, at an arbitrary
linearly ordered field or at ℝ.  No laws are assumed here; the proof files
supply an instance for which the field laws hold.
-/
set_option warn.classDefReducibility false
namespace PydlVerif

class Scalar (α : Type) extends Add α, Sub α, Mul α, Div α, Neg α, LT α, LE α where
  ofNat : Nat → α
  ofSci : Nat → Bool → Nat → α
  floor : α → Int
  decLt : (a b : α) → Decidable (a < b)
  decLe : (a b : α) → Decidable (a ≤ b)
  beq : α → α → Bool

attribute [instance] Scalar.decLt Scalar.decLe

instance Scalar.instOfNat {α} [Scalar α] {n : Nat} : OfNat α n := ⟨Scalar.ofNat n⟩
instance Scalar.instOfScientific {α} [Scalar α] : OfScientific α := ⟨Scalar.ofSci⟩
instance {α} [Scalar α] : Inhabited α := ⟨Scalar.ofNat 0⟩
instance {α} [Scalar α] : BEq α := ⟨Scalar.beq⟩

/-- transcendental operations; parameters of the models (libm on the Float side) -/
class Trig (α : Type) extends Scalar α where
  sqrt : α → α
  sin : α → α
  cos : α → α
  arcsin : α → α
  arccos : α → α
  atan2 : α → α → α
  pi : α

instance : Scalar Float where
  ofNat n := Float.ofNat n
  ofSci := Float.ofScientific
  floor x := x.floor.toInt64.toInt
  decLt _ _ := inferInstance
  decLe _ _ := inferInstance
  beq a b := a == b

instance : Trig Float where
  sqrt := Float.sqrt
  sin := Float.sin
  cos := Float.cos
  arcsin := Float.asin
  arccos := Float.acos
  atan2 := Float.atan2
  pi := 3.141592653589793

instance : Scalar Rat where
  ofNat n := (n : Rat)
  ofSci m s e := (OfScientific.ofScientific m s e : Rat)
  floor x := x.floor
  decLt _ _ := inferInstance
  decLe _ _ := inferInstance
  beq a b := a == b

/-- exact rational value of a finite binary64 bit pattern (0 for NaN/inf) -/
def ratOfBits (b : UInt64) : Rat :=
  let n : Nat := b.toNat
  let neg : Bool := n / 2^63 == 1
  let e : Nat := (n / 2^52) % 2^11
  let m : Nat := n % 2^52
  let mag : Rat :=
    if e == 2047 then 0
    else if e == 0 then (m : Rat) / ((2^1074 : Nat) : Rat)
    else if e ≥ 1075 then (((2^52 + m) * 2^(e - 1075) : Nat) : Rat)
    else ((2^52 + m : Nat) : Rat) / ((2^(1075 - e) : Nat) : Rat)
  if neg then -mag else mag

end PydlVerif

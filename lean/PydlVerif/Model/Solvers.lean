/-
Executable models of the least-squares / factorisation solvers of pydl (C15):

  computechi2   pydl/pydlutils/math.py:12-99
  pcomp         pydl/pcomp.py:36-100
  HMF           pydl/pydlspec2d/spec1d.py:165-334 (model/chi/penalty/badness, normbase,
                astep, gstep, astepnn, gstepnn, reorder, iterate)
  pca_solve     pydl/pydlspec2d/spec1d.py:629-756 (`pcaSolve`: maxiter = 0, every object "good";
                `pcaSolveMax`: all branches, see the extension section at the end)

Generic over `[Scalar α]`.  Inputs are functions `Nat → α` / `Nat → Nat → α`
together with their sizes (the driver passes array look-ups), every
intermediate the code stores in an ndarray is tabulated into an `Array`.
External kernels are PARAMETERS: `sqrt` (libm), `svd`, `eigh`, `solve`
(LAPACK), `argsort`, and the k-means start of HMF (the caller supplies `g0`).
Their contracts are hypotheses of the theorems in Props/C15.lean.
-/
import PydlVerif.Model.Scalar
namespace PydlVerif.Solvers
variable {α : Type} [Scalar α]

abbrev Vec (α : Type) := Array α
abbrev Mat (α : Type) := Array (Array α)

/-- left-to-right sum `f 0 + f 1 + … + f (n-1)` starting from 0 -/
def sumN (n : Nat) (f : Nat → α) : α := (List.range n).foldl (fun acc i => acc + f i) 0

def vtab (n : Nat) (f : Nat → α) : Vec α := Array.ofFn (n := n) (fun i => f i.val)
def mtab (r c : Nat) (f : Nat → Nat → α) : Mat α := Array.ofFn (n := r) (fun i => vtab c (f i.val))
def vget (v : Vec α) (i : Nat) : α := v[i]!
def mget (A : Mat α) (i j : Nat) : α := (A[i]!)[j]!

/-- number of indices below `n` with `p i` -/
def countN (n : Nat) (p : Nat → Bool) : Nat := ((List.range n).filter p).length

/-! ## computechi2 -/

/-- what `numpy.linalg.svd(mm, full_matrices=False)` returns: `mm = uu · diag ww · vv` -/
structure Svd (α : Type) where
  uu : Mat α
  ww : Vec α
  vv : Mat α

structure Chi2 (α : Type) where
  bvec : Vec α
  mmatrix : Mat α
  mm : Mat α
  mmi : Mat α
  acoeff : Vec α
  chi2 : α
  yfit : Vec α
  dof : Int
  covar : Mat α
  var : Vec α

/-- `mmi = (vv.T / tile(ww)) · uu.T` : entry (r,c) = Σ_t vv[t,r] / ww[t] * uu[c,t] -/
def pinvOfSvd (m : Nat) (s : Svd α) : Mat α :=
  mtab m m fun r c => sumN m fun t => (mget s.vv t r / vget s.ww t) * mget s.uu c t

/-- the `covar` property: `wwt = 1/ww where ww > 0`, lower triangle computed, upper mirrored -/
def covarOfSvd (m : Nat) (s : Svd α) : Mat α :=
  let wwt := vtab m fun c => if 0 < vget s.ww c then 1 / vget s.ww c else vget s.ww c
  mtab m m fun i j =>
    let p := if j ≤ i then i else j
    let q := if j ≤ i then j else i
    sumN m fun c => vget wwt c * mget s.vv c p * mget s.vv c q

/-- `computechi2(bvec, sqivar, amatrix)` for an `n × m` matrix; all lazy properties evaluated -/
def computechi2 (svd : Mat α → Svd α) (n m : Nat) (b sq : Nat → α) (A : Nat → Nat → α) : Chi2 α :=
  let bv := vtab n fun i => b i * sq i
  let mmat := mtab n m fun i k => A i k * sq i
  let mm := mtab m m fun k l => sumN n fun i => mget mmat i k * mget mmat i l
  let s := svd mm
  let mmi := pinvOfSvd m s
  let rhs := vtab m fun k => sumN n fun i => mget mmat i k * vget bv i
  let acoeff := vtab m fun r => sumN m fun c => mget mmi r c * vget rhs c
  let chi2 := sumN n fun i =>
    let d := (sumN m fun k => mget mmat i k * vget acoeff k) - vget bv i
    d * d
  let yfit := vtab n fun i => sumN m fun k => A i k * vget acoeff k
  let dof : Int := ((countN n fun i => decide (0 < sq i) : Nat) : Int) - (m : Int)
  let covar := covarOfSvd m s
  let var := vtab m fun i => mget covar i i
  { bvec := bv, mmatrix := mmat, mm := mm, mmi := mmi, acoeff := acoeff, chi2 := chi2,
    yfit := yfit, dof := dof, covar := covar, var := var }

/-! ## pcomp -/

/-- what `scipy.linalg.eigh(c)` returns: eigenvalues and the matrix whose COLUMNS are eigenvectors -/
structure Eig (α : Type) where
  evals : Vec α
  evecs : Mat α

structure Pcomp (α : Type) where
  array : Mat α
  c : Mat α
  evals : Vec α
  evecs : Mat α
  coefficients : Mat α
  derived : Mat α
  variance : Vec α

/-- column means of an `no × nv` matrix -/
def colMean (no nv : Nat) (x : Nat → Nat → α) : Vec α :=
  vtab nv fun j => (sumN no fun i => x i j) / Scalar.ofNat no

/-- `numpy.cov(x, rowvar=0)` -/
def covMat (no nv : Nat) (x : Nat → Nat → α) : Mat α :=
  let avg := colMean no nv x
  let xc := mtab no nv fun i j => x i j - vget avg j
  mtab nv nv fun j l => (sumN no fun i => mget xc i j * mget xc i l) / Scalar.ofNat (no - 1)

def clip1 (v : α) : α := if v < 0 - 1 then 0 - 1 else if 1 < v then 1 else v

/-- `numpy.corrcoef(x, rowvar=0)`: covariance divided by both standard deviations, clipped to [-1, 1] -/
def corrMat (sqrt : α → α) (no nv : Nat) (x : Nat → Nat → α) : Mat α :=
  let c := covMat no nv x
  let sd := vtab nv fun j => sqrt (mget c j j)
  mtab nv nv fun j l => clip1 ((mget c j l / vget sd j) / vget sd l)

/-- `c.trace()` -/
def traceM (n : Nat) (c : Mat α) : α := sumN n fun i => mget c i i

/-- `pcomp(x, standardize, covariance)` for an `no × nv` matrix -/
def pcomp (sqrt : α → α) (eigh : Mat α → Eig α) (argsort : Vec α → Array Nat)
    (no nv : Nat) (x : Nat → Nat → α) (standardize covariance : Bool) : Pcomp α :=
  let array : Mat α :=
    if standardize then
      let mean := colMean no nv x
      let xstd := mtab no nv fun i j => x i j - vget mean j
      -- numpy std(0): mean again, then sqrt(mean of squared deviations)
      let m2 := colMean no nv (mget xstd)
      let s := vtab nv fun j =>
        sqrt ((sumN no fun i => (mget xstd i j - vget m2 j) * (mget xstd i j - vget m2 j)) / Scalar.ofNat no)
      mtab no nv fun i j => mget xstd i j / vget s j
    else mtab no nv x
  let c := if covariance then covMat no nv (mget array) else corrMat sqrt no nv (mget array)
  let e := eigh c
  let asc := argsort e.evals
  -- ie = evals.argsort()[::-1]
  let ie : Nat → Nat := fun j => asc[nv - 1 - j]!
  let evals := vtab nv fun j => vget e.evals (ie j)
  let evecs := mtab nv nv fun i j => mget e.evecs i (ie j)
  let coeff := mtab nv nv fun i j => mget evecs i j * sqrt (vget evals j)
  let derived := mtab no nv fun i j => sumN nv fun k => mget array i k * mget coeff k j
  let tr := traceM nv c
  let variance := vtab nv fun j => vget evals j / tr
  { array := array, c := c, evals := evals, evecs := evecs, coefficients := coeff,
    derived := derived, variance := variance }

/-! ## HMF -/

/-- `np.dot(a, g)` entry -/
def hmfModel (K : Nat) (a g : Nat → Nat → α) (i j : Nat) : α := sumN K fun k => a i k * g k j

def penalty (K M : Nat) (g : Nat → Nat → α) (eps : Option α) : α :=
  match eps with
  | none => 0
  | some e => e * sumN K fun k => sumN (M - 1) fun j => (g k (j + 1) - g k j) * (g k (j + 1) - g k j)

/-- `badness()` = Σ ((spectra - a·g) * sqrt(invvar))² + penalty -/
def badness (sqrt : α → α) (N M K : Nat) (s w a g : Nat → Nat → α) (eps : Option α) : α :=
  (sumN N fun i => sumN M fun j =>
    let c := (s i j - hmfModel K a g i j) * sqrt (w i j)
    c * c) + penalty K M g eps

/-- `normbase()` : rms of every component -/
def normbase (sqrt : α → α) (K M : Nat) (g : Nat → Nat → α) : Vec α :=
  vtab K fun k => sqrt ((sumN M fun j => g k j * g k j) / Scalar.ofNat M)

/-- the symmetric K×K matrix of row i's normal equations: only `kp ≥ k` is computed, the rest mirrored -/
def astepMat (M K : Nat) (w g : Nat → Nat → α) (i : Nat) : Mat α :=
  mtab K K fun k kp =>
    let p := if k ≤ kp then k else kp
    let q := if k ≤ kp then kp else k
    sumN M fun j => g p j * g q j * w i j

def astepRhs (M K : Nat) (s w g : Nat → Nat → α) (i : Nat) : Vec α :=
  vtab K fun k => sumN M fun j => g k j * (s i j * w i j)

/-- `astep()` : one linear solve per spectrum -/
def astep (solve : Mat α → Vec α → Vec α) (N M K : Nat) (s w g : Nat → Nat → α) : Mat α :=
  Array.ofFn (n := N) fun i => solve (astepMat M K w g i.val) (astepRhs M K s w g i.val)

def epsOn (eps : Option α) : Bool :=
  match eps with
  | none => false
  | some e => decide (0 < e)

def epsVal (eps : Option α) : α :=
  match eps with
  | none => 0
  | some e => e

/-- the smoothness right-hand side `e[:, j]` (old neighbours) -/
def epsRhs (M : Nat) (g : Nat → Nat → α) (eps : Option α) (k j : Nat) : α :=
  if epsOn eps then
    if j + 1 = M then epsVal eps * g k (M - 2)
    else if j = 0 then epsVal eps * g k 1
    else epsVal eps * (g k (j - 1) + g k (j + 1))
  else 0

/-- the diagonal `d[k, k, j]` : ε at both ends, 2ε inside -/
def epsDiag (M : Nat) (eps : Option α) (j : Nat) : α :=
  if epsOn eps then (if 0 < j ∧ j + 1 < M then epsVal eps * 2 else epsVal eps) else 0

def gstepMat (N M K : Nat) (w a : Nat → Nat → α) (eps : Option α) (j : Nat) : Mat α :=
  mtab K K fun k kp =>
    let p := if k ≤ kp then k else kp
    let q := if k ≤ kp then kp else k
    (sumN N fun i => a i p * a i q * w i j) + (if k = kp then epsDiag M eps j else 0)

def gstepRhs (N M K : Nat) (s w a g : Nat → Nat → α) (eps : Option α) (j : Nat) : Vec α :=
  vtab K fun k => (sumN N fun i => a i k * (s i j * w i j)) + epsRhs M g eps k j

/-- `gstep()` : one linear solve per pixel, column j of the result -/
def gstepCols (solve : Mat α → Vec α → Vec α) (N M K : Nat) (s w a g : Nat → Nat → α) (eps : Option α) : Mat α :=
  Array.ofFn (n := M) fun j => solve (gstepMat N M K w a eps j.val) (gstepRhs N M K s w a g eps j.val)

def gstep (solve : Mat α → Vec α → Vec α) (N M K : Nat) (s w a g : Nat → Nat → α) (eps : Option α) : Mat α :=
  let cols := gstepCols solve N M K s w a g eps
  mtab K M fun k j => mget cols j k

/-- `astepnn()` : multiplicative update -/
def astepnn (N M K : Nat) (s w a g : Nat → Nat → α) : Mat α :=
  let mdl := mtab N M fun i j => hmfModel K a g i j * w i j
  mtab N K fun i k =>
    let num := sumN M fun j => (s i j * w i j) * g k j
    let den := sumN M fun j => mget mdl i j * g k j
    a i k * (num / den)

/-- `gstepnn()` : multiplicative update, smoothness terms in numerator and denominator -/
def gstepnn (N M K : Nat) (s w a g : Nat → Nat → α) (eps : Option α) : Mat α :=
  let mdl := mtab N M fun i j => hmfModel K a g i j * w i j
  mtab K M fun k j =>
    let num := (sumN N fun i => a i k * (s i j * w i j)) + epsRhs M g eps k j
    let den0 := sumN N fun i => a i k * mget mdl i j
    let den := if epsOn eps then den0 + (if 0 < j ∧ j + 1 < M then epsVal eps * g k j * 2 else epsVal eps * g k j)
               else den0
    g k j * (num / den)

/-- `np.dot(a.T, a)` -/
def ataMat (N K : Nat) (a : Nat → Nat → α) : Mat α := mtab K K fun k l => sumN N fun i => a i k * a i l

/-- `reorder()` : rotate with the eigenvectors of aᵀa -/
def reorder (eigh : Mat α → Eig α) (N M K : Nat) (a g : Nat → Nat → α) : Mat α × Mat α :=
  let U := (eigh (ataMat N K a)).evecs
  (mtab N K fun i k => sumN K fun l => a i l * mget U l k,
   mtab K M fun k j => sumN K fun l => mget U l k * g l j)

/-- the normalisation at the end of every iteration: `g /= norm`, `a *= norm` -/
def renorm (sqrt : α → α) (N M K : Nat) (a g : Nat → Nat → α) : Mat α × Mat α :=
  let nb := normbase sqrt K M g
  (mtab N K fun i k => a i k * vget nb k, mtab K M fun k j => g k j / vget nb k)

def iterN {β : Type} (n : Nat) (f : β → β) (x : β) : β :=
  match n with
  | 0 => x
  | n + 1 => iterN n f (f x)

/-- `iterate()` after the k-means call: `g0` is what `kmeans(whiten(spectra), K)` returned (K rows);
no all-zero column (precondition, established by the caller); `nnPre` = 128 in the code. -/
def iterate (sqrt : α → α) (solve : Mat α → Vec α → Vec α) (eigh : Mat α → Eig α)
    (N M K nIter nnPre : Nat) (s0 w : Nat → Nat → α) (g0 : Nat → Nat → α) (nonneg : Bool)
    (eps : Option α) : Mat α × Mat α :=
  let sA : Mat α := if nonneg then mtab N M fun i j => if s0 i j < 0 then 0 else s0 i j else mtab N M s0
  let s := mget sA
  let nb := normbase sqrt K M g0
  let g1 := mtab K M fun k j => g0 k j / vget nb k
  let a1 := mtab N K fun i _ => sqrt ((sumN M fun j => s i j * s i j) / Scalar.ofNat M) * (1 / Scalar.ofNat K)
  let a2 := if nonneg then iterN nnPre (fun a => astepnn N M K s w (mget a) (mget g1)) a1 else a1
  iterN nIter (fun (ag : Mat α × Mat α) =>
    let ag' : Mat α × Mat α :=
      if nonneg then
        let a' := astepnn N M K s w (mget ag.1) (mget ag.2)
        (a', gstepnn N M K s w (mget a') (mget ag.2) eps)
      else
        let a' := astep solve N M K s w (mget ag.2)
        let g' := gstep solve N M K s w (mget a') (mget ag.2) eps
        reorder eigh N M K (mget a') (mget g')
    renorm sqrt N M K (mget ag'.1) (mget ag'.2)) (a2, g1)

/-! ## pca_solve (maxiter = 0: outmask = (newivar ≠ 0), no rejection) -/

structure Pca (α : Type) where
  usemask : Array Nat
  pres : Mat α          -- npix × nobj (the caller takes the first nreturn columns, transposed, as float32)
  eigenval : Vec α
  acoeff : Mat α        -- nobj × nkeep
  filtflux : Mat α

def absS (x : α) : α := if x < 0 then 0 - x else x

/-- `usemask = outmask.sum(0)` with `outmask = newivar != 0` -/
def usemask (nobj npix : Nat) (ivar : Nat → Nat → α) : Array Nat :=
  Array.ofFn (n := npix) fun p => countN nobj fun i => !(ivar i p.val == 0)

/-- the synthetic weight: mean of the non-zero inverse variances of the pixel, 1 when there is none -/
def synwvec (nobj npix : Nat) (ivar : Nat → Nat → α) : Vec α :=
  vtab npix fun p =>
    let cnt := countN nobj fun i => !(ivar i p == 0)
    if cnt = 0 then 1 else (sumN nobj fun i => if ivar i p == 0 then 0 else ivar i p) / Scalar.ofNat cnt

/-- index of the first pixel with non-zero ivar (npix when there is none; the code raises then) -/
def firstNonzero (npix : Nat) (ivar : Nat → α) : Nat :=
  ((List.range npix).find? fun p => !(ivar p == 0)).getD npix

/-- the projection of one spectrum on the current eigenspectra: `computechi2(newflux[i], sqrt(maskivar[i]), pres[:, 0:nkeep])`
with `maskivar = newivar * outmask = newivar` -/
def pcaProject (sqrt : α → α) (svd : Mat α → Svd α) (npix nkeep : Nat) (flux ivar : Nat → α) (pres : Nat → Nat → α) : Chi2 α :=
  computechi2 svd npix nkeep flux (fun p => sqrt (ivar p)) pres

/-- one pass of the inner loop: pcomp of the filtered fluxes, projection of every object, refill -/
def pcaPass (sqrt : α → α) (svd : Mat α → Svd α) (eigh : Mat α → Eig α) (argsort : Vec α → Array Nat)
    (nobj npix nkeep : Nat) (flux ivar : Nat → Nat → α) (syn : Vec α) (filt : Mat α) :
    Except String (Pcomp α × Mat α × Mat α) := do
  -- goodobj: total absolute deviation from the first good pixel must be positive for every object
  for i in List.range nobj do
    let f0 := mget filt i (firstNonzero npix (ivar i))
    let tot := sumN npix fun p => absS (mget filt i p - f0)
    if !(decide (0 < tot)) then throw "pca_solve: object without signal (goodobj branch not modelled)"
  let pc := pcomp sqrt eigh argsort npix nobj (fun p i => mget filt i p) false false
  let outs : Array (Vec α × Vec α) := Array.ofFn (n := nobj) fun i =>
    let o := pcaProject sqrt svd npix nkeep (flux i.val) (ivar i.val) (mget pc.derived)
    (o.acoeff, o.yfit)
  let filt' := mtab nobj npix fun i p =>
    (ivar i p * flux i p + vget syn p * vget (outs[i]!).2 p) / (ivar i p + vget syn p)
  let acoeff := mtab nobj nkeep fun i k => vget (outs[i]!).1 k
  pure (pc, acoeff, filt')

def pcaSolve (sqrt : α → α) (svd : Mat α → Svd α) (eigh : Mat α → Eig α) (argsort : Vec α → Array Nat)
    (nobj npix niter nkeep : Nat) (flux ivar : Nat → Nat → α) : Except String (Pca α) := do
  for i in List.range nobj do
    if firstNonzero npix (ivar i) = npix then throw "ValueError"
  if niter = 0 then throw "niter = 0: pres undefined (UnboundLocalError in the code)"
  let syn := synwvec nobj npix ivar
  let mut filt := mtab nobj npix flux
  let mut last : Option (Pcomp α × Mat α) := none
  for _ in List.range niter do
    let (pc', ac', filt') ← pcaPass sqrt svd eigh argsort nobj npix nkeep flux ivar syn filt
    last := some (pc', ac')
    filt := filt'
  match last with
  | none => throw "unreachable"
  | some (pc, acoeff) =>
    pure { usemask := usemask nobj npix ivar, pres := pc.derived, eigenval := pc.evals, acoeff := acoeff,
           filtflux := filt }

/-! ## Extension round: the remaining branches of the code

* `computechi2` with a one-dimensional `amatrix` (one template; `nstar = 1`, the vector is used as an `n × 1` matrix)
* `HMF.iterate` including the detection and removal of all-zero columns (`find_contiguous`)
* `pca_solve` with the `goodobj`-False branch, the `nobj == 1` early return and the outer
  PCA + reject loop for `maxiter ≥ 0` (with `djs_reject` as `pca_solve` calls it: no `lower/upper/maxdev`)
-/

/-- `computechi2(bvec, sqivar, amatrix)` with `amatrix.ndim == 1`: `nstar = 1`, one column -/
def computechi2Vec (svd : Mat α → Svd α) (n : Nat) (b sq a : Nat → α) : Chi2 α :=
  computechi2 svd n 1 b sq (fun i _ => a i)

/-! ### HMF.iterate with zero-column removal -/

/-- `zerocol[j]` : the column sum of `spectra`, of `invvar` or of their product is exactly zero -/
def zeroCol (N : Nat) (s w : Nat → Nat → α) (j : Nat) : Bool :=
  ((sumN N fun i => s i j) == 0) || ((sumN N fun i => w i j) == 0) || ((sumN N fun i => s i j * w i j) == 0)

/-- the list `contig` that `find_contiguous` builds: maximal runs of consecutive `true`, as (start, length) -/
def runsOf (M : Nat) (good : Nat → Bool) : List (Nat × Nat) :=
  (List.range M).foldl (fun (acc : List (Nat × Nat)) k =>
    if good k then
      match acc.getLast? with
      | some (st, l) => if k = st + l then acc.dropLast ++ [(st, l + 1)] else acc ++ [(k, 1)]
      | none => [(k, 1)]
    else acc) []

/-- `find_contiguous(x)` : the FIRST run of maximal length (`lengths.index(max(lengths))`);
`none` when nothing is `true` (`max([])` raises ValueError) -/
def findContiguous (M : Nat) (good : Nat → Bool) : Option (Nat × Nat) :=
  match runsOf M good with
  | [] => none
  | r :: rs => some (rs.foldl (fun best x => if best.2 < x.2 then x else best) r)

structure HmfOut (α : Type) where
  col0 : Nat            -- first kept column
  ncol : Nat            -- number of kept columns (`len(goodcol)`)
  nzero : Nat           -- `n_zero`
  a : Mat α
  g : Mat α

/-- `iterate()` as a whole: clamp (non-negative mode), zero-column detection, restriction to the longest
contiguous block of good columns, then the iteration proper on the `N × ncol` block.  `g0` is what
`kmeans(whiten(spectra[:, goodcol]), K)` returned (K rows, `ncol` columns). -/
def iterateCols (sqrt : α → α) (solve : Mat α → Vec α → Vec α) (eigh : Mat α → Eig α)
    (N M K nIter nnPre : Nat) (s0 w : Nat → Nat → α) (g0 : Nat → Nat → α) (nonneg : Bool)
    (eps : Option α) : Except String (HmfOut α) :=
  let s : Nat → Nat → α := fun i j => if nonneg then (if s0 i j < 0 then 0 else s0 i j) else s0 i j
  let nz := countN M (zeroCol N s w)
  match findContiguous M (fun j => !(zeroCol N s w j)) with
  | none => .error "ValueError"
  | some (c0, M') =>
    let r := iterate sqrt solve eigh N M' K nIter nnPre (fun i j => s i (c0 + j)) (fun i j => w i (c0 + j)) g0 nonneg eps
    .ok { col0 := c0, ncol := M', nzero := nz, a := r.1, g := r.2 }

/-- one sweep of the default (signed) mode: `astep; gstep; reorder; renormalise` - the body of the loop of `iterate` -/
def sweepSigned (sqrt : α → α) (solve : Mat α → Vec α → Vec α) (eigh : Mat α → Eig α)
    (N M K : Nat) (s w : Nat → Nat → α) (eps : Option α) (ag : Mat α × Mat α) : Mat α × Mat α :=
  let a' := astep solve N M K s w (mget ag.2)
  let g' := gstep solve N M K s w (mget a') (mget ag.2) eps
  let ag' := reorder eigh N M K (mget a') (mget g')
  renorm sqrt N M K (mget ag'.1) (mget ag'.2)

/-- one sweep of the non-negative mode: `astepnn; gstepnn; renormalise` -/
def sweepNN (sqrt : α → α) (N M K : Nat) (s w : Nat → Nat → α) (eps : Option α) (ag : Mat α × Mat α) : Mat α × Mat α :=
  let a' := astepnn N M K s w (mget ag.1) (mget ag.2)
  let g' := gstepnn N M K s w (mget a') (mget ag.2) eps
  renorm sqrt N M K (mget a') (mget g')

/-- the spectra `iterate` works on (negative values clamped in non-negative mode) -/
def iterateSpectra (N M : Nat) (s0 : Nat → Nat → α) (nonneg : Bool) : Mat α :=
  if nonneg then mtab N M fun i j => if s0 i j < 0 then 0 else s0 i j else mtab N M s0

/-- the state before the first sweep of `iterate`: normalised k-means components, flat coefficients,
128 non-negative a-steps in non-negative mode -/
def iterateStart (sqrt : α → α) (N M K nnPre : Nat) (s0 w g0 : Nat → Nat → α) (nonneg : Bool) : Mat α × Mat α :=
  let s := mget (iterateSpectra N M s0 nonneg)
  let nb := normbase sqrt K M g0
  let g1 := mtab K M fun k j => g0 k j / vget nb k
  let a1 := mtab N K fun i _ => sqrt ((sumN M fun j => s i j * s i j) / Scalar.ofNat M) * (1 / Scalar.ofNat K)
  let a2 := if nonneg then iterN nnPre (fun a => astepnn N M K s w (mget a) (mget g1)) a1 else a1
  (a2, g1)

/-! ### pca_solve, all branches -/

abbrev Mask := Array (Array Bool)
def btab (r c : Nat) (f : Nat → Nat → Bool) : Mask :=
  Array.ofFn (n := r) fun i => Array.ofFn (n := c) fun j => f i.val j.val
def bget (m : Mask) (i j : Nat) : Bool := (m[i]!)[j]!

/-- `djs_reject(newflux, ymodel, inmask=inmask, outmask=outmask, invvar=newivar)` as `pca_solve` calls it:
no `sigma`, `lower`, `upper`, `maxdev`, `maxrej`, `grow`, `sticky`.  Without a model the input mask is
returned and `qdone = False`; with a model `badness` stays zero (`zeros * inmask`), the new mask is
`(badness == 0) & inmask` and `qdone` says whether it equals the previous mask. -/
def pcaReject (nobj npix : Nat) (hasModel : Bool) (inmask : Nat → Nat → Bool) (outmask : Option Mask) : Mask × Bool :=
  let om : Mask := match outmask with
    | some m => m
    | none => btab nobj npix fun _ _ => true
  if !hasModel then (btab nobj npix inmask, false)
  else
    let newmask := btab nobj npix fun i p =>
      let badness : α := (0 : α) * (if inmask i p then 1 else 0)
      (badness == 0) && inmask i p
    let qdone := (List.range nobj).all fun i => (List.range npix).all fun p => bget newmask i p == bget om i p
    (newmask, qdone)

structure PcaState (α : Type) where
  pres : Mat α          -- npix × nobj
  eigenval : Vec α      -- nobj
  acoeff : Mat α        -- nobj × nkeep
  filt : Mat α          -- nobj × npix
  ngood : Nat           -- number of objects with signal in this pass

/-- `goodobj[i]` : total absolute deviation of the filtered flux from its value at the first good pixel is positive -/
def goodObj (npix : Nat) (ivar : Nat → Nat → α) (filt : Mat α) (i : Nat) : Bool :=
  let f0 := mget filt i (firstNonzero npix (ivar i))
  decide (0 < sumN npix fun p => absS (mget filt i p - f0))

/-- the eigenspectra of one pass, both `goodobj` branches: (pres, eigenval, number of objects with signal).
When some object has no signal the principal components are computed from the others; their derived
variables / eigenvalues fill the LEADING columns / entries, the rest stays zero. -/
def pcaBasis (sqrt : α → α) (eigh : Mat α → Eig α) (argsort : Vec α → Array Nat)
    (nobj npix : Nat) (ivar : Nat → Nat → α) (filt : Mat α) : Mat α × Vec α × Nat :=
  let gi : Array Nat := ((List.range nobj).filter (goodObj npix ivar filt)).toArray
  let ng := gi.size
  if ng = nobj then
    let pc := pcomp sqrt eigh argsort npix nobj (fun p i => mget filt i p) false false
    (pc.derived, pc.evals, ng)
  else
    let pc := pcomp sqrt eigh argsort npix ng (fun p c => mget filt (gi[c]!) p) false false
    (mtab npix nobj fun p c => if c < ng then mget pc.derived p c else 0,
     vtab nobj fun c => if c < ng then vget pc.evals c else 0, ng)

/-- one pass of the inner loop; `mivar = newivar * outmask` are the weights of the projections and of the refill -/
def pcaPassG (sqrt : α → α) (svd : Mat α → Svd α) (eigh : Mat α → Eig α) (argsort : Vec α → Array Nat)
    (nobj npix nkeep : Nat) (flux ivar mivar : Nat → Nat → α) (syn : Vec α) (filt : Mat α) : PcaState α :=
  let be := pcaBasis sqrt eigh argsort nobj npix ivar filt
  let pres := be.1
  let outs : Array (Vec α × Vec α) := Array.ofFn (n := nobj) fun i =>
    let o := pcaProject sqrt svd npix nkeep (flux i.val) (mivar i.val) (mget pres)
    (o.acoeff, o.yfit)
  let filt' := mtab nobj npix fun i p =>
    (mivar i p * flux i p + vget syn p * vget (outs[i]!).2 p) / (mivar i p + vget syn p)
  let acoeff := mtab nobj nkeep fun i k => vget (outs[i]!).1 k
  { pres := pres, eigenval := be.2.1, acoeff := acoeff, filt := filt', ngood := be.2.2 }

/-- the inner loop: `niter` passes, each starting from the filtered fluxes of the previous one -/
def pcaInner (pass : Mat α → PcaState α) : Nat → PcaState α → PcaState α
  | 0, st => st
  | n + 1, st => pcaInner pass n (pass st.filt)

/-- the weights of one outer iteration: `maskivar = newivar * outmask` -/
def maskIvar (ivar : Nat → Nat → α) (om : Mask) (i p : Nat) : α := ivar i p * (if bget om i p then 1 else 0)

structure PcaLoop (α : Type) where
  outmask : Option Mask
  qdone : Bool
  iiter : Nat
  last : Option (PcaState α)

/-- the state at the top of every outer iteration: `filtflux = newflux.copy()`, `acoeff = zeros` -/
def pcaInit (nobj npix nkeep : Nat) (flux : Nat → Nat → α) : PcaState α :=
  { pres := #[], eigenval := #[], acoeff := mtab nobj nkeep fun _ _ => 0, filt := mtab nobj npix flux, ngood := 0 }

/-- the mask `djs_reject` returns in this outer iteration -/
def pcaStepMask (nobj npix : Nat) (ivar : Nat → Nat → α) (L : PcaLoop α) : Mask × Bool :=
  pcaReject (α := α) nobj npix L.last.isSome (fun i p => !(ivar i p == 0)) L.outmask

/-- one outer iteration: `djs_reject`, then `niter` inner passes from the unfiltered fluxes with the weights
`newivar * outmask`, `iiter += 1` (the model `ymodel` of the next `djs_reject` call is `acoeff · presᵀ`; with the
arguments `pca_solve` passes its values are never looked at, only its presence) -/
def pcaOuterStep (sqrt : α → α) (svd : Mat α → Svd α) (eigh : Mat α → Eig α) (argsort : Vec α → Array Nat)
    (nobj npix niter nkeep : Nat) (flux ivar : Nat → Nat → α) (syn : Vec α) (L : PcaLoop α) : PcaLoop α :=
  { outmask := some (pcaStepMask nobj npix ivar L).1, qdone := (pcaStepMask nobj npix ivar L).2, iiter := L.iiter + 1,
    last := some (pcaInner (pcaPassG sqrt svd eigh argsort nobj npix nkeep flux ivar
      (maskIvar ivar (pcaStepMask nobj npix ivar L).1) syn) niter (pcaInit nobj npix nkeep flux)) }

/-- the outer loop `while qdone == 0 and iiter <= maxiter` (fuel `maxiter + 1` is enough: `iiter` grows by one) -/
def pcaOuter (sqrt : α → α) (svd : Mat α → Svd α) (eigh : Mat α → Eig α) (argsort : Vec α → Array Nat)
    (nobj npix niter nkeep maxiter : Nat) (flux ivar : Nat → Nat → α) (syn : Vec α) :
    Nat → PcaLoop α → PcaLoop α
  | 0, L => L
  | fuel + 1, L =>
    if !L.qdone && decide (L.iiter ≤ maxiter) then
      pcaOuter sqrt svd eigh argsort nobj npix niter nkeep maxiter flux ivar syn fuel
        (pcaOuterStep sqrt svd eigh argsort nobj npix niter nkeep flux ivar syn L)
    else L

structure PcaFull (α : Type) where
  usemask : Array Nat
  outmask : Mask
  pres : Mat α          -- npix × nobj
  eigenval : Vec α
  acoeff : Mat α
  filtflux : Mat α
  passes : Nat          -- number of outer (PCA + reject) iterations that were run
  ngood : Nat           -- objects with signal in the last inner pass

inductive PcaOut (α : Type) where
  | single (flux : Vec α)     -- `nobj == 1`: only `flux` is returned
  | full (r : PcaFull α)

/-- `pca_solve(newflux, newivar, maxiter, niter, nkeep)` for two-dimensional input -/
def pcaSolveMax (sqrt : α → α) (svd : Mat α → Svd α) (eigh : Mat α → Eig α) (argsort : Vec α → Array Nat)
    (nobj npix niter nkeep maxiter : Nat) (flux ivar : Nat → Nat → α) : Except String (PcaOut α) :=
  if (List.range nobj).any (fun i => firstNonzero npix (ivar i) = npix) then .error "ValueError"
  else if nobj = 1 then .ok (.single (vtab npix (flux 0)))
  else if niter = 0 then .error "niter = 0: pres undefined (UnboundLocalError in the code)"
  else
    let syn := synwvec nobj npix ivar
    let L := pcaOuter sqrt svd eigh argsort nobj npix niter nkeep maxiter flux ivar syn (maxiter + 1)
      { outmask := none, qdone := false, iiter := 0, last := none }
    match L.outmask, L.last with
    | some om, some st =>
      .ok (.full { usemask := Array.ofFn (n := npix) fun p => countN nobj fun i => bget om i p.val,
                   outmask := om, pres := st.pres, eigenval := st.eigenval, acoeff := st.acoeff,
                   filtflux := st.filt, passes := L.iiter, ngood := st.ngood })
    | _, _ => .error "unreachable"

/-! ## Extension round 2: single spectrum given as a vector; k-means returning fewer than `K` centroids -/

/-- `pca_solve(newflux, newivar)` with a ONE-dimensional `newflux` of length `npix` (`nobj = 1`).
`ivarDim` is `newivar.ndim`.  With a one-dimensional `newivar` the tuple `newivar.nonzero()` has one entry and
`nzi[1]` raises IndexError (before the `nobj == 1` return is reached).  With a two-dimensional `newivar`
(`r × npix`, `r ≥ 1`) only row 0 is looked at: `nzi[1][nzi[0] == 0].min()` raises ValueError when that row has no
non-zero entry; otherwise the flux is returned (as float32, rounding is the caller's business). -/
def pcaSolveVec (npix ivarDim : Nat) (flux : Nat → α) (ivar : Nat → Nat → α) : Except String (PcaOut α) :=
  if ivarDim = 1 then .error "IndexError"
  else if firstNonzero npix (ivar 0) = npix then .error "ValueError"
  else .ok (.single (vtab npix flux))

/-- `HMF.iterate()` after the k-means call when `kmeans` returned `Kg` centroids (`g0` has `Kg` rows; scipy drops empty
clusters, so `Kg < K` is possible).  `Kg = K` is `iterate`.  Otherwise `a` is `N × K` (built from `self.K`) while `g` is
`Kg × M`: in non-negative mode the first `astepnn` raises ValueError (`np.dot(a, g)`: shapes not aligned); in the default
mode the first sweep runs with `Kg` components up to the normalisation `np.repeat(norm, N).reshape(self.K, N)`, which
raises ValueError; with no sweep at all (`n_iter = 0`, and no non-negative pre-iterations) the start values are returned
with their different numbers of components. -/
def iterateKg (sqrt : α → α) (solve : Mat α → Vec α → Vec α) (eigh : Mat α → Eig α)
    (N M K Kg nIter nnPre : Nat) (s0 w : Nat → Nat → α) (g0 : Nat → Nat → α) (nonneg : Bool)
    (eps : Option α) : Except String (Mat α × Mat α) :=
  if Kg = K then .ok (iterate sqrt solve eigh N M K nIter nnPre s0 w g0 nonneg eps)
  else if nonneg && decide (0 < nnPre) then .error "ValueError"
  else if 0 < nIter then .error "ValueError"
  else
    let s := mget (iterateSpectra N M s0 nonneg)
    let nb := normbase sqrt Kg M g0
    .ok (mtab N K fun i _ => sqrt ((sumN M fun j => s i j * s i j) / Scalar.ofNat M) * (1 / Scalar.ofNat K),
         mtab Kg M fun k j => g0 k j / vget nb k)

/-- `iterateCols` with `Kg` centroids from k-means -/
def iterateColsKg (sqrt : α → α) (solve : Mat α → Vec α → Vec α) (eigh : Mat α → Eig α)
    (N M K Kg nIter nnPre : Nat) (s0 w : Nat → Nat → α) (g0 : Nat → Nat → α) (nonneg : Bool)
    (eps : Option α) : Except String (HmfOut α) :=
  let s : Nat → Nat → α := fun i j => if nonneg then (if s0 i j < 0 then 0 else s0 i j) else s0 i j
  let nz := countN M (zeroCol N s w)
  match findContiguous M (fun j => !(zeroCol N s w j)) with
  | none => .error "ValueError"
  | some (c0, M') =>
    match iterateKg sqrt solve eigh N M' K Kg nIter nnPre (fun i j => s i (c0 + j)) (fun i j => w i (c0 + j)) g0 nonneg eps with
    | .error e => .error e
    | .ok r => .ok { col0 := c0, ncol := M', nzero := nz, a := r.1, g := r.2 }

end PydlVerif.Solvers

/-
Executable models of the least-squares / factorisation solvers of pydl (C15):

  computechi2   pydl/pydlutils/math.py:12-99
  pcomp         pydl/pcomp.py:36-100
  HMF           pydl/pydlspec2d/spec1d.py:165-334 (model/chi/penalty/badness, normbase,
                astep, gstep, astepnn, gstepnn, reorder, iterate)
  pca_solve     pydl/pydlspec2d/spec1d.py:629-756 (maxiter = 0, every object "good")

Generic over `[Scalar α]`.  Inputs are functions `Nat → α` / `Nat → Nat → α`
together with their sizes (the driver passes array look-ups), every
intermediate the code stores in an ndarray is tabulated into an `Array`.
External kernels are PARAMETERS: `sqrt` (libm), `svd`, `eigh`, `solve`
(LAPACK), `argsort`, and the k-means start of HMF (the caller supplies `g0`).
Their contracts are hypotheses of the theorems in Props/C15.lean.
-/
import PydlVerif.Model.Scalar
namespace PydlVerif.Solvers
variable {α : Type} [Scalar α]

abbrev Vec (α : Type) := Array α
abbrev Mat (α : Type) := Array (Array α)

/-- left-to-right sum `f 0 + f 1 + … + f (n-1)` starting from 0 -/
def sumN (n : Nat) (f : Nat → α) : α := (List.range n).foldl (fun acc i => acc + f i) 0

def vtab (n : Nat) (f : Nat → α) : Vec α := Array.ofFn (n := n) (fun i => f i.val)
def mtab (r c : Nat) (f : Nat → Nat → α) : Mat α := Array.ofFn (n := r) (fun i => vtab c (f i.val))
def vget (v : Vec α) (i : Nat) : α := v[i]!
def mget (A : Mat α) (i j : Nat) : α := (A[i]!)[j]!

/-- number of indices below `n` with `p i` -/
def countN (n : Nat) (p : Nat → Bool) : Nat := ((List.range n).filter p).length

/-! ## computechi2 -/

/-- what `numpy.linalg.svd(mm, full_matrices=False)` returns: `mm = uu · diag ww · vv` -/
structure Svd (α : Type) where
  uu : Mat α
  ww : Vec α
  vv : Mat α

structure Chi2 (α : Type) where
  bvec : Vec α
  mmatrix : Mat α
  mm : Mat α
  mmi : Mat α
  acoeff : Vec α
  chi2 : α
  yfit : Vec α
  dof : Int
  covar : Mat α
  var : Vec α

/-- `mmi = (vv.T / tile(ww)) · uu.T` : entry (r,c) = Σ_t vv[t,r] / ww[t] * uu[c,t] -/
def pinvOfSvd (m : Nat) (s : Svd α) : Mat α :=
  mtab m m fun r c => sumN m fun t => (mget s.vv t r / vget s.ww t) * mget s.uu c t

/-- the `covar` property: `wwt = 1/ww where ww > 0`, lower triangle computed, upper mirrored -/
def covarOfSvd (m : Nat) (s : Svd α) : Mat α :=
  let wwt := vtab m fun c => if 0 < vget s.ww c then 1 / vget s.ww c else vget s.ww c
  mtab m m fun i j =>
    let p := if j ≤ i then i else j
    let q := if j ≤ i then j else i
    sumN m fun c => vget wwt c * mget s.vv c p * mget s.vv c q

/-- `computechi2(bvec, sqivar, amatrix)` for an `n × m` matrix; all lazy properties evaluated -/
def computechi2 (svd : Mat α → Svd α) (n m : Nat) (b sq : Nat → α) (A : Nat → Nat → α) : Chi2 α :=
  let bv := vtab n fun i => b i * sq i
  let mmat := mtab n m fun i k => A i k * sq i
  let mm := mtab m m fun k l => sumN n fun i => mget mmat i k * mget mmat i l
  let s := svd mm
  let mmi := pinvOfSvd m s
  let rhs := vtab m fun k => sumN n fun i => mget mmat i k * vget bv i
  let acoeff := vtab m fun r => sumN m fun c => mget mmi r c * vget rhs c
  let chi2 := sumN n fun i =>
    let d := (sumN m fun k => mget mmat i k * vget acoeff k) - vget bv i
    d * d
  let yfit := vtab n fun i => sumN m fun k => A i k * vget acoeff k
  let dof : Int := ((countN n fun i => decide (0 < sq i) : Nat) : Int) - (m : Int)
  let covar := covarOfSvd m s
  let var := vtab m fun i => mget covar i i
  { bvec := bv, mmatrix := mmat, mm := mm, mmi := mmi, acoeff := acoeff, chi2 := chi2,
    yfit := yfit, dof := dof, covar := covar, var := var }

/-! ## pcomp -/

/-- what `scipy.linalg.eigh(c)` returns: eigenvalues and the matrix whose COLUMNS are eigenvectors -/
structure Eig (α : Type) where
  evals : Vec α
  evecs : Mat α

structure Pcomp (α : Type) where
  array : Mat α
  c : Mat α
  evals : Vec α
  evecs : Mat α
  coefficients : Mat α
  derived : Mat α
  variance : Vec α

/-- column means of an `no × nv` matrix -/
def colMean (no nv : Nat) (x : Nat → Nat → α) : Vec α :=
  vtab nv fun j => (sumN no fun i => x i j) / Scalar.ofNat no

/-- `numpy.cov(x, rowvar=0)` -/
def covMat (no nv : Nat) (x : Nat → Nat → α) : Mat α :=
  let avg := colMean no nv x
  let xc := mtab no nv fun i j => x i j - vget avg j
  mtab nv nv fun j l => (sumN no fun i => mget xc i j * mget xc i l) / Scalar.ofNat (no - 1)

def clip1 (v : α) : α := if v < 0 - 1 then 0 - 1 else if 1 < v then 1 else v

/-- `numpy.corrcoef(x, rowvar=0)`: covariance divided by both standard deviations, clipped to [-1, 1] -/
def corrMat (sqrt : α → α) (no nv : Nat) (x : Nat → Nat → α) : Mat α :=
  let c := covMat no nv x
  let sd := vtab nv fun j => sqrt (mget c j j)
  mtab nv nv fun j l => clip1 ((mget c j l / vget sd j) / vget sd l)

/-- `c.trace()` -/
def traceM (n : Nat) (c : Mat α) : α := sumN n fun i => mget c i i

/-- `pcomp(x, standardize, covariance)` for an `no × nv` matrix -/
def pcomp (sqrt : α → α) (eigh : Mat α → Eig α) (argsort : Vec α → Array Nat)
    (no nv : Nat) (x : Nat → Nat → α) (standardize covariance : Bool) : Pcomp α :=
  let array : Mat α :=
    if standardize then
      let mean := colMean no nv x
      let xstd := mtab no nv fun i j => x i j - vget mean j
      -- numpy std(0): mean again, then sqrt(mean of squared deviations)
      let m2 := colMean no nv (mget xstd)
      let s := vtab nv fun j =>
        sqrt ((sumN no fun i => (mget xstd i j - vget m2 j) * (mget xstd i j - vget m2 j)) / Scalar.ofNat no)
      mtab no nv fun i j => mget xstd i j / vget s j
    else mtab no nv x
  let c := if covariance then covMat no nv (mget array) else corrMat sqrt no nv (mget array)
  let e := eigh c
  let asc := argsort e.evals
  -- ie = evals.argsort()[::-1]
  let ie : Nat → Nat := fun j => asc[nv - 1 - j]!
  let evals := vtab nv fun j => vget e.evals (ie j)
  let evecs := mtab nv nv fun i j => mget e.evecs i (ie j)
  let coeff := mtab nv nv fun i j => mget evecs i j * sqrt (vget evals j)
  let derived := mtab no nv fun i j => sumN nv fun k => mget array i k * mget coeff k j
  let tr := traceM nv c
  let variance := vtab nv fun j => vget evals j / tr
  { array := array, c := c, evals := evals, evecs := evecs, coefficients := coeff,
    derived := derived, variance := variance }

/-! ## HMF -/

/-- `np.dot(a, g)` entry -/
def hmfModel (K : Nat) (a g : Nat → Nat → α) (i j : Nat) : α := sumN K fun k => a i k * g k j

def penalty (K M : Nat) (g : Nat → Nat → α) (eps : Option α) : α :=
  match eps with
  | none => 0
  | some e => e * sumN K fun k => sumN (M - 1) fun j => (g k (j + 1) - g k j) * (g k (j + 1) - g k j)

/-- `badness()` = Σ ((spectra - a·g) * sqrt(invvar))² + penalty -/
def badness (sqrt : α → α) (N M K : Nat) (s w a g : Nat → Nat → α) (eps : Option α) : α :=
  (sumN N fun i => sumN M fun j =>
    let c := (s i j - hmfModel K a g i j) * sqrt (w i j)
    c * c) + penalty K M g eps

/-- `normbase()` : rms of every component -/
def normbase (sqrt : α → α) (K M : Nat) (g : Nat → Nat → α) : Vec α :=
  vtab K fun k => sqrt ((sumN M fun j => g k j * g k j) / Scalar.ofNat M)

/-- the symmetric K×K matrix of row i's normal equations: only `kp ≥ k` is computed, the rest mirrored -/
def astepMat (M K : Nat) (w g : Nat → Nat → α) (i : Nat) : Mat α :=
  mtab K K fun k kp =>
    let p := if k ≤ kp then k else kp
    let q := if k ≤ kp then kp else k
    sumN M fun j => g p j * g q j * w i j

def astepRhs (M K : Nat) (s w g : Nat → Nat → α) (i : Nat) : Vec α :=
  vtab K fun k => sumN M fun j => g k j * (s i j * w i j)

/-- `astep()` : one linear solve per spectrum -/
def astep (solve : Mat α → Vec α → Vec α) (N M K : Nat) (s w g : Nat → Nat → α) : Mat α :=
  Array.ofFn (n := N) fun i => solve (astepMat M K w g i.val) (astepRhs M K s w g i.val)

def epsOn (eps : Option α) : Bool :=
  match eps with
  | none => false
  | some e => decide (0 < e)

def epsVal (eps : Option α) : α :=
  match eps with
  | none => 0
  | some e => e

/-- the smoothness right-hand side `e[:, j]` (old neighbours) -/
def epsRhs (M : Nat) (g : Nat → Nat → α) (eps : Option α) (k j : Nat) : α :=
  if epsOn eps then
    if j + 1 = M then epsVal eps * g k (M - 2)
    else if j = 0 then epsVal eps * g k 1
    else epsVal eps * (g k (j - 1) + g k (j + 1))
  else 0

/-- the diagonal `d[k, k, j]` : ε at both ends, 2ε inside -/
def epsDiag (M : Nat) (eps : Option α) (j : Nat) : α :=
  if epsOn eps then (if 0 < j ∧ j + 1 < M then epsVal eps * 2 else epsVal eps) else 0

def gstepMat (N M K : Nat) (w a : Nat → Nat → α) (eps : Option α) (j : Nat) : Mat α :=
  mtab K K fun k kp =>
    let p := if k ≤ kp then k else kp
    let q := if k ≤ kp then kp else k
    (sumN N fun i => a i p * a i q * w i j) + (if k = kp then epsDiag M eps j else 0)

def gstepRhs (N M K : Nat) (s w a g : Nat → Nat → α) (eps : Option α) (j : Nat) : Vec α :=
  vtab K fun k => (sumN N fun i => a i k * (s i j * w i j)) + epsRhs M g eps k j

/-- `gstep()` : one linear solve per pixel, column j of the result -/
def gstepCols (solve : Mat α → Vec α → Vec α) (N M K : Nat) (s w a g : Nat → Nat → α) (eps : Option α) : Mat α :=
  Array.ofFn (n := M) fun j => solve (gstepMat N M K w a eps j.val) (gstepRhs N M K s w a g eps j.val)

def gstep (solve : Mat α → Vec α → Vec α) (N M K : Nat) (s w a g : Nat → Nat → α) (eps : Option α) : Mat α :=
  let cols := gstepCols solve N M K s w a g eps
  mtab K M fun k j => mget cols j k

/-- `astepnn()` : multiplicative update -/
def astepnn (N M K : Nat) (s w a g : Nat → Nat → α) : Mat α :=
  let mdl := mtab N M fun i j => hmfModel K a g i j * w i j
  mtab N K fun i k =>
    let num := sumN M fun j => (s i j * w i j) * g k j
    let den := sumN M fun j => mget mdl i j * g k j
    a i k * (num / den)

/-- `gstepnn()` : multiplicative update, smoothness terms in numerator and denominator -/
def gstepnn (N M K : Nat) (s w a g : Nat → Nat → α) (eps : Option α) : Mat α :=
  let mdl := mtab N M fun i j => hmfModel K a g i j * w i j
  mtab K M fun k j =>
    let num := (sumN N fun i => a i k * (s i j * w i j)) + epsRhs M g eps k j
    let den0 := sumN N fun i => a i k * mget mdl i j
    let den := if epsOn eps then den0 + (if 0 < j ∧ j + 1 < M then epsVal eps * g k j * 2 else epsVal eps * g k j)
               else den0
    g k j * (num / den)

/-- `np.dot(a.T, a)` -/
def ataMat (N K : Nat) (a : Nat → Nat → α) : Mat α := mtab K K fun k l => sumN N fun i => a i k * a i l

/-- `reorder()` : rotate with the eigenvectors of aᵀa -/
def reorder (eigh : Mat α → Eig α) (N M K : Nat) (a g : Nat → Nat → α) : Mat α × Mat α :=
  let U := (eigh (ataMat N K a)).evecs
  (mtab N K fun i k => sumN K fun l => a i l * mget U l k,
   mtab K M fun k j => sumN K fun l => mget U l k * g l j)

/-- the normalisation at the end of every iteration: `g /= norm`, `a *= norm` -/
def renorm (sqrt : α → α) (N M K : Nat) (a g : Nat → Nat → α) : Mat α × Mat α :=
  let nb := normbase sqrt K M g
  (mtab N K fun i k => a i k * vget nb k, mtab K M fun k j => g k j / vget nb k)

def iterN {β : Type} (n : Nat) (f : β → β) (x : β) : β :=
  match n with
  | 0 => x
  | n + 1 => iterN n f (f x)

/-- `iterate()` after the k-means call: `g0` is what `kmeans(whiten(spectra), K)` returned (K rows);
no all-zero column (precondition, established by the caller); `nnPre` = 128 in the code. -/
def iterate (sqrt : α → α) (solve : Mat α → Vec α → Vec α) (eigh : Mat α → Eig α)
    (N M K nIter nnPre : Nat) (s0 w : Nat → Nat → α) (g0 : Nat → Nat → α) (nonneg : Bool)
    (eps : Option α) : Mat α × Mat α :=
  let sA : Mat α := if nonneg then mtab N M fun i j => if s0 i j < 0 then 0 else s0 i j else mtab N M s0
  let s := mget sA
  let nb := normbase sqrt K M g0
  let g1 := mtab K M fun k j => g0 k j / vget nb k
  let a1 := mtab N K fun i _ => sqrt ((sumN M fun j => s i j * s i j) / Scalar.ofNat M) * (1 / Scalar.ofNat K)
  let a2 := if nonneg then iterN nnPre (fun a => astepnn N M K s w (mget a) (mget g1)) a1 else a1
  iterN nIter (fun (ag : Mat α × Mat α) =>
    let ag' : Mat α × Mat α :=
      if nonneg then
        let a' := astepnn N M K s w (mget ag.1) (mget ag.2)
        (a', gstepnn N M K s w (mget a') (mget ag.2) eps)
      else
        let a' := astep solve N M K s w (mget ag.2)
        let g' := gstep solve N M K s w (mget a') (mget ag.2) eps
        reorder eigh N M K (mget a') (mget g')
    renorm sqrt N M K (mget ag'.1) (mget ag'.2)) (a2, g1)

/-! ## pca_solve (maxiter = 0: outmask = (newivar ≠ 0), no rejection) -/

structure Pca (α : Type) where
  usemask : Array Nat
  pres : Mat α          -- npix × nobj (the caller takes the first nreturn columns, transposed, as float32)
  eigenval : Vec α
  acoeff : Mat α        -- nobj × nkeep
  filtflux : Mat α

def absS (x : α) : α := if x < 0 then 0 - x else x

/-- `usemask = outmask.sum(0)` with `outmask = newivar != 0` -/
def usemask (nobj npix : Nat) (ivar : Nat → Nat → α) : Array Nat :=
  Array.ofFn (n := npix) fun p => countN nobj fun i => !(ivar i p.val == 0)

/-- the synthetic weight: mean of the non-zero inverse variances of the pixel, 1 when there is none -/
def synwvec (nobj npix : Nat) (ivar : Nat → Nat → α) : Vec α :=
  vtab npix fun p =>
    let cnt := countN nobj fun i => !(ivar i p == 0)
    if cnt = 0 then 1 else (sumN nobj fun i => if ivar i p == 0 then 0 else ivar i p) / Scalar.ofNat cnt

/-- index of the first pixel with non-zero ivar (npix when there is none; the code raises then) -/
def firstNonzero (npix : Nat) (ivar : Nat → α) : Nat :=
  ((List.range npix).find? fun p => !(ivar p == 0)).getD npix

/-- the projection of one spectrum on the current eigenspectra: `computechi2(newflux[i], sqrt(maskivar[i]), pres[:, 0:nkeep])`
with `maskivar = newivar * outmask = newivar` -/
def pcaProject (sqrt : α → α) (svd : Mat α → Svd α) (npix nkeep : Nat) (flux ivar : Nat → α) (pres : Nat → Nat → α) : Chi2 α :=
  computechi2 svd npix nkeep flux (fun p => sqrt (ivar p)) pres

/-- one pass of the inner loop: pcomp of the filtered fluxes, projection of every object, refill -/
def pcaPass (sqrt : α → α) (svd : Mat α → Svd α) (eigh : Mat α → Eig α) (argsort : Vec α → Array Nat)
    (nobj npix nkeep : Nat) (flux ivar : Nat → Nat → α) (syn : Vec α) (filt : Mat α) :
    Except String (Pcomp α × Mat α × Mat α) := do
  -- goodobj: total absolute deviation from the first good pixel must be positive for every object
  for i in List.range nobj do
    let f0 := mget filt i (firstNonzero npix (ivar i))
    let tot := sumN npix fun p => absS (mget filt i p - f0)
    if !(decide (0 < tot)) then throw "pca_solve: object without signal (goodobj branch not modelled)"
  let pc := pcomp sqrt eigh argsort npix nobj (fun p i => mget filt i p) false false
  let outs : Array (Vec α × Vec α) := Array.ofFn (n := nobj) fun i =>
    let o := pcaProject sqrt svd npix nkeep (flux i.val) (ivar i.val) (mget pc.derived)
    (o.acoeff, o.yfit)
  let filt' := mtab nobj npix fun i p =>
    (ivar i p * flux i p + vget syn p * vget (outs[i]!).2 p) / (ivar i p + vget syn p)
  let acoeff := mtab nobj nkeep fun i k => vget (outs[i]!).1 k
  pure (pc, acoeff, filt')

def pcaSolve (sqrt : α → α) (svd : Mat α → Svd α) (eigh : Mat α → Eig α) (argsort : Vec α → Array Nat)
    (nobj npix niter nkeep : Nat) (flux ivar : Nat → Nat → α) : Except String (Pca α) := do
  for i in List.range nobj do
    if firstNonzero npix (ivar i) = npix then throw "ValueError"
  if niter = 0 then throw "niter = 0: pres undefined (UnboundLocalError in the code)"
  let syn := synwvec nobj npix ivar
  let mut filt := mtab nobj npix flux
  let mut last : Option (Pcomp α × Mat α) := none
  for _ in List.range niter do
    let (pc', ac', filt') ← pcaPass sqrt svd eigh argsort nobj npix nkeep flux ivar syn filt
    last := some (pc', ac')
    filt := filt'
  match last with
  | none => throw "unreachable"
  | some (pc, acoeff) =>
    pure { usemask := usemask nobj npix ivar, pres := pc.derived, eigenval := pc.evals, acoeff := acoeff,
           filtflux := filt }

end PydlVerif.Solvers

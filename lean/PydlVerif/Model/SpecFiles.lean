/-
Model of the file-system lookup of pydl/pydlspec2d/spec1d.py (core Lean only), over `List Char` / `Nat`:

* `fmtD`                  `'{0:04d}'.format(p)` / `'{1:05d}'.format(m)`: decimal digits, left-padded with '0' to AT LEAST w
* `pathJoin`              `os.path.join` (posix) of two components
* `specPath`              spec_path (1166-1211): `path` given -> that directory for every plate, else topdir/run2d/pppp
* `pmjdStr`, `specFileName`, `specFile`
                          readspec 940-945: "{0:04d}-{1:05d}", "spPlate-{0}.fits", os.path.join(sppath[0], ..)
* `globMatch`             the names `glob.glob("{p}/spPlate-{q:04d}-*.fits")` picks from a directory listing
* `reMatchAt`, `reSearch` `re.compile(r'spPlate-[0-9]{4,}-([0-9]{5}).fits').search(f)` and `int(groups()[0])`
* `latestMjdFS`           latest_mjd (535-566) for one plate over a directory listing (a list of file names)
* `latestMjdVec`          latest_mjd for a plate vector, every plate in its own directory
* `surveyOfListing`       "the file exists" = its name is in the listing of its directory
* `readspecFS`            readspec with `align` unset on a file system given as directory listings + file contents

The directory listing is an INPUT list of names (what `os.scandir` returns); the order of the listing does not matter
for the result (maximum) - only for which malformed name raises first, and every such raise is an AttributeError.
-/
import PydlVerif.Model.SpecOrder
namespace PydlVerif.SpecOrder

/-- the character of one decimal digit -/
def digitChar : Nat → Char
  | 0 => '0' | 1 => '1' | 2 => '2' | 3 => '3' | 4 => '4' | 5 => '5' | 6 => '6' | 7 => '7' | 8 => '8' | _ => '9'

/-- `'{:d}'.format(n)` for n ≥ 0: decimal digits, most significant first -/
def decDigits (n : Nat) : List Char :=
  if n < 10 then [digitChar n] else decDigits (n / 10) ++ [digitChar (n % 10)]
decreasing_by omega

/-- left-pad with '0' to at least `w` characters (never truncates) -/
def padL (w : Nat) (l : List Char) : List Char := List.replicate (w - l.length) '0' ++ l

/-- `'{:0wd}'.format(n)` -/
def fmtD (w n : Nat) : List Char := padL w (decDigits n)

/-- `int(s)` for a string of ASCII digits -/
def decVal (l : List Char) : Nat := l.foldl (fun a c => 10 * a + (c.toNat - 48)) 0

/-- posixpath.join of two components -/
def pathJoin (a b : List Char) : List Char :=
  match b with
  | '/' :: _ => b
  | _ => if a = [] ∨ a.getLast? = some '/' then a ++ b else a ++ '/' :: b

/-- spec_path: one directory per plate -/
def specPath (path : Option (List Char)) (topdir run2d : List Char) (plates : List Nat) : List (List Char) :=
  plates.map (fun p => match path with
    | some d => d
    | none => pathJoin (pathJoin topdir run2d) (fmtD 4 p))

def sPfx : List Char := ['s', 'p', 'P', 'l', 'a', 't', 'e', '-']
def sSfx : List Char := ['.', 'f', 'i', 't', 's']

/-- `pmjdstr = "{0:04d}-{1:05d}".format(plate, mjd)` -/
def pmjdStr (plate mjd : Nat) : List Char := fmtD 4 plate ++ '-' :: fmtD 5 mjd

/-- `"spPlate-{0}.fits".format(pmjdstr)` -/
def specFileName (plate mjd : Nat) : List Char := sPfx ++ (pmjdStr plate mjd ++ sSfx)

/-- `spfile = os.path.join(sppath[0], "spPlate-…")` -/
def specFile (dir : List Char) (plate mjd : Nat) : List Char := pathJoin dir (specFileName plate mjd)

/-- does `name` (a directory entry) match the glob `spPlate-{q:04d}-*.fits`?  (`*` matches any string, also the empty one;
all other characters of the pattern are literal) -/
def globMatch (plate : Nat) (name : List Char) : Bool :=
  let pfx := sPfx ++ (fmtD 4 plate ++ ['-'])
  pfx.isPrefixOf name && sSfx.isSuffixOf (name.drop pfx.length)

/-- the regular expression `spPlate-[0-9]{4,}-([0-9]{5}).fits` matched at the head of `l`; the value is `int(group 1)`.
`[0-9]{4,}` is greedy and is followed by a literal '-', so it takes the whole run of digits. -/
def reMatchAt (l : List Char) : Option Nat :=
  if sPfx.isPrefixOf l then
    let r := l.drop 8
    let ds := r.takeWhile Char.isDigit
    match r.dropWhile Char.isDigit with
    | '-' :: r3 =>
      let m := r3.take 5
      if 4 ≤ ds.length ∧ m.length = 5 ∧ m.all Char.isDigit = true then
        match r3.drop 5 with
        | c :: r4 => if c ≠ '\n' ∧ ['f', 'i', 't', 's'].isPrefixOf r4 = true then some (decVal m) else none
        | [] => none
      else none
    | _ => none
  else none

/-- `mjdre.search(f)`: the leftmost match -/
def reSearch : List Char → Option Nat
  | [] => none
  | c :: cs => match reMatchAt (c :: cs) with
    | some m => some m
    | none => reSearch cs

/-- latest_mjd for one plate: `bigmjd = 0`; for every globbed file `thismjd = int(mjdre.search(f).groups()[0])`
(AttributeError when the expression does not match), keep the largest -/
def latestMjdFS (dir : List Char) (listing : List (List Char)) (plate : Nat) : Except String Nat :=
  listing.foldlM (fun big name =>
    if globMatch plate name then
      match reSearch (dir ++ '/' :: name) with
      | none => throw "AttributeError"
      | some m => pure (if m > big then m else big)
    else pure big) 0

/-- latest_mjd for a plate vector: `ls` = directory ↦ its listing, `dirs` = spec_path of the plates -/
def latestMjdVec (ls : List Char → List (List Char)) (path : Option (List Char)) (topdir run2d : List Char)
    (plates : List Nat) : Except String (List Nat) :=
  (plates.zip (specPath path topdir run2d plates)).mapM (fun pd => latestMjdFS pd.2 (ls pd.2) pd.1)

/-- the value latest_mjd has for a plate when nothing raises (0 otherwise; readspec has raised by then) -/
def latestOf (ls : List Char → List (List Char)) (dir : List Char) (plate : Nat) : Nat :=
  match latestMjdFS dir (ls dir) plate with
  | .ok m => m
  | .error _ => 0

/-- the files readspec can open in directory `dir` (path= given): spPlate-pppp-mmmmm.fits exists iff its name is listed -/
def surveyOfListing {α τ} (listing : List (List Char)) (content : List Char → PlateFile α τ) : Survey α τ :=
  fun p m => if specFileName p m ∈ listing then some (content (specFileName p m)) else none

/-- readspec after latest_mjd has returned -/
def readspecFSCore {α τ} [Scalar α] (argsort : List Nat → List Nat) (dir : List Char) (listing : List (List Char))
    (content : List Char → PlateFile α τ) (platein : Arg Nat) (mjd : Option (Arg Nat)) (fiber : Arg Int) :
    Except String (Result α τ) := do
  let (pv, mv, fv) ← normalize (latestOf (fun _ => listing) dir) platein mjd fiber
  readspecCore argsort (surveyOfListing listing content) pv mv fv

/-- readspec (`path=dir`, `fiber` given, `align`/`znum` unset) on a directory listing: with `mjd=None` latest_mjd globs the
listing for every plate (and raises AttributeError on a malformed name before anything is read), the loop opens
`spPlate-pppp-mmmmm.fits` by name -/
def readspecFS {α τ} [Scalar α] (argsort : List Nat → List Nat) (dir : List Char) (listing : List (List Char))
    (content : List Char → PlateFile α τ) (platein : Arg Nat) (mjd : Option (Arg Nat)) (fiber : Arg Int) :
    Except String (Result α τ) :=
  match mjd, platein.toList.mapM (latestMjdFS dir listing) with
  | none, .error e => .error e
  | _, _ => readspecFSCore argsort dir listing content platein mjd fiber

end PydlVerif.SpecOrder

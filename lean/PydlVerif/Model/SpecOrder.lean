/-
Model of pydl/pydlspec2d/spec1d.py (core Lean only):

* `specAppend`            spec_append (1127-1163): zero padding, `pixshift` of either sign
* `latestMjd`             latest_mjd (535-565): largest MJD among the spPlate files of a plate
* `normalize`             readspec 863-915: scalar / vector calling conventions, numpy broadcasting
* `readspecX` (`stepX`, `normalizeAll`, `numberOfFibers`)
                          the same with `znum=` and `fiber=None` (extension, end of the file)
* `step`, `finish`, `readspec`
                          readspec 916-1086 with `align` and `znum` unset: grouping of the
                          requests by the unique values of `(plate << 16) + mjd`, one file per
                          key, per-file row selection `thisfiber - 1`, accumulation with
                          `spec_append(.., pixshift=0)` / `np.concatenate`, final gather with
                          `j = allpmjdindex.argsort()`.

File contents are an abstract function (`Survey`): plate, mjd ↦ the spPlate file
(and the spZbest / photoPlate tables when those files exist).  `np.argsort` is a
parameter of `readspec`; its contract (`IsArgsort`) is stated in Props/C16.lean.
Pixels have any type `α` with the `Scalar` operations (Float in the driver); table
rows are values of an arbitrary type `τ`.
-/
import PydlVerif.Model.Scalar
namespace PydlVerif.SpecOrder

/-! ## spec_append -/

/-- a 2-d numpy array: `shape = (rows.length, npix)` -/
structure Img (α : Type) where
  npix : Nat
  rows : List (List α)

/-- one row of `spec3` after `spec3[r, nadd:nadd+len] = row` (all other cells are the zeros of `np.zeros`) -/
def place {α} (z : α) (w nadd : Nat) (r : List α) : List α :=
  List.replicate nadd z ++ r ++ List.replicate (w - (nadd + r.length)) z

/-- `nadd1`: zeros in front of `spec1` -/
def nadd1 (pixshift : Int) : Nat :=
  if pixshift != 0 then (if pixshift < 0 then (-pixshift).toNat else 0) else 0

/-- `nadd2`: zeros in front of `spec2` -/
def nadd2 (pixshift : Int) : Nat :=
  if pixshift != 0 then (if pixshift < 0 then 0 else pixshift.toNat) else 0

def specAppend {α} (z : α) (s1 s2 : Img α) (pixshift : Int) : Img α :=
  let a1 := nadd1 pixshift
  let a2 := nadd2 pixshift
  let maxpix := max (s1.npix + a1) (s2.npix + a2)
  ⟨maxpix, s1.rows.map (place z maxpix a1) ++ s2.rows.map (place z maxpix a2)⟩

/-! ## files -/

/-- what readspec reads from one plate-MJD -/
structure PlateFile (α τ : Type) where
  npix : Nat                 -- NAXIS1 of the primary header
  nfib : Nat                 -- number of rows of every image and table
  c0 : α                     -- COEFF0
  c1 : α                     -- COEFF1
  img : Nat → Nat → List α   -- HDU number (0 1 2 3 4 6), row ↦ pixels
  plug : Nat → τ             -- HDU 5 (plug-map table), row ↦ record
  zans : Option (Nat → τ)    -- spZbest HDU 1 when the file exists
  tsobj : Option (Nat → τ)   -- photoPlate HDU 1 when the file exists

/-- plate, mjd ↦ file, `none` when spPlate-pppp-mmmmm.fits does not exist -/
abbrev Survey (α τ : Type) := Nat → Nat → Option (PlateFile α τ)

/-- latest_mjd for one plate: `bigmjd = 0`, then the maximum over the files globbed for the plate -/
def latestMjd (files : List (Nat × Nat)) (plate : Nat) : Nat :=
  files.foldl (fun big f => if f.1 == plate && f.2 > big then f.2 else big) 0

/-! ## calling conventions (readspec 863-915) -/

inductive Arg (β : Type) where
  | scalar (v : β)
  | vec (l : List β)

/-- the value as numpy sees it in `np.zeros(n) + x` -/
def Arg.toList {β} : Arg β → List β
  | .scalar v => [v]
  | .vec l => l

/-- `len(x)`, or 1 after the `TypeError` of a scalar -/
def Arg.len {β} : Arg β → Nat
  | .scalar _ => 1
  | .vec l => l.length

/-- `np.zeros(n) + l` for a list / 0-d value: numpy broadcasting of shapes (n,) and (len l,) -/
def bcast {β} (n : Nat) (l : List β) : Except String (List β) :=
  if l.length == n then pure l
  else match l with
    | [v] => pure (List.replicate n v)
    | _ => if n == 1 then pure l else throw "ValueError"

/-- (platevec, mjdvec, fibervec), all of the common broadcast length -/
def normalize (latest : Nat → Nat) (platein : Arg Nat) (mjd : Option (Arg Nat)) (fiber : Arg Int) :
    Except String (List Nat × List Nat × List Int) := do
  let plate := platein.toList
  let nplate := platein.len
  let nfiber := fiber.len
  -- an empty argument never gets as far as the reorder step (UnboundLocalError / ValueError)
  if nplate == 0 || nfiber == 0 then throw "Empty"
  if nplate > 1 && nfiber > 1 && nplate != nfiber then throw "TypeError"
  let platevec ← if nplate > 1 then pure plate else bcast nfiber plate
  let fibervec ← if nfiber > 1 then pure fiber.toList else bcast nplate fiber.toList
  let mjdvec ← match mjd with
    | none => pure (platevec.map latest)
    | some m =>
      if m.len != nplate then throw "TypeError"
      else bcast nplate m.toList
  -- `(platevec << 16) + mjdvec`, `platevec == p & mjdvec == m`: broadcast to the common length
  let mjdvec ← bcast platevec.length mjdvec
  pure (platevec, mjdvec, fibervec)

/-! ## grouping, reading, reordering (readspec 916-1086) -/

/-- `(platevec << 16) + mjdvec` (u8 arithmetic; no wrap for i4 plates) -/
def key (plate mjd : Nat) : Nat := (plate <<< 16) + mjd

def insertU (x : Nat) : List Nat → List Nat
  | [] => [x]
  | y :: ys => if x < y then x :: y :: ys else if x = y then y :: ys else y :: insertU x ys

/-- np.unique: sorted, without repetitions -/
def uniq (l : List Nat) : List Nat := l.foldr insertU []

/-- numpy index `fiber - 1` into an axis of length `nfib` (negative indices wrap once) -/
def rowIndex (nfib : Nat) (fiber : Int) : Option Nat :=
  let k := fiber - 1
  if 0 ≤ k ∧ k < nfib then some k.toNat
  else if k < 0 ∧ -(nfib : Int) ≤ k then some (k + nfib).toNat
  else none

/-- the image arrays of the result in the order of `hdunames` without 'plugmap';
7 stands for 'loglam', which is computed and not read -/
def imgHdus : List Nat := [0, 1, 2, 3, 4, 6, 7]

/-- `loglam0 = c0 + c1*np.arange(npix)` -/
def loglam0 {α} [Scalar α] (f : PlateFile α τ) : List α :=
  (List.range f.npix).map (fun p => f.c0 + f.c1 * Scalar.ofNat p)

/-- `tmp` for image HDU `h` and the selected rows -/
def tmpImg {α τ} [Scalar α] (f : PlateFile α τ) (rows : List Nat) (h : Nat) : Img α :=
  if h == 7 then ⟨f.npix, rows.map (fun _ => loglam0 f)⟩ else ⟨f.npix, rows.map (f.img h)⟩

structure Acc (α τ : Type) where
  allidx : List Nat               -- allpmjdindex
  imgs : List (Img α)             -- spplate_data[name] for name in imgHdus
  plug : List τ                   -- spplate_data['plugmap'] (all columns of a row together)
  zans : Option (List τ)          -- spplate_data['zans'] if the key exists
  tsobj : Option (List τ)         -- spplate_data['tsobj'] if the key exists

/-- first use sets the dictionary entry, later ones concatenate -/
def catOpt {τ} (acc : Option (List τ)) (new : Option (List τ)) : Option (List τ) :=
  match acc, new with
  | a, none => a
  | none, some n => some n
  | some a, some n => some (a ++ n)

/-- the data part of the loop body: `tmp` arrays of file `f` for the request positions `pmjdindex`
(file rows `rows`), stored on first use and appended afterwards -/
def stepOk {α τ} [Scalar α] (f : PlateFile α τ) (pmjdindex rows : List Nat) (st : Option (Acc α τ)) : Acc α τ :=
  let tmps := imgHdus.map (tmpImg f rows)
  let plug := rows.map f.plug
  let zans := f.zans.map (fun t => rows.map t)
  let tsobj := f.tsobj.map (fun t => rows.map t)
  match st with
  | none => ⟨pmjdindex, tmps, plug, catOpt none zans, catOpt none tsobj⟩
  | some a =>
    ⟨a.allidx ++ pmjdindex,
      List.zipWith (fun s t => specAppend (Scalar.ofNat 0) s t 0) a.imgs tmps,
      a.plug ++ plug, catOpt a.zans zans, catOpt a.tsobj tsobj⟩

/-- request positions that belong to the key `u`: `((platevec == thisplate) & (mjdvec == thismjd)).nonzero()` -/
def idxOf (pv mv : List Nat) (u : Nat) : List Nat :=
  (List.range pv.length).filter
    (fun i => pv.getD i 0 == u >>> 16 && mv.getD i 0 == u &&& ((1 <<< 16) - 1))

/-- body of the loop over the unique plate-MJD keys -/
def step {α τ} [Scalar α] (S : Survey α τ) (pv mv : List Nat) (fv : List Int)
    (st : Option (Acc α τ)) (u : Nat) : Except String (Option (Acc α τ)) :=
  let thisplate := u >>> 16
  let thismjd := u &&& ((1 <<< 16) - 1)
  let pmjdindex := idxOf pv mv u
  let thisfiber := pmjdindex.map (fun i => fv.getD i 0)
  match S thisplate thismjd with
  | none => throw "FileNotFoundError"
  | some f =>
    if !(thisfiber.all (fun x => (rowIndex f.nfib x).isSome)) then throw "IndexError"
    else pure (some (stepOk f pmjdindex (thisfiber.map (fun x => (rowIndex f.nfib x).getD 0)) st))

/-- `x[j]` / `x[j, :]`; numpy raises IndexError for an index outside the axis -/
def gather {β} (l : List β) (j : List Nat) : Except String (List β) :=
  if j.all (· < l.length) then pure (j.filterMap (l[·]?)) else throw "IndexError"

def gatherOpt {β} (l : Option (List β)) (j : List Nat) : Except String (Option (List β)) :=
  match l with
  | none => pure none
  | some l => do pure (some (← gather l j))

structure Result (α τ : Type) where
  imgs : List (Img α)
  plug : List τ
  zans : Option (List τ)
  tsobj : Option (List τ)

/-- lines 1063-1078 -/
def finish {α τ} (argsort : List Nat → List Nat) (a : Acc α τ) : Except String (Result α τ) := do
  let j := argsort a.allidx
  let imgs ← a.imgs.mapM (fun s => do pure (⟨s.npix, ← gather s.rows j⟩ : Img α))
  let plug ← gather a.plug j
  let zans ← gatherOpt a.zans j
  let tsobj ← gatherOpt a.tsobj j
  pure ⟨imgs, plug, zans, tsobj⟩

/-- readspec on already normalised request vectors -/
def readspecCore {α τ} [Scalar α] (argsort : List Nat → List Nat) (S : Survey α τ)
    (pv mv : List Nat) (fv : List Int) : Except String (Result α τ) := do
  let upmjd := uniq (List.zipWith key pv mv)
  match ← upmjd.foldlM (step S pv mv fv) none with
  | none => throw "UnboundLocalError"
  | some a => finish argsort a

def readspec {α τ} [Scalar α] (argsort : List Nat → List Nat) (S : Survey α τ) (files : List (Nat × Nat))
    (platein : Arg Nat) (mjd : Option (Arg Nat)) (fiber : Arg Int) : Except String (Result α τ) := do
  let (pv, mv, fv) ← normalize (latestMjd files) platein mjd fiber
  readspecCore argsort S pv mv fv

/-! ## extension: `znum=` (spZall) and `fiber=None` (all fibres of the plates)

`readspecX` is readspec 863-1086 with `align` unset: `znum=` reads row
`(thisfiber-1)*nper + znum - 1` of spZall instead of row `thisfiber-1` of spZbest;
`fiber=None` builds the request vectors from `number_of_fibers` (568-626).  With `znum`
unset and `fiber` given it is `readspec` above (`readspecX_plain` in Props/C16.lean). -/

/-- spZall-pppp-mmmmm.fits: `nper` = DIMS0 of the primary header (fits per fibre), HDU 1 has `nrows` rows -/
structure ZAll (τ : Type) where
  nper : Nat
  nrows : Nat
  row : Nat → τ

/-- plate, mjd ↦ spZall file, `none` when it does not exist -/
abbrev ZSurvey (τ : Type) := Nat → Nat → Option (ZAll τ)

/-- numpy index `k` into an axis of length `n` (negative indices wrap once) -/
def npIndex (n : Nat) (k : Int) : Option Nat :=
  if 0 ≤ k ∧ k < n then some k.toNat
  else if k < 0 ∧ -(n : Int) ≤ k then some (k + n).toNat
  else none

/-- `stepOk` with the rows of the redshift table given (spZbest or spZall) -/
def stepOkG {α τ} [Scalar α] (f : PlateFile α τ) (pmjdindex rows : List Nat) (zans : Option (List τ))
    (st : Option (Acc α τ)) : Acc α τ :=
  let tmps := imgHdus.map (tmpImg f rows)
  let plug := rows.map f.plug
  let tsobj := f.tsobj.map (fun t => rows.map t)
  match st with
  | none => ⟨pmjdindex, tmps, plug, catOpt none zans, catOpt none tsobj⟩
  | some a =>
    ⟨a.allidx ++ pmjdindex,
      List.zipWith (fun s t => specAppend (Scalar.ofNat 0) s t 0) a.imgs tmps,
      a.plug ++ plug, catOpt a.zans zans, catOpt a.tsobj tsobj⟩

/-- `zfiber = (thisfiber-1)*nper + kwargs['znum'] - 1` as a numpy index into the spZall table -/
def zIndex {τ} (z : ZAll τ) (znum : Int) (fiber : Int) : Option Nat :=
  npIndex z.nrows ((fiber - 1) * (z.nper : Int) + znum - 1)

/-- body of the loop over the unique plate-MJD keys, `znum` possibly set -/
def stepX {α τ} [Scalar α] (S : Survey α τ) (Z : ZSurvey τ) (znum : Option Int) (pv mv : List Nat) (fv : List Int)
    (st : Option (Acc α τ)) (u : Nat) : Except String (Option (Acc α τ)) :=
  let thisplate := u >>> 16
  let thismjd := u &&& ((1 <<< 16) - 1)
  let pmjdindex := idxOf pv mv u
  let thisfiber := pmjdindex.map (fun i => fv.getD i 0)
  match S thisplate thismjd with
  | none => throw "FileNotFoundError"
  | some f =>
    if !(thisfiber.all (fun x => (rowIndex f.nfib x).isSome)) then throw "IndexError"
    else
      let rows := thisfiber.map (fun x => (rowIndex f.nfib x).getD 0)
      match znum with
      | none => pure (some (stepOkG f pmjdindex rows (f.zans.map (fun t => rows.map t)) st))
      | some k =>
        match Z thisplate thismjd with
        | none => pure (some (stepOkG f pmjdindex rows none st))
        | some z =>
          if !(thisfiber.all (fun x => (zIndex z k x).isSome)) then throw "IndexError"
          else pure (some (stepOkG f pmjdindex rows (some (thisfiber.map (fun x => z.row ((zIndex z k x).getD 0)))) st))

/-- readspec on already normalised request vectors, `znum` possibly set -/
def readspecCoreX {α τ} [Scalar α] (argsort : List Nat → List Nat) (S : Survey α τ) (Z : ZSurvey τ)
    (znum : Option Int) (pv mv : List Nat) (fv : List Int) : Except String (Result α τ) := do
  let upmjd := uniq (List.zipWith key pv mv)
  match ← upmjd.foldlM (stepX S Z znum pv mv fv) none with
  | none => throw "UnboundLocalError"
  | some a => finish argsort a

/-- one row of platelist.fits (HDU 1) -/
structure PlateListRow where
  plate : Nat
  mjd : Nat
  run2d : String
  run1d : String
  ntotal : Nat

/-- number_of_fibers (568-626): 640 when every plate's latest MJD is before 55025, otherwise every
plate is looked up in platelist.fits (`none`: the file does not exist) under (plate, latest MJD, run2d,
run1d); the first matching row counts, no matching row is an IndexError -/
def numberOfFibers (latest : Nat → Nat) (platelist : Option (List PlateListRow)) (run2d run1d : String)
    (plate : List Nat) : Except String (List Nat) :=
  let mjd := plate.map latest
  if mjd.all (· < 55025) then pure (mjd.map (fun _ => 640))
  else match platelist with
    | none => throw "FileNotFoundError"
    | some rows =>
      plate.mapM (fun p =>
        match rows.filter (fun r => r.plate == p && r.mjd == latest p && r.run2d == run2d && r.run1d == run1d) with
        | r :: _ => pure r.ntotal
        | [] => throw "IndexError")

/-- `n = np.unique(nfibers[plate == p])[0]` -/
def countFor (plate nfibers : List Nat) (p : Nat) : Nat :=
  (uniq (((plate.zip nfibers).filter (fun x => x.1 == p)).map (·.2))).headD 0

/-- readspec 877-890 and 906-915 (`fiber is None`): (platevec, mjdvec, fibervec).  `platevec` / `fibervec` are
`np.zeros(total_fibers)` filled block by block for the sorted distinct plates; what is not filled stays 0 -/
def normalizeAll (latest : Nat → Nat) (nfOf : List Nat → Except String (List Nat))
    (platein : Arg Nat) (mjd : Option (Arg Nat)) : Except String (List Nat × List Nat × List Int) := do
  let plate := platein.toList
  let nplate := platein.len
  let nfibers ← nfOf plate
  let total := nfibers.sum
  let blocks := (uniq plate).map (fun p => (p, countFor plate nfibers p))
  let pfill := blocks.flatMap (fun b => List.replicate b.2 b.1)
  let ffill := blocks.flatMap (fun b => (List.range b.2).map (fun (i : Nat) => (i : Int) + 1))
  let platevec := pfill ++ List.replicate (total - pfill.length) 0
  let fibervec := ffill ++ List.replicate (total - ffill.length) 0
  let mjdvec ← match mjd with
    | none => pure (platevec.map latest)
    | some m =>
      if m.len != nplate then throw "TypeError"
      else bcast nplate m.toList
  let mjdvec ← bcast platevec.length mjdvec
  pure (platevec, mjdvec, fibervec)

/-- readspec with `align` unset: `fiber = none` is `fiber=None`, `znum = none` is "no znum keyword" -/
def readspecX {α τ} [Scalar α] (argsort : List Nat → List Nat) (S : Survey α τ) (Z : ZSurvey τ)
    (files : List (Nat × Nat)) (platelist : Option (List PlateListRow)) (run2d run1d : String)
    (platein : Arg Nat) (mjd : Option (Arg Nat)) (fiber : Option (Arg Int)) (znum : Option Int) :
    Except String (Result α τ) := do
  let (pv, mv, fv) ← match fiber with
    | some f => normalize (latestMjd files) platein mjd f
    | none => normalizeAll (latestMjd files) (numberOfFibers (latestMjd files) platelist run2d run1d) platein mjd
  readspecCoreX argsort S Z znum pv mv fv

/-- a concrete argsort (stable merge sort of the positions by value) for the driver -/
def argsortImpl (a : List Nat) : List Nat :=
  (List.range a.length).mergeSort (fun i k => a.getD i 0 ≤ a.getD k 0)

end PydlVerif.SpecOrder

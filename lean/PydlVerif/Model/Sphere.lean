/-
Executable model of `pydl.pydlutils.spheregroup.spherematch` (C04) and of the
parts of class `chunks` it uses, after the `fix:` commits of branch work-C04 and the upper-boundary rule added by C05
(`decIndex`).

Layer 1 (combinatorial core, abstract data): `matchRaw` (the double loop,
lines 619-630), `applyPerm` (`x[s]` for the permutation returned by argsort - an
external kernel: ANY sorting permutation), `greedy` (the maxmatch bookkeeping,
both passes, lines 641-665), `assignCells` (the two chunkDone passes of
`chunks.assign` for one point, given the list of cells to visit).

Layer 2 (the grid, generic over `[Trig α]`, executed at `Float`):
`chunksInit` (lines 18-109: decBounds, raOffset search, nRa, raBounds, polar
rules), `getbounds` (the while loops in dec and in RA), `wrapIdx`/`cellsOfRange`
(index arithmetic of assign), `assign`, `get`, `gcirc` (goddard/astro.py
units=2), `spherematch`.

Domain guards (the model answers `domain:` and the harness never sends such
input): RA outside [0,360) (np.fmod is modelled on [0,720) only), minSize ≤ 0,
empty first list.  Core Lean only.
-/
import PydlVerif.Model.Scalar
namespace PydlVerif.Sphere
open PydlVerif

/-! ## Layer 1: combinatorial core -/

abbrev Pair (α : Type) := Nat × Nat × α

/-- lines 619-630: for every point of the first list, every index stored in its
cell, keep the pair when `sep < matchlength` -/
def matchRaw {α Cell : Type} [LT α] [DecidableLT α] (n1 : Nat) (cellOf : Nat → Cell)
    (chunkList : Cell → List Nat) (sep : Nat → Nat → α) (ml : α) : List (Pair α) :=
  (List.range n1).flatMap fun i =>
    ((chunkList (cellOf i)).filter fun k => decide (sep i k < ml)).map fun k => (i, k, sep i k)

/-- `x[s]` -/
def applyPerm {β : Type} [Inhabited β] (l : List β) (s : List Nat) : List β :=
  s.map fun i => l.getD i default

/-- `gotten[i] += 1` ; the counter arrays are total maps here (all indices come
from `range(ra1.size)` / chunkList, hence are in range) -/
def bump (g : Nat → Nat) (i : Nat) : Nat → Nat := fun j => if j = i then g j + 1 else g j

/-- first pass, lines 645-650: count the accepted pairs -/
def greedyCount {α : Type} (k : Nat) : List (Pair α) → (Nat → Nat) → (Nat → Nat) → Nat
  | [], _, _ => 0
  | (i, j, _) :: rest, g1, g2 =>
    if g1 i < k ∧ g2 j < k then greedyCount k rest (bump g1 i) (bump g2 j) + 1
    else greedyCount k rest g1 g2

/-- second pass, lines 657-665: the accepted pairs in order -/
def greedyFill {α : Type} (k : Nat) : List (Pair α) → (Nat → Nat) → (Nat → Nat) → List (Pair α)
  | [], _, _ => []
  | (i, j, d) :: rest, g1, g2 =>
    if g1 i < k ∧ g2 j < k then (i, j, d) :: greedyFill k rest (bump g1 i) (bump g2 j)
    else greedyFill k rest g1 g2

/-- lines 641-665: arrays of length `nmatch` (first pass) are allocated as zeros
and filled from position 0 by the second pass -/
def greedy {α : Type} [Inhabited α] (k : Nat) (sorted : List (Pair α)) : List (Pair α) :=
  let n := greedyCount k sorted (fun _ => 0) (fun _ => 0)
  let out := greedyFill k sorted (fun _ => 0) (fun _ => 0)
  out.take n ++ List.replicate (n - out.length) (0, 0, default)

/-- tables indexed by (dec band, RA cell) -/
abbrev Tab (β : Type) := Array (Array β)

def Tab.get {β : Type} [Inhabited β] (t : Tab β) (c : Nat × Nat) : β := (Array.getD t c.1 #[]).getD c.2 default

def Tab.modify {β : Type} (t : Tab β) (c : Nat × Nat) (f : β → β) : Tab β :=
  Array.modify t c.1 fun row => Array.modify row c.2 f

/-- state of `assign`: `chunkList` and `chunkDone` are two tables of the same
shape in the code; the model keeps them as one table of pairs -/
abbrev CellSt := List Nat × Bool

/-- assign lines 166-175: reset chunkDone on the (wider) range -/
def resetPass (st : Tab CellSt) (cells : List (Nat × Nat)) : Tab CellSt :=
  cells.foldl (fun t c => t.modify c fun x => (x.1, false)) st

/-- assign lines 176-192: append `i` to every visited cell not yet done -/
def appendPass (i : Nat) (st : Tab CellSt) (cells : List (Nat × Nat)) : Tab CellSt :=
  cells.foldl (fun t c => if (t.get c).2 then t else t.modify c fun x => (x.1 ++ [i], true)) st

/-- one iteration of the loop over points in `assign` -/
def assignCells (i : Nat) (st : Tab CellSt) (reset visit : List (Nat × Nat)) : Tab CellSt :=
  appendPass i (resetPass st reset) visit

/-! ## Layer 2: the grid -/

section loops
variable {α : Type} [Scalar α]

/-- the cell index formula shared by `get` and `getbounds`:
`int(floor((x - b[0]) * n / (b[n] - b[0])))` -/
def cellIndex (b : Array α) (n : Nat) (x : α) : Int :=
  Scalar.floor ((x - b.getD 0 0) * Scalar.ofNat n / (b.getD n 0 - b.getD 0 0))

/-- `while dec - decBounds[c] < m and c > 0: c -= 1` -/
def decDown (decBounds : Array α) (dec m : α) : Nat → Nat
  | 0 => 0
  | c+1 => if dec - decBounds.getD (c+1) 0 < m then decDown decBounds dec m c else c+1

/-- `while decBounds[c+1] - dec < m and c < nDec-1: c += 1` (fuel = nDec-1-c) -/
def decUp (decBounds : Array α) (dec m : α) (c : Nat) : Nat → Nat
  | 0 => c
  | f+1 => if decBounds.getD (c+1) 0 - dec < m then decUp decBounds dec m (c+1) f else c

/-- the downward RA loop: stops at -1 or at the first cell whose lower edge is
not within the margin -/
def raDown (b : Array α) (ra raMargin : α) : Nat → Int
  | 0 => if ra - b.getD 0 0 < raMargin then -1 else 0
  | r+1 => if ra - b.getD (r+1) 0 < raMargin then raDown b ra raMargin r else ((r+1 : Nat) : Int)

/-- the upward RA loop (fuel = nRa - r): stops at nRa or at the first cell whose
upper edge is not within the margin -/
def raUp (b : Array α) (ra raMargin : α) (r : Nat) : Nat → Nat
  | 0 => r
  | f+1 => if b.getD (r+1) 0 - ra < raMargin then raUp b ra raMargin (r+1) f else r

end loops

section grid
variable {α : Type} [Trig α]

def absS (x : α) : α := if x < 0 then -x else x
/-- `np.deg2rad` = multiplication by the double constant pi/180 -/
def deg2rad (x : α) : α := x * (Trig.pi / 180)
def rad2deg (x : α) : α := x * (180 / Trig.pi)
def cosd (x : α) : α := Trig.cos (deg2rad x)

/-- `np.fmod(x, 360.0)` for 0 ≤ x < 720 (exact in binary64: Sterbenz) -/
def fmod360 (x : α) : α := if x < 360 then x else x - 360

def amin (a : Array α) : α := a.foldl (fun m x => if x < m then x else m) (a.getD 0 0)
def amax (a : Array α) : α := a.foldl (fun m x => if m < x then x else m) (a.getD 0 0)

structure Grid (α : Type) where
  minSize : α
  nDec : Nat
  decBounds : Array α
  raOffset : α
  raMin : α
  raMax : α
  raRange : α
  nRa : Array Nat
  raBounds : Array (Array α)

/-- `getraminmax` -/
def getRaMinMax (ra : Array α) (off : α) : α × α :=
  let cur := ra.map fun r => fmod360 (r + off)
  (amin cur, amax cur)

/-- `rarange`: the offset (of 6) with the smallest range that stays clear of the seam -/
def raRangeSearch (ra : Array α) (minSize : α) : α × α :=
  (List.range 6).foldl (fun (st : α × α) j =>
    let off : α := 360 * Scalar.ofNat j / 6
    let (raMin, raMax) := getRaMinMax ra off
    let raRange := raMax - raMin
    if 2 * (raRange - st.1) / (raRange + st.1) < -(1.0e-5 : α) ∧ minSize < raMin ∧ raMax < 360 - minSize
    then (raRange, off) else st) ((361 : α), (0 : α))

/-- `chunks.cosDecMin(i)` -/
def cosDecMinOf (decBounds : Array α) (i : Nat) : α :=
  if absS (decBounds.getD (i+1) 0) < absS (decBounds.getD i 0) then cosd (decBounds.getD i 0)
  else cosd (decBounds.getD (i+1) 0)

/-- `chunks.__init__` -/
def chunksInit (ra dec : Array α) (minSize : α) : Except String (Grid α) := do
  if ra.size = 0 ∨ ra.size ≠ dec.size then throw "domain: empty or ragged first list"
  if ¬ (0 < minSize) then throw "domain: minSize <= 0"
  if ra.any (fun r => r < 0 ∨ ¬ (r < 360)) then throw "domain: ra outside [0,360)"
  let decMin0 := amin dec
  let decMax0 := amax dec
  let decRange0 := decMax0 - decMin0
  let nDec : Nat := (3 + Scalar.floor (decRange0 / minSize)).toNat
  let decRange := minSize * Scalar.ofNat nDec
  let decMin1 := decMin0 - 0.5 * (decRange - decMax0 + decMin0)
  let decMax1 := decMin1 + decRange
  let decMin := if decMin1 < -90 + 3 * minSize then (-90 : α) else decMin1
  let decMax := if 90 - 3 * minSize < decMax1 then (90 : α) else decMax1
  let decBounds0 : Array α := (Array.range (nDec + 1)).map fun k =>
    decMin + ((decMax - decMin) * Scalar.ofNat k) / Scalar.ofNat nDec
  -- fix: the last edge is decMax itself
  let decBounds := decBounds0.set! nDec decMax
  let c0 := cosDecMinOf (#[decBounds.getD 0 0, decBounds.getD nDec 0]) 0
  if c0 ≤ 0 then throw "PydlutilsException: cosDecMin not positive"
  let (_, raOffset) := raRangeSearch ra (minSize / c0)
  let (raMin, raMax) := getRaMinMax ra raOffset
  let raRange := raMax - raMin
  let mut nRa : Array Nat := #[]
  let mut raBounds : Array (Array α) := #[]
  for i in List.range nDec do
    let c := cosDecMinOf decBounds i
    if c ≤ 0 then throw "PydlutilsException: cosDecMin not positive"
    let n0 : Nat := (3 + Scalar.floor (c * raRange / minSize)).toNat
    let raRangeTmp := minSize * Scalar.ofNat n0 / c
    let raMinTmp := raMin - 0.5 * (raRangeTmp - raMax + raMin)
    let raMaxTmp := raMinTmp + raRangeTmp
    let embrace : Bool := decide (360 ≤ raRangeTmp) || decide (raMinTmp ≤ minSize / c) ||
      decide (360 - minSize / c ≤ raMaxTmp) || (absS (decBounds.getD i 0) == 90)
    let lo : α := if embrace then 0 else raMinTmp
    let hi : α := if embrace then 360 else raMaxTmp
    let n : Nat := if (decBounds.getD i 0 == -90) || (decBounds.getD (i+1) 0 == 90) then 1 else n0
    nRa := nRa.push n
    raBounds := raBounds.push ((Array.range (n + 1)).map fun k => lo + (hi - lo) * Scalar.ofNat k / Scalar.ofNat n)
  pure { minSize, nDec, decBounds, raOffset, raMin, raMax, raRange, nRa, raBounds }

/-- fix D5: the largest RA difference at which a point of a band whose
|dec| ≤ arccos cosDecMin can be within `m` of a point at declination `dec`
(from sin²(d/2) ≥ cos δ₁ cos δ₂ sin²(ΔRA/2)); 360 when unbounded -/
def raMarginOf (cosDecMin dec m : α) : α :=
  let sinHalf := Trig.sin (deg2rad (0.5 * m)) / Trig.sqrt (cosDecMin * cosd dec)
  if sinHalf < 1 then 2 * rad2deg (Trig.arcsin sinHalf) else 360

/-- the declination band index used by `get` and `getbounds`: the floor formula, with the rule
that a point ON the upper boundary belongs to the last slice (lines 201-206 / 258-260) -/
def decIndex (g : Grid α) (dec : α) : Int :=
  let d := cellIndex g.decBounds g.nDec dec
  if d = (g.nDec : Int) ∧ dec ≤ g.decBounds.getD g.nDec 0 then (g.nDec : Int) - 1 else d

structure Bounds where
  decMin : Nat
  decMax : Nat
  /-- per band decMin..decMax: (raChunkMin, raChunkMax) -/
  ra : List (Int × Int)

/-- `chunks.getbounds` -/
def getbounds (g : Grid α) (ra dec m : α) : Except String Bounds := do
  let d0 := decIndex g dec
  if d0 < 0 ∨ d0 > (g.nDec : Int) - 1 then throw "PydlutilsException: decChunkMin out of range"
  let d0 := d0.toNat
  let dMin := decDown g.decBounds dec m d0
  let dMax := decUp g.decBounds dec m d0 (g.nDec - 1 - d0)
  let ras ← ((List.range (dMax + 1 - dMin)).map (· + dMin)).mapM fun i => do
    let c := cosDecMinOf g.decBounds i
    let raMargin := raMarginOf c dec m
    let n := g.nRa.getD i 0
    let b := g.raBounds.getD i #[]
    let r0 := cellIndex b n ra
    if r0 < 0 ∨ r0 > (n : Int) - 1 then throw "PydlutilsException: raChunkMin out of range"
    let r0 := r0.toNat
    pure (raDown b ra raMargin r0, ((raUp b ra raMargin r0 (n - r0) : Nat) : Int))
  pure ⟨dMin, dMax, ras⟩

/-- index arithmetic of assign lines 168-174: `none` when the wrapped index is
still outside 0..n-1 (cannot happen for n > 0) -/
def wrapIdx (n : Nat) (r : Int) : Option Nat :=
  let cur : Int := if r < 0 then (r + n) % n else if r > (n : Int) - 1 then (r - n) % n else r
  if 0 ≤ cur ∧ cur ≤ (n : Int) - 1 then some cur.toNat else none

/-- `range(lo, hi+1)` over Int -/
def irange (lo hi : Int) : List Int := (List.range (hi + 1 - lo).toNat).map fun (k : Nat) => lo + (k : Int)

/-- the cells visited by the loops over `range(dMin,dMax+1)` × `range(lo-w, hi+1+w)` -/
def cellsOfRange (nRa : Array Nat) (b : Bounds) (widen : Int) : List (Nat × Nat) :=
  ((List.range (b.decMax + 1 - b.decMin)).zip b.ra).flatMap fun (k, (lo, hi)) =>
    let d := k + b.decMin
    (irange (lo - widen) (hi + widen)).filterMap fun r => (wrapIdx (nRa.getD d 0) r).map fun c => (d, c)

/-- the reset / visit cell lists of point `i` (`[]` when getbounds raises: `continue`) -/
def cellsOfPoint (g : Grid α) (ra dec : Array α) (m : α) (widen : Int) (i : Nat) : List (Nat × Nat) :=
  match getbounds g (fmod360 (ra.getD i 0 + g.raOffset)) (dec.getD i 0) m with
  | .error _ => []
  | .ok b => cellsOfRange g.nRa b widen

/-- the loop over points of `chunks.assign` -/
def assignAll (n : Nat) (reset visit : Nat → List (Nat × Nat)) (init : Tab CellSt) : Tab CellSt :=
  (List.range n).foldl (fun st i => assignCells i st (reset i) (visit i)) init

/-- `chunks.assign` -/
def assign (g : Grid α) (ra dec : Array α) (m : α) : Except String (Tab CellSt) :=
  if ¬ (m < g.minSize) then throw "PydlutilsException: marginSize>=minSize"
  else pure (assignAll ra.size (cellsOfPoint g ra dec m 1) (cellsOfPoint g ra dec m 0)
    (g.nRa.map fun n => Array.replicate n ([], false)))

/-- `chunks.get`; an out-of-range dec chunk (raChunk = -1 in the code, then
Python's negative indexing) is not modelled: unreachable for first-list points -/
def get (g : Grid α) (ra dec : α) : Except String (Nat × Nat) := do
  let d := decIndex g dec
  if d < (g.nDec : Int) ∧ d ≥ 0 then
    let d := d.toNat
    let n := g.nRa.getD d 0
    let r := cellIndex (g.raBounds.getD d #[]) n ra
    if r < 0 ∨ r > (n : Int) - 1 then throw "PydlutilsException: raChunk out of range in get"
    pure (d, r.toNat)
  else throw "unmodelled: decChunk out of range in get"

/-- `gcirc(ra1, dec1, ra2, dec2, units=2) / 3600` in degrees -/
def gcircDeg (ra1 dec1 ra2 dec2 : α) : α :=
  let rarad1 := deg2rad ra1
  let dcrad1 := deg2rad dec1
  let rarad2 := deg2rad ra2
  let dcrad2 := deg2rad dec2
  let deldec2 := (dcrad2 - dcrad1) / 2
  let delra2 := (rarad2 - rarad1) / 2
  let sindis := Trig.sqrt (Trig.sin deldec2 * Trig.sin deldec2 +
    Trig.cos dcrad1 * Trig.cos dcrad2 * Trig.sin delra2 * Trig.sin delra2)
  let dis := 2 * Trig.arcsin sindis
  rad2deg dis * 3600 / 3600

structure Result (α : Type) where
  grid : Grid α
  chunkList : Tab CellSt
  raw : List (Pair α)
  out : List (Pair α)

/-- `spherematch`; `argsort` is the external kernel (any sorting permutation) -/
def spherematch [Inhabited α] (argsort : List α → List Nat) (ra1 dec1 ra2 dec2 : Array α) (ml : α)
    (chunksize : Option α) (maxmatch : Int) : Except String (Result α) := do
  let four : α := 4
  let cs : α := match chunksize with
    | some c => if c < four * ml then four * ml else c     -- fix: as spheregroup
    | none => if four * ml < (0.1 : α) then 0.1 else four * ml
  if ra1.size = 1 then throw "PydlutilsException: change the order"
  let g ← chunksInit ra1 dec1 cs
  let cl ← assign g ra2 dec2 ml
  let cells ← (List.range ra1.size).mapM fun i =>
    get g (fmod360 (ra1.getD i 0 + g.raOffset)) (dec1.getD i 0)
  let cellArr := cells.toArray
  let raw := matchRaw ra1.size (fun i => cellArr.getD i (0, 0)) (fun c => (cl.get c).1)
    (fun i k => gcircDeg (ra1.getD i 0) (dec1.getD i 0) (ra2.getD k 0) (dec2.getD k 0)) ml
  let s := argsort (raw.map fun p => p.2.2)
  let sorted := applyPerm raw s
  let out := if maxmatch > 0 then greedy maxmatch.toNat sorted else sorted
  pure ⟨g, cl, raw, out⟩

end grid

/-- a concrete sorting permutation for the executed model (stable merge sort) -/
def argsortFloat (d : List Float) : List Nat :=
  let a := d.toArray
  (List.range d.length).mergeSort fun i j => a.getD i 0 ≤ a.getD j 0

end PydlVerif.Sphere

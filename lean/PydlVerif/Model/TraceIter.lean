/-
Model of the iteration loop of `TraceSet.__init__` / `xy2traceset` (pydl/pydlutils/trace.py) with the REAL
`djs_reject` inside (C13 extension 1), and of the FITS-record constructor of `TraceSet` (C13 extension 2).

  for iTrace in range(nTrace):
      xvec = self.xnorm(xpos[iTrace, :], do_jump)
      iIter = 0; qdone = False
      tempivar = invvar[iTrace, :] * inmask[iTrace, :].astype(invvar.dtype)
      thismask = tempivar > 0
      while (not qdone) and (iIter <= maxiter):
          res, ycurfit = func_fit(xvec, ypos[iTrace, :], self.ncoeff, invvar=tempivar, function_name=self.func)
          thismask, qdone = djs_reject(ypos[iTrace, :], ycurfit, invvar=tempivar)
          iIter += 1

`Model/Trace.lean` (`fitIter`) replaces the call of `djs_reject` by the constant `rejectDefault`; here the call goes
through C17's model of `djs_reject` (`Reject.djsReject`) with exactly the arguments the code passes: no `outmask`, no
`inmask`, `invvar=tempivar`, no `lower` / `upper` / `maxdev`, `grow = 0`, `sticky = False`.  That the two loops are the
same function (the rejection step never rejects and always reports `qdone`) is then a THEOREM (`Props/C13.lean`:
`rejectCall_none`, `tsetFitRej_eq`), not a modelling decision.  The weights of the next pass do not depend on the mask
of the previous one (the code passes `tempivar` again), which the loop below reproduces literally.
-/
import PydlVerif.Model.Trace
import PydlVerif.Model.Reject
set_option warn.classDefReducibility false
namespace PydlVerif.Trace

variable {α : Type} [Scalar α]

/-- the keyword arguments of `djs_reject` as `TraceSet.__init__` leaves them (all defaults, `invvar` given) -/
def rejectOpts : Reject.Opts α :=
  { useSigma := false, lower := none, upper := none, maxdev := none, hasIn := false, sticky := false, grow := 0 }

/-- `djs_reject(ypos[iTrace, :], ycurfit, invvar=tempivar)` through C17's model -/
def rejectCall (sqrt : α → α) (data model ivar : Array α) : R (Array Bool × Bool) :=
  match Reject.djsReject sqrt rejectOpts data.toList (some model.toList) none none ivar.toList with
  | .ok r => .ok (r.1.toArray, r.2)
  | .error e => .error e

/-- the `while` loop with the real rejection step (`fuel = maxiter + 1 - iIter`; `acc` = `(res, ycurfit, thismask)`
once assigned); `fit` is the call of `func_fit`, the same in every pass -/
def fitIterRej (sqrt : α → α) (fit : R (FitOut α)) (y ivar : Array α) :
    Nat → Bool → Option (FitOut α × Array Bool) → R (Option (FitOut α × Array Bool))
  | 0, _, acc => pure acc
  | fuel + 1, qdone, acc =>
    if qdone then pure acc else do
      let o ← fit
      let r ← rejectCall sqrt y o.yfit ivar
      fitIterRej sqrt fit y ivar fuel r.2 (some (o, r.1))

/-- one pass of the loop over traces, rejection step included -/
def tsFitRowRej (sqrt : α → α) (solve : Array (Array α) → Array α → R (Array α)) (inp : TsIn α) (t0 : TSet α)
    (i : Nat) : R (FitOut α × Array Bool) := do
  let xvec ← t0.xnorm (inp.xpos.getD i #[]) inp.xjumplo.isSome
  let y := inp.ypos.getD i #[]
  let ivar := tsTempivar inp i
  let fit := funcFit solve { x := xvec, y := y, ncoeff := inp.ncoeff, invvar := some ivar, func := inp.func }
  let r ← fitIterRej sqrt fit y ivar (inp.maxiter + 1).toNat false none
  match r with
  | none => .error "Other:UnboundLocalError"
  | some r => pure r

/-- `TraceSet(xpos, ypos, **kw)` / `xy2traceset(xpos, ypos, **kw)` with the real rejection step in the loop -/
def tsetFitRej (sqrt : α → α) (solve : Array (Array α) → Array α → R (Array α)) (inp : TsIn α) : R (TsOut α) :=
  if !tsShapeOk inp then unmodelled else do
  let xmin ← tsXmin inp
  let xmax ← tsXmax inp
  let t0 : TSet α := ⟨inp.func, xmin, xmax, #[], inp.ncoeff, inp.xjumplo, inp.xjumphi, inp.xjumpval⟩
  let fits ← (List.range inp.xpos.size).mapM (tsFitRowRej sqrt solve inp t0)
  pure { tset := { t0 with coeff := (fits.map fun r => r.1.res).toArray }
         yfit := (fits.map fun r => r.1.yfit).toArray
         outmask := (fits.map fun r => r.2).toArray }

/-- the input with its traces re-ordered: row `i` of every array is row `σ i` of the original -/
def TsIn.reorder (inp : TsIn α) (σ : Nat → Nat) : TsIn α :=
  { inp with
    xpos := tab inp.xpos.size fun i => inp.xpos.getD (σ i) #[]
    ypos := tab inp.xpos.size fun i => inp.ypos.getD (σ i) #[]
    invvar := inp.invvar.map fun v => tab inp.xpos.size fun i => v.getD (σ i) #[]
    inmask := inp.inmask.map fun v => tab inp.xpos.size fun i => v.getD (σ i) #[] }

/-! ## TraceSet from a FITS record (`TraceSet(hdu.data)`)

  self.func = args[0]['FUNC'][0]; self.xmin = args[0]['XMIN'][0]; self.xmax = args[0]['XMAX'][0]
  self.coeff = args[0]['COEFF'][0]; self.nTrace = self.coeff.shape[0]; self.ncoeff = self.coeff.shape[1]
  if 'XJUMPLO' in args[0].dtype.names: xjumplo / xjumphi / xjumpval = args[0][...][0]   else None

A record is its list of columns (name, first-row value); a missing column is astropy's `KeyError`. -/

/-- the value of the first row of one column -/
inductive Cell (α : Type) where
  | str (s : String)
  | num (v : α)
  | mat (nrow ncol : Nat) (a : Array (Array α))     -- a 2-D cell with its `shape`

structure FitsRec (α : Type) where
  cols : List (String × Cell α)

def FitsRec.names (r : FitsRec α) : List String := r.cols.map Prod.fst

/-- `rec[name][0]` -/
def FitsRec.get (r : FitsRec α) (name : String) : R (Cell α) :=
  match r.cols.find? (fun c => c.1 == name) with
  | some c => pure c.2
  | none => keyError

def Cell.asNum : Cell α → R α
  | .num v => pure v
  | _ => unmodelled
def Cell.asStr : Cell α → R String
  | .str s => pure s
  | _ => unmodelled

/-- `TraceSet(rec)` -/
def TSet.ofRec (r : FitsRec α) : R (TSet α) := do
  let func ← (← r.get "FUNC").asStr
  let xmin ← (← r.get "XMIN").asNum
  let xmax ← (← r.get "XMAX").asNum
  match ← r.get "COEFF" with
  | .mat _ ncol coeff =>
    if r.names.contains "XJUMPLO" then do
      let lo ← (← r.get "XJUMPLO").asNum
      let hi ← (← r.get "XJUMPHI").asNum
      let v ← (← r.get "XJUMPVAL").asNum
      pure ⟨func, xmin, xmax, coeff, ncol, some lo, some hi, some v⟩
    else pure ⟨func, xmin, xmax, coeff, ncol, none, none, none⟩
  | _ => unmodelled

/-- the record a trace set is stored as (the SDSS / BOSS layout: the jump columns only when there is a jump) -/
def TSet.toRec (t : TSet α) : FitsRec α :=
  ⟨[("FUNC", .str t.func), ("XMIN", .num t.xmin), ("XMAX", .num t.xmax), ("COEFF", .mat t.coeff.size t.ncoeff t.coeff)] ++
    (match t.xjumplo, t.xjumphi, t.xjumpval with
     | some lo, some hi, some v => [("XJUMPLO", .num lo), ("XJUMPHI", .num hi), ("XJUMPVAL", .num v)]
     | _, _, _ => [])⟩

end PydlVerif.Trace

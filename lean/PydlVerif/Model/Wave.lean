/-
Model of the wavelength / photometric-system / band-flux conversions (C19).

  pydl/goddard/astro.py      airtovac (10-66), vactoair (157-212)   (after the D14 fix: np.where)
  pydl/photoop/sdssio.py     sdssflux2ab (237-282)
  pydl/pydlspec2d/spec2d.py  filter_thru: the normalised weighted sum (`filterMean`) and, extension round, everything from
                             the wavelength image on (`toairImg` … `filterThru`) except the trace-set fit of d log10 λ
  pydl/pydlutils/image.py    djs_maskinterp1 (index mode, the form filter_thru uses)

Everything is written once over `[Scalar α]`; it is executed at `Float` by the
driver and interpreted at an ordered field in Props/C19.lean.  The numeric
constants are kept in a table (`constTable`) that the harness compares with the
constants extracted from the AST of the current source (Gen/C19Consts.lean).

Parameters (not modelled): `pow10` (numpy `10.0**x`), `log10`, astropy's unit
scale factors `k`, `kinv`, and - of the weight image of filter_thru - the
trace-set fit of `d log10 λ` (`ld` / `fit`, contract stated at `weightsOf`; taken
by the harness from the real TraceSet).  `filterMean` alone still takes the
weight image as an input; `weightsOf` … `filterThru` (extension round) compute it
from the wavelength image, the filter curve and `ld`.  numpy's `sum` is modelled
as a left-to-right sum; numpy adds pairwise, which differs by rounding only
(compared at tolerance).
-/
import PydlVerif.Model.Scalar
namespace PydlVerif.Wave

/-- a decimal literal of the source: sign, mantissa, exponent sign (true = negative), exponent -/
structure Dec where
  neg : Bool
  m : Nat
  s : Bool
  e : Nat
  deriving DecidableEq, Repr

/-- value of a literal, evaluated like the Python literal (unary minus applied to the positive literal) -/
def Dec.val {α} [Scalar α] (d : Dec) : α :=
  if d.neg then -(Scalar.ofSci d.m d.s d.e) else Scalar.ofSci d.m d.s d.e

/-! ## the constants (canonical form: mantissa without trailing zeros) -/
def dGuard : Dec := ⟨false, 2, false, 3⟩        -- 2000.0
def dScale : Dec := ⟨false, 1, false, 4⟩        -- 1.0e4
def dOne : Dec := ⟨false, 1, false, 0⟩          -- 1.0
def dA1 : Dec := ⟨false, 5792105, true, 8⟩      -- 5.792105e-2
def dB1 : Dec := ⟨false, 2380185, true, 4⟩      -- 238.0185
def dA2 : Dec := ⟨false, 167917, true, 8⟩       -- 1.67917e-3
def dB2 : Dec := ⟨false, 57362, true, 3⟩        -- 57.362
/-- the Ciddor constants in the order guard, scale, 1, A1, B1, A2, B2 -/
def ciddorTable : List Dec := [dGuard, dScale, dOne, dA1, dB1, dA2, dB2]
/-- number of fixed-point iterations in airtovac (`for k in range(2)`) -/
def nIter : Nat := 2

/-- AB correction vector u g r i z -/
def abTable : List Dec :=
  [⟨true, 42, true, 3⟩, ⟨false, 36, true, 3⟩, ⟨false, 15, true, 3⟩, ⟨false, 13, true, 3⟩, ⟨true, 2, true, 3⟩]
def dMagScale : Dec := ⟨false, 25, true, 1⟩     -- 2.5
def dTen : Dec := ⟨false, 1, false, 1⟩          -- 10.0
/-- the constants of sdssflux2ab besides the vector: 10.0, 2.5, 1.0 -/
def abScalars : List Dec := [dTen, dMagScale, dOne]

section
variable {α : Type} [Scalar α]

/-! ## airtovac / vactoair -/

/-- `1.0 + 5.792105e-2/(238.0185 - sigma2) + 1.67917e-3/(57.362 - sigma2)` -/
def ciddor (s2 : α) : α :=
  (dOne.val + dA1.val / (dB1.val - s2)) + dA2.val / (dB2.val - s2)

/-- `(1.0e4/v)**2` (numpy squares by multiplication) -/
def sigma2 (v : α) : α :=
  let q : α := dScale.val / v
  q * q

def fact (v : α) : α := ciddor (sigma2 v)

/-- the loop `for k in range(n): vacuum = a * fact(vacuum)` starting from `vacuum` -/
def iter (a : α) : Nat → α → α
  | 0, vac => vac
  | n + 1, vac => iter a n (a * fact vac)

/-- the conversion in Å for one wavelength: guard, then two iterations from `vacuum = a` -/
def airtovac1 (a : α) : α :=
  if a < dGuard.val then a else iter a nIter a

/-- one division -/
def vactoair1 (v : α) : α :=
  if v < dGuard.val then v else v / fact v

/-- ndarray / numpy scalar / Quantity path.  `unit = some (k, kinv)`: the input is a
Quantity, `k` = scale factor caller's unit → Å, `kinv` = Å → caller's unit (both
supplied by astropy).  If every element is below the guard the caller's object
itself is returned; otherwise elementwise `np.where(a < 2000, a, f a)` and
conversion back. -/
def convArr (f1 : α → α) (unit : Option (α × α)) (xs : List α) : List α :=
  let as : List α := match unit with
    | none => xs
    | some (k, _) => xs.map (· * k)
  if as.all (fun a => decide (a < dGuard.val)) then xs
  else
    let out := as.map f1
    match unit with
    | none => out
    | some (_, kinv) => out.map (· * kinv)

def airtovacArr (unit : Option (α × α)) (xs : List α) : List α := convArr airtovac1 unit xs
def vactoairArr (unit : Option (α × α)) (xs : List α) : List α := convArr vactoair1 unit xs

/-! ## sdssflux2ab -/

inductive AbMode where
  | flux | mag | ivar
  deriving DecidableEq, Repr

def abCorr : List α := abTable.map Dec.val

/-- `10.0**(-c/2.5)` -/
def abFactor (pow10 : α → α) (c : α) : α := pow10 ((-c) / dMagScale.val)

/-- what one element of band correction `c` becomes -/
def abElem (pow10 : α → α) (mode : AbMode) (c x : α) : α :=
  match mode with
  | .mag => x + c
  | .flux => x * abFactor pow10 c
  | .ivar => x * (dOne.val / (abFactor pow10 c * abFactor pow10 c))

/-- one row; numpy refuses to broadcast a row that does not have five columns -/
def abRow (pow10 : α → α) (mode : AbMode) (row : List α) : Except String (List α) :=
  if row.length = abTable.length then pure (List.zipWith (abElem pow10 mode) abCorr row)
  else throw "ValueError"

/-- `magnitude=True` wins over `ivar=True` -/
def abModeOf (magnitude ivar : Bool) : AbMode :=
  if magnitude then .mag else if ivar then .ivar else .flux

def sdssflux2ab (pow10 : α → α) (magnitude ivar : Bool) (rows : List (List α)) : Except String (List (List α)) :=
  rows.mapM (abRow pow10 (abModeOf magnitude ivar))

/-! ## mask interpolation (djs_maskinterp1, index mode) -/

/-- unmasked pixels with their index -/
def goodsFrom : Nat → List Bool → List α → List (Nat × α)
  | i, b :: m, y :: ys => if b then goodsFrom (i + 1) m ys else (i, y) :: goodsFrom (i + 1) m ys
  | _, _, _ => []

/-- np.interp on the good pixels (at least two): constant outside, `slope*(x-x0)+y0` inside -/
def interpAt : List (Nat × α) → Nat → α
  | [], _ => Scalar.ofNat 0
  | [(_, v)], _ => v
  | (j0, v0) :: (j1, v1) :: rest, i =>
    if i < j1 then
      if i ≤ j0 then v0
      else (v1 - v0) / (Scalar.ofNat j1 - Scalar.ofNat j0) * (Scalar.ofNat i - Scalar.ofNat j0) + v0
    else interpAt ((j1, v1) :: rest) i

/-- replace masked pixels: position `i`, mask, values -/
def fillFrom (g : List (Nat × α)) : Nat → List Bool → List α → List α
  | i, b :: m, y :: ys => (if b then interpAt g i else y) :: fillFrom g (i + 1) m ys
  | _, _, _ => []

/-- `djs_maskinterp1(yval, mask)`: mask true = bad pixel -/
def maskInterp (mask : List Bool) (y : List α) : List α :=
  if mask.all (fun b => !b) then y
  else
    match goodsFrom 0 mask y with
    | [] => y                                           -- ngood == 0: returned unchanged
    | [(_, v)] => y.map (fun _ => Scalar.ofNat 0 + v)   -- ngood == 1: zeros + yval[igood[0]]
    | g => fillFrom g 0 mask y

/-! ## filter_thru: normalised weighted sum -/

/-- left-to-right sum starting from `acc` -/
def sumFrom (acc : α) : List α → α
  | [] => acc
  | x :: xs => sumFrom (acc + x) xs

/-- `(flux*filtimg).sum() / (sumfilt + (sumfilt <= 0))` for one trace and one band -/
def filterMean (r f : List α) : α :=
  let num := sumFrom (Scalar.ofNat 0) (List.zipWith (· * ·) f r)
  let sumfilt := sumFrom (Scalar.ofNat 0) r
  num / (sumfilt + (if sumfilt ≤ Scalar.ofNat 0 then Scalar.ofNat 1 else Scalar.ofNat 0))

/-- with a mask: the flux is first interpolated over the masked pixels.  `interp`
is a parameter so that the theorems can be stated for any interpolation that
meets the contract; the driver uses `maskInterp`. -/
def filterMeanMasked (interp : List Bool → List α → List α) (mask : List Bool) (r f : List α) : α :=
  filterMean r (interp mask f)

/-! ## filter_thru: the weight image (extension round)

The weight image of `filter_thru` (lines 431-449 of spec2d.py in the fixed tree):

    if toair: newwaveimg = vactoair(waveimg)  else: newwaveimg = waveimg
    logwave = np.log10(newwaveimg)
    diffy = logwave[:, 1:] - logwave[:, 0:nx-1]
    diffset = xy2traceset(diffx, diffy, ncoeff=4, xmin=0, xmax=nx-1);  pixnorm, logdiff = traceset2xy(diffset)
    logdiff = np.absolute(logdiff)
    filtimg = logdiff * np.interp(newwaveimg.flatten(), lam, respt).reshape(logdiff.shape)

Modelled: the `toair` conversion of the whole image, `diffy` (with `log10` a parameter), `np.absolute`,
`np.interp` of the filter curve (default `left = fp[0]`, `right = fp[-1]`) and the product.  Parameter with a
contract: `ld`, the image `traceset2xy(xy2traceset(diffx, diffy, ncoeff=4, xmin=0, xmax=nx-1))[1]` (the cubic
Legendre fit of `diffy`, evaluated at the integer pixels `0 .. nx-1`, signed - before `np.absolute`); the
harness takes it from the real `TraceSet`.  `fit` in `filterThruFit` is the same thing as a function of `diffy`. -/

/-- `np.absolute` -/
def absS (x : α) : α := if x < Scalar.ofNat 0 then -x else x

/-- The walk of `np.interp` to the right of the current sample `(x0, f0)` (own copy of the walk in
Model/Interp.lean): numpy finds `j` with `xp[j] ≤ x < xp[j+1]`, returns `fp[j]` when `j` is the last sample
or `xp[j] == x`, otherwise `slope*(x - xp[j]) + fp[j]`, `slope = (fp[j+1]-fp[j])/(xp[j+1]-xp[j])`. -/
def interpGo (x : α) : α → α → List (α × α) → α
  | _, f0, [] => f0
  | x0, f0, (x1, f1) :: rest =>
    if x < x1 then (if Scalar.beq x0 x then f0 else (f1 - f0) / (x1 - x0) * (x - x0) + f0)
    else interpGo x x1 f1 rest

/-- `np.interp(x, xp, fp)` on the non-empty sample list `(x0,f0) :: rest`; filter_thru passes neither `left`
nor `right`, so the ends are constant: `fp[0]` below `xp[0]`, `fp[-1]` from `xp[-1]` on. -/
def npInterp (x0 f0 : α) (rest : List (α × α)) (x : α) : α :=
  if x < x0 then f0 else interpGo x x0 f0 rest

/-- split a flat list like the rows of `img` (`.reshape(img.shape)`) -/
def reshapeLike : List (List α) → List α → List (List α)
  | [], _ => []
  | row :: rows, flat => flat.take row.length :: reshapeLike rows (flat.drop row.length)

/-- `newwaveimg`: `vactoair(waveimg)` on the whole image (plain ndarray path, so the early return looks at
every pixel of every trace) when `toair`, else the image itself -/
def toairImg (toair : Bool) (img : List (List α)) : List (List α) :=
  if toair then reshapeLike img (vactoairArr none img.flatten) else img

/-- `diffy` of one trace: `logwave[1:] - logwave[0:nx-1]` with `logwave = log10(newwave)` -/
def logDiffY (log10 : α → α) (w : List α) : List α :=
  let lw := w.map log10
  List.zipWith (fun a b => b - a) lw lw.tail

/-- one trace of `filtimg` for the curve `(x0,f0) :: rest`: `np.absolute(ld) * np.interp(newwave, lam, respt)` -/
def weightsOf (ld : List α) (x0 f0 : α) (rest : List (α × α)) (w : List α) : List α :=
  List.zipWith (fun d x => absS d * npInterp x0 f0 rest x) ld w

/-- the same with numpy's refusals: `np.interp` raises ValueError for an empty curve, the product does not
broadcast when the fitted image and the wavelength image differ in shape -/
def weightRow (ld : List α) (curve : List (α × α)) (w : List α) : Except String (List α) :=
  match curve with
  | [] => throw "ValueError"
  | (x0, f0) :: rest => if ld.length = w.length then pure (weightsOf ld x0 f0 rest w) else throw "ValueError"

/-- one trace, one band: the weights, the flux interpolated over the masked pixels, the normalised sum -/
def bandFlux (ld : List α) (curve : List (α × α)) (w : List α) (mask : Option (List Bool)) (f : List α) :
    Except String α := do
  let r ← weightRow ld curve w
  if f.length = w.length then
    let f' := match mask with
      | none => f
      | some m => maskInterp m f
    pure (filterMean r f')
  else throw "ValueError"

/-- one trace, all bands (`for i, f in enumerate(ffiles)`) -/
def filterThruRow (ld : List α) (curves : List (List (α × α))) (w : List α) (mask : Option (List Bool))
    (f : List α) : Except String (List α) :=
  curves.mapM (fun c => bandFlux ld c w mask f)

/-- the mask of each trace: `mask=None` → none for every trace; a mask image must have one row per trace -/
def maskRows (n : Nat) : Option (List (List Bool)) → Except String (List (Option (List Bool)))
  | none => pure (List.replicate n none)
  | some ms => if ms.length = n then pure (ms.map some) else throw "ValueError"

/-- rows `0 .. n-1` of the four images side by side -/
def filterRows (curves : List (List (α × α))) :
    List (List α) → List (List α) → List (Option (List Bool)) → List (List α) → Except String (List (List α))
  | ld :: lds, w :: ws, m :: ms, f :: fs => do
    let r ← filterThruRow ld curves w m f
    let rs ← filterRows curves lds ws ms fs
    pure (r :: rs)
  | [], [], [], [] => pure []
  | _, _, _, _ => throw "ValueError"

/-- `filter_thru(flux, waveimg, mask=, toair=)` given the fitted image `lds` (contract above, computed from
`toairImg toair wave`): result `[trace][band]` -/
def filterThru (toair : Bool) (lds : List (List α)) (curves : List (List (α × α))) (wave : List (List α))
    (masks : Option (List (List Bool))) (flux : List (List α)) : Except String (List (List α)) := do
  let ms ← maskRows flux.length masks
  filterRows curves lds (toairImg toair wave) ms flux

/-- the same with the trace-set fit as a function `fit : diffy ↦ logdiff` of one trace -/
def filterThruFit (log10 : α → α) (fit : List α → List α) (toair : Bool) (curves : List (List (α × α)))
    (wave : List (List α)) (masks : Option (List (List Bool))) (flux : List (List α)) :
    Except String (List (List α)) :=
  filterThru toair ((toairImg toair wave).map (fun w => fit (logDiffY log10 w))) curves wave masks flux

end
end PydlVerif.Wave

/-
Model of the wavelength / photometric-system / band-flux conversions (C19).

  pydl/goddard/astro.py      airtovac (10-66), vactoair (157-212)   (after the D14 fix: np.where)
  pydl/photoop/sdssio.py     sdssflux2ab (237-282)
  pydl/pydlspec2d/spec2d.py  filter_thru (385-450): the normalised weighted sum of lines 438-449
  pydl/pydlutils/image.py    djs_maskinterp1 (index mode, the form filter_thru uses)

Everything is written once over `[Scalar α]`; it is executed at `Float` by the
driver and interpreted at an ordered field in Props/C19.lean.  The numeric
constants are kept in a table (`constTable`) that the harness compares with the
constants extracted from the AST of the current source (Gen/C19Consts.lean).

Parameters (not modelled): `pow10` (numpy `10.0**x`), `log10` (only in the
theorems), astropy's unit scale factors `k`, `kinv`, and the weight image of
filter_thru (`|d log λ|`·response: trace-set fit, np.interp, log10 - supplied by
the harness).  numpy's `sum` is modelled as a left-to-right sum; numpy adds
pairwise, which differs by rounding only (compared at tolerance).
-/
import PydlVerif.Model.Scalar
namespace PydlVerif.Wave

/-- a decimal literal of the source: sign, mantissa, exponent sign (true = negative), exponent -/
structure Dec where
  neg : Bool
  m : Nat
  s : Bool
  e : Nat
  deriving DecidableEq, Repr

/-- value of a literal, evaluated like the Python literal (unary minus applied to the positive literal) -/
def Dec.val {α} [Scalar α] (d : Dec) : α :=
  if d.neg then -(Scalar.ofSci d.m d.s d.e) else Scalar.ofSci d.m d.s d.e

/-! ## the constants (canonical form: mantissa without trailing zeros) -/
def dGuard : Dec := ⟨false, 2, false, 3⟩        -- 2000.0
def dScale : Dec := ⟨false, 1, false, 4⟩        -- 1.0e4
def dOne : Dec := ⟨false, 1, false, 0⟩          -- 1.0
def dA1 : Dec := ⟨false, 5792105, true, 8⟩      -- 5.792105e-2
def dB1 : Dec := ⟨false, 2380185, true, 4⟩      -- 238.0185
def dA2 : Dec := ⟨false, 167917, true, 8⟩       -- 1.67917e-3
def dB2 : Dec := ⟨false, 57362, true, 3⟩        -- 57.362
/-- the Ciddor constants in the order guard, scale, 1, A1, B1, A2, B2 -/
def ciddorTable : List Dec := [dGuard, dScale, dOne, dA1, dB1, dA2, dB2]
/-- number of fixed-point iterations in airtovac (`for k in range(2)`) -/
def nIter : Nat := 2

/-- AB correction vector u g r i z -/
def abTable : List Dec :=
  [⟨true, 42, true, 3⟩, ⟨false, 36, true, 3⟩, ⟨false, 15, true, 3⟩, ⟨false, 13, true, 3⟩, ⟨true, 2, true, 3⟩]
def dMagScale : Dec := ⟨false, 25, true, 1⟩     -- 2.5
def dTen : Dec := ⟨false, 1, false, 1⟩          -- 10.0
/-- the constants of sdssflux2ab besides the vector: 10.0, 2.5, 1.0 -/
def abScalars : List Dec := [dTen, dMagScale, dOne]

section
variable {α : Type} [Scalar α]

/-! ## airtovac / vactoair -/

/-- `1.0 + 5.792105e-2/(238.0185 - sigma2) + 1.67917e-3/(57.362 - sigma2)` -/
def ciddor (s2 : α) : α :=
  (dOne.val + dA1.val / (dB1.val - s2)) + dA2.val / (dB2.val - s2)

/-- `(1.0e4/v)**2` (numpy squares by multiplication) -/
def sigma2 (v : α) : α :=
  let q : α := dScale.val / v
  q * q

def fact (v : α) : α := ciddor (sigma2 v)

/-- the loop `for k in range(n): vacuum = a * fact(vacuum)` starting from `vacuum` -/
def iter (a : α) : Nat → α → α
  | 0, vac => vac
  | n + 1, vac => iter a n (a * fact vac)

/-- the conversion in Å for one wavelength: guard, then two iterations from `vacuum = a` -/
def airtovac1 (a : α) : α :=
  if a < dGuard.val then a else iter a nIter a

/-- one division -/
def vactoair1 (v : α) : α :=
  if v < dGuard.val then v else v / fact v

/-- ndarray / numpy scalar / Quantity path.  `unit = some (k, kinv)`: the input is a
Quantity, `k` = scale factor caller's unit → Å, `kinv` = Å → caller's unit (both
supplied by astropy).  If every element is below the guard the caller's object
itself is returned; otherwise elementwise `np.where(a < 2000, a, f a)` and
conversion back. -/
def convArr (f1 : α → α) (unit : Option (α × α)) (xs : List α) : List α :=
  let as : List α := match unit with
    | none => xs
    | some (k, _) => xs.map (· * k)
  if as.all (fun a => decide (a < dGuard.val)) then xs
  else
    let out := as.map f1
    match unit with
    | none => out
    | some (_, kinv) => out.map (· * kinv)

def airtovacArr (unit : Option (α × α)) (xs : List α) : List α := convArr airtovac1 unit xs
def vactoairArr (unit : Option (α × α)) (xs : List α) : List α := convArr vactoair1 unit xs

/-! ## sdssflux2ab -/

inductive AbMode where
  | flux | mag | ivar
  deriving DecidableEq, Repr

def abCorr : List α := abTable.map Dec.val

/-- `10.0**(-c/2.5)` -/
def abFactor (pow10 : α → α) (c : α) : α := pow10 ((-c) / dMagScale.val)

/-- what one element of band correction `c` becomes -/
def abElem (pow10 : α → α) (mode : AbMode) (c x : α) : α :=
  match mode with
  | .mag => x + c
  | .flux => x * abFactor pow10 c
  | .ivar => x * (dOne.val / (abFactor pow10 c * abFactor pow10 c))

/-- one row; numpy refuses to broadcast a row that does not have five columns -/
def abRow (pow10 : α → α) (mode : AbMode) (row : List α) : Except String (List α) :=
  if row.length = abTable.length then pure (List.zipWith (abElem pow10 mode) abCorr row)
  else throw "ValueError"

/-- `magnitude=True` wins over `ivar=True` -/
def abModeOf (magnitude ivar : Bool) : AbMode :=
  if magnitude then .mag else if ivar then .ivar else .flux

def sdssflux2ab (pow10 : α → α) (magnitude ivar : Bool) (rows : List (List α)) : Except String (List (List α)) :=
  rows.mapM (abRow pow10 (abModeOf magnitude ivar))

/-! ## mask interpolation (djs_maskinterp1, index mode) -/

/-- unmasked pixels with their index -/
def goodsFrom : Nat → List Bool → List α → List (Nat × α)
  | i, b :: m, y :: ys => if b then goodsFrom (i + 1) m ys else (i, y) :: goodsFrom (i + 1) m ys
  | _, _, _ => []

/-- np.interp on the good pixels (at least two): constant outside, `slope*(x-x0)+y0` inside -/
def interpAt : List (Nat × α) → Nat → α
  | [], _ => Scalar.ofNat 0
  | [(_, v)], _ => v
  | (j0, v0) :: (j1, v1) :: rest, i =>
    if i < j1 then
      if i ≤ j0 then v0
      else (v1 - v0) / (Scalar.ofNat j1 - Scalar.ofNat j0) * (Scalar.ofNat i - Scalar.ofNat j0) + v0
    else interpAt ((j1, v1) :: rest) i

/-- replace masked pixels: position `i`, mask, values -/
def fillFrom (g : List (Nat × α)) : Nat → List Bool → List α → List α
  | i, b :: m, y :: ys => (if b then interpAt g i else y) :: fillFrom g (i + 1) m ys
  | _, _, _ => []

/-- `djs_maskinterp1(yval, mask)`: mask true = bad pixel -/
def maskInterp (mask : List Bool) (y : List α) : List α :=
  if mask.all (fun b => !b) then y
  else
    match goodsFrom 0 mask y with
    | [] => y                                           -- ngood == 0: returned unchanged
    | [(_, v)] => y.map (fun _ => Scalar.ofNat 0 + v)   -- ngood == 1: zeros + yval[igood[0]]
    | g => fillFrom g 0 mask y

/-! ## filter_thru: normalised weighted sum -/

/-- left-to-right sum starting from `acc` -/
def sumFrom (acc : α) : List α → α
  | [] => acc
  | x :: xs => sumFrom (acc + x) xs

/-- `(flux*filtimg).sum() / (sumfilt + (sumfilt <= 0))` for one trace and one band -/
def filterMean (r f : List α) : α :=
  let num := sumFrom (Scalar.ofNat 0) (List.zipWith (· * ·) f r)
  let sumfilt := sumFrom (Scalar.ofNat 0) r
  num / (sumfilt + (if sumfilt ≤ Scalar.ofNat 0 then Scalar.ofNat 1 else Scalar.ofNat 0))

/-- with a mask: the flux is first interpolated over the masked pixels.  `interp`
is a parameter so that the theorems can be stated for any interpolation that
meets the contract; the driver uses `maskInterp`. -/
def filterMeanMasked (interp : List Bool → List α → List α) (mask : List Bool) (r f : List α) : α :=
  filterMean r (interp mask f)

end
end PydlVerif.Wave

/-
filter_thru end to end (C19, extension round 2): the trace-set fit of d log10 λ INSIDE the model.

  pydl/pydlspec2d/spec2d.py  filter_thru, lines 425-455 of the fixed tree:

    nTrace, nx = flux.shape
    newwaveimg = vactoair(waveimg) if toair else waveimg
    logwave = np.log10(newwaveimg)
    diffx = np.outer(np.ones((nTrace,)), np.arange(nx-1))
    diffy = logwave[:, 1:] - logwave[:, 0:nx-1]
    diffset = xy2traceset(diffx, diffy, ncoeff=4, xmin=0, xmax=nx-1)     -- = TraceSet(diffx, diffy, ncoeff=4, xmin=0, xmax=nx-1)
    pixnorm, logdiff = traceset2xy(diffset)                              -- = diffset.xy(None)
    logdiff = np.absolute(logdiff) ; … (Model/Wave.lean `filterThru`)

`xy2traceset` / `traceset2xy` are the C13 model (Model/Trace.lean: `tsetFit`, `TSet.xy`: xnorm, Legendre
basis by recurrence, func_fit normal equations, evaluation on the default grid `0 .. nx-1`).  Nothing is
supplied from the real TraceSet any more.  Parameters that remain: `log10` (libm) and `solve`
(`numpy.linalg.solve` of the 4×4 normal equations; contract `alpha · result = beta`, C13's `SolveContract`;
the driver runs Gaussian elimination with partial pivoting at Float).
-/
import PydlVerif.Model.Trace
import PydlVerif.Model.Wave
import PydlVerif.Model.Idl
set_option warn.classDefReducibility false
namespace PydlVerif.WaveFit
open PydlVerif PydlVerif.Wave PydlVerif.Trace

variable {α : Type} [Scalar α]

/-- `diffx = np.outer(np.ones(nTrace), np.arange(nx-1))` -/
def diffX (nTrace nx : Nat) : Array (Array α) :=
  tab nTrace fun _ => tab (nx - 1) fun j => Scalar.ofNat j

/-- the arguments of `xy2traceset(diffx, diffy, ncoeff=4, xmin=0, xmax=nx-1)`; everything else has the
defaults of `TraceSet.__init__` (legendre, maxiter 10, no invvar, no inmask, no jump) -/
def diffSetIn (nx : Nat) (diffy : List (List α)) : TsIn α :=
  { xpos := diffX diffy.length nx
    ypos := (diffy.map List.toArray).toArray
    ncoeff := 4
    xmin := some (Scalar.ofNat 0)
    xmax := some (Scalar.ofNat (nx - 1)) }

/-- the image `logdiff` of filter_thru before `np.absolute`, from the (air or vacuum) wavelength image
`nw` alone: `traceset2xy(xy2traceset(diffx, diffy, ncoeff=4, xmin=0, xmax=nx-1))[1]`.  `nx` is
`flux.shape[1]`; `nx < 2` (no pixel difference to fit) is not modelled. -/
def fittedImg (log10 : α → α) (solve : Array (Array α) → Array α → R (Array α)) (nx : Nat)
    (nw : List (List α)) : Except String (List (List α)) :=
  if nx < 2 then unmodelled else do
    let o ← tsetFit solve (diffSetIn nx (nw.map (logDiffY log10)))
    let p ← o.tset.xy none false
    pure (p.2.toList.map Array.toList)

/-- `filter_thru(flux, waveimg, mask=, toair=)` from its arguments and the filter curves alone:
result `[trace][band]` -/
def filterThruE2E (log10 : α → α) (solve : Array (Array α) → Array α → R (Array α)) (toair : Bool)
    (curves : List (List (α × α))) (wave : List (List α)) (masks : Option (List (List Bool)))
    (flux : List (List α)) : Except String (List (List α)) := do
  let lds ← fittedImg log10 solve (flux.headD []).length (toairImg toair wave)
  filterThru toair lds curves wave masks flux

/-! ## the sums as numpy adds them (pairwise)

`(flux*filtimg).sum(1)` and `filtimg.sum(1)` reduce the innermost axis of a C-contiguous float64 image:
numpy's pairwise summation added to the identity 0 (`Idl.npSum`, the C14 model: 8 accumulators in blocks of
≤ 128, halving above).  `filterMean` (Model/Wave.lean) adds left to right - the same number in exact
arithmetic (`filterMeanPw_eq`), a different rounding at Float.  The `…G` functions are `bandFlux` …
`filterThru` with the normalised sum as a parameter. -/

/-- `filterMean` with numpy's pairwise sums -/
def filterMeanPw (r f : List α) : α :=
  let num := Idl.npSum (List.zipWith (· * ·) f r)
  let sumfilt := Idl.npSum r
  num / (sumfilt + (if sumfilt ≤ Scalar.ofNat 0 then Scalar.ofNat 1 else Scalar.ofNat 0))

def bandFluxG (mean : List α → List α → α) (ld : List α) (curve : List (α × α)) (w : List α)
    (mask : Option (List Bool)) (f : List α) : Except String α := do
  let r ← weightRow ld curve w
  if f.length = w.length then
    let f' := match mask with
      | none => f
      | some m => maskInterp m f
    pure (mean r f')
  else throw "ValueError"

def filterThruRowG (mean : List α → List α → α) (ld : List α) (curves : List (List (α × α))) (w : List α)
    (mask : Option (List Bool)) (f : List α) : Except String (List α) :=
  curves.mapM (fun c => bandFluxG mean ld c w mask f)

def filterRowsG (mean : List α → List α → α) (curves : List (List (α × α))) :
    List (List α) → List (List α) → List (Option (List Bool)) → List (List α) → Except String (List (List α))
  | ld :: lds, w :: ws, m :: ms, f :: fs => do
    let r ← filterThruRowG mean ld curves w m f
    let rs ← filterRowsG mean curves lds ws ms fs
    pure (r :: rs)
  | [], [], [], [] => pure []
  | _, _, _, _ => throw "ValueError"

/-- `filterThru` with the normalised sum `mean` (`filterMean`: left to right; `filterMeanPw`: as numpy) -/
def filterThruG (mean : List α → List α → α) (toair : Bool) (lds : List (List α)) (curves : List (List (α × α)))
    (wave : List (List α)) (masks : Option (List (List Bool))) (flux : List (List α)) :
    Except String (List (List α)) := do
  let ms ← maskRows flux.length masks
  filterRowsG mean curves lds (toairImg toair wave) ms flux

/-- the whole function with numpy's sums -/
def filterThruE2EPw (log10 : α → α) (solve : Array (Array α) → Array α → R (Array α)) (toair : Bool)
    (curves : List (List (α × α))) (wave : List (List α)) (masks : Option (List (List Bool)))
    (flux : List (List α)) : Except String (List (List α)) := do
  let lds ← fittedImg log10 solve (flux.headD []).length (toairImg toair wave)
  filterThruG filterMeanPw toair lds curves wave masks flux

/-! ## the argument handling in front (lines 425-432)

    if filter_prefix != 'sdss_jun2001': raise ValueError
    if waveimg is None and wset is None: raise ValueError
    if waveimg is None: pixnorm, logwave = traceset2xy(wset); waveimg = 10**logwave
-/

/-- `filter_thru(flux, waveimg=, wset=, mask=, filter_prefix=, toair=)`: `prefixOk` = the prefix is the one
available; a wavelength image wins over a trace set; a trace set is evaluated on its default grid
(`TSet.xy none`, C13 model) and raised to the power of ten (`pow10`, numpy `10**x`, a parameter) -/
def filterThruTop (log10 pow10 : α → α) (solve : Array (Array α) → Array α → R (Array α)) (prefixOk toair : Bool)
    (curves : List (List (α × α))) (wave : Option (List (List α))) (wset : Option (TSet α))
    (masks : Option (List (List Bool))) (flux : List (List α)) : Except String (List (List α)) :=
  if !prefixOk then throw "ValueError"
  else match wave, wset with
    | none, none => throw "ValueError"
    | some w, _ => filterThruE2E log10 solve toair curves w masks flux
    | none, some t => do
      let p ← t.xy none false
      filterThruE2E log10 solve toair curves (p.2.toList.map (fun r => r.toList.map pow10)) masks flux

end PydlVerif.WaveFit

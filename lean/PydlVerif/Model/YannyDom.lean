/-
Domain of the write → read guarantee (property C01) as executable, decidable predicates.
They transcribe the exclusions of the statement:
  a double quote, a leading `{`, a `}` inside a string-array element, a backslash ending the
  last column, non-ASCII, `#` or newline in a header value
plus the two text classes the reader rewrites line-wide / file-wide (finding D4): a
`{ { } }`-like pattern anywhere in a line, and the word `typedef` in a data, header or comment line.
-/
import PydlVerif.Model.YannyFile
namespace PydlVerif.Yanny

variable {F : Type}

/-- characters a cell may contain: ASCII except NUL, newline, carriage return -/
def cellChar (c : Char) : Bool := c.toNat < 128 && c != '\n' && c != '\r' && c != '\x00'

/-- scalar string cell: no `"`, no leading `{` -/
def strOK (s : Str) : Bool := s.all cellChar && !s.contains '"' && s.head? != some '{'

/-- element of a string array: additionally no `}` -/
def arrElemOK (s : Str) : Bool := strOK s && !s.contains '}'

/-- identifiers: struct, column, enum-type and label names -/
def identOK (s : Str) : Bool :=
  match s with
  | [] => false
  | c :: _ => (c.isAlpha || c == '_') && s.all isWordCh && s.all (fun c => c.toNat < 128)

def wordOK (s : Str) : Bool := !s.isEmpty && s.all isWordCh && s.all (fun c => c.toNat < 128)

def noTypedef (s : Str) : Bool := !hasSub "typedef".toList s

def endsBackslash (s : Str) : Bool := s.getLast? == some '\\'

/-- value of type `t` (enum labels `labs` if the column is an enum column); `arr`: element of an array -/
def scOK (t : NpT) (labs : Option (List Str)) (arr : Bool) : Sc F → Bool
  | .int n => (t == .i2 && inRange .i2 n) || (t == .i4 && inRange .i4 n) || (t == .i8 && inRange .i8 n)
  | .flt w _ => (t == .f4 && w == .f4) || (t == .f8 && w == .f8)
  | .str s =>
    (match t with
     | .S n => s.length ≤ n
     | .U n => s.length ≤ n
     | _ => false) &&
    (if arr then arrElemOK s else strOK s) &&
    (match labs with
     | some ls => ls.contains s
     | none => true)

def cellOK (enums : List EnumDecl) (c : Col) : Cell F → Bool
  | .one v => c.alen == 0 && scOK c.ty ((enums.find? (fun e => e.col == c.name)).map (·.labels)) false v
  | .many vs => c.alen > 0 && vs.length == c.alen &&
      vs.all (scOK c.ty ((enums.find? (fun e => e.col == c.name)).map (·.labels)) true)

def cellsOK (enums : List EnumDecl) : List Col → List (Cell F) → Bool
  | [], [] => true
  | c :: cs, x :: xs => cellOK enums c x && cellsOK enums cs xs
  | _, _ => false

/-- one row: every cell in its column's domain; the line it is written as has no `{{}}`-like
pattern, no `typedef`, and does not end in a backslash -/
def rowOK (io : FloatIO F) (enums : List EnumDecl) (name : Str) (cols : List Col) (r : List (Cell F)) : Bool :=
  cellsOK enums cols r &&
  (let line := fmtRow io (upper name) r
   dbFree line && noTypedef line && !endsBackslash line)

def supported (t : NpT) : Bool :=
  match t with
  | .i2 | .i4 | .i8 | .f4 | .f8 => true
  | .S n => n ≥ 1
  | .U n => n ≥ 1
  | _ => false

def colOK (c : Col) : Bool := identOK c.name && supported c.ty

def enumOK (e : EnumDecl) : Bool :=
  identOK e.col && wordOK e.tyName && !e.labels.isEmpty && e.labels.all wordOK

def nodup (l : List Str) : Bool :=
  match l with
  | [] => true
  | a :: t => !t.contains a && nodup t

/-- header pair: the key is one printable word without `#`, not starting like a quoted or braced
token; the value is ASCII without `#`, newline; the line has no `{{}}`-like pattern, no
`typedef`, does not end in a backslash; the key is not a table name -/
def pairOK (tnames : List Str) (kv : Str × Str) : Bool :=
  let k := kv.1
  let v := kv.2
  !k.isEmpty && k.all (fun c => 33 ≤ c.toNat && c.toNat ≤ 126 && c != '#') &&
  k.head? != some '"' && k.head? != some '{' &&
  v.all cellChar && !v.contains '#' &&
  (let line := k ++ ' ' :: v
   dbFree line && noTypedef line && !endsBackslash (rstrip line)) &&
  !tnames.contains (upper k)

/-- comment block: empty lines and lines `#…\n`, without backslash, carriage return or `typedef` -/
def commentsOK (c : Str) : Bool :=
  (c.isEmpty || c.getLast? == some '\n') &&
  ((splitNl c).all (fun l => l.isEmpty || l.head? == some '#')) &&
  !c.contains '\\' && !c.contains '\r' && noTypedef c

def tableOK (io : FloatIO F) (enums : List EnumDecl) (t : TableD F) : Bool :=
  wordOK t.name && !t.cols.isEmpty && t.cols.all colOK && nodup (t.cols.map (·.name)) &&
  t.rows.all (rowOK io enums t.name t.cols)

/-- `type()` finds each table's own definition (no D16/D17 name clash) -/
def selectOK (d : Doc F) : Bool :=
  match structTexts d.enums d.tables with
  | .error _ => false
  | .ok texts => (d.tables.zip texts).all (fun p => selectDef texts (upper p.1.name) == some p.2)

def docOK (io : FloatIO F) (d : Doc F) : Bool :=
  commentsOK d.comments &&
  d.enums.all enumOK && nodup (d.enums.map (·.col)) && nodup (d.enums.map (fun e => upper e.tyName)) &&
  d.tables.all (tableOK io d.enums) && nodup (d.tables.map (fun t => upper t.name)) &&
  selectOK d &&
  d.hdr.all (pairOK (d.tables.map (fun t => upper t.name))) && nodup (d.hdr.map (·.1))

end PydlVerif.Yanny

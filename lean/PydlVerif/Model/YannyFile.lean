/-
Yanny parameter files, whole file (pydl/pydlutils/yanny.py).

Writer side
  enumText / colLine / dtypeToStruct   yanny.dtype_to_struct (lines 235-307)
  renderFile                            write_ndarray_to_yanny (1194-1223) + yanny.write (886-918)
Reader side (`_parse`, lines 999-1154, and the typing methods 398-629)
  joinCont        `re.sub(r'\\\s*\n', ' ', contents)`
  matchTypedef    `typedef\s+(struct|enum)\s*\{[^}]+\}\s*\w+\s*;` at the head of a text
  tdFind/tdRemove `re.findall` / `re.sub(…, '')` with that expression (leftmost, non-overlapping)
  bodyDefs        `re.findall(r'\S+\s+\S+;', definition)` + `replace(';','')` + `re.split(r'\s+')`
  stripArr        `re.sub(r'[\[<].*[\]>]$', '', column)`
  selectDef/typeSearch/typeOf   yanny.type   (the struct is picked by its trailing `} NAME;`)
  baseType/isArrayT/arrayLength/charLength/enumLabels   basetype/isarray/array_length/char_length/isenum
  lineLoop        the `for line in lines.split('\n')` loop: skip rules, strip, trailing comment,
                  double braces, dispatch on the upper-cased first word, rows / keyword pairs
  finishTable     `dtype()` + `record[c] = self[t][c]` (integer range, string truncation, shapes)
  parseFile       all of it

Simplifications, all on malformed input only (the model refuses, numpy would go on): a column
list of length 1 is not broadcast over a longer table; an array cell of length 1 is not
broadcast to the declared length; Python `int()` extras (blanks, `_`) are refused.
-/
import PydlVerif.Model.YannyRow
namespace PydlVerif.Yanny

variable {F : Type}

def upper (s : Str) : Str := s.map Char.toUpper
def lower (s : Str) : Str := s.map Char.toLower

def joinWith (sep : Str) : List Str → Str
  | [] => []
  | [a] => a
  | a :: b :: t => a ++ sep ++ joinWith sep (b :: t)

def stripPrefix : Str → Str → Option Str
  | [], s => some s
  | _ :: _, [] => none
  | p :: ps, c :: cs => if p == c then stripPrefix ps cs else none

/-- `s.find(sub)`: index of the first occurrence -/
def findSub (sub : Str) : Str → Option Nat
  | [] => if sub.isEmpty then some 0 else none
  | c :: t => if (stripPrefix sub (c :: t)).isSome then some 0 else (findSub sub t).map (· + 1)

def hasSub (sub s : Str) : Bool := (findSub sub s).isSome

/-! ## writer -/

/-- numpy scalar types of a column (`dt[c].str[1:]`) -/
inductive NpT where
  | i2 | i4 | i8 | f4 | f8 | S (n : Nat) | U (n : Nat)
  | u2 | u4 | u8 | i1 | u1 | b1 | f2 | c8 | c16
  deriving Repr, DecidableEq, Inhabited

/-- a column of a record array: name, scalar type, array length (`0` = scalar column) -/
structure Col where
  name : Str
  ty : NpT
  alen : Nat
  deriving Repr, DecidableEq, Inhabited

/-- one entry of the `enums` dictionary: column name ↦ (enum type name, labels) -/
structure EnumDecl where
  col : Str
  tyName : Str
  labels : List Str
  deriving Repr, DecidableEq, Inhabited

/-- `dtmap` of `dtype_to_struct` -/
def cType : NpT → Option Str
  | .i2 => some "short".toList
  | .i4 => some "int".toList
  | .i8 => some "long".toList
  | .f4 => some "float".toList
  | .f8 => some "double".toList
  | _ => none

/-- `t[0] in 'SU'` and the item size in bytes -/
def strSize : NpT → Option Nat
  | .S n => some n
  | .U n => some (4 * n)
  | _ => none

/-- `str.strip(',')` -/
def stripCommas (s : Str) : Str := ((s.dropWhile (· == ',')).reverse.dropWhile (· == ',')).reverse

def enumText (e : EnumDecl) : Str :=
  let lines := "typedef enum {".toList :: e.labels.map (fun n => "    ".toList ++ n ++ [','])
  let lines := lines.dropLast ++ [stripCommas (lines.getLastD [])]
  joinWith ['\n'] (lines ++ ["} ".toList ++ upper e.tyName ++ [';']])

def brack (n : Nat) : Str := '[' :: (fmtNat n ++ [']'])

/-- one line of the struct body; `dtmap[t]` raises KeyError for an unsupported scalar type -/
def colLine (enums : List EnumDecl) (c : Col) : Except String Str :=
  let en := enums.find? (fun e => e.col == c.name)
  let arr := if c.alen > 0 then brack c.alen else []
  match strSize c.ty with
  | some s =>
    match en with
    | some e => .ok ("    ".toList ++ upper e.tyName ++ ' ' :: c.name ++ arr ++ [';'])
    | none => .ok ("    ".toList ++ "char".toList ++ ' ' :: c.name ++ arr ++ brack s ++ [';'])
  | none =>
    match cType c.ty with
    | some tw => .ok ("    ".toList ++ tw ++ ' ' :: c.name ++ arr ++ [';'])
    | none => .error "KeyError"

def colLines (enums : List EnumDecl) : List Col → Except String (List Str)
  | [] => .ok []
  | c :: cs =>
    match colLine enums c with
    | .error e => .error e
    | .ok l =>
      match colLines enums cs with
      | .error e => .error e
      | .ok ls => .ok (l :: ls)

/-- the `struct` entry of `dtype_to_struct` -/
def dtypeToStruct (cols : List Col) (structname : Str) (enums : List EnumDecl) : Except String Str :=
  match colLines enums cols with
  | .error e => .error e
  | .ok ls => .ok (joinWith ['\n'] ("typedef struct {".toList :: ls ++ ["} ".toList ++ upper structname ++ [';']]))

structure TableD (F : Type) where
  name : Str
  cols : List Col
  rows : List (List (Cell F))
  deriving Repr, Inhabited

/-- what is handed to `write_ndarray_to_yanny`: tables, struct names, `enums`, `hdr` (values in
text form), and the comment block as it appears in the file (lines starting with `#`). -/
structure Doc (F : Type) where
  comments : Str
  hdr : List (Str × Str)
  enums : List EnumDecl
  tables : List (TableD F)
  deriving Repr, Inhabited

def structTexts (enums : List EnumDecl) : List (TableD F) → Except String (List Str)
  | [] => .ok []
  | t :: ts =>
    match dtypeToStruct t.cols t.name enums with
    | .error e => .error e
    | .ok s =>
      match structTexts enums ts with
      | .error e => .error e
      | .ok ss => .ok (s :: ss)

def rowLines (io : FloatIO F) (t : TableD F) : Str :=
  (t.rows.map (fun r => fmtRow io (upper t.name) r ++ ['\n'])).flatten

def defsBlock (texts : List Str) : Str :=
  if texts.isEmpty then [] else '\n' :: (joinWith ['\n', '\n'] texts ++ ['\n'])

/-- the file `write_ndarray_to_yanny` writes -/
def renderFile (io : FloatIO F) (d : Doc F) : Except String Str :=
  match structTexts d.enums d.tables with
  | .error e => .error e
  | .ok structs =>
    let enums := if d.tables.isEmpty then [] else d.enums.map enumText
    .ok ("#%yanny\n".toList ++ d.comments ++
      (d.hdr.map (fun kv => kv.1 ++ ' ' :: kv.2 ++ ['\n'])).flatten ++
      defsBlock enums ++ defsBlock structs ++ ['\n'] ++
      (d.tables.map (rowLines io)).flatten)

/-! ## reader: front half -/

def isWordCh (c : Char) : Bool := c.isAlphanum || c == '_'
def nonSp (c : Char) : Bool := !isSpace c

/-- characters of a whitespace run up to and including its last newline (0 if there is none) -/
def lastNlLen (run : Str) : Nat := (run.reverse.dropWhile (· != '\n')).length

def contGo : Nat → Str → Str
  | _, [] => []
  | skip + 1, _ :: t => contGo skip t
  | 0, c :: t =>
    if c == '\\' then
      let k := lastNlLen (t.takeWhile isSpace)
      if k > 0 then ' ' :: contGo k t else c :: contGo 0 t
    else c :: contGo 0 t

/-- `re.sub(r'\\\s*\n', ' ', contents)` -/
def joinCont (s : Str) : Str := contGo 0 s

/-- `typedef\s+kw\s*\{([^}]+)\}\s*(\w+)\s*;` at the head of `s`:
(characters of the match after the first, body, name) -/
def matchTypedef (kw : Str) (s : Str) : Option (Nat × Str × Str) :=
  match stripPrefix "typedef".toList s with
  | none => none
  | some r1 =>
    match r1 with
    | [] => none
    | c :: _ =>
      if !isSpace c then none else
      match stripPrefix kw (r1.dropWhile isSpace) with
      | none => none
      | some r3 =>
        match r3.dropWhile isSpace with
        | '{' :: r5 =>
          let body := r5.takeWhile (· != '}')
          if body.isEmpty then none else
          match r5.dropWhile (· != '}') with
          | [] => none
          | _ :: r7 =>
            let r8 := r7.dropWhile isSpace
            let name := r8.takeWhile isWordCh
            if name.isEmpty then none else
            match (r8.dropWhile isWordCh).dropWhile isSpace with
            | ';' :: r11 => some (s.length - r11.length - 1, body, name)
            | _ => none
        | _ => none

/-- a matched definition: full text, body between the braces, name -/
structure TDef where
  text : Str
  body : Str
  name : Str
  deriving Repr, DecidableEq, Inhabited

def tdFind (kw : Str) : Nat → Str → List TDef
  | _, [] => []
  | k + 1, _ :: t => tdFind kw k t
  | 0, c :: t =>
    match matchTypedef kw (c :: t) with
    | some (n, body, name) => ⟨(c :: t).take (n + 1), body, name⟩ :: tdFind kw n t
    | none => tdFind kw 0 t

def tdRemove (kw : Str) : Nat → Str → Str
  | _, [] => []
  | k + 1, _ :: t => tdRemove kw k t
  | 0, c :: t =>
    match matchTypedef kw (c :: t) with
    | some (n, _, _) => tdRemove kw n t
    | none => c :: tdRemove kw 0 t

def lastSemiAux : Str → Nat → Option Nat → Option Nat
  | [], _, best => best
  | c :: t, i, best => lastSemiAux t (i + 1) (if c == ';' && i ≥ 1 then some i else best)

/-- index of the last `;` of a word that has at least one character before it -/
def lastSemi (w : Str) : Option Nat := lastSemiAux w 0 none

def noSemi (s : Str) : Str := s.filter (· != ';')

/-- `(datatype, column)` for every match of `\S+\s+\S+;` -/
def bodyDefsAux : Nat → Str → List (Str × Str)
  | 0, _ => []
  | _, [] => []
  | f + 1, c :: t =>
    if isSpace c then bodyDefsAux f t else
    let s := c :: t
    let r := s.dropWhile nonSp
    if r.isEmpty then [] else
    let r' := r.dropWhile isSpace
    let w2 := r'.takeWhile nonSp
    match lastSemi w2 with
    | some k => (noSemi (s.takeWhile nonSp), noSemi (w2.take k)) :: bodyDefsAux f (r'.drop (k + 1))
    | none => bodyDefsAux f r'

def bodyDefs (body : Str) : List (Str × Str) := bodyDefsAux (body.length + 1) body

def isOpenB (c : Char) : Bool := c == '[' || c == '<'
def isCloseB (c : Char) : Bool := c == ']' || c == '>'

/-- `re.sub(r'[\[<].*[\]>]$', '', column)` -/
def stripArr (col : Str) : Str :=
  match col.reverse with
  | [] => col
  | l :: _ => if isCloseB l && col.any isOpenB then col.takeWhile (fun c => !isOpenB c) else col

def columnsOf (body : Str) : List Str := (bodyDefs body).map (fun d => stripArr d.2)

/-- `_symbols[NAME] = [...]` with dictionary semantics (a repeated name keeps its place) -/
def symInsert (tabs : List (Str × List Str)) (name : Str) (cols : List Str) : List (Str × List Str) :=
  if tabs.any (fun t => t.1 == name) then tabs.map (fun t => if t.1 == name then (name, cols) else t)
  else tabs ++ [(name, cols)]

/-! ## reader: typing from the typedef text -/

/-- `re.search(r'\}\s*(\w+)\s*;\s*$', text).group(1)`: the name a typedef text defines.  Scanned from
the end: white space, `;`, white space, a maximal run of word characters, white space, `}`. -/
def tdName (text : Str) : Option Str :=
  match text.reverse.dropWhile isSpace with
  | ';' :: r =>
    let r1 := r.dropWhile isSpace
    let w := r1.takeWhile isWordCh
    if w.isEmpty then none else
    match (r1.dropWhile isWordCh).dropWhile isSpace with
    | '}' :: _ => some w.reverse
    | _ => none
  | _ => none

/-- the struct text `type()` works on (after the D16/D17 fix): the one whose typedef name - the word
before the final `;` - equals the table name, ignoring case; `None` unless there is exactly one -/
def selectDef (structs : List Str) (table : Str) : Option Str :=
  let defs := structs.filter (fun x => (tdName x).map upper == some (upper table))
  if defs.length != 1 then none else defs.head?

def lastCloseAux : Str → Nat → Option Nat → Option Nat
  | [], _, best => best
  | c :: t, i, best =>
    lastCloseAux t (i + 1) (if isCloseB c && i ≥ 1 && t.head? == some ';' then some i else best)

/-- what `([\[<].*[\]>]|);` captures at the head of `tail` -/
def arrTail (tail : Str) : Option Str :=
  match tail with
  | [] => none
  | c :: _ =>
    if isOpenB c then
      let line := tail.takeWhile (· != '\n')
      match lastCloseAux line 0 none with
      | some k => some (line.take (k + 1))
      | none => none
    else if c == ';' then some [] else none

/-- `re.search(r'(\S+)\s+VAR([\[<].*[\]>]|);', text).groups()` -/
def typeSearchAux (var : Str) : Nat → Str → Option (Str × Str)
  | 0, _ => none
  | _, [] => none
  | f + 1, c :: t =>
    if isSpace c then typeSearchAux var f t else
    let s := c :: t
    let r := s.dropWhile nonSp
    if r.isEmpty then none else
    let r' := r.dropWhile isSpace
    match stripPrefix var r' with
    | some tail =>
      match arrTail tail with
      | some a => some (s.takeWhile nonSp, a)
      | none => typeSearchAux var f r'
    | none => typeSearchAux var f r'

def typeSearch (var text : Str) : Option (Str × Str) := typeSearchAux var (text.length + 1) text

def normB (s : Str) : Str := s.map (fun c => if c == '<' then '[' else if c == '>' then ']' else c)

/-- yanny.type -/
def typeOf (structs : List Str) (table var : Str) : Except String Str :=
  match selectDef structs table with
  | none => .error "TypeError"
  | some d =>
    match typeSearch var d with
    | none => .error "AttributeError"
    | some (typ, arr) => .ok (typ ++ normB arr)

/-- yanny.basetype -/
def baseType (typ : Str) : Str := typ.takeWhile (· != '[')

def digitsThenClose (s : Str) : Option Str :=
  match s.dropWhile Char.isDigit with
  | c :: r => if isCloseB c then some r else none
  | [] => none

/-- `char[\[<]\d*[\]>][\[<]\d*[\]>]` at the head -/
def matchCharArr (s : Str) : Bool :=
  match stripPrefix "char".toList s with
  | some (o :: r) =>
    if isOpenB o then
      match digitsThenClose r with
      | some (o2 :: r2) => isOpenB o2 && (digitsThenClose r2).isSome
      | _ => false
    else false
  | _ => false

def searchCharArr : Str → Bool
  | [] => false
  | c :: t => matchCharArr (c :: t) || searchCharArr t

/-- yanny.isarray -/
def isArrayT (typ : Str) : Bool :=
  searchCharArr typ || (!hasSub "char".toList typ && (typ.contains '[' || typ.contains '<'))

/-- yanny.array_length for an array type: `int(typ[typ.index('[')+1:typ.index(']')])` -/
def arrayLength (typ : Str) : Except String Nat :=
  if !typ.contains '[' || !typ.contains ']' then .error "ValueError" else
  match parseNat (((typ.dropWhile (· != '[')).drop 1).takeWhile (· != ']')) with
  | some n => .ok n
  | none => .error "ValueError"

/-- text between the last `[` and the last `]` -/
def lastBracket (typ : Str) : Str :=
  (((typ.reverse.dropWhile (· != ']')).drop 1).takeWhile (· != '[')).reverse

def scLen : Sc F → Nat
  | .str s => s.length
  | _ => 0

def cellMaxLen : Cell F → Nat
  | .one v => scLen v
  | .many vs => (vs.map scLen).foldl max 0

/-- yanny.char_length: the declared size, or for `char[]` the longest value in the column -/
def charLength (typ : Str) (data : List (Cell F)) : Except String Nat :=
  match parseNat (lastBracket typ) with
  | some n => .ok n
  | none => if data.isEmpty then .ok 1 else .ok ((data.map cellMaxLen).foldl max 0)   -- `max(..., default=1)`

/-- `re.split(r',\s*', body.strip())` -/
def splitCommaAux : Str → Str → List Str
  | [], cur => [cur.reverse]
  | c :: t, cur => if c == ',' then cur.reverse :: splitCommaAux t [] else splitCommaAux t (c :: cur)

def splitComma (s : Str) : List Str :=
  match splitCommaAux s [] with
  | [] => []
  | a :: rest => a :: rest.map lstrip

/-- the `_enum_cache`: enum type name ↦ labels -/
def enumCache (enums : List TDef) : List (Str × List Str) :=
  enums.map (fun e => (e.name, splitComma (strip e.body)))

def lookupLast (k : Str) : List (Str × List Str) → Option (List Str)
  | [] => none
  | (a, v) :: t => match lookupLast k t with
    | some w => some w
    | none => if a == k then some v else none

/-- `convert`'s classification of the base type -/
def convOfBase (base : Str) : Conv :=
  if base == "short".toList || base == "int".toList || base == "long".toList then .int
  else if base == "float".toList then .flt .f4
  else if base == "double".toList then .flt .f8
  else .str

def colSpec (structs : List Str) (table var : Str) : Except String ColSpec :=
  match typeOf structs table var with
  | .error e => .error e
  | .ok typ => .ok ⟨convOfBase (baseType typ), isArrayT typ⟩

def colSpecs (structs : List Str) (table : Str) : List Str → Except String (List ColSpec)
  | [] => .ok []
  | v :: vs =>
    match colSpec structs table v with
    | .error e => .error e
    | .ok c =>
      match colSpecs structs table vs with
      | .error e => .error e
      | .ok cs => .ok (c :: cs)

/-! ## reader: the line loop -/

/-- `str.split('\n')` -/
def splitNlAux : Str → Str → List Str
  | [], cur => [cur.reverse]
  | c :: t, cur => if c == '\n' then cur.reverse :: splitNlAux t [] else splitNlAux t (c :: cur)

def splitNl (s : Str) : List Str := splitNlAux s []

/-- lines the loop skips: empty, `^\s*#`, `^\s*$` -/
def skipLine (line : Str) : Bool :=
  match line.dropWhile isSpace with
  | [] => true
  | c :: _ => c == '#'

/-- `strip`, `trailing_comment`, `double_braces.sub` -/
def cleanLine (line : Str) : Str := doubleBraces (trailingComment (strip line))

/-- `self[key] = value` on the keyword pairs (an existing key keeps its place) -/
def setPair (ps : List (Str × Str)) (k v : Str) : List (Str × Str) :=
  if ps.any (fun p => p.1 == k) then ps.map (fun p => if p.1 == k then (k, v) else p) else ps ++ [(k, v)]

/-- state of the loop: keyword pairs, and per table the rows read so far -/
structure LoopSt (F : Type) where
  pairs : List (Str × Str)
  rows : List (Str × List (List (Cell F)))
  deriving Inhabited

def addRow (rows : List (Str × List (List (Cell F)))) (t : Str) (r : List (Cell F)) :
    List (Str × List (List (Cell F))) :=
  rows.map (fun e => if e.1 == t then (e.1, e.2 ++ [r]) else e)

def lookupSpec (specs : List (Str × Except String (List ColSpec))) (t : Str) :
    Option (Except String (List ColSpec)) :=
  (specs.find? (fun e => e.1 == t)).map (·.2)

/-- one line of the loop -/
def lineStep (io : FloatIO F) (specs : List (Str × Except String (List ColSpec)))
    (st : LoopSt F) (line : Str) : Except String (LoopSt F) :=
  if skipLine line then .ok st else
  match getToken (cleanLine line) with
  | .error e => .error e
  | .ok (key, value) =>
    match lookupSpec specs (upper key) with
    | some (.error e) => if moreData value then .error e else .ok st
    | some (.ok sch) =>
      match parseRow io sch value with
      | .error e => .error e
      | .ok cells => .ok { st with rows := addRow st.rows (upper key) cells }
    | none => .ok { st with pairs := setPair st.pairs key value }

def lineLoop (io : FloatIO F) (specs : List (Str × Except String (List ColSpec))) :
    LoopSt F → List Str → Except String (LoopSt F)
  | st, [] => .ok st
  | st, l :: ls =>
    match lineStep io specs st l with
    | .error e => .error e
    | .ok st' => lineLoop io specs st' ls

/-! ## reader: record arrays -/

/-- column types of the record array (`dtype()`) -/
inductive RT where
  | i2 | i4 | i8 | f4 | f8 | S (n : Nat)
  deriving Repr, DecidableEq, Inhabited

structure RCol where
  name : Str
  ty : RT
  alen : Option Nat
  deriving Repr, DecidableEq, Inhabited

structure RTable (F : Type) where
  name : Str
  cols : List RCol
  rows : List (List (Cell F))
  deriving Repr, Inhabited

structure Parsed (F : Type) where
  pairs : List (Str × Str)
  tables : List (RTable F)
  deriving Repr, Inhabited

def maxLen (ls : List Str) : Nat := (ls.map List.length).foldl max 0

def rtOfBase (base : Str) : Option RT :=
  if base == "short".toList then some .i2
  else if base == "int".toList then some .i4
  else if base == "long".toList then some .i8
  else if base == "float".toList then some .f4
  else if base == "double".toList then some .f8
  else none

/-- one entry of `dtype()` -/
def rcolOf (structs : List Str) (cache : List (Str × List Str)) (table var : Str)
    (data : List (Cell F)) : Except String RCol :=
  match typeOf structs table var with
  | .error e => .error e
  | .ok typ =>
    let base := baseType typ
    let rt : Except String RT :=
      if base == "char".toList then
        match charLength typ data with
        | .error e => .error e
        | .ok n => .ok (.S n)
      else
        match lookupLast base cache with
        | some labels => .ok (.S (maxLen labels))
        | none =>
          match rtOfBase base with
          | some t => .ok t
          | none => .error "KeyError"
    match rt with
    | .error e => .error e
    | .ok t =>
      if isArrayT typ then
        match arrayLength typ with
        | .error e => .error e
        | .ok n => .ok ⟨var, t, some n⟩
      else .ok ⟨var, t, none⟩

def inRange (t : RT) (n : Int) : Bool :=
  match t with
  | .i2 => -32768 ≤ n && n ≤ 32767
  | .i4 => -2147483648 ≤ n && n ≤ 2147483647
  | .i8 => -9223372036854775808 ≤ n && n ≤ 9223372036854775807
  | _ => true

/-- assignment of one Python value into a field of type `t` -/
def castSc (t : RT) : Sc F → Except String (Sc F)
  | .int n => if inRange t n then .ok (.int n) else .error "OverflowError"
  | .flt w x => .ok (.flt w x)
  | .str s => match t with
    | .S n => .ok (.str (s.take n))
    | _ => .ok (.str s)

def castScs (t : RT) : List (Sc F) → Except String (List (Sc F))
  | [] => .ok []
  | v :: vs =>
    match castSc t v with
    | .error e => .error e
    | .ok w =>
      match castScs t vs with
      | .error e => .error e
      | .ok ws => .ok (w :: ws)

def castCell (c : RCol) : Cell F → Except String (Cell F)
  | .one v =>
    match c.alen with
    | some _ => .error "ValueError"
    | none => match castSc c.ty v with
      | .error e => .error e
      | .ok w => .ok (.one w)
  | .many vs =>
    match c.alen with
    | none => .error "ValueError"
    | some n =>
      if vs.length != n then .error "ValueError" else
      match castScs c.ty vs with
      | .error e => .error e
      | .ok ws => .ok (.many ws)

def castRow : List RCol → List (Cell F) → Except String (List (Cell F))
  | [], [] => .ok []
  | c :: cs, x :: xs =>
    match castCell c x with
    | .error e => .error e
    | .ok y =>
      match castRow cs xs with
      | .error e => .error e
      | .ok ys => .ok (y :: ys)
  | _, _ => .error "ValueError"

def castRows (cols : List RCol) : List (List (Cell F)) → Except String (List (List (Cell F)))
  | [] => .ok []
  | r :: rs =>
    match castRow cols r with
    | .error e => .error e
    | .ok r' =>
      match castRows cols rs with
      | .error e => .error e
      | .ok rs' => .ok (r' :: rs')

def rcolsOf (structs : List Str) (cache : List (Str × List Str)) (table : Str)
    (rows : List (List (Cell F))) : Nat → List Str → Except String (List RCol)
  | _, [] => .ok []
  | j, v :: vs =>
    match rcolOf structs cache table v (rows.filterMap (fun r => r[j]?)) with
    | .error e => .error e
    | .ok c =>
      match rcolsOf structs cache table rows (j + 1) vs with
      | .error e => .error e
      | .ok cs => .ok (c :: cs)

/-- `np.zeros(size, dtype(t))` and the column assignments; rows that contributed no cell at all
(a line with only the table name) do not count -/
def finishTable (structs : List Str) (cache : List (Str × List Str)) (name : Str) (cols : List Str)
    (rows : List (List (Cell F))) : Except String (RTable F) :=
  let rows := rows.filter (fun r => !r.isEmpty)
  match rcolsOf structs cache name rows 0 cols with
  | .error e => .error e
  | .ok rcols =>
    match castRows rcols rows with
    | .error e => .error e
    | .ok rs => .ok ⟨name, rcols, rs⟩

def finishTables (structs : List Str) (cache : List (Str × List Str))
    (rows : List (Str × List (List (Cell F)))) : List (Str × List Str) → Except String (List (RTable F))
  | [] => .ok []
  | (name, cols) :: ts =>
    let rs := match rows.find? (fun e => e.1 == name) with
      | some e => e.2
      | none => []
    match finishTable structs cache name cols rs with
    | .error e => .error e
    | .ok t =>
      match finishTables structs cache rows ts with
      | .error e => .error e
      | .ok ts' => .ok (t :: ts')

/-- symbols of a text: struct definitions, enum definitions, the remaining lines -/
structure Front where
  structs : List TDef
  enums : List TDef
  tables : List (Str × List Str)
  rest : Str
  deriving Repr, Inhabited

def front (text : Str) : Front :=
  let lines := joinCont text
  let structs := tdFind "struct".toList 0 lines
  let enums := tdFind "enum".toList 0 lines
  let rest := tdRemove "enum".toList 0 (tdRemove "struct".toList 0 lines)
  let tables := structs.foldl (fun acc d => symInsert acc (upper d.name) (columnsOf d.body)) []
  ⟨structs, enums, tables, rest⟩

/-- `yanny(file)` (not raw): keyword pairs in order, tables in order of definition -/
def parseFile (io : FloatIO F) (text : Str) : Except String (Parsed F) :=
  let fr := front text
  let st := fr.structs.map (·.text)
  let specs := fr.tables.map (fun t => (t.1, colSpecs st t.1 t.2))
  let init : LoopSt F := ⟨[], fr.tables.map (fun t => (t.1, []))⟩
  match lineLoop io specs init (splitNl fr.rest) with
  | .error e => .error e
  | .ok fin =>
    match finishTables st (enumCache fr.enums) fin.rows fr.tables with
    | .error e => .error e
    | .ok ts => .ok ⟨fin.pairs, ts⟩

/-! ## what the document should read back as -/

def rtOfCol (enums : List EnumDecl) (c : Col) : Option RT :=
  match c.ty with
  | .i2 => some .i2
  | .i4 => some .i4
  | .i8 => some .i8
  | .f4 => some .f4
  | .f8 => some .f8
  | .S n =>
    match enums.find? (fun e => e.col == c.name) with
    | some e => some (.S (maxLen e.labels))
    | none => some (.S n)
  | .U n =>
    match enums.find? (fun e => e.col == c.name) with
    | some e => some (.S (maxLen e.labels))
    | none => some (.S (4 * n))
  | _ => none

/-- canonical reading of a document: upper-cased table names, column types as the reader names
them (`U<n>` comes back as `S<4n>`, an enum column as `S<longest label>`), header values stripped -/
def canon (d : Doc F) : Parsed F :=
  ⟨d.hdr.map (fun kv => (kv.1, strip kv.2)),
   d.tables.map (fun t =>
     ⟨upper t.name,
      t.cols.map (fun c => ⟨c.name, (rtOfCol d.enums c).getD .i2, if c.alen > 0 then some c.alen else none⟩),
      t.rows⟩)⟩

end PydlVerif.Yanny

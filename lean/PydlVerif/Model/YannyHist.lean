/-
Yanny parameter files, write/append histories (pydl/pydlutils/yanny.py).

State of the world the property talks about: a file system (path ↦ text) and ONE yanny object
(`filename`, `_contents`, `raw`, and what `_parse` left in it: `_symbols`, keyword pairs, tables).

  parseView     `_parse` as seen through the object: the line loop of C01's reader (`loopOf`),
                then either the record arrays (`finishTables`, normal mode) or the bare lists
                (raw mode)
  commentBlock  the comment header of `write()` (default block / `str` / list of `str`)
  renderView    the text `write()` builds from the object (pairs, enum texts, struct texts, rows)
  appendChunk   the text `append()` builds from the `datatable` dictionary
  step          write / append / re-read, and two actions of the environment
                (the file disappears, `obj.filename = p`)
  run           a history

Order of evaluation follows the code: `write()` resolves the name, checks existence, renders,
writes, binds, re-parses; `append()` checks the name, builds ALL lines (a missing column or a short
column raises here, before anything is written), warns on an empty chunk, checks the file, appends
to the FILE and to `_contents` separately, re-parses from scratch.

Simplifications (the model answers "model-domain", the harness never generates them): a table
value that is not a mapping of columns, a scalar cell in an array column or a list cell in a
scalar column (Python would print `str(list)` or iterate a string), an object whose last `_parse`
raised.  Array-ness of a written cell is the cell's shape (after a parse the two agree).
-/
import PydlVerif.Model.YannyFile
namespace PydlVerif.Yanny

variable {F : Type}

/-! ## the object after `_parse` -/

/-- one table of the object: `types = none` in raw mode (plain lists, no dtype) -/
structure TView (F : Type) where
  name : Str
  cols : List Str
  types : Option (List RCol)
  rows : List (List (Cell F))
  deriving Repr, Inhabited, DecidableEq

/-- `_symbols['struct']`, `_symbols['enum']`, `_symbols[TABLE]`, keyword pairs, tables -/
structure View (F : Type) where
  structs : List Str
  enums : List Str
  symbols : List (Str × List Str)
  pairs : List (Str × Str)
  tables : List (TView F)
  deriving Repr, Inhabited, DecidableEq

/-- raw mode keeps what `convert` returns: a Python `float` (binary64) whatever the declared width;
the cast to `float32` only happens when the record array is filled -/
def rawSpec (c : ColSpec) : ColSpec :=
  match c.conv with
  | .flt _ => ⟨.flt .f8, c.isArr⟩
  | _ => c

def specsOf (fr : Front) (raw : Bool) : List (Str × Except String (List ColSpec)) :=
  fr.tables.map (fun t => (t.1,
    match colSpecs (fr.structs.map (·.text)) t.1 t.2 with
    | .error e => .error e
    | .ok sps => .ok (if raw then sps.map rawSpec else sps)))

def initSt (fr : Front) : LoopSt F := ⟨[], fr.tables.map (fun t => (t.1, []))⟩

/-- the line loop of `_parse` on a whole text: keyword pairs and, per table, the rows read -/
def loopOf (io : FloatIO F) (raw : Bool) (text : Str) : Except String (LoopSt F) :=
  let fr := front text
  lineLoop io (specsOf fr raw) (initSt fr) (splitNl fr.rest)

def rowsOf (rows : List (Str × List (List (Cell F)))) (name : Str) : List (List (Cell F)) :=
  match rows.find? (fun e => e.1 == name) with
  | some e => e.2
  | none => []

/-- raw mode: the lists stay as they are (a line with only the table name adds to no column) -/
def rawTables (rows : List (Str × List (List (Cell F)))) (tabs : List (Str × List Str)) : List (TView F) :=
  tabs.map (fun t => ⟨t.1, t.2, none, (rowsOf rows t.1).filter (fun r => !r.isEmpty)⟩)

def ofRTable (t : RTable F) : TView F := ⟨t.name, t.cols.map (·.name), some t.cols, t.rows⟩

/-- what the last step of `_parse` makes of the loop state -/
def finishView (fr : Front) (raw : Bool) (fin : LoopSt F) : Except String (View F) :=
  let st := fr.structs.map (·.text)
  let en := fr.enums.map (·.text)
  if raw then .ok ⟨st, en, fr.tables, fin.pairs, rawTables fin.rows fr.tables⟩
  else
    match finishTables st (enumCache fr.enums) fin.rows fr.tables with
    | .error e => .error e
    | .ok ts => .ok ⟨st, en, fr.tables, fin.pairs, ts.map ofRTable⟩

/-- `_parse()` on `_contents` -/
def parseView (io : FloatIO F) (raw : Bool) (text : Str) : Except String (View F) :=
  match loopOf io raw text with
  | .error e => .error e
  | .ok fin => finishView (front text) raw fin

/-! ## `write()` -/

/-- the `comments` argument; the default block needs the time stamp (environment) -/
inductive Comments where
  | default (stamp : Str)
  | text (s : Str)
  | lines (ls : List Str)
  deriving Repr, Inhabited

/-- `os.path.basename` -/
def basename (p : Str) : Str := (p.reverse.takeWhile (· != '/')).reverse

def commentBlock (p : Str) : Comments → Str
  | .default stamp =>
    "#\n# ".toList ++ basename p ++ "\n#\n# Created by pydl.pydlutils.yanny.yanny\n#\n# ".toList ++ stamp ++ "\n#\n".toList
  | .text s =>
    let s1 := if s.head? == some '#' then s else '#' :: ' ' :: s
    if s1.getLast? == some '\n' then s1 else s1 ++ ['\n']
  | .lines ls => joinWith ['\n'] (ls.map (fun c => '#' :: ' ' :: c)) ++ ['\n']

def pairLine (kv : Str × Str) : Str := kv.1 ++ ' ' :: kv.2 ++ ['\n']

def tableLines (io : FloatIO F) (t : TView F) : Str :=
  (t.rows.map (fun r => fmtRow io t.name r ++ ['\n'])).flatten

/-- the text `write()` builds -/
def renderView (io : FloatIO F) (v : View F) (block : Str) : Str :=
  "#%yanny\n".toList ++ block ++ (v.pairs.map pairLine).flatten ++
    defsBlock v.enums ++ defsBlock v.structs ++ ['\n'] ++ (v.tables.map (tableLines io)).flatten

/-! ## `append()` -/

/-- a value of the `datatable` dictionary: anything printed with `format` (given as its text), or
a mapping column ↦ list of cells (dict of lists, or a record array) -/
inductive AVal (F : Type) where
  | text (s : Str)
  | table (cols : List (Str × List (Cell F)))
  deriving Repr, Inhabited

def lookupKey {α : Type} (k : Str) : List (Str × α) → Option α
  | [] => none
  | (a, v) :: t => if a == k then some v else lookupKey k t

/-- the keyword pairs `append()` takes from the dictionary: every key that is not a table name
(compared in upper case) and is not `symbols`, with the text `format` prints for the value -/
def appendPairs (v : View F) : List (Str × AVal F) → Except String (List (Str × Str))
  | [] => .ok []
  | (key, val) :: rest =>
    if v.symbols.any (fun t => t.1 == upper key) || key == "symbols".toList then appendPairs v rest
    else
      match val with
      | .table _ => .error "model-domain"
      | .text s =>
        match appendPairs v rest with
        | .error e => .error e
        | .ok r => .ok ((key, s) :: r)

/-- one datum of a data line: `{...}` for an array column, `protect` otherwise -/
def fmtDatum (io : FloatIO F) (isArr : Bool) (c : Cell F) : Except String Str :=
  match c with
  | .one _ => if isArr then .error "model-domain" else .ok (fmtCell io c)
  | .many _ => if isArr then .ok (fmtCell io c) else .error "model-domain"

/-- `for col in columns:` of one appended row `k`: the cells picked, and their texts -/
def appendRowCells (io : FloatIO F) (tab : List (Str × List (Cell F))) (k : Nat) :
    List Str → List ColSpec → Except String (List (Cell F))
  | [], _ => .ok []
  | _ :: _, [] => .error "model-domain"
  | col :: cols, sp :: sps =>
    match lookupKey col tab with
    | none => .error "KeyError"
    | some column =>
      match column[k]? with
      | none => .error "IndexError"
      | some cell =>
        match fmtDatum io sp.isArr cell with
        | .error e => .error e
        | .ok _ =>
          match appendRowCells io tab k cols sps with
          | .error e => .error e
          | .ok cells => .ok (cell :: cells)

/-- `for k in range(len(datatable[datasym][columns[0]])):` -/
def appendRowsFrom (io : FloatIO F) (tab : List (Str × List (Cell F))) (cols : List Str)
    (sps : List ColSpec) : Nat → Nat → Except String (List (List (Cell F)))
  | _, 0 => .ok []
  | k, n + 1 =>
    match appendRowCells io tab k cols sps with
    | .error e => .error e
    | .ok r =>
      match appendRowsFrom io tab cols sps (k + 1) n with
      | .error e => .error e
      | .ok rs => .ok (r :: rs)

/-- the rows `append()` takes for table `sym` from the dictionary (none if no key names it):
key `sym.lower()` if present, else `sym` -/
def appendTableRows (io : FloatIO F) (v : View F) (data : List (Str × AVal F)) (sym : Str)
    (cols : List Str) : Except String (List (List (Cell F))) :=
  let datasym := if (lookupKey (lower sym) data).isSome then lower sym else sym
  match lookupKey datasym data with
  | none => .ok []
  | some (.text _) => .error "model-domain"
  | some (.table tab) =>
    match cols with
    | [] => .error "IndexError"
    | c0 :: _ =>
      match lookupKey c0 tab with
      | none => .error "KeyError"
      | some first =>
        if first.isEmpty then .ok [] else
        match colSpecs v.structs sym cols with
        | .error e => .error e
        | .ok sps => appendRowsFrom io tab cols sps 0 first.length

/-- `for sym in self.tables():` - rows taken per table, in the object's table order -/
def appendTables (io : FloatIO F) (v : View F) (data : List (Str × AVal F)) :
    List (Str × List Str) → Except String (List (Str × List (List (Cell F))))
  | [] => .ok []
  | (sym, cols) :: rest =>
    match appendTableRows io v data sym cols with
    | .error e => .error e
    | .ok rows =>
      match appendTables io v data rest with
      | .error e => .error e
      | .ok more => .ok ((sym, rows) :: more)

def rowLinesOf (io : FloatIO F) (groups : List (Str × List (List (Cell F)))) : Str :=
  (groups.map (fun g => (g.2.map (fun r => fmtRow io g.1 r ++ ['\n'])).flatten)).flatten

/-- the lines `append()` builds (without the "Appended by" comment) -/
def appendChunk (io : FloatIO F) (v : View F) (data : List (Str × AVal F)) : Except String Str :=
  match appendPairs v data with
  | .error e => .error e
  | .ok ps =>
    match appendTables io v data v.symbols with
    | .error e => .error e
    | .ok groups => .ok ((ps.map pairLine).flatten ++ rowLinesOf io groups)

/-- what the statement expects of an accepted append on the document read by the line loop:
pairs in dictionary order (value in its text form after `strip`, an existing key keeps its place),
rows per table in order -/
def applyAppend (st : LoopSt F) (ps : List (Str × Str)) (groups : List (Str × List (List (Cell F)))) :
    LoopSt F :=
  ⟨ps.foldl (fun acc kv => setPair acc kv.1 (strip kv.2)) st.pairs,
   groups.foldl (fun acc g => g.2.foldl (fun a r => addRow a g.1 r) acc) st.rows⟩

/-- `"# Appended by yanny.py at "` -/
def hdrPrefix : Str := ['#',' ','A','p','p','e','n','d','e','d',' ','b','y',' ','y','a','n','n','y','.','p','y',' ','a','t',' ']

/-- `"# Appended by yanny.py at {stamp}.\n"` -/
def appendHeader (stamp : Str) : Str := hdrPrefix ++ stamp ++ ['.', '\n']

/-! ## the machine -/

structure Obj (F : Type) where
  filename : Str
  contents : Str
  raw : Bool
  view : Except String (View F)
  deriving Inhabited

structure State (F : Type) where
  fs : Str → Option Str
  obj : Obj F

inductive Out where
  | ok
  | warn
  | error (kind : String)
  deriving Repr, DecidableEq, Inhabited

inductive Op (F : Type) where
  /-- `obj.write(newfile, comments)`: write-new / write-copy / write-over, told apart by the state -/
  | write (newfile : Option Str) (cm : Comments)
  /-- `obj.append(datatable)`: rows, pairs, nothing, or to a missing file -/
  | append (data : List (Str × AVal F)) (stamp : Str)
  /-- `obj.append(x)` with `x` not a dictionary -/
  | appendNonDict
  /-- `obj = yanny(obj.filename, raw=obj.raw)` -/
  | reread
  /-- environment: the object's file is removed behind its back -/
  | unlink
  /-- environment: `obj.filename = p` -/
  | rebind (p : Str)
  deriving Inhabited

/-- the operations of the object itself (the property's histories) -/
def Op.isObjOp : Op F → Bool
  | .unlink => false
  | .rebind _ => false
  | _ => true

def update (fs : Str → Option Str) (p : Str) (t : Option Str) : Str → Option Str :=
  fun q => if q = p then t else fs q

def outOf (v : Except String (View F)) : Out :=
  match v with
  | .ok _ => .ok
  | .error e => .error e

/-- `yanny(p, raw)`: an unreadable / absent file (and the empty name) gives the empty object -/
def load (io : FloatIO F) (fs : Str → Option Str) (p : Str) (raw : Bool) : Obj F :=
  if p.isEmpty then ⟨[], [], raw, parseView io raw []⟩ else
  match fs p with
  | some t => ⟨p, t, raw, parseView io raw t⟩
  | none => ⟨[], [], raw, parseView io raw []⟩

/-- the file `write()` is about to create: the argument, else the object's own name -/
def writeTarget (s : State F) : Option Str → Option Str
  | some p => some p
  | none => if s.obj.filename.isEmpty then none else some s.obj.filename

/-- the accepted write: render, write, bind, re-parse -/
def writeTo (io : FloatIO F) (s : State F) (p : Str) (v : View F) (cm : Comments) : State F × Out :=
  let contents := renderView io v (commentBlock p cm)
  let view := parseView io s.obj.raw contents
  (⟨update s.fs p (some contents), ⟨p, contents, s.obj.raw, view⟩⟩, outOf view)

def stepWrite (io : FloatIO F) (s : State F) (newfile : Option Str) (cm : Comments) : State F × Out :=
  match writeTarget s newfile with
  | none => (s, .error "ValueError")
  | some p =>
    if (s.fs p).isSome then (s, .error "PydlutilsException")
    else if p.isEmpty then (s, .error "FileNotFoundError")
    else
      match s.obj.view with
      | .error _ => (s, .error "model-domain")
      | .ok v => writeTo io s p v cm

/-- the accepted append: the chunk goes to the end of the FILE and to the end of `_contents`
(two separate actions of the code), then `_parse()` from scratch -/
def appendTo (io : FloatIO F) (s : State F) (old chunk : Str) : State F × Out :=
  let contents := s.obj.contents ++ chunk
  let view := parseView io s.obj.raw contents
  (⟨update s.fs s.obj.filename (some (old ++ chunk)), { s.obj with contents := contents, view := view }⟩,
   outOf view)

def stepAppend (io : FloatIO F) (s : State F) (data : List (Str × AVal F)) (stamp : Str) : State F × Out :=
  if s.obj.filename.isEmpty then (s, .error "ValueError") else
  match s.obj.view with
  | .error _ => (s, .error "model-domain")
  | .ok v =>
    match appendChunk io v data with
    | .error e => (s, .error e)
    | .ok body =>
      if body.isEmpty then (s, .warn) else
      match s.fs s.obj.filename with
      | none => (s, .error "PydlutilsException")
      | some old => appendTo io s old (appendHeader stamp ++ body)

/-- the pairs and rows of an append that is accepted (bound object, lines built without error,
something to append, file present); `none` for every refusal and for the empty append -/
def acceptedAppend (io : FloatIO F) (s : State F) (data : List (Str × AVal F)) :
    Option (List (Str × Str) × List (Str × List (List (Cell F)))) :=
  if s.obj.filename.isEmpty then none else
  match s.obj.view with
  | .error _ => none
  | .ok v =>
    match appendPairs v data with
    | .error _ => none
    | .ok ps =>
      match appendTables io v data v.symbols with
      | .error _ => none
      | .ok gs =>
        if ((ps.map pairLine).flatten ++ rowLinesOf io gs).isEmpty then none
        else if (s.fs s.obj.filename).isSome then some (ps, gs) else none

def step (io : FloatIO F) (s : State F) : Op F → State F × Out
  | .write newfile cm => stepWrite io s newfile cm
  | .append data stamp => stepAppend io s data stamp
  | .appendNonDict => (s, .error "ValueError")
  | .reread =>
    let o := load io s.fs s.obj.filename s.obj.raw
    (⟨s.fs, o⟩, outOf o.view)
  | .unlink => (⟨update s.fs s.obj.filename none, s.obj⟩, .ok)
  | .rebind p => (⟨s.fs, { s.obj with filename := p }⟩, .ok)

def run (io : FloatIO F) (s : State F) : List (Op F) → State F
  | [] => s
  | op :: ops => run io (step io s op).1 ops

/-- the state reached and every output on the way -/
def trace (io : FloatIO F) (s : State F) : List (Op F) → List (State F × Out)
  | [] => []
  | op :: ops => let r := step io s op; r :: trace io r.1 ops

/-! ## executable forms of the two named hypotheses of `history_content_partial` -/

/-- appending `chunk` does not disturb the front half of `_parse` (continuation joining, typedef
extraction): same definitions, and the remaining text just grows by `chunk` -/
def frontStable (text chunk : Str) : Bool :=
  let a := front text
  let b := front (text ++ chunk)
  b.structs == a.structs && b.enums == a.enums && b.tables == a.tables && b.rest == a.rest ++ chunk

/-- executable form of `RestNl`: the text left for the line loop is empty or ends with a newline -/
def restNl (text : Str) : Bool :=
  let r := (front text).rest
  r.isEmpty || r.getLast? == some '\n'

end PydlVerif.Yanny

/-
Yanny write/append histories on C01's document domain (property C03, extension round): the
document-level bookkeeping of `history_content` as executable, decidable definitions (core Lean;
evaluated by the driver on every generated history).

  docLoop      what the line loop reads from a document
  viewOfDoc    the object `_parse` leaves for a text that reads as a document
  writeDoc     the document `write()` puts on disk; appendDoc: the document after an accepted append
  appendOK     domain of one accepted append; histDoc / histOK: domain of a history
-/
import PydlVerif.Model.YannyHist
import PydlVerif.Model.YannyDom
namespace PydlVerif.Yanny

variable {F : Type}

/-- what the line loop reads from a document: header pairs (values stripped), rows per table -/
def docLoop (D : Doc F) : LoopSt F :=
  ⟨D.hdr.map (fun kv => (kv.1, strip kv.2)), D.tables.map (fun t => (upper t.name, t.rows))⟩

/-- raw mode keeps binary64 values for `float` columns: documents with a float32 column are outside
the content theorems in raw mode (they are covered by correspondence and oracle only) -/
def rawOK (raw : Bool) (D : Doc F) : Bool :=
  !raw || D.tables.all (fun t => t.cols.all (fun c => c.ty != NpT.f4))

/-- the record-array column a document column reads back as (C01 `canon`) -/
def rcolOfCol (enums : List EnumDecl) (c : Col) : RCol :=
  ⟨c.name, (rtOfCol enums c).getD .i2, if c.alen > 0 then some c.alen else none⟩

/-- the object after `_parse` of a text that reads as document `D`: `_symbols` (the struct and enum
texts `dtype_to_struct` writes), pairs, tables (record arrays with the canonical column types in
normal mode, bare lists in raw mode) -/
def viewOfDoc (raw : Bool) (D : Doc F) : View F :=
  ⟨match structTexts D.enums D.tables with
    | .ok ss => ss
    | .error _ => [],
   if D.tables.isEmpty then [] else D.enums.map enumText,
   D.tables.map (fun t => (upper t.name, t.cols.map (·.name))),
   D.hdr.map (fun kv => (kv.1, strip kv.2)),
   D.tables.map (fun t => ⟨upper t.name, t.cols.map (·.name),
     if raw then none else some (t.cols.map (rcolOfCol D.enums)), t.rows⟩)⟩

/-- everything of a document except comments, header and rows: enum declarations, table names, columns -/
def shapeOf (D : Doc F) : List EnumDecl × List (Str × List Col) :=
  (D.enums, D.tables.map (fun t => (t.name, t.cols)))

/-- the document `write()` puts on disk for an object that reads as `D`: the new comment block, the
header values in the (stripped) form the object holds, everything else as it is -/
def writeDoc (D : Doc F) (block : Str) : Doc F :=
  { comments := block, hdr := D.hdr.map (fun kv => (kv.1, strip kv.2)), enums := D.enums, tables := D.tables }

/-- the rows a list of appended groups holds for table `T` -/
def extraRows (gs : List (Str × List (List (Cell F)))) (T : Str) : List (List (Cell F)) :=
  (gs.filter (fun g => T == g.1)).flatMap (·.2)

/-- the document after an accepted append: pairs set in dictionary order (an existing key keeps its
place), rows added at the end of their table -/
def appendDoc (D : Doc F) (ps : List (Str × Str)) (gs : List (Str × List (List (Cell F)))) : Doc F :=
  { comments := D.comments
    hdr := ps.foldl (fun acc kv => setPair acc kv.1 kv.2) D.hdr
    enums := D.enums
    tables := D.tables.map (fun t =>
      { name := t.name, cols := t.cols, rows := t.rows ++ extraRows gs (upper t.name) }) }

/-- the time stamp of the "Appended by" comment: one line, and the comment has no `typedef` in it -/
def stampOK (stamp : Str) : Bool := !stamp.contains '\n' && noTypedef (hdrPrefix ++ stamp ++ ['.'])

/-- what one accepted append must satisfy (decidable): the time stamp is one line without `typedef`,
every appended pair is in C01's header domain, and the document after the append (old rows and
pairs + the appended ones) is again in C01's domain `docOK` (so every appended row is `rowOK`) -/
def appendOK (io : FloatIO F) (D : Doc F) (stamp : Str) (ps : List (Str × Str))
    (gs : List (Str × List (List (Cell F)))) : Bool :=
  stampOK stamp && ps.all (pairOK (D.tables.map (fun t => upper t.name))) && docOK io (appendDoc D ps gs)

/-- the pairs and rows of an append as a function of the object's view alone (for a bound object
whose file exists this is `acceptedAppend`) -/
def acceptedOf (io : FloatIO F) (v : View F) (data : List (Str × AVal F)) :
    Option (List (Str × Str) × List (Str × List (List (Cell F)))) :=
  match appendPairs v data with
  | .error _ => none
  | .ok ps =>
    match appendTables io v data v.symbols with
    | .error _ => none
    | .ok gs => if ((ps.map pairLine).flatten ++ rowLinesOf io gs).isEmpty then none else some (ps, gs)

/-- **the domain of a history** (decidable; a function of the initial document, the mode, the set of
existing paths, the object's file name and the operations): the document expected after the
history, or `none` when some step leaves C01's domain.

* an append that is not accepted (refused, or nothing to append) changes nothing;
* an accepted append must be `appendOK` (time stamp one line without `typedef`, appended pairs in
  the header domain, the document with the appended rows and pairs again `docOK`);
* a write that is refused (target exists, or empty name) changes nothing; an accepted write must
  produce a `docOK` document with its new comment block (`commentBlock p cm`) - the object is then
  bound to `p`, which exists from now on;
* re-reads and non-dictionary appends change nothing; the environment does not interfere. -/
def histDoc (io : FloatIO F) (raw : Bool) :
    (Str → Bool) → Str → Doc F → List (Op F) → Option (Doc F)
  | _, _, D, [] => some D
  | ex, fn, D, .append data stamp :: ops =>
    match acceptedOf io (viewOfDoc raw D) data with
    | none => histDoc io raw ex fn D ops
    | some (ps, gs) =>
      if appendOK io D stamp ps gs then histDoc io raw ex fn (appendDoc D ps gs) ops else none
  | ex, fn, D, .write nf cm :: ops =>
    if ex (nf.getD fn) || (nf.getD fn).isEmpty then histDoc io raw ex fn D ops
    else if docOK io (writeDoc D (commentBlock (nf.getD fn) cm)) then
      histDoc io raw (fun q => q == nf.getD fn || ex q) (nf.getD fn)
        (writeDoc D (commentBlock (nf.getD fn) cm)) ops
    else none
  | ex, fn, D, .appendNonDict :: ops => histDoc io raw ex fn D ops
  | ex, fn, D, .reread :: ops => histDoc io raw ex fn D ops
  | _, _, _, .unlink :: _ => none
  | _, _, _, .rebind _ :: _ => none

/-- the history stays inside C01's domain -/
def histOK (io : FloatIO F) (raw : Bool) (ex : Str → Bool) (fn : Str) (D : Doc F) (ops : List (Op F)) : Bool :=
  (histDoc io raw ex fn D ops).isSome

end PydlVerif.Yanny

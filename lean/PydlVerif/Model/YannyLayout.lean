/-
Yanny parameter files: surface syntax (property C02).  Core Lean only; builds on the reader /
writer model of C01 (Model/Yanny{Tok,Row,File,Dom}.lean).

  tdNameOf / selectDef2   how `yanny.type()` picks the typedef of a table after the D16/D17 fix:
                          by the name in the trailing `} NAME ;`, compared case-insensitively
  typeOfS … parseFileS    the reader of Model/YannyFile.lean with the selection rule as a
                          parameter (`parseFileS selectDef` is C01's `parseFile`; `parseFile2` is
                          the reader of the tree after the fix), split into the raw stage
                          (`parseRawS`: `yanny(file, raw=True)`) and the record-array stage
  univNl                  what `open(name, 'r').read()` does to line ends (universal newlines)
  QStyle / Sep / RowLay / PairLay / StructLay / EnumLay / Slot / Layout
                          one admissible rendering of a document: per line leading blanks,
                          separators, quoting styles, `[n]` / `<n>`, case of the struct name,
                          trailing comment, CRLF, continuation splits; comment / blank lines and the
                          interleaving of pairs, definitions and rows of the tables
  renders                 `Renders : Doc → Layout → text`
  docOK2 / layoutOK       decidable domain of the layout-independence statement
-/
import PydlVerif.Model.YannyDom
namespace PydlVerif.Yanny

variable {F : Type}

/-! ## typedef selection (yanny.type after the fix) -/

/-- `re.search(r'\}\s*(\w+)\s*;\s*$', text).group(1)`: the name a typedef text defines.  Scanned from
the end: white space, `;`, white space, a maximal run of word characters, white space, `}`. -/
def tdNameOf (text : Str) : Option Str :=
  match text.reverse.dropWhile isSpace with
  | ';' :: r =>
    let r1 := r.dropWhile isSpace
    let w := r1.takeWhile isWordCh
    if w.isEmpty then none else
    match (r1.dropWhile isWordCh).dropWhile isSpace with
    | '}' :: _ => some w.reverse
    | _ => none
  | _ => none

/-- the struct text `type()` works on: the one whose typedef name equals the table name, ignoring
case; `None` unless there is exactly one -/
def selectDef2 (structs : List Str) (table : Str) : Option Str :=
  let defs := structs.filter (fun x => (tdNameOf x).map upper == some (upper table))
  if defs.length != 1 then none else defs.head?

/-- the selection rule of the tree before the fix, kept for the counter-example lemma: exactly one
text with `find(name.lower()) > 0`, else exactly one with `find(name.upper()) > 0` (a copy of
C01's `selectDef` as it stood before the fix) -/
def selectDefOld (structs : List Str) (table : Str) : Option Str :=
  let pos := fun (n : Str) (x : Str) => match findSub n x with | some i => i > 0 | none => false
  let defl := structs.filter (pos (lower table))
  let defu := structs.filter (pos (upper table))
  if defl.length != 1 && defu.length != 1 then none
  else if defl.length == 1 then defl.head? else defu.head?

/-! ## the reader with the selection rule as a parameter -/

abbrev Sel := List Str → Str → Option Str

def typeOfS (sel : Sel) (structs : List Str) (table var : Str) : Except String Str :=
  match sel structs table with
  | none => .error "TypeError"
  | some d =>
    match typeSearch var d with
    | none => .error "AttributeError"
    | some (typ, arr) => .ok (typ ++ normB arr)

def colSpecS (sel : Sel) (structs : List Str) (table var : Str) : Except String ColSpec :=
  match typeOfS sel structs table var with
  | .error e => .error e
  | .ok typ => .ok ⟨convOfBase (baseType typ), isArrayT typ⟩

def colSpecsS (sel : Sel) (structs : List Str) (table : Str) : List Str → Except String (List ColSpec)
  | [] => .ok []
  | v :: vs =>
    match colSpecS sel structs table v with
    | .error e => .error e
    | .ok c =>
      match colSpecsS sel structs table vs with
      | .error e => .error e
      | .ok cs => .ok (c :: cs)

def rcolOfS (sel : Sel) (structs : List Str) (cache : List (Str × List Str)) (table var : Str)
    (data : List (Cell F)) : Except String RCol :=
  match typeOfS sel structs table var with
  | .error e => .error e
  | .ok typ =>
    let base := baseType typ
    let rt : Except String RT :=
      if base == "char".toList then
        match charLength typ data with
        | .error e => .error e
        | .ok n => .ok (.S n)
      else
        match lookupLast base cache with
        | some labels => .ok (.S (maxLen labels))
        | none =>
          match rtOfBase base with
          | some t => .ok t
          | none => .error "KeyError"
    match rt with
    | .error e => .error e
    | .ok t =>
      if isArrayT typ then
        match arrayLength typ with
        | .error e => .error e
        | .ok n => .ok ⟨var, t, some n⟩
      else .ok ⟨var, t, none⟩

def rcolsOfS (sel : Sel) (structs : List Str) (cache : List (Str × List Str)) (table : Str)
    (rows : List (List (Cell F))) : Nat → List Str → Except String (List RCol)
  | _, [] => .ok []
  | j, v :: vs =>
    match rcolOfS sel structs cache table v (rows.filterMap (fun r => r[j]?)) with
    | .error e => .error e
    | .ok c =>
      match rcolsOfS sel structs cache table rows (j + 1) vs with
      | .error e => .error e
      | .ok cs => .ok (c :: cs)

def finishTableS (sel : Sel) (structs : List Str) (cache : List (Str × List Str)) (name : Str)
    (cols : List Str) (rows : List (List (Cell F))) : Except String (RTable F) :=
  let rows := rows.filter (fun r => !r.isEmpty)
  match rcolsOfS sel structs cache name rows 0 cols with
  | .error e => .error e
  | .ok rcols =>
    match castRows rcols rows with
    | .error e => .error e
    | .ok rs => .ok ⟨name, rcols, rs⟩

/-- rows the line loop collected for a table -/
def rawRowsOf (rows : List (Str × List (List (Cell F)))) (name : Str) : List (List (Cell F)) :=
  match rows.find? (fun e => e.1 == name) with
  | some e => e.2
  | none => []

def finishTablesS (sel : Sel) (structs : List Str) (cache : List (Str × List Str))
    (rows : List (Str × List (List (Cell F)))) : List (Str × List Str) → Except String (List (RTable F))
  | [] => .ok []
  | (name, cols) :: ts =>
    match finishTableS sel structs cache name cols (rawRowsOf rows name) with
    | .error e => .error e
    | .ok t =>
      match finishTablesS sel structs cache rows ts with
      | .error e => .error e
      | .ok ts' => .ok (t :: ts')

/-- what raw mode leaves in the object: the keyword pairs and, per table, the converted cells of
every data line in file order (Python lists; nothing is cast) -/
structure RawParsed (F : Type) where
  front : Front
  pairs : List (Str × Str)
  rows : List (Str × List (List (Cell F)))
  deriving Inhabited

/-- `yanny(file, raw=True)` -/
def parseRawS (sel : Sel) (io : FloatIO F) (text : Str) : Except String (RawParsed F) :=
  let fr := front text
  let st := fr.structs.map (·.text)
  let specs := fr.tables.map (fun t => (t.1, colSpecsS sel st t.1 t.2))
  let init : LoopSt F := ⟨[], fr.tables.map (fun t => (t.1, []))⟩
  match lineLoop io specs init (splitNl fr.rest) with
  | .error e => .error e
  | .ok fin => .ok ⟨fr, fin.pairs, fin.rows⟩

/-- `yanny(file)`: raw stage, then the record arrays -/
def parseFileS (sel : Sel) (io : FloatIO F) (text : Str) : Except String (Parsed F) :=
  match parseRawS sel io text with
  | .error e => .error e
  | .ok raw =>
    match finishTablesS sel (raw.front.structs.map (·.text)) (enumCache raw.front.enums) raw.rows
        raw.front.tables with
    | .error e => .error e
    | .ok ts => .ok ⟨raw.pairs, ts⟩

/-- the reader of the tree after the D16/D17 fix -/
def parseFile2 (io : FloatIO F) (text : Str) : Except String (Parsed F) := parseFileS selectDef2 io text
def parseRaw2 (io : FloatIO F) (text : Str) : Except String (RawParsed F) := parseRawS selectDef2 io text

/-- columns of a raw table as the dictionary of lists raw mode returns: column `j` ↦ the `j`-th
cell of every line that has one -/
def rawColumns (cols : List Str) (rows : List (List (Cell F))) : List (Str × List (Cell F)) :=
  (List.range cols.length).zip cols |>.map (fun jc => (jc.2, rows.filterMap (fun r => r[jc.1]?)))

/-- universal newlines of text-mode `open()`: `\r\n` and a lone `\r` become `\n` -/
def univNl : Str → Str
  | [] => []
  | '\r' :: '\n' :: t => '\n' :: univNl t
  | '\r' :: t => '\n' :: univNl t
  | c :: t => c :: univNl t

/-! ## layouts -/

def isBlank (c : Char) : Bool := c == ' ' || c == '\t'

/-- quoting style of one token -/
inductive QStyle where
  | bare
  | quoted
  | braced (pad : Str)
  deriving Repr, DecidableEq, Inhabited

def quoteTok : QStyle → Str → Str
  | .bare, s => s
  | .quoted, s => '"' :: (s ++ ['"'])
  | .braced pad, s => '{' :: (pad ++ s ++ ['}'])

/-- a token may be written bare: non-empty, no white space, no `#`, no `"`, not opening a brace -/
def bareLegal (s : Str) : Bool :=
  !s.isEmpty && s.all (fun c => !isSpace c && c != '#' && c != '"') && s.head? != some '{'

/-- style `q` is legal for the token text `s` (scalar cell) -/
def tokLegal (q : QStyle) (s : Str) : Bool :=
  match q with
  | .bare => bareLegal s
  | .quoted => !s.contains '"' && !s.contains '\n'
  | .braced pad => pad.all isBlank && !s.contains '}' && !s.contains '#' && !s.contains '"' &&
      !s.contains '\n' && (match s.head? with | some c => !isSpace c | none => true)

/-- style `q` is legal for an element of an array cell (no nested braces) -/
def elemLegal (q : QStyle) (s : Str) : Bool :=
  match q with
  | .bare => bareLegal s && !s.contains '}'
  | .quoted => !s.contains '"' && !s.contains '\n' && !s.contains '}'
  | .braced _ => false

/-- a separator: a run of blanks / tabs, possibly split by a backslash continuation
(`a \ b <eol> c`) -/
structure Sep where
  a : Str
  cont : Option (Str × Bool × Str)
  deriving Repr, DecidableEq, Inhabited

def eol (crlf : Bool) : Str := if crlf then ['\r', '\n'] else ['\n']

/-- as written in the file -/
def Sep.phys (s : Sep) : Str :=
  match s.cont with
  | none => s.a
  | some (b, crlf, c) => s.a ++ '\\' :: (b ++ eol crlf ++ c)

/-- after `re.sub(r'\\\s*\n', ' ', …)` -/
def Sep.logical (s : Sep) : Str :=
  match s.cont with
  | none => s.a
  | some (_, _, c) => s.a ++ ' ' :: c

def Sep.ok (s : Sep) : Bool :=
  s.a.all isBlank &&
  match s.cont with
  | none => !s.a.isEmpty
  | some (b, _, c) => b.all isBlank && c.all isBlank

inductive CellLay where
  | one (q : QStyle)
  | many (op : Str) (q : QStyle) (rest : List (Sep × QStyle)) (cl : Str)
  deriving Repr, Inhabited

/-- one data line -/
structure RowLay where
  lead : Str
  name : Str
  cells : List (Sep × CellLay)
  trail : Str
  comment : Option Str
  crlf : Bool
  deriving Repr, Inhabited

/-- one keyword line -/
structure PairLay where
  lead : Str
  sep : Sep
  trail : Str
  comment : Option Str
  crlf : Bool
  deriving Repr, Inhabited

structure ColLay where
  pre : Str
  gap : Str
  legacy1 : Bool
  legacy2 : Bool
  unsized : Bool
  deriving Repr, Inhabited

structure StructLay where
  lead : Str
  g1 : Str
  g2 : Str
  cols : List ColLay
  closePre : Str
  g3 : Str
  name : Str
  g4 : Str
  trail : Str
  comment : Option Str
  crlf : Bool
  deriving Repr, Inhabited

structure EnumLay where
  lead : Str
  g1 : Str
  g2 : Str
  op : Str
  afterComma : List Str
  cl : Str
  g3 : Str
  g4 : Str
  trail : Str
  comment : Option Str
  crlf : Bool
  deriving Repr, Inhabited

/-- what comes next in the file -/
inductive Slot where
  | pair (lay : PairLay)
  | row (t : Nat) (lay : RowLay)
  | sdef (lay : StructLay)
  | edef (lay : EnumLay)
  | filler (text : Str) (crlf : Bool)
  deriving Repr, Inhabited

structure Layout where
  slots : List Slot
  finalEol : Bool
  deriving Repr, Inhabited

/-! ### rendering -/

def commentText : Option Str → Str
  | none => []
  | some c => '#' :: c

def renderElems (sepT : Sep → Str) (io : FloatIO F) : List (Sc F) → List (Sep × QStyle) → Option Str
  | [], [] => some []
  | v :: vs, (s, q) :: ls =>
    match renderElems sepT io vs ls with
    | some t => some (sepT s ++ quoteTok q (scText io v) ++ t)
    | none => none
  | _, _ => none

def renderCell (sepT : Sep → Str) (io : FloatIO F) : Cell F → CellLay → Option Str
  | .one v, .one q => some (quoteTok q (scText io v))
  | .many (v :: vs), .many op q rest cl =>
    match renderElems sepT io vs rest with
    | some t => some ('{' :: (op ++ quoteTok q (scText io v) ++ t ++ cl ++ ['}']))
    | none => none
  | _, _ => none

/-- the text after the struct name: every cell preceded by its separator -/
def renderCells (sepT : Sep → Str) (io : FloatIO F) : List (Cell F) → List (Sep × CellLay) → Option Str
  | [], [] => some []
  | x :: xs, (s, l) :: ls =>
    match renderCell sepT io x l, renderCells sepT io xs ls with
    | some a, some b => some (sepT s ++ a ++ b)
    | _, _ => none
  | _, _ => none

/-- a data line without its line end -/
def renderRow (sepT : Sep → Str) (io : FloatIO F) (cells : List (Cell F)) (lay : RowLay) : Option Str :=
  match renderCells sepT io cells lay.cells with
  | some b => some (lay.lead ++ lay.name ++ b ++ lay.trail ++ commentText lay.comment)
  | none => none

/-- a keyword line without its line end -/
def renderPair (sepT : Sep → Str) (kv : Str × Str) (lay : PairLay) : Str :=
  lay.lead ++ kv.1 ++ sepT lay.sep ++ kv.2 ++ lay.trail ++ commentText lay.comment

def brk (legacy : Bool) (n : Option Nat) : Str :=
  (if legacy then '<' else '[') :: ((match n with | some k => fmtNat k | none => []) ++ [if legacy then '>' else ']'])

/-- one column declaration (cf. `colLine`) -/
def renderColDecl (enums : List EnumDecl) (c : Col) (l : ColLay) : Option Str :=
  let en := enums.find? (fun e => e.col == c.name)
  let arr := if c.alen > 0 then brk l.legacy1 (some c.alen) else []
  match strSize c.ty with
  | some s =>
    match en with
    | some e => some (l.pre ++ upper e.tyName ++ l.gap ++ c.name ++ arr ++ [';'])
    | none => some (l.pre ++ "char".toList ++ l.gap ++ c.name ++ arr ++
        brk l.legacy2 (if l.unsized then none else some s) ++ [';'])
  | none =>
    match cType c.ty with
    | some tw => some (l.pre ++ tw ++ l.gap ++ c.name ++ arr ++ [';'])
    | none => none

def renderColDecls (enums : List EnumDecl) : List Col → List ColLay → Option Str
  | [], [] => some []
  | c :: cs, l :: ls =>
    match renderColDecl enums c l, renderColDecls enums cs ls with
    | some a, some b => some (a ++ b)
    | _, _ => none
  | _, _ => none

def renderStruct (enums : List EnumDecl) (t : TableD F) (l : StructLay) : Option Str :=
  match renderColDecls enums t.cols l.cols with
  | some body => some (l.lead ++ "typedef".toList ++ l.g1 ++ "struct".toList ++ l.g2 ++ '{' :: body ++
      l.closePre ++ '}' :: l.g3 ++ l.name ++ l.g4 ++ ';' :: l.trail ++ commentText l.comment)
  | none => none

def renderLabels : List Str → List Str → Option Str
  | [], _ => none
  | [a], [] => some a
  | a :: b :: t, w :: ws =>
    match renderLabels (b :: t) ws with
    | some r => some (a ++ ',' :: w ++ r)
    | none => none
  | _, _ => none

def renderEnum (e : EnumDecl) (l : EnumLay) : Option Str :=
  match renderLabels e.labels l.afterComma with
  | some body => some (l.lead ++ "typedef".toList ++ l.g1 ++ "enum".toList ++ l.g2 ++ '{' :: l.op ++ body ++
      l.cl ++ '}' :: l.g3 ++ upper e.tyName ++ l.g4 ++ ';' :: l.trail ++ commentText l.comment)
  | none => none

/-- what is still to be written -/
structure RSt (F : Type) where
  hdr : List (Str × Str)
  enums : List EnumDecl
  defs : List (TableD F)
  rows : List (List (List (Cell F)))

def popAt {α} : Nat → List (List α) → Option (α × List (List α))
  | _, [] => none
  | 0, [] :: _ => none
  | 0, (x :: xs) :: rest => some (x, xs :: rest)
  | n + 1, q :: rest =>
    match popAt n rest with
    | some (x, rest') => some (x, q :: rest')
    | none => none

/-- the chunks of the file (each with its CRLF flag) in slot order; `none` when the layout does not
fit the document -/
def renderSlots (sepT : Sep → Str) (io : FloatIO F) (d : Doc F) : RSt F → List Slot → Option (List (Str × Bool))
  | st, [] => if st.hdr.isEmpty && st.enums.isEmpty && st.defs.isEmpty && st.rows.all List.isEmpty then some [] else none
  | st, .pair lay :: ss =>
    match st.hdr with
    | [] => none
    | kv :: rest =>
      match renderSlots sepT io d { st with hdr := rest } ss with
      | some ls => some ((renderPair sepT kv lay, lay.crlf) :: ls)
      | none => none
  | st, .row t lay :: ss =>
    match popAt t st.rows with
    | none => none
    | some (r, rows') =>
      match renderRow sepT io r lay, renderSlots sepT io d { st with rows := rows' } ss with
      | some l, some ls => some ((l, lay.crlf) :: ls)
      | _, _ => none
  | st, .sdef lay :: ss =>
    match st.defs with
    | [] => none
    | t :: rest =>
      match renderStruct d.enums t lay, renderSlots sepT io d { st with defs := rest } ss with
      | some l, some ls => some ((l, lay.crlf) :: ls)
      | _, _ => none
  | st, .edef lay :: ss =>
    match st.enums with
    | [] => none
    | e :: rest =>
      match renderEnum e lay, renderSlots sepT io d { st with enums := rest } ss with
      | some l, some ls => some ((l, lay.crlf) :: ls)
      | _, _ => none
  | st, .filler text crlf :: ss =>
    match renderSlots sepT io d st ss with
    | some ls => some ((text, crlf) :: ls)
    | none => none

def joinChunks (finalEol : Bool) : List (Str × Bool) → Str
  | [] => []
  | [(l, crlf)] => if finalEol then l ++ eol crlf else l
  | (l, crlf) :: r => l ++ eol crlf ++ joinChunks finalEol r

def initRSt (d : Doc F) : RSt F := ⟨d.hdr, d.enums, d.tables, d.tables.map (·.rows)⟩

/-- `Renders d lay`: the text of document `d` in layout `lay` -/
def renders (io : FloatIO F) (d : Doc F) (lay : Layout) : Option Str :=
  (renderSlots Sep.phys io d (initRSt d) lay.slots).map (joinChunks lay.finalEol)

/-- the same file after continuation joining, line by line (what the line loop works on) -/
def rendersLogical (io : FloatIO F) (d : Doc F) (lay : Layout) : Option Str :=
  (renderSlots Sep.logical io d (initRSt d) lay.slots).map (joinChunks lay.finalEol)

/-! ### domain -/

def wsChar (c : Char) : Bool := c == ' ' || c == '\t' || c == '\n' || c == '\r'

/-- text of a trailing comment (after the `#`): no further `#`, an even number of `"`, no
backslash, no line end, no `typedef` -/
def commentOK : Option Str → Bool
  | none => true
  | some c => !c.contains '#' && c.count '"' % 2 == 0 && !c.contains '\\' && !c.contains '\n' &&
      !c.contains '\r' && noTypedef c

/-- a comment inside or after a definition: additionally no `;`, `{`, `}`, `"` -/
def tdCommentOK : Option Str → Bool
  | none => true
  | some c => commentOK (some c) && !c.contains ';' && !c.contains '{' && !c.contains '}' && !c.contains '"'

/-- white space and `# … \n` comments between the declarations of a struct body -/
def tdWsOK : Bool → Str → Bool
  | inC, [] => !inC
  | false, c :: t => if c == '#' then tdWsOK true t else wsChar c && tdWsOK false t
  | true, c :: t =>
    if c == '\n' then tdWsOK false t
    else c != ';' && c != '{' && c != '}' && c != '"' && c != '\\' && c != '#' && c.toNat < 128 && tdWsOK true t

def fillerOK (text : Str) : Bool :=
  match text.dropWhile isBlank with
  | [] => true
  | c :: t => c == '#' && !t.contains '\\' && !t.contains '\n' && !t.contains '\r' && noTypedef t &&
      t.all (fun c => c.toNat < 128)

def elemsLayOK (io : FloatIO F) : List (Sc F) → List (Sep × QStyle) → Bool
  | [], [] => true
  | v :: vs, (s, q) :: ls => s.ok && elemLegal q (scText io v) && elemsLayOK io vs ls
  | _, _ => false

def cellLayOK (io : FloatIO F) : Cell F → CellLay → Bool
  | .one v, .one q => tokLegal q (scText io v)
  | .many (v :: vs), .many op q rest cl =>
    op.all isBlank && cl.all isBlank && elemLegal q (scText io v) && elemsLayOK io vs rest
  | _, _ => false

def cellsLayOK (io : FloatIO F) : List (Cell F) → List (Sep × CellLay) → Bool
  | [], [] => true
  | x :: xs, (s, l) :: ls => s.ok && cellLayOK io x l && cellsLayOK io xs ls
  | _, _ => false

/-- one data line of table `t` -/
def rowLayOK (io : FloatIO F) (t : TableD F) (r : List (Cell F)) (lay : RowLay) : Bool :=
  lay.lead.all isBlank && lay.trail.all isBlank && upper lay.name == upper t.name && wordOK lay.name &&
  commentOK lay.comment && cellsLayOK io r lay.cells &&
  match renderCells Sep.logical io r lay.cells with
  | none => false
  | some b =>
    dbFree (lay.name ++ b) && noTypedef (lay.name ++ b) &&
    (lay.comment.isSome || !endsBackslash b)

def pairLayOK (kv : Str × Str) (lay : PairLay) : Bool :=
  lay.lead.all isBlank && lay.trail.all isBlank && commentOK lay.comment &&
  (if kv.2.isEmpty then lay.sep.a.all isBlank && lay.sep.cont.isNone else lay.sep.ok) &&
  strip kv.2 == kv.2 &&
  (lay.comment.isSome || !endsBackslash (kv.1 ++ kv.2))

def colLayOK (_c : Col) (l : ColLay) : Bool :=
  !l.pre.isEmpty && tdWsOK false l.pre && !l.gap.isEmpty && l.gap.all isBlank

def colsLayOK : List Col → List ColLay → Bool
  | [], [] => true
  | c :: cs, l :: ls => colLayOK c l && colsLayOK cs ls
  | _, _ => false

/-- longest value of column `j` (for `char name[]`) -/
def colMaxLen (rows : List (List (Cell F))) (j : Nat) : Nat :=
  ((rows.filterMap (fun r => r[j]?)).map cellMaxLen).foldl max 0

/-- `char name[]` may be written only when the declared width is the longest value present -/
def unsizedOK (enums : List EnumDecl) (t : TableD F) : Nat → List Col → List ColLay → Bool
  | _, [], _ => true
  | _, _, [] => true
  | j, c :: cs, l :: ls =>
    (!l.unsized ||
      (match c.ty with
       | .S n => !t.rows.isEmpty && colMaxLen t.rows j == n && (enums.find? (fun e => e.col == c.name)).isNone
       | _ => false)) && unsizedOK enums t (j + 1) cs ls

def structLayOK (enums : List EnumDecl) (t : TableD F) (l : StructLay) : Bool :=
  l.lead.all isBlank && !l.g1.isEmpty && l.g1.all wsChar && l.g2.all wsChar && colsLayOK t.cols l.cols &&
  tdWsOK false l.closePre && l.g3.all wsChar && l.g4.all wsChar && upper l.name == upper t.name &&
  wordOK l.name && l.trail.all isBlank && tdCommentOK l.comment && unsizedOK enums t 0 t.cols l.cols

def enumLayOK (e : EnumDecl) (l : EnumLay) : Bool :=
  l.lead.all isBlank && !l.g1.isEmpty && l.g1.all wsChar && l.g2.all wsChar && l.op.all wsChar &&
  l.afterComma.all (fun w => w.all wsChar) && l.afterComma.length + 1 == e.labels.length &&
  l.cl.all wsChar && l.g3.all wsChar && l.g4.all wsChar && l.trail.all isBlank && tdCommentOK l.comment

/-- every slot is legal for the item it writes, and the slots use up the document exactly -/
def slotsOK (io : FloatIO F) (d : Doc F) : RSt F → List Slot → Bool
  | st, [] => st.hdr.isEmpty && st.enums.isEmpty && st.defs.isEmpty && st.rows.all List.isEmpty
  | st, .pair lay :: ss =>
    match st.hdr with
    | [] => false
    | kv :: rest => pairLayOK kv lay && slotsOK io d { st with hdr := rest } ss
  | st, .row t lay :: ss =>
    match popAt t st.rows, d.tables[t]? with
    | some (r, rows'), some tb => rowLayOK io tb r lay && slotsOK io d { st with rows := rows' } ss
    | _, _ => false
  | st, .sdef lay :: ss =>
    match st.defs with
    | [] => false
    | t :: rest => structLayOK d.enums t lay && slotsOK io d { st with defs := rest } ss
  | st, .edef lay :: ss =>
    match st.enums with
    | [] => false
    | e :: rest => enumLayOK e lay && slotsOK io d { st with enums := rest } ss
  | st, .filler text _ :: ss => fillerOK text && slotsOK io d st ss

def layoutOK (io : FloatIO F) (d : Doc F) (lay : Layout) : Bool := slotsOK io d (initRSt d) lay.slots

def tableOK2 (enums : List EnumDecl) (t : TableD F) : Bool :=
  wordOK t.name && !t.cols.isEmpty && t.cols.all colOK && nodup (t.cols.map (·.name)) &&
  t.rows.all (cellsOK enums t.cols)

/-- keyword pair: as `pairOK`, the value in its stripped form -/
def pairOK2 (tnames : List Str) (kv : Str × Str) : Bool := pairOK tnames kv && strip kv.2 == kv.2

/-- the documents the layout statement is about: C01's domain without the name-clash exclusion
(`selectOK`): struct names are arbitrary identifiers, distinct ignoring case -/
def docOK2 (d : Doc F) : Bool :=
  d.enums.all enumOK && nodup (d.enums.map (·.col)) && nodup (d.enums.map (fun e => upper e.tyName)) &&
  d.tables.all (tableOK2 d.enums) && nodup (d.tables.map (fun t => upper t.name)) &&
  d.hdr.all (pairOK2 (d.tables.map (fun t => upper t.name))) && nodup (d.hdr.map (·.1))

/-! ### the documented assumption on declaration lines -/

/-- inside a struct definition every declaration after the first is preceded by a newline
(`type()` matches `[...]` greedily up to the last `];` of the line, so `int a[2]; char t[8];` on one
line is outside the domain) -/
def declNlOK (cols : List ColLay) : Bool := cols.tail.all (fun l => l.pre.contains '\n')

def slotNlOK : Slot → Bool
  | .sdef lay => declNlOK lay.cols
  | _ => true

/-- `layoutOK` together with the assumption on declaration lines: the domain of the file-level
layout-independence theorem -/
def layoutOK2 (io : FloatIO F) (d : Doc F) (lay : Layout) : Bool :=
  layoutOK io d lay && lay.slots.all slotNlOK

/-! ### second extension round: several declarations on one line -/

/-- the declaration of column `c` is written with brackets (`[n]`, `<n>`, `[]`) -/
def hasBr (enums : List EnumDecl) (c : Col) : Bool :=
  c.alen > 0 || ((strSize c.ty).isSome && (enums.find? (fun e => e.col == c.name)).isNone)

/-- no declaration written with brackets before the next newline -/
def lineRestOK (enums : List EnumDecl) : List Col → List ColLay → Bool
  | c :: cs, l :: ls => l.pre.contains '\n' || (!hasBr enums c && lineRestOK enums cs ls)
  | _, _ => true

/-- what `type()` needs of a struct definition: a declaration written with brackets is the last such
declaration of its line (`[\[<].*[\]>]` is greedy up to the last `];` / `>;` of the line); declarations
without brackets may share a line freely -/
def declLineOK (enums : List EnumDecl) : List Col → List ColLay → Bool
  | c :: cs, _ :: ls => (!hasBr enums c || lineRestOK enums cs ls) && declLineOK enums cs ls
  | _, _ => true

/-- `declLineOK` for every struct definition of the file (the `sdef` slots write the tables in order) -/
def sdefsLineOK (enums : List EnumDecl) : List (TableD F) → List Slot → Bool
  | _, [] => true
  | t :: ts, .sdef lay :: ss => declLineOK enums t.cols lay.cols && sdefsLineOK enums ts ss
  | [], .sdef _ :: ss => sdefsLineOK enums [] ss
  | ts, .pair _ :: ss => sdefsLineOK enums ts ss
  | ts, .row _ _ :: ss => sdefsLineOK enums ts ss
  | ts, .edef _ :: ss => sdefsLineOK enums ts ss
  | ts, .filler _ _ :: ss => sdefsLineOK enums ts ss

/-- the widened domain of the file-level theorem: `layoutOK` + at most one bracketed declaration per
line of a struct definition (contains `layoutOK2`) -/
def layoutOKW (io : FloatIO F) (d : Doc F) (lay : Layout) : Bool :=
  layoutOK io d lay && sdefsLineOK d.enums d.tables lay.slots

/-! ### second extension round: the file as read in text mode (universal newlines) -/

/-- the layout of the universal-newline text: every line end is `\n`, every CR of a white-space run
inside a definition is `\n` (CRLF collapses) -/
def Sep.univ (s : Sep) : Sep := ⟨s.a, s.cont.map (fun x => (x.1, false, x.2.2))⟩

def CellLay.univ : CellLay → CellLay
  | .one q => .one q
  | .many op q rest cl => .many op q (rest.map (fun x => (x.1.univ, x.2))) cl

def RowLay.univ (l : RowLay) : RowLay :=
  { l with cells := l.cells.map (fun x => (x.1.univ, x.2.univ)), crlf := false }

def PairLay.univ (l : PairLay) : PairLay := { l with sep := l.sep.univ, crlf := false }

def ColLay.univ (l : ColLay) : ColLay := { l with pre := univNl l.pre }

def StructLay.univ (l : StructLay) : StructLay :=
  { l with g1 := univNl l.g1, g2 := univNl l.g2, cols := l.cols.map ColLay.univ, closePre := univNl l.closePre,
           g3 := univNl l.g3, g4 := univNl l.g4, crlf := false }

def EnumLay.univ (l : EnumLay) : EnumLay :=
  { l with g1 := univNl l.g1, g2 := univNl l.g2, op := univNl l.op, afterComma := l.afterComma.map univNl,
           cl := univNl l.cl, g3 := univNl l.g3, g4 := univNl l.g4, crlf := false }

def Slot.univ : Slot → Slot
  | .pair lay => .pair lay.univ
  | .row t lay => .row t lay.univ
  | .sdef lay => .sdef lay.univ
  | .edef lay => .edef lay.univ
  | .filler text _ => .filler text false

def Layout.univ (lay : Layout) : Layout := ⟨lay.slots.map Slot.univ, lay.finalEol⟩

/-- white space and comments of a struct body, read in text mode: a CR inside a comment must be the CR of
the CRLF that ends the comment (a lone CR is a line end in text mode: it would end the comment early) -/
def tdWsCrOK : Bool → Str → Bool
  | _, [] => true
  | false, c :: t => tdWsCrOK (c == '#') t
  | true, c :: t =>
    if c == '\n' then tdWsCrOK false t else (c != '\r' || t.head? == some '\n') && tdWsCrOK true t

def slotCrOK : Slot → Bool
  | .sdef lay => lay.cols.all (fun l => tdWsCrOK false l.pre) && tdWsCrOK false lay.closePre
  | _ => true

/-- no comment inside a struct definition contains a lone CR -/
def layoutCrOK (lay : Layout) : Bool := lay.slots.all slotCrOK

def cellCrOK (io : FloatIO F) : Cell F → Bool
  | .one v => !(scText io v).contains '\r'
  | .many vs => vs.all (fun v => !(scText io v).contains '\r')

/-- no cell, as printed, contains a CR (strings: part of `docOK2`; integers: always; floats: a property of
the float printer) -/
def tokCrOK (io : FloatIO F) (d : Doc F) : Bool :=
  d.tables.all (fun t => t.rows.all (fun r => r.all (cellCrOK io)))

/-- the domain of the text-mode theorem -/
def layoutOKU (io : FloatIO F) (d : Doc F) (lay : Layout) : Bool :=
  layoutOKW io d lay && layoutCrOK lay && tokCrOK io d

end PydlVerif.Yanny

/-
Yanny parameter files, one data line (pydl/pydlutils/yanny.py).

  fmtCell / fmtRow   the data line `write()` builds (lines 906-918): every datum through
                     `protect`, arrays as `{a b c}`, columns joined by one blank
  convert            yanny.convert (lines 631-669) on a token / list of tokens
  arrayTokens        the `while len(data) > 0` loop of `_parse` (lines 1126-1129)
  parseRow           the column loop of `_parse` (lines 1112-1139) on the text that follows
                     the table name; a short row `break`s (the list returned is shorter)

Floats are abstract: a cell type `F` with `fmtF w` (what `str(np.float32/64)` prints) and
`parseF w` = Python `float()` followed by the cast to the declared width `w`.  In the code the cast
happens later (line 1152, assignment into the record array); it is per cell and nothing observes
the intermediate binary64 value, so the model fuses the two steps into `convert`.
-/
import PydlVerif.Model.YannyTok
namespace PydlVerif.Yanny

/-- declared float width -/
inductive FW where
  | f4 | f8
  deriving Repr, DecidableEq, Inhabited

/-- a scalar datum -/
inductive Sc (F : Type) where
  | int (n : Int)
  | flt (w : FW) (x : F)
  | str (s : Str)
  deriving Repr, DecidableEq, Inhabited

/-- a table cell: scalar column or 1-D array column -/
inductive Cell (F : Type) where
  | one (v : Sc F)
  | many (vs : List (Sc F))
  deriving Repr, DecidableEq, Inhabited

/-- how `convert` treats a token: `short/int/long`, `float/double`, anything else -/
inductive Conv where
  | int | flt (w : FW) | str
  deriving Repr, DecidableEq, Inhabited

structure ColSpec where
  conv : Conv
  isArr : Bool
  deriving Repr, DecidableEq, Inhabited

/-- float ⇄ text, parameters of the model -/
structure FloatIO (F : Type) where
  fmtF : FW → F → Str
  parseF : FW → Str → Option F

variable {F : Type}

/-- `str(x)` of a datum -/
def scText (io : FloatIO F) : Sc F → Str
  | .int n => fmtInt n
  | .flt w x => io.fmtF w x
  | .str s => s

/-- `' '.join(l)` -/
def joinSp : List Str → Str
  | [] => []
  | [a] => a
  | a :: b :: t => a ++ ' ' :: joinSp (b :: t)

def fmtCell (io : FloatIO F) : Cell F → Str
  | .one v => protect (scText io v)
  | .many vs => '{' :: (joinSp (vs.map (fun v => protect (scText io v))) ++ ['}'])

/-- the text after the table name -/
def fmtRowBody (io : FloatIO F) (cells : List (Cell F)) : Str := joinSp (cells.map (fmtCell io))

/-- one data line (without the newline) -/
def fmtRow (io : FloatIO F) (name : Str) (cells : List (Cell F)) : Str :=
  joinSp (name :: cells.map (fmtCell io))

def convert (io : FloatIO F) (c : Conv) (tok : Str) : Except String (Sc F) :=
  match c with
  | .int => match parseInt tok with
    | some n => .ok (.int n)
    | none => .error "ValueError"
  | .flt w => match io.parseF w tok with
    | some x => .ok (.flt w x)
    | none => .error "ValueError"
  | .str => .ok (.str tok)

/-- `while len(data) > 0: (token, data) = get_token(data)`; every call removes at least one
character, `fuel = data.length` is always enough. -/
def arrayTokensAux : Nat → Str → Except String (List Str)
  | _, [] => .ok []
  | 0, _ :: _ => .error "fuel"
  | fuel + 1, c :: t =>
    match getToken (c :: t) with
    | .error e => .error e
    | .ok (tok, rest) =>
      match arrayTokensAux fuel rest with
      | .error e => .error e
      | .ok toks => .ok (tok :: toks)

def arrayTokens (data : Str) : Except String (List Str) := arrayTokensAux data.length data

def convertAll (io : FloatIO F) (c : Conv) : List Str → Except String (List (Sc F))
  | [] => .ok []
  | t :: ts =>
    match convert io c t with
    | .error e => .error e
    | .ok v =>
      match convertAll io c ts with
      | .error e => .error e
      | .ok vs => .ok (v :: vs)

/-- one column of the row loop: token, then array split and conversion -/
def parseCell (io : FloatIO F) (col : ColSpec) (data : Str) : Except String (Cell F) :=
  if col.isArr then
    match arrayTokens data with
    | .error e => .error e
    | .ok toks =>
      match convertAll io col.conv toks with
      | .error e => .error e
      | .ok vs => .ok (.many vs)
  else
    match convert io col.conv data with
    | .error e => .error e
    | .ok v => .ok (.one v)

/-- `len(value) > 0 and blanks.search(value) is None` (`blanks = ^\s*$`) -/
def moreData (value : Str) : Bool := !(value.all isSpace)

/-- the column loop on `value` = the line after its first token -/
def parseRow (io : FloatIO F) : List ColSpec → Str → Except String (List (Cell F))
  | [], _ => .ok []
  | col :: cols, value =>
    if moreData value then
      match getToken value with
      | .error e => .error e
      | .ok (data, value') =>
        match parseCell io col data with
        | .error e => .error e
        | .ok cell =>
          match parseRow io cols value' with
          | .error e => .error e
          | .ok cells => .ok (cell :: cells)
    else .ok []

end PydlVerif.Yanny

/-
Yanny parameter files, token level (pydl/pydlutils/yanny.py).
Executable model over `List Char`, core Lean only.

  isSpace          Python's `\s` / `str.isspace` (the set `str.strip` removes)
  protect          yanny.protect          (lines 152-182)
  getToken         yanny.get_token        (lines 110-149), the three regular
                   expressions written as explicit scanners
  trailingComment  yanny.trailing_comment (lines 184-232)
  doubleBraces     `double_braces.sub('""', line)` of `_parse` (line 1086/1101)
  fmtInt/parseInt  decimal text of Python/numpy integers, `int()` on such text

Errors carry the name of the Python exception the code raises.
-/
namespace PydlVerif.Yanny

abbrev Str := List Char

/-- `\s` of Python 3 `re` on `str` = `str.isspace` (checked for all code points < 256 by the harness). -/
def isSpace (c : Char) : Bool :=
  c == ' ' || c == '\t' || c == '\n' || c == '\r' || c == '\x0b' || c == '\x0c' ||
  c == '\x1c' || c == '\x1d' || c == '\x1e' || c == '\x1f' || c == '\u0085' || c == '\u00a0'

def lstrip (s : Str) : Str := s.dropWhile isSpace
def rstrip (s : Str) : Str := (s.reverse.dropWhile isSpace).reverse
/-- `str.strip()` -/
def strip (s : Str) : Str := rstrip (lstrip s)

/-- the condition under which `protect` adds quotes: empty, contains `#`, or `re.search(r'\s+', s)` -/
def needsQuote (s : Str) : Bool := s.isEmpty || s.contains '#' || s.any isSpace

/-- `yanny.protect` on the text form of the datum -/
def protect (s : Str) : Str := if needsQuote s then '"' :: (s ++ ['"']) else s

/-- what `(.*)` captures: up to, not including, the first newline -/
def restOfLine (s : Str) : Str := s.takeWhile (· != '\n')

/-- `yanny.get_token`.
* `^"([^"]*)"\s*(.*)`            - no closing quote: `re.search` is `None` → AttributeError
* `^\{\s*([^}]*)\s*\}\s*(.*)`    - the word keeps its trailing blanks (`[^}]*` is greedy)
* `re.split(r'\s+', string, 1)`  - one piece only → `(string, '')`
* `string[0]` on the empty string → IndexError -/
def getToken (s : Str) : Except String (Str × Str) :=
  match s with
  | [] => .error "IndexError"
  | '"' :: t =>
    match t.dropWhile (· != '"') with
    | [] => .error "AttributeError"
    | _ :: r => .ok (t.takeWhile (· != '"'), restOfLine (r.dropWhile isSpace))
  | '{' :: t =>
    let t' := t.dropWhile isSpace
    match t'.dropWhile (· != '}') with
    | [] => .error "AttributeError"
    | _ :: r => .ok (t'.takeWhile (· != '}'), restOfLine (r.dropWhile isSpace))
  | c :: t =>
    match (c :: t).dropWhile (fun x => !isSpace x) with
    | [] => .ok (c :: t, [])
    | r => .ok ((c :: t).takeWhile (fun x => !isSpace x), r.dropWhile isSpace)

/-- `yanny.trailing_comment`: last `#`; an even number of `"` from there to the end → cut and rstrip -/
def trailingComment (line : Str) : Str :=
  let r := line.reverse
  if r.contains '#' then
    if (r.takeWhile (· != '#')).count '"' % 2 == 0 then
      (((r.dropWhile (· != '#')).drop 1).dropWhile isSpace).reverse
    else line
  else line

/-- does `\{\s*\{\s*\}\s*\}` match at the head of `s`?  Returns the number of characters of the
match after its first one. -/
def matchDB (s : Str) : Option Nat :=
  match s with
  | '{' :: t =>
    match t.dropWhile isSpace with
    | '{' :: t2 =>
      match t2.dropWhile isSpace with
      | '}' :: t4 =>
        match t4.dropWhile isSpace with
        | '}' :: t6 => some (t.length - t6.length)
        | _ => none
      | _ => none
    | _ => none
  | _ => none

/-- leftmost, non-overlapping substitution; `skip` = characters of the current match still to drop -/
def dbGo : Nat → Str → Str
  | _, [] => []
  | skip + 1, _ :: t => dbGo skip t
  | 0, c :: t =>
    match matchDB (c :: t) with
    | some n => '"' :: '"' :: dbGo n t
    | none => c :: dbGo 0 t

/-- `double_braces.sub('""', line)` -/
def doubleBraces (line : Str) : Str := dbGo 0 line

/-- no position of `s` starts a `{{}}`-like match (decidable form of the D4 exclusion) -/
def dbFree : Str → Bool
  | [] => true
  | c :: t => (matchDB (c :: t)).isNone && dbFree t

/-! ### integers -/

def digitChar (d : Nat) : Char := Char.ofNat (48 + d)

def natDigitsAux : Nat → Nat → Str → Str
  | 0, _, acc => acc
  | f + 1, n, acc =>
    if n < 10 then digitChar n :: acc else natDigitsAux f (n / 10) (digitChar (n % 10) :: acc)

/-- decimal digits of a natural number, no leading zeros (`str(int)`) -/
def fmtNat (n : Nat) : Str := natDigitsAux (n + 1) n []

/-- `str(np.int16/32/64(n))` -/
def fmtInt : Int → Str
  | .ofNat n => fmtNat n
  | .negSucc n => '-' :: fmtNat (n + 1)

def digitVal (c : Char) : Option Nat :=
  if '0' ≤ c ∧ c ≤ '9' then some (c.toNat - 48) else none

def parseNatAux : Str → Nat → Option Nat
  | [], acc => some acc
  | c :: t, acc =>
    match digitVal c with
    | some d => parseNatAux t (acc * 10 + d)
    | none => none

def parseNat (s : Str) : Option Nat := if s.isEmpty then none else parseNatAux s 0

/-- `int(text)` for the texts an integer is written as: optional sign, ASCII digits.
(Python's `int` also accepts surrounding blanks and `_` between digits; not modelled, the
model refuses them.) -/
def parseInt (s : Str) : Option Int :=
  match s with
  | '-' :: t => (parseNat t).map (fun n => - (n : Int))
  | '+' :: t => (parseNat t).map (fun n => (n : Int))
  | _ => (parseNat s).map (fun n => (n : Int))

end PydlVerif.Yanny

/-
C01 - yanny: tables and header pairs written to a file read back unchanged.

Property theorems about the executable model in Model/Yanny{Tok,Row,File,Dom}.lean
(helper lemmas: Lemmas/YannyTok.lean, Lemmas/YannyRow.lean).

Floats are abstract (`FloatIO F`); the two hypotheses every float statement carries are
  H1 io : parseF w (fmtF w x) = some x          (numpy's shortest repr, Python float(), the cast)
  H2 io : fmtF w x has no `"`, `{`, `}`, newline
They are sampled by the harness on every run and are jointly satisfiable (`intIO` below).

Domains (all decidable, `Bool`-valued):
  tokOK s        a datum text: no `"`, no leading `{`, no newline              (CellOK)
  rowFits sch r  as many cells as columns, kinds and shapes agree, strings tokOK, array
                 elements additionally without `}`                              (RowOK)
  dbFree line    no `{ws{ws}ws}` pattern in the written line                    (D4 exclusion)
  docOK io d     the whole-document domain of Model/YannyDom.lean               (DocOK)
-/
import PydlVerif.Lemmas.YannyRow
import PydlVerif.Lemmas.YannyPair
namespace PydlVerif.C01
open PydlVerif.Yanny

variable {F : Type}

/-! ## helpers (not property theorems) -/

theorem moreData_of_head (v : Str) (hne : v ≠ []) (hh : ∀ c, v.head? = some c → isSpace c = false) :
    moreData v = true := by
  cases v with
  | nil => exact absurd rfl hne
  | cons a t => simp [moreData, hh a rfl]

theorem rowFits_mem (sch : List ColSpec) (r : List (Cell F)) (h : rowFits sch r = true) :
    ∀ x ∈ r, ∃ col, cellFits col x = true := by
  induction sch generalizing r with
  | nil =>
    cases r with
    | nil => intro x hx; cases hx
    | cons a t => simp [rowFits] at h
  | cons c cs ih =>
    cases r with
    | nil => intro x hx; cases hx
    | cons a t =>
      simp only [rowFits, Bool.and_eq_true] at h
      intro x hx
      rcases List.mem_cons.mp hx with rfl | hx
      · exact ⟨c, h.1⟩
      · exact ih t h.2 x hx

/-- the rest of a written row: starts with a non-blank, has no newline -/
theorem body_rest (io : FloatIO F) (h2 : H2 io) (y : Cell F) (ys : List (Cell F))
    (hy : ∀ x ∈ y :: ys, ∃ col, cellFits col x = true) :
    (∀ c, (joinSp ((y :: ys).map (fmtCell io))).head? = some c → isSpace c = false) ∧
    '\n' ∉ joinSp ((y :: ys).map (fmtCell io)) := by
  obtain ⟨cy, hcy⟩ := hy y (by simp)
  have py := fmtCell_props io h2 cy y hcy
  refine ⟨?_, ?_⟩
  · intro c hc
    simp only [List.map] at hc
    rw [joinSp_head _ _ py.1] at hc
    exact py.2.1 c hc
  · intro hm
    rcases mem_joinSp _ _ hm with h | ⟨a, ha, hc⟩
    · exact absurd h (by decide)
    · obtain ⟨x, hx, rfl⟩ := List.mem_map.mp ha
      obtain ⟨cx, hcx⟩ := hy x hx
      exact (fmtCell_props io h2 cx x hcx).2.2.2.1 hc

theorem joinSp_getLast (a : Str) (t : List Str) (h : ∀ x ∈ a :: t, x ≠ []) :
    (joinSp (a :: t)).getLast? = ((a :: t).getLast (by simp)).getLast? := by
  induction t generalizing a with
  | nil => rfl
  | cons b t ih =>
    rw [joinSp_cons2]
    have hb : joinSp (b :: t) ≠ [] := joinSp_ne_nil _ _ (h b (by simp))
    rw [show a ++ ' ' :: joinSp (b :: t) = (a ++ [' ']) ++ joinSp (b :: t) by simp,
      List.getLast?_append]
    cases hg : (joinSp (b :: t)).getLast? with
    | none => exact absurd (List.getLast?_eq_none_iff.mp hg) hb
    | some v =>
      have i := ih b (fun x hx => h x (by simp [hx]))
      rw [hg] at i
      simp [← i]

/-- a bare word: not empty, no blank, `"`, `#`, `{` or newline in it (table names, header keys) -/
def bareWord (s : Str) : Bool :=
  !s.isEmpty && s.all (fun c => !isSpace c && c != '"' && c != '#' && c != '\n') && s.head? != some '{'

theorem bareWord_props (s : Str) (h : bareWord s = true) :
    s ≠ [] ∧ (∀ c ∈ s, isSpace c = false ∧ c ≠ '"' ∧ c ≠ '#' ∧ c ≠ '\n') ∧ s.head? ≠ some '{' := by
  simp only [bareWord, Bool.and_eq_true, Bool.not_eq_true', List.all_eq_true, bne_iff_ne, ne_eq] at h
  refine ⟨?_, ?_, h.2⟩
  · intro e; subst e; simp at h
  · intro c hc
    have := h.1.2 c hc
    exact ⟨this.1.1.1, this.1.1.2, this.1.2, this.2⟩

/-- a written data line is `good`, starts and ends with a non-blank -/
theorem fmtRow_shape (io : FloatIO F) (h2 : H2 io) (name : Str) (hn : bareWord name = true)
    (sch : List ColSpec) (r : List (Cell F)) (hr : rowFits sch r = true) :
    good (fmtRow io name r) = true ∧
    (∀ c, (fmtRow io name r).head? = some c → isSpace c = false ∧ c ≠ '#') ∧
    (∀ c, (fmtRow io name r).getLast? = some c → isSpace c = false) := by
  obtain ⟨hne, hch, _⟩ := bareWord_props name hn
  have hmem := rowFits_mem sch r hr
  refine ⟨?_, ?_, ?_⟩
  · apply good_joinSp
    intro a ha
    rcases List.mem_cons.mp ha with rfl | ha
    · exact good_plain _ (fun hm => (hch _ hm).2.1 rfl) (fun hm => (hch _ hm).2.2.1 rfl)
    · obtain ⟨x, hx, rfl⟩ := List.mem_map.mp ha
      obtain ⟨cx, hcx⟩ := hmem x hx
      exact (fmtCell_props io h2 cx x hcx).2.2.2.2
  · intro c hc
    unfold fmtRow at hc
    rw [joinSp_head _ _ hne] at hc
    have := hch c (List.mem_of_mem_head? hc)
    exact ⟨this.1, this.2.2.1⟩
  · intro c hc
    unfold fmtRow at hc
    have hall : ∀ x ∈ name :: r.map (fmtCell io), x ≠ [] := by
      intro x hx
      rcases List.mem_cons.mp hx with rfl | hx
      · exact hne
      · obtain ⟨y, hy, rfl⟩ := List.mem_map.mp hx
        obtain ⟨cy, hcy⟩ := hmem y hy
        exact (fmtCell_props io h2 cy y hcy).1
    rw [joinSp_getLast _ _ hall] at hc
    have hlast := List.getLast_mem (l := name :: r.map (fmtCell io)) (by simp)
    rcases List.mem_cons.mp hlast with e | hm
    · rw [e] at hc
      exact (hch c (List.mem_of_getLast? hc)).1
    · obtain ⟨y, hy, e⟩ := List.mem_map.mp hm
      obtain ⟨cy, hcy⟩ := hmem y hy
      rw [← e] at hc
      exact (fmtCell_props io h2 cy y hcy).2.2.1 c hc

theorem strip_id (l : Str) (h1 : ∀ c, l.head? = some c → isSpace c = false)
    (h2 : ∀ c, l.getLast? = some c → isSpace c = false) : strip l = l := by
  unfold strip lstrip rstrip
  rw [lstrip_id l h1, lstrip_id l.reverse (by intro c hc; rw [List.head?_reverse] at hc; exact h2 c hc)]
  simp

/-! ## property theorems -/

/-- integers: what is printed for an integer is read back as that integer, for every `n : Int` -/
theorem int_roundtrip (n : Int) : parseInt (fmtInt n) = some n := parseInt_fmtInt n

/-- tokens: a protected datum followed by a blank and more text is read back exactly, and the
reader stops exactly at the next datum -/
theorem getToken_protect (s rest : Str) (hs : tokOK s = true)
    (hr : ∀ c, rest.head? = some c → isSpace c = false) (hn : '\n' ∉ rest) :
    getToken (protect s ++ ' ' :: rest) = .ok (s, rest) :=
  Yanny.getToken_protect s rest hs hr hn

/-- tokens: the last datum of a line -/
theorem getToken_protect_last (s : Str) (hs : tokOK s = true) : getToken (protect s) = .ok (s, []) :=
  Yanny.getToken_protect_last s hs

/-- a written data line is a fixed point of `strip` followed by `trailing_comment`: every `#`
the writer emits sits inside a quoted cell -/
theorem trailingComment_row (io : FloatIO F) (h2 : H2 io) (name : Str) (hn : bareWord name = true)
    (sch : List ColSpec) (r : List (Cell F)) (hr : rowFits sch r = true) :
    trailingComment (strip (fmtRow io name r)) = fmtRow io name r := by
  obtain ⟨hg, hh, hl⟩ := fmtRow_shape io h2 name hn sch r hr
  rw [strip_id _ (fun c hc => (hh c hc).1) hl]
  exact trailingComment_good _ hg

/-- a written data line without a `{ws{ws}ws}` pattern (the D4 exclusion, decidable) is a fixed
point of the double-brace substitution -/
theorem doubleBraces_row (io : FloatIO F) (name : Str) (r : List (Cell F))
    (hd : dbFree (fmtRow io name r) = true) : doubleBraces (fmtRow io name r) = fmtRow io name r :=
  doubleBraces_dbFree _ hd

/-- rows: for every schema and every fitting row, reading the written cells gives the row back
(scalar integers, strings incl. empty / blanks / tabs / `#` / `;` / inner braces, floats under
H1 and H2, 1-D arrays of each, enum labels are strings) -/
theorem parseRow_fmtRow (io : FloatIO F) (h1 : H1 io) (h2 : H2 io) (sch : List ColSpec)
    (r : List (Cell F)) (hr : rowFits sch r = true) : parseRow io sch (fmtRowBody io r) = .ok r := by
  induction sch generalizing r with
  | nil =>
    cases r with
    | nil => rfl
    | cons a t => simp [rowFits] at hr
  | cons col cs ih =>
    cases r with
    | nil => simp [rowFits] at hr
    | cons x xs =>
      have hmem := rowFits_mem _ _ hr
      simp only [rowFits, Bool.and_eq_true] at hr
      have px := fmtCell_props io h2 col x hr.1
      cases xs with
      | nil =>
        have hcs : cs = [] := by
          cases cs with
          | nil => rfl
          | cons c t => simp [rowFits] at hr
        subst hcs
        have hmd : moreData (fmtRowBody io [x]) = true := moreData_of_head _ px.1 px.2.1
        have e0 : fmtRowBody io [x] = fmtCell io x := rfl
        simp only [parseRow, hmd, if_true]
        rw [e0, getToken_fmtCell_last io h2 col x hr.1]
        simp only [parseCell_cellData io h1 h2 col x hr.1, parseRow]
      | cons y ys =>
        have hrest := body_rest io h2 y ys (fun z hz => hmem z (by simp [List.mem_cons] at hz ⊢; exact Or.inr hz))
        have e : fmtRowBody io (x :: y :: ys) = fmtCell io x ++ ' ' :: fmtRowBody io (y :: ys) := rfl
        have hmd : moreData (fmtRowBody io (x :: y :: ys)) = true := by
          apply moreData_of_head
          · rw [e]; simp
          · intro c hc
            rw [e] at hc
            cases hf : fmtCell io x with
            | nil => exact absurd hf px.1
            | cons a t =>
              rw [hf] at hc
              simp at hc
              exact px.2.1 c (by rw [hf]; simp [hc])
        unfold parseRow
        simp only [hmd, if_true]
        rw [e, getToken_fmtCell io h2 col x hr.1 (fmtRowBody io (y :: ys)) hrest.1 hrest.2]
        simp only [parseCell_cellData io h1 h2 col x hr.1]
        have := ih (y :: ys) hr.2
        unfold fmtRowBody at this
        simp only [fmtRowBody, this]

/-- lines: the first token of a written data line is the table name, the rest is the row body -/
theorem getToken_rowLine (io : FloatIO F) (h2 : H2 io) (name : Str) (hn : bareWord name = true)
    (sch : List ColSpec) (x : Cell F) (xs : List (Cell F)) (hr : rowFits sch (x :: xs) = true) :
    getToken (fmtRow io name (x :: xs)) = .ok (name, fmtRowBody io (x :: xs)) := by
  obtain ⟨hne, hch, hhd⟩ := bareWord_props name hn
  have hrest := body_rest io h2 x xs (rowFits_mem _ _ hr)
  have e : fmtRow io name (x :: xs) = name ++ ' ' :: fmtRowBody io (x :: xs) := rfl
  rw [e]
  cases name with
  | nil => exact absurd rfl hne
  | cons c t =>
    have hc1 : c ≠ '"' := (hch c (by simp)).2.1
    have hc2 : c ≠ '{' := by
      intro h; subst h; simp at hhd
    have hns : ∀ a ∈ c :: t, (!isSpace a) = true := by
      intro a ha
      simp [(hch a ha).1]
    show getToken (c :: (t ++ ' ' :: fmtRowBody io (x :: xs))) = _
    rw [getToken_bare c _ hc1 hc2]
    have e1 : (c :: (t ++ ' ' :: fmtRowBody io (x :: xs))) = (c :: t) ++ ' ' :: fmtRowBody io (x :: xs) := rfl
    rw [e1, dropWhile_app_stop _ (c :: t) ' ' _ hns (by decide),
      takeWhile_app_stop _ (c :: t) ' ' _ hns (by decide)]
    have e2 : (' ' :: fmtRowBody io (x :: xs)).dropWhile isSpace = fmtRowBody io (x :: xs) := by
      rw [List.dropWhile_cons_of_pos (by decide)]
      exact lstrip_id _ hrest.1
    simp only [e2]

/-- unsupported scalar column types (unsigned, 8-bit, boolean, half, complex) are refused:
`dtype_to_struct` raises KeyError, for every struct name, enum dictionary and position of the column -/
theorem unsupported_refused (cols : List Col) (name : Str) (enums : List EnumDecl)
    (h : ∃ c ∈ cols, c.ty ∈ [NpT.u2, .u4, .u8, .i1, .u1, .b1, .f2, .c8, .c16]) :
    dtypeToStruct cols name enums = .error "KeyError" := by
  have key : colLines enums cols = .error "KeyError" := by
    induction cols with
    | nil => obtain ⟨c, hc, _⟩ := h; cases hc
    | cons c cs ih =>
      obtain ⟨b, hb, hty⟩ := h
      have hline : ∀ c : Col, c.ty ∈ [NpT.u2, .u4, .u8, .i1, .u1, .b1, .f2, .c8, .c16] →
          colLine enums c = .error "KeyError" := by
        intro c hc
        simp only [List.mem_cons, List.mem_nil_iff, or_false] at hc
        unfold colLine
        rcases hc with h | h | h | h | h | h | h | h | h <;> simp [h, strSize, cType]
      unfold colLines
      rcases List.mem_cons.mp hb with e | hb'
      · rw [← e, hline b hty]
      · cases hl : colLine enums c with
        | error e' =>
          -- an earlier column already failed; colLine only ever raises KeyError
          have : e' = "KeyError" := by
            unfold colLine at hl
            cases hs : strSize c.ty <;> cases he : enums.find? (fun e => e.col == c.name) <;>
              cases ht : cType c.ty <;> simp [hs, he, ht] at hl <;> exact hl.symm
          simp [this]
        | ok l => simp [ih ⟨b, hb', hty⟩]
  simp [dtypeToStruct, key]

/-- and therefore nothing is rendered for a document with such a column -/
theorem unsupported_not_rendered (io : FloatIO F) (d : Doc F)
    (h : ∃ t ∈ d.tables, ∃ c ∈ t.cols, c.ty ∈ [NpT.u2, .u4, .u8, .i1, .u1, .b1, .f2, .c8, .c16]) :
    ∃ e, renderFile io d = .error e := by
  have key : ∀ ts : List (TableD F),
      (∃ t ∈ ts, ∃ c ∈ t.cols, c.ty ∈ [NpT.u2, .u4, .u8, .i1, .u1, .b1, .f2, .c8, .c16]) →
      ∃ e, structTexts d.enums ts = .error e := by
    intro ts
    induction ts with
    | nil => intro ⟨t, ht, _⟩; cases ht
    | cons t ts ih =>
      intro ⟨u, hu, hc⟩
      unfold structTexts
      rcases List.mem_cons.mp hu with e | hu'
      · rw [← e, unsupported_refused u.cols u.name d.enums hc]
        exact ⟨_, rfl⟩
      · cases hd : dtypeToStruct t.cols t.name d.enums with
        | error e' => exact ⟨e', rfl⟩
        | ok s =>
          obtain ⟨e', he'⟩ := ih ⟨u, hu', hc⟩
          simp only [he']
          exact ⟨e', rfl⟩
  obtain ⟨e, he⟩ := key d.tables h
  exact ⟨e, by simp [renderFile, he]⟩


/-- the line loop on one written data line: the line is not skipped, cleaning leaves it unchanged,
it is dispatched to its table (`T` = the upper-cased struct name) and appends exactly the row -/
theorem lineStep_row (io : FloatIO F) (h1 : H1 io) (h2 : H2 io)
    (specs : List (Str × Except String (List ColSpec))) (st : LoopSt F)
    (T : Str) (hT : bareWord T = true) (hU : upper T = T)
    (sch : List ColSpec) (hs : lookupSpec specs T = some (.ok sch))
    (x : Cell F) (xs : List (Cell F)) (hr : rowFits sch (x :: xs) = true)
    (hd : dbFree (fmtRow io T (x :: xs)) = true) :
    lineStep io specs st (fmtRow io T (x :: xs)) =
      .ok { st with rows := addRow st.rows T (x :: xs) } := by
  obtain ⟨_, hh, _⟩ := fmtRow_shape io h2 T hT sch (x :: xs) hr
  have hclean : cleanLine (fmtRow io T (x :: xs)) = fmtRow io T (x :: xs) := by
    unfold cleanLine
    rw [trailingComment_row io h2 T hT sch (x :: xs) hr, doubleBraces_row io T (x :: xs) hd]
  have hskip : skipLine (fmtRow io T (x :: xs)) = false := by
    unfold skipLine
    rw [lstrip_id _ (fun c hc => (hh c hc).1)]
    cases hl : fmtRow io T (x :: xs) with
    | nil =>
      have e : fmtRow io T (x :: xs) = T ++ ' ' :: fmtRowBody io (x :: xs) := rfl
      rw [e] at hl
      simp at hl
    | cons c t =>
      have := (hh c (by rw [hl]; rfl)).2
      simpa using this
  unfold lineStep
  simp only [hskip, Bool.false_eq_true, if_false, hclean,
    getToken_rowLine io h2 T hT sch x xs hr, hU, hs, parseRow_fmtRow io h1 h2 sch (x :: xs) hr]

/-- the line loop on a written header line `key value`: the pair is recorded with the value in its
text form after `strip` (leading/trailing blanks of a header value are not kept by the format);
`key`: one word without `#`, not starting like a quoted or braced token, not a table name -/
theorem lineStep_pair (io : FloatIO F) (specs : List (Str × Except String (List ColSpec)))
    (st : LoopSt F) (k v : Str) (hne : k ≠ [])
    (hsp : ∀ c ∈ k, isSpace c = false ∧ c ≠ '#')
    (hh1 : k.head? ≠ some '"') (hh2 : k.head? ≠ some '{') (hv : '#' ∉ v)
    (hd : dbFree (strip (k ++ ' ' :: v)) = true) (hs : lookupSpec specs (upper k) = none) :
    lineStep io specs st (k ++ ' ' :: v) = .ok { st with pairs := setPair st.pairs k (strip v) } := by
  have hskip : skipLine (k ++ ' ' :: v) = false := by
    unfold skipLine
    cases k with
    | nil => exact absurd rfl hne
    | cons c t =>
      have hc := hsp c (by simp)
      rw [show (c :: t) ++ ' ' :: v = c :: (t ++ ' ' :: v) from rfl,
        dropWhile_head_false _ _ _ hc.1]
      simpa using hc.2
  have hnh : '#' ∉ strip (k ++ ' ' :: v) := by
    intro hm
    have := mem_strip _ _ hm
    simp only [List.mem_append, List.mem_cons] at this
    rcases this with h | h | h
    · exact (hsp _ h).2 rfl
    · exact absurd h (by decide)
    · exact hv h
  have hclean : cleanLine (k ++ ' ' :: v) = strip (k ++ ' ' :: v) := by
    unfold cleanLine
    rw [trailingComment_nohash _ hnh, doubleBraces_dbFree _ hd]
  unfold lineStep
  simp only [hskip, Bool.false_eq_true, if_false, hclean,
    getToken_pairLine k v hne (fun c hc => (hsp c hc).1) hh1 hh2, hs]

/-
Full-strength target (stated, NOT proved):

  theorem parse_render (io : FloatIO F) (h1 : H1 io) (h2 : H2 io) (d : Doc F) (hd : docOK io d = true) :
      (renderFile io d).bind (parseFile io) = .ok (canon d)

i.e. every in-domain document (several tables, zero-row tables, header pairs, enum declarations,
any comment block) reads back as its canonical form.  It is checked on every generated document
by the harness (stream doc-m), and what is proved of it is:
  * `unsupported_refused` / `unsupported_not_rendered` (the refusal half),
  * `lineStep_pair`: a header line is recorded as (key, strip value),
  * `parse_render_partial` below: the data section.  Given the symbol table the front half of
    `_parse` produces (`specs`: upper-cased struct name ↦ column specs), the line loop run over the
    data lines written for a table appends exactly that table's rows, in order, to that table and
    changes nothing else (keyword pairs, other tables) - for any number of rows incl. none,
    every schema, every fitting row, from any loop state.
Missing for the full theorem: (1) `front (renderFile d)` = the symbol table of `d` (continuation
joining is the identity on written text, typedef extraction returns the written definitions and
removes exactly them); (2) `colSpecs`/`rcolOf` on a written struct text return the column's
kind, shape and record type; (3) gluing `lineStep_row`, `lineStep_pair` and the skipped
comment/blank lines over the whole rest text; (4) `finishTable` is the identity on in-range cells.
-/

/-- data section of the whole-file theorem -/
theorem parse_render_partial (io : FloatIO F) (h1 : H1 io) (h2 : H2 io)
    (specs : List (Str × Except String (List ColSpec)))
    (T : Str) (hT : bareWord T = true) (hU : upper T = T)
    (sch : List ColSpec) (hs : lookupSpec specs T = some (.ok sch))
    (rows : List (List (Cell F)))
    (hrows : ∀ r ∈ rows, r ≠ [] ∧ rowFits sch r = true ∧ dbFree (fmtRow io T r) = true)
    (st : LoopSt F) :
    lineLoop io specs st (rows.map (fmtRow io T)) =
      .ok { st with rows := rows.foldl (fun acc r => addRow acc T r) st.rows } := by
  induction rows generalizing st with
  | nil => rfl
  | cons r rs ih =>
    obtain ⟨hne, hfit, hdb⟩ := hrows r (by simp)
    cases r with
    | nil => exact absurd rfl hne
    | cons x xs =>
      simp only [List.map, lineLoop, lineStep_row io h1 h2 specs st T hT hU sch hs x xs hfit hdb]
      rw [ih (fun r' hr' => hrows r' (by simp [hr']))]
      rfl

/-! ## the hypotheses are satisfiable, the domains are inhabited -/

/-- a float type for which H1 and H2 hold: integer-valued floats printed as integers -/
def intIO : FloatIO Int := ⟨fun _ x => fmtInt x, fun _ t => parseInt t⟩

example : H1 intIO := fun _ x => parseInt_fmtInt x

example : H2 intIO := by
  intro w x c hc
  have := intChar_ne c (fmtInt_chars x c hc)
  exact ⟨this.1, this.2.1, this.2.2.1, this.2.2.2⟩

/-- every column kind; strings that are empty, blank, with tab, `#`, `;`, inner braces, a
trailing backslash inside quotes; extreme integers; arrays of each kind -/
def sampleSch : List ColSpec :=
  [⟨.int, false⟩, ⟨.flt .f4, false⟩, ⟨.flt .f8, true⟩, ⟨.str, false⟩, ⟨.str, false⟩, ⟨.str, false⟩,
   ⟨.str, true⟩, ⟨.int, true⟩, ⟨.str, false⟩, ⟨.str, false⟩]

def sampleRow : List (Cell Int) :=
  [.one (.int (-9223372036854775808)), .one (.flt .f4 (-7)), .many [.flt .f8 0, .flt .f8 12],
   .one (.str []), .one (.str "a b\t#;".toList), .one (.str "x{y}}z".toList),
   .many [.str "".toList, .str " # ".toList, .str "p{q".toList], .many [.int 32767, .int (-1)],
   .one (.str "ON".toList), .one (.str "tail \\".toList)]

example : rowFits sampleSch sampleRow = true := by decide
example : bareWord "MYSTRUCT0".toList = true := by decide
example : dbFree (fmtRow intIO "T".toList [Cell.one (.str "x{y}}z".toList), .many [.str "p{q".toList]]) = true := by decide
example : tokOK "a b\t#;{}".toList = true := by decide

/-- a document in `docOK`: two tables (one without rows, with an array column), every column kind,
an enum column, header pairs with blanks and quotes, a comment block -/
def sampleDoc : Doc Int :=
  { comments := "# made by hand\n".toList
    hdr := [("mjd".toList, "54579".toList), ("note".toList, "  say \"hi\" there ".toList)]
    enums := [⟨"state".toList, "Status".toList, ["ON".toList, "OFF".toList]⟩]
    tables := [
      { name := "obs".toList
        cols := [⟨"n".toList, .i2, 0⟩, ⟨"id".toList, .i8, 0⟩, ⟨"f".toList, .f4, 0⟩, ⟨"g".toList, .f8, 2⟩,
                 ⟨"s".toList, .S 8, 0⟩, ⟨"tags".toList, .S 4, 2⟩, ⟨"k".toList, .i4, 2⟩, ⟨"state".toList, .S 3, 0⟩,
                 ⟨"u".toList, .U 3, 0⟩]
        rows := [[.one (.int (-32768)), .one (.int 9223372036854775807), .one (.flt .f4 3), .many [.flt .f8 0, .flt .f8 (-5)],
                  .one (.str "a #;{}".toList), .many [.str "".toList, .str " \t".toList], .many [.int 1, .int (-2)],
                  .one (.str "OFF".toList), .one (.str "".toList)],
                 [.one (.int 0), .one (.int 0), .one (.flt .f4 0), .many [.flt .f8 1, .flt .f8 2],
                  .one (.str "}}".toList), .many [.str "x{".toList, .str "#".toList], .many [.int 0, .int 0],
                  .one (.str "ON".toList), .one (.str "\\ ".toList)]] },
      { name := "Empty_1".toList
        cols := [⟨"v".toList, .f8, 3⟩]
        rows := [] }] }

set_option maxRecDepth 200000 in
example : docOK intIO sampleDoc = true := by decide

end PydlVerif.C01

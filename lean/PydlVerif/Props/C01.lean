/-
C01 - yanny: tables and header pairs written to a file read back unchanged.

Property theorems about the executable model in Model/Yanny{Tok,Row,File,Dom}.lean
(helper lemmas: Lemmas/YannyTok.lean, Lemmas/YannyRow.lean).

Floats are abstract (`FloatIO F`); the two hypotheses every float statement carries are
  H1 io : parseF w (fmtF w x) = some x          (numpy's shortest repr, Python float(), the cast)
  H2 io : fmtF w x has no `"`, `{`, `}`, newline
They are sampled by the harness on every run and are jointly satisfiable (`intIO` below).

Domains (all decidable, `Bool`-valued):
  tokOK s        a datum text: no `"`, no leading `{`, no newline              (CellOK)
  rowFits sch r  as many cells as columns, kinds and shapes agree, strings tokOK, array
                 elements additionally without `}`                              (RowOK)
  dbFree line    no `{ws{ws}ws}` pattern in the written line                    (D4 exclusion)
  docOK io d     the whole-document domain of Model/YannyDom.lean               (DocOK)

File level (second half of this file): `front_render` (front half of `_parse` on the written text),
`typing_render` (typing from the typedef text), `loop_render` (the line loop over the whole rest
text), `finish_render` (record arrays), `parse_render` (docOK d → parseFile (renderFile d) = canon d),
`docOK_select` (the selection conjunct of docOK is implied by distinct names).
-/
import PydlVerif.Lemmas.YannyRow
import PydlVerif.Lemmas.YannyPair
import PydlVerif.Lemmas.YannyGlue
namespace PydlVerif.C01
open PydlVerif.Yanny PydlVerif.YannyRT

variable {F : Type}

/-! ## helpers (not property theorems) -/

theorem moreData_of_head (v : Str) (hne : v ≠ []) (hh : ∀ c, v.head? = some c → isSpace c = false) :
    moreData v = true := by
  cases v with
  | nil => exact absurd rfl hne
  | cons a t => simp [moreData, hh a rfl]

theorem rowFits_mem (sch : List ColSpec) (r : List (Cell F)) (h : rowFits sch r = true) :
    ∀ x ∈ r, ∃ col, cellFits col x = true := by
  induction sch generalizing r with
  | nil =>
    cases r with
    | nil => intro x hx; cases hx
    | cons a t => simp [rowFits] at h
  | cons c cs ih =>
    cases r with
    | nil => intro x hx; cases hx
    | cons a t =>
      simp only [rowFits, Bool.and_eq_true] at h
      intro x hx
      rcases List.mem_cons.mp hx with rfl | hx
      · exact ⟨c, h.1⟩
      · exact ih t h.2 x hx

/-- the rest of a written row: starts with a non-blank, has no newline -/
theorem body_rest (io : FloatIO F) (h2 : H2 io) (y : Cell F) (ys : List (Cell F))
    (hy : ∀ x ∈ y :: ys, ∃ col, cellFits col x = true) :
    (∀ c, (joinSp ((y :: ys).map (fmtCell io))).head? = some c → isSpace c = false) ∧
    '\n' ∉ joinSp ((y :: ys).map (fmtCell io)) := by
  obtain ⟨cy, hcy⟩ := hy y (by simp)
  have py := fmtCell_props io h2 cy y hcy
  refine ⟨?_, ?_⟩
  · intro c hc
    simp only [List.map] at hc
    rw [joinSp_head _ _ py.1] at hc
    exact py.2.1 c hc
  · intro hm
    rcases mem_joinSp _ _ hm with h | ⟨a, ha, hc⟩
    · exact absurd h (by decide)
    · obtain ⟨x, hx, rfl⟩ := List.mem_map.mp ha
      obtain ⟨cx, hcx⟩ := hy x hx
      exact (fmtCell_props io h2 cx x hcx).2.2.2.1 hc

theorem joinSp_getLast (a : Str) (t : List Str) (h : ∀ x ∈ a :: t, x ≠ []) :
    (joinSp (a :: t)).getLast? = ((a :: t).getLast (by simp)).getLast? := by
  induction t generalizing a with
  | nil => rfl
  | cons b t ih =>
    rw [joinSp_cons2]
    have hb : joinSp (b :: t) ≠ [] := joinSp_ne_nil _ _ (h b (by simp))
    rw [show a ++ ' ' :: joinSp (b :: t) = (a ++ [' ']) ++ joinSp (b :: t) by simp,
      List.getLast?_append]
    cases hg : (joinSp (b :: t)).getLast? with
    | none => exact absurd (List.getLast?_eq_none_iff.mp hg) hb
    | some v =>
      have i := ih b (fun x hx => h x (by simp [hx]))
      rw [hg] at i
      simp [← i]

/-- a bare word: not empty, no blank, `"`, `#`, `{` or newline in it (table names, header keys) -/
def bareWord (s : Str) : Bool :=
  !s.isEmpty && s.all (fun c => !isSpace c && c != '"' && c != '#' && c != '\n') && s.head? != some '{'

theorem bareWord_props (s : Str) (h : bareWord s = true) :
    s ≠ [] ∧ (∀ c ∈ s, isSpace c = false ∧ c ≠ '"' ∧ c ≠ '#' ∧ c ≠ '\n') ∧ s.head? ≠ some '{' := by
  simp only [bareWord, Bool.and_eq_true, Bool.not_eq_true', List.all_eq_true, bne_iff_ne, ne_eq] at h
  refine ⟨?_, ?_, h.2⟩
  · intro e; subst e; simp at h
  · intro c hc
    have := h.1.2 c hc
    exact ⟨this.1.1.1, this.1.1.2, this.1.2, this.2⟩

/-- a written data line is `good`, starts and ends with a non-blank -/
theorem fmtRow_shape (io : FloatIO F) (h2 : H2 io) (name : Str) (hn : bareWord name = true)
    (sch : List ColSpec) (r : List (Cell F)) (hr : rowFits sch r = true) :
    good (fmtRow io name r) = true ∧
    (∀ c, (fmtRow io name r).head? = some c → isSpace c = false ∧ c ≠ '#') ∧
    (∀ c, (fmtRow io name r).getLast? = some c → isSpace c = false) := by
  obtain ⟨hne, hch, _⟩ := bareWord_props name hn
  have hmem := rowFits_mem sch r hr
  refine ⟨?_, ?_, ?_⟩
  · apply good_joinSp
    intro a ha
    rcases List.mem_cons.mp ha with rfl | ha
    · exact good_plain _ (fun hm => (hch _ hm).2.1 rfl) (fun hm => (hch _ hm).2.2.1 rfl)
    · obtain ⟨x, hx, rfl⟩ := List.mem_map.mp ha
      obtain ⟨cx, hcx⟩ := hmem x hx
      exact (fmtCell_props io h2 cx x hcx).2.2.2.2
  · intro c hc
    unfold fmtRow at hc
    rw [joinSp_head _ _ hne] at hc
    have := hch c (List.mem_of_mem_head? hc)
    exact ⟨this.1, this.2.2.1⟩
  · intro c hc
    unfold fmtRow at hc
    have hall : ∀ x ∈ name :: r.map (fmtCell io), x ≠ [] := by
      intro x hx
      rcases List.mem_cons.mp hx with rfl | hx
      · exact hne
      · obtain ⟨y, hy, rfl⟩ := List.mem_map.mp hx
        obtain ⟨cy, hcy⟩ := hmem y hy
        exact (fmtCell_props io h2 cy y hcy).1
    rw [joinSp_getLast _ _ hall] at hc
    have hlast := List.getLast_mem (l := name :: r.map (fmtCell io)) (by simp)
    rcases List.mem_cons.mp hlast with e | hm
    · rw [e] at hc
      exact (hch c (List.mem_of_getLast? hc)).1
    · obtain ⟨y, hy, e⟩ := List.mem_map.mp hm
      obtain ⟨cy, hcy⟩ := hmem y hy
      rw [← e] at hc
      exact (fmtCell_props io h2 cy y hcy).2.2.1 c hc

theorem strip_id (l : Str) (h1 : ∀ c, l.head? = some c → isSpace c = false)
    (h2 : ∀ c, l.getLast? = some c → isSpace c = false) : strip l = l := by
  unfold strip lstrip rstrip
  rw [lstrip_id l h1, lstrip_id l.reverse (by intro c hc; rw [List.head?_reverse] at hc; exact h2 c hc)]
  simp

/-! ## property theorems -/

/-- integers: what is printed for an integer is read back as that integer, for every `n : Int` -/
theorem int_roundtrip (n : Int) : parseInt (fmtInt n) = some n := parseInt_fmtInt n

/-- tokens: a protected datum followed by a blank and more text is read back exactly, and the
reader stops exactly at the next datum -/
theorem getToken_protect (s rest : Str) (hs : tokOK s = true)
    (hr : ∀ c, rest.head? = some c → isSpace c = false) (hn : '\n' ∉ rest) :
    getToken (protect s ++ ' ' :: rest) = .ok (s, rest) :=
  Yanny.getToken_protect s rest hs hr hn

/-- tokens: the last datum of a line -/
theorem getToken_protect_last (s : Str) (hs : tokOK s = true) : getToken (protect s) = .ok (s, []) :=
  Yanny.getToken_protect_last s hs

/-- a written data line is a fixed point of `strip` followed by `trailing_comment`: every `#`
the writer emits sits inside a quoted cell -/
theorem trailingComment_row (io : FloatIO F) (h2 : H2 io) (name : Str) (hn : bareWord name = true)
    (sch : List ColSpec) (r : List (Cell F)) (hr : rowFits sch r = true) :
    trailingComment (strip (fmtRow io name r)) = fmtRow io name r := by
  obtain ⟨hg, hh, hl⟩ := fmtRow_shape io h2 name hn sch r hr
  rw [strip_id _ (fun c hc => (hh c hc).1) hl]
  exact trailingComment_good _ hg

/-- a written data line without a `{ws{ws}ws}` pattern (the D4 exclusion, decidable) is a fixed
point of the double-brace substitution -/
theorem doubleBraces_row (io : FloatIO F) (name : Str) (r : List (Cell F))
    (hd : dbFree (fmtRow io name r) = true) : doubleBraces (fmtRow io name r) = fmtRow io name r :=
  doubleBraces_dbFree _ hd

/-- rows: for every schema and every fitting row, reading the written cells gives the row back
(scalar integers, strings incl. empty / blanks / tabs / `#` / `;` / inner braces, floats under
H1 and H2, 1-D arrays of each, enum labels are strings) -/
theorem parseRow_fmtRow (io : FloatIO F) (h1 : H1 io) (h2 : H2 io) (sch : List ColSpec)
    (r : List (Cell F)) (hr : rowFits sch r = true) : parseRow io sch (fmtRowBody io r) = .ok r := by
  induction sch generalizing r with
  | nil =>
    cases r with
    | nil => rfl
    | cons a t => simp [rowFits] at hr
  | cons col cs ih =>
    cases r with
    | nil => simp [rowFits] at hr
    | cons x xs =>
      have hmem := rowFits_mem _ _ hr
      simp only [rowFits, Bool.and_eq_true] at hr
      have px := fmtCell_props io h2 col x hr.1
      cases xs with
      | nil =>
        have hcs : cs = [] := by
          cases cs with
          | nil => rfl
          | cons c t => simp [rowFits] at hr
        subst hcs
        have hmd : moreData (fmtRowBody io [x]) = true := moreData_of_head _ px.1 px.2.1
        have e0 : fmtRowBody io [x] = fmtCell io x := rfl
        simp only [parseRow, hmd, if_true]
        rw [e0, getToken_fmtCell_last io h2 col x hr.1]
        simp only [parseCell_cellData io h1 h2 col x hr.1, parseRow]
      | cons y ys =>
        have hrest := body_rest io h2 y ys (fun z hz => hmem z (by simp [List.mem_cons] at hz ⊢; exact Or.inr hz))
        have e : fmtRowBody io (x :: y :: ys) = fmtCell io x ++ ' ' :: fmtRowBody io (y :: ys) := rfl
        have hmd : moreData (fmtRowBody io (x :: y :: ys)) = true := by
          apply moreData_of_head
          · rw [e]; simp
          · intro c hc
            rw [e] at hc
            cases hf : fmtCell io x with
            | nil => exact absurd hf px.1
            | cons a t =>
              rw [hf] at hc
              simp at hc
              exact px.2.1 c (by rw [hf]; simp [hc])
        unfold parseRow
        simp only [hmd, if_true]
        rw [e, getToken_fmtCell io h2 col x hr.1 (fmtRowBody io (y :: ys)) hrest.1 hrest.2]
        simp only [parseCell_cellData io h1 h2 col x hr.1]
        have := ih (y :: ys) hr.2
        unfold fmtRowBody at this
        simp only [fmtRowBody, this]

/-- lines: the first token of a written data line is the table name, the rest is the row body -/
theorem getToken_rowLine (io : FloatIO F) (h2 : H2 io) (name : Str) (hn : bareWord name = true)
    (sch : List ColSpec) (x : Cell F) (xs : List (Cell F)) (hr : rowFits sch (x :: xs) = true) :
    getToken (fmtRow io name (x :: xs)) = .ok (name, fmtRowBody io (x :: xs)) := by
  obtain ⟨hne, hch, hhd⟩ := bareWord_props name hn
  have hrest := body_rest io h2 x xs (rowFits_mem _ _ hr)
  have e : fmtRow io name (x :: xs) = name ++ ' ' :: fmtRowBody io (x :: xs) := rfl
  rw [e]
  cases name with
  | nil => exact absurd rfl hne
  | cons c t =>
    have hc1 : c ≠ '"' := (hch c (by simp)).2.1
    have hc2 : c ≠ '{' := by
      intro h; subst h; simp at hhd
    have hns : ∀ a ∈ c :: t, (!isSpace a) = true := by
      intro a ha
      simp [(hch a ha).1]
    show getToken (c :: (t ++ ' ' :: fmtRowBody io (x :: xs))) = _
    rw [getToken_bare c _ hc1 hc2]
    have e1 : (c :: (t ++ ' ' :: fmtRowBody io (x :: xs))) = (c :: t) ++ ' ' :: fmtRowBody io (x :: xs) := rfl
    rw [e1, dropWhile_app_stop _ (c :: t) ' ' _ hns (by decide),
      takeWhile_app_stop _ (c :: t) ' ' _ hns (by decide)]
    have e2 : (' ' :: fmtRowBody io (x :: xs)).dropWhile isSpace = fmtRowBody io (x :: xs) := by
      rw [List.dropWhile_cons_of_pos (by decide)]
      exact lstrip_id _ hrest.1
    simp only [e2]

/-- unsupported scalar column types (unsigned, 8-bit, boolean, half, complex) are refused:
`dtype_to_struct` raises KeyError, for every struct name, enum dictionary and position of the column -/
theorem unsupported_refused (cols : List Col) (name : Str) (enums : List EnumDecl)
    (h : ∃ c ∈ cols, c.ty ∈ [NpT.u2, .u4, .u8, .i1, .u1, .b1, .f2, .c8, .c16]) :
    dtypeToStruct cols name enums = .error "KeyError" := by
  have key : colLines enums cols = .error "KeyError" := by
    induction cols with
    | nil => obtain ⟨c, hc, _⟩ := h; cases hc
    | cons c cs ih =>
      obtain ⟨b, hb, hty⟩ := h
      have hline : ∀ c : Col, c.ty ∈ [NpT.u2, .u4, .u8, .i1, .u1, .b1, .f2, .c8, .c16] →
          colLine enums c = .error "KeyError" := by
        intro c hc
        simp only [List.mem_cons, List.mem_nil_iff, or_false] at hc
        unfold colLine
        rcases hc with h | h | h | h | h | h | h | h | h <;> simp [h, strSize, cType]
      unfold colLines
      rcases List.mem_cons.mp hb with e | hb'
      · rw [← e, hline b hty]
      · cases hl : colLine enums c with
        | error e' =>
          -- an earlier column already failed; colLine only ever raises KeyError
          have : e' = "KeyError" := by
            unfold colLine at hl
            cases hs : strSize c.ty <;> cases he : enums.find? (fun e => e.col == c.name) <;>
              cases ht : cType c.ty <;> simp [hs, he, ht] at hl <;> exact hl.symm
          simp [this]
        | ok l => simp [ih ⟨b, hb', hty⟩]
  simp [dtypeToStruct, key]

/-- and therefore nothing is rendered for a document with such a column -/
theorem unsupported_not_rendered (io : FloatIO F) (d : Doc F)
    (h : ∃ t ∈ d.tables, ∃ c ∈ t.cols, c.ty ∈ [NpT.u2, .u4, .u8, .i1, .u1, .b1, .f2, .c8, .c16]) :
    ∃ e, renderFile io d = .error e := by
  have key : ∀ ts : List (TableD F),
      (∃ t ∈ ts, ∃ c ∈ t.cols, c.ty ∈ [NpT.u2, .u4, .u8, .i1, .u1, .b1, .f2, .c8, .c16]) →
      ∃ e, structTexts d.enums ts = .error e := by
    intro ts
    induction ts with
    | nil => intro ⟨t, ht, _⟩; cases ht
    | cons t ts ih =>
      intro ⟨u, hu, hc⟩
      unfold structTexts
      rcases List.mem_cons.mp hu with e | hu'
      · rw [← e, unsupported_refused u.cols u.name d.enums hc]
        exact ⟨_, rfl⟩
      · cases hd : dtypeToStruct t.cols t.name d.enums with
        | error e' => exact ⟨e', rfl⟩
        | ok s =>
          obtain ⟨e', he'⟩ := ih ⟨u, hu', hc⟩
          simp only [he']
          exact ⟨e', rfl⟩
  obtain ⟨e, he⟩ := key d.tables h
  exact ⟨e, by simp [renderFile, he]⟩


/-- the line loop on one written data line: the line is not skipped, cleaning leaves it unchanged,
it is dispatched to its table (`T` = the upper-cased struct name) and appends exactly the row -/
theorem lineStep_row (io : FloatIO F) (h1 : H1 io) (h2 : H2 io)
    (specs : List (Str × Except String (List ColSpec))) (st : LoopSt F)
    (T : Str) (hT : bareWord T = true) (hU : upper T = T)
    (sch : List ColSpec) (hs : lookupSpec specs T = some (.ok sch))
    (x : Cell F) (xs : List (Cell F)) (hr : rowFits sch (x :: xs) = true)
    (hd : dbFree (fmtRow io T (x :: xs)) = true) :
    lineStep io specs st (fmtRow io T (x :: xs)) =
      .ok { st with rows := addRow st.rows T (x :: xs) } := by
  obtain ⟨_, hh, _⟩ := fmtRow_shape io h2 T hT sch (x :: xs) hr
  have hclean : cleanLine (fmtRow io T (x :: xs)) = fmtRow io T (x :: xs) := by
    unfold cleanLine
    rw [trailingComment_row io h2 T hT sch (x :: xs) hr, doubleBraces_row io T (x :: xs) hd]
  have hskip : skipLine (fmtRow io T (x :: xs)) = false := by
    unfold skipLine
    rw [lstrip_id _ (fun c hc => (hh c hc).1)]
    cases hl : fmtRow io T (x :: xs) with
    | nil =>
      have e : fmtRow io T (x :: xs) = T ++ ' ' :: fmtRowBody io (x :: xs) := rfl
      rw [e] at hl
      simp at hl
    | cons c t =>
      have := (hh c (by rw [hl]; rfl)).2
      simpa using this
  unfold lineStep
  simp only [hskip, Bool.false_eq_true, if_false, hclean,
    getToken_rowLine io h2 T hT sch x xs hr, hU, hs, parseRow_fmtRow io h1 h2 sch (x :: xs) hr]

/-- the line loop on a written header line `key value`: the pair is recorded with the value in its
text form after `strip` (leading/trailing blanks of a header value are not kept by the format);
`key`: one word without `#`, not starting like a quoted or braced token, not a table name -/
theorem lineStep_pair (io : FloatIO F) (specs : List (Str × Except String (List ColSpec)))
    (st : LoopSt F) (k v : Str) (hne : k ≠ [])
    (hsp : ∀ c ∈ k, isSpace c = false ∧ c ≠ '#')
    (hh1 : k.head? ≠ some '"') (hh2 : k.head? ≠ some '{') (hv : '#' ∉ v)
    (hd : dbFree (strip (k ++ ' ' :: v)) = true) (hs : lookupSpec specs (upper k) = none) :
    lineStep io specs st (k ++ ' ' :: v) = .ok { st with pairs := setPair st.pairs k (strip v) } := by
  have hskip : skipLine (k ++ ' ' :: v) = false := by
    unfold skipLine
    cases k with
    | nil => exact absurd rfl hne
    | cons c t =>
      have hc := hsp c (by simp)
      rw [show (c :: t) ++ ' ' :: v = c :: (t ++ ' ' :: v) from rfl,
        dropWhile_head_false _ _ _ hc.1]
      simpa using hc.2
  have hnh : '#' ∉ strip (k ++ ' ' :: v) := by
    intro hm
    have := mem_strip _ _ hm
    simp only [List.mem_append, List.mem_cons] at this
    rcases this with h | h | h
    · exact (hsp _ h).2 rfl
    · exact absurd h (by decide)
    · exact hv h
  have hclean : cleanLine (k ++ ' ' :: v) = strip (k ++ ' ' :: v) := by
    unfold cleanLine
    rw [trailingComment_nohash _ hnh, doubleBraces_dbFree _ hd]
  unfold lineStep
  simp only [hskip, Bool.false_eq_true, if_false, hclean,
    getToken_pairLine k v hne (fun c hc => (hsp c hc).1) hh1 hh2, hs]

/-
The whole-file theorem

  theorem parse_render (io : FloatIO F) (h1 : H1 io) (h2 : H2 io) (d : Doc F) (hd : docOK io d = true) :
      ∃ text, renderFile io d = .ok text ∧ parseFile io text = .ok (canon d)

is proved at the end of this file (with its four pieces `front_render`, `typing_render`, `loop_render`,
`finish_render`).  `parse_render_partial` below is its data section in the form C03 uses: the line
loop, from ANY state and for ANY symbol table that knows the table, appends the rows written for it.
-/

/-- data section of the whole-file theorem -/
theorem parse_render_partial (io : FloatIO F) (h1 : H1 io) (h2 : H2 io)
    (specs : List (Str × Except String (List ColSpec)))
    (T : Str) (hT : bareWord T = true) (hU : upper T = T)
    (sch : List ColSpec) (hs : lookupSpec specs T = some (.ok sch))
    (rows : List (List (Cell F)))
    (hrows : ∀ r ∈ rows, r ≠ [] ∧ rowFits sch r = true ∧ dbFree (fmtRow io T r) = true)
    (st : LoopSt F) :
    lineLoop io specs st (rows.map (fmtRow io T)) =
      .ok { st with rows := rows.foldl (fun acc r => addRow acc T r) st.rows } := by
  induction rows generalizing st with
  | nil => rfl
  | cons r rs ih =>
    obtain ⟨hne, hfit, hdb⟩ := hrows r (by simp)
    cases r with
    | nil => exact absurd rfl hne
    | cons x xs =>
      simp only [List.map, lineLoop, lineStep_row io h1 h2 specs st T hT hU sch hs x xs hfit hdb]
      rw [ih (fun r' hr' => hrows r' (by simp [hr']))]
      rfl

/-! ## the whole file: `parse_render`

First the helpers that rest on the line lemmas above (`bareWord_of_wordOK` … `row_lineOK`, with
`loop_written`, the general form of piece 3); everything that does not need them is in
Lemmas/YannyGlue.lean, YannyFront.lean, YannyScan.lean, YannyTyping.lean.  Then the property theorems
`front_render`, `typing_render`, `loop_render`, `finish_render`, `parse_render`, `docOK_select`. -/

theorem bareWord_of_wordOK (s : Str) (h : wordOK s = true) : bareWord s = true := by
  obtain ⟨hne, hch⟩ := wordOK_props s h
  simp only [bareWord, Bool.and_eq_true, Bool.not_eq_true', List.all_eq_true, bne_iff_ne, ne_eq]
  refine ⟨⟨?_, ?_⟩, ?_⟩
  · cases s with
    | nil => exact absurd rfl hne
    | cons a t => rfl
  · intro c hc
    have := word_char_props c (hch c hc).2 (hch c hc).1
    exact ⟨⟨⟨this.1, this.2.1⟩, this.2.2.1⟩, this.2.2.2.1⟩
  · cases s with
    | nil => exact absurd rfl hne
    | cons a t =>
      have := word_char_props a (hch a (by simp)).2 (hch a (by simp)).1
      simp only [List.head?_cons, Option.some.injEq]
      exact this.2.2.2.2.1

theorem seg_pairs (io : FloatIO F) (specs : List (Str × Except String (List ColSpec)))
    (hdr : List (Str × Str)) (P : List (Str × Str)) (R : List (Str × List (List (Cell F))))
    (hok : ∀ kv ∈ hdr, PairLineOK specs kv) (hnd : nodup (hdr.map (·.1)) = true)
    (hdis : ∀ kv ∈ hdr, ∀ p ∈ P, p.1 ≠ kv.1) :
    Seg io specs ⟨P, R⟩ ((hdr.map (fun kv => kv.1 ++ ' ' :: kv.2 ++ ['\n'])).flatten)
      ⟨P ++ hdr.map (fun kv => (kv.1, strip kv.2)), R⟩ := by
  induction hdr generalizing P with
  | nil => simpa using Seg.refl io specs ⟨P, R⟩
  | cons kv rest ih =>
    obtain ⟨a1, a2, a3, a4, a5, a6, a7, a8⟩ := hok kv (by simp)
    obtain ⟨n1, n2⟩ := nodup_cons _ _ hnd
    have hline : '\n' ∉ kv.1 ++ ' ' :: kv.2 := by
      intro hm
      simp only [List.mem_append, List.mem_cons] at hm
      rcases hm with h | h | h
      · exact (a2 _ h).2.2 rfl
      · exact absurd h (by decide)
      · exact a6 h
    have hstep := lineStep_pair io specs ⟨P, R⟩ kv.1 kv.2 a1 (fun c hc => ⟨(a2 c hc).1, (a2 c hc).2.1⟩)
      a3 a4 a5 a7 a8
    rw [show (⟨P, R⟩ : LoopSt F).pairs = P from rfl, setPair_new P kv.1 (strip kv.2) (hdis kv (by simp))] at hstep
    have s1 := Seg.line io specs ⟨P, R⟩ _ (kv.1 ++ ' ' :: kv.2) hline hstep
    have s2 := ih (P ++ [(kv.1, strip kv.2)]) (fun x hx => hok x (by simp [hx])) n2 (by
      intro x hx p hp
      rcases List.mem_append.mp hp with h | h
      · exact hdis x (by simp [hx]) p h
      · simp only [List.mem_singleton] at h
        subst h
        intro e
        exact n1 (List.mem_map.mpr ⟨x, hx, e.symm⟩))
    have := Seg.trans s1 s2
    simpa [List.append_assoc] using this

theorem fmtRow_noNewline (io : FloatIO F) (h2 : H2 io) (T : Str) (hT : bareWord T = true)
    (sch : List ColSpec) (r : List (Cell F)) (hne : r ≠ []) (hr : rowFits sch r = true) :
    '\n' ∉ fmtRow io T r := by
  cases r with
  | nil => exact absurd rfl hne
  | cons x xs =>
    have hb := (body_rest io h2 x xs (rowFits_mem _ _ hr)).2
    have hT' := (bareWord_props T hT).2.1
    have e : fmtRow io T (x :: xs) = T ++ ' ' :: joinSp ((x :: xs).map (fmtCell io)) := rfl
    rw [e]
    intro hm
    simp only [List.mem_append, List.mem_cons] at hm
    rcases hm with h | h | h
    · exact (hT' _ h).2.2.2 rfl
    · exact absurd h (by decide)
    · exact hb h

/-- what `lineStep_row` needs of a table and its rows -/
def TabOK (io : FloatIO F) (specs : List (Str × Except String (List ColSpec))) (t : TableD F) : Prop :=
  bareWord (upper t.name) = true ∧ upper (upper t.name) = upper t.name ∧
  ∃ sch, lookupSpec specs (upper t.name) = some (.ok sch) ∧
    ∀ r ∈ t.rows, r ≠ [] ∧ rowFits sch r = true ∧ dbFree (fmtRow io (upper t.name) r) = true

theorem seg_rows (io : FloatIO F) (h1 : H1 io) (h2 : H2 io)
    (specs : List (Str × Except String (List ColSpec))) (T : Str) (hT : bareWord T = true)
    (hU : upper T = T) (sch : List ColSpec) (hs : lookupSpec specs T = some (.ok sch))
    (rows : List (List (Cell F)))
    (hrows : ∀ r ∈ rows, r ≠ [] ∧ rowFits sch r = true ∧ dbFree (fmtRow io T r) = true)
    (P : List (Str × Str)) (A B : List (Str × List (List (Cell F)))) (x : List (List (Cell F)))
    (hA : ∀ e ∈ A, e.1 ≠ T) (hB : ∀ e ∈ B, e.1 ≠ T) :
    Seg io specs ⟨P, A ++ (T, x) :: B⟩ ((rows.map (fun r => fmtRow io T r ++ ['\n'])).flatten)
      ⟨P, A ++ (T, x ++ rows) :: B⟩ := by
  induction rows generalizing x with
  | nil => simpa using Seg.refl io specs ⟨P, A ++ (T, x) :: B⟩
  | cons r rs ih =>
    obtain ⟨hne, hfit, hdb⟩ := hrows r (by simp)
    have hn := fmtRow_noNewline io h2 T hT sch r hne hfit
    cases r with
    | nil => exact absurd rfl hne
    | cons c cs =>
      have hstep := lineStep_row io h1 h2 specs ⟨P, A ++ (T, x) :: B⟩ T hT hU sch hs c cs hfit hdb
      rw [show (⟨P, A ++ (T, x) :: B⟩ : LoopSt F).rows = A ++ (T, x) :: B from rfl,
        addRow_mid A B T x (c :: cs) hA hB] at hstep
      have s1 := Seg.line io specs _ _ _ hn hstep
      have s2 := ih (fun r' hr' => hrows r' (by simp [hr'])) (x ++ [c :: cs])
      have := Seg.trans s1 s2
      simpa [List.append_assoc] using this

theorem seg_tables (io : FloatIO F) (h1 : H1 io) (h2 : H2 io)
    (specs : List (Str × Except String (List ColSpec))) (ts : List (TableD F))
    (hok : ∀ t ∈ ts, TabOK io specs t) (hnd : nodup (ts.map (fun t => upper t.name)) = true)
    (P : List (Str × Str)) (done : List (Str × List (List (Cell F))))
    (hdone : ∀ e ∈ done, ∀ t ∈ ts, e.1 ≠ upper t.name) :
    Seg io specs ⟨P, done ++ ts.map (fun t => (upper t.name, []))⟩ ((ts.map (rowLines io)).flatten)
      ⟨P, done ++ ts.map (fun t => (upper t.name, t.rows))⟩ := by
  induction ts generalizing done with
  | nil => simpa using Seg.refl io specs ⟨P, done⟩
  | cons t rest ih =>
    obtain ⟨b1, b2, sch, b3, b4⟩ := hok t (by simp)
    obtain ⟨n1, n2⟩ := nodup_cons _ _ hnd
    have hB : ∀ e ∈ rest.map (fun t => (upper t.name, ([] : List (List (Cell F))))), e.1 ≠ upper t.name := by
      intro e he
      obtain ⟨u, hu, rfl⟩ := List.mem_map.mp he
      intro e'
      exact n1 (List.mem_map.mpr ⟨u, hu, e'⟩)
    have s1 := seg_rows io h1 h2 specs (upper t.name) b1 b2 sch b3 t.rows b4 P done
      (rest.map (fun t => (upper t.name, []))) [] (fun e he => hdone e he t (by simp)) hB
    have s2 := ih (fun u hu => hok u (by simp [hu])) n2 (done ++ [(upper t.name, t.rows)]) (by
      intro e he u hu
      rcases List.mem_append.mp he with h | h
      · exact hdone e h u (by simp [hu])
      · simp only [List.mem_singleton] at h
        subst h
        intro e'
        exact n1 (List.mem_map.mpr ⟨u, hu, e'.symm⟩))
    simp only [List.nil_append] at s1
    rw [show done ++ [(upper t.name, t.rows)] ++ List.map (fun t => (upper t.name, ([] : List (List (Cell F))))) rest =
      done ++ (upper t.name, t.rows) :: List.map (fun t => (upper t.name, [])) rest by simp,
      show done ++ [(upper t.name, t.rows)] ++ List.map (fun t => (upper t.name, t.rows)) rest =
      done ++ (upper t.name, t.rows) :: List.map (fun t => (upper t.name, t.rows)) rest by simp] at s2
    have := Seg.trans s1 s2
    simpa [rowLines] using this

/-- piece (3): the line loop over everything that is left of a written file once the typedef blocks
are cut out - the `#%yanny` line, the comment block, the header pairs, blank lines, the data lines of
all tables - records exactly the pairs (values stripped) and appends exactly the rows, in order -/
theorem loop_written (io : FloatIO F) (h1 : H1 io) (h2 : H2 io)
    (specs : List (Str × Except String (List ColSpec))) (d : Doc F) (nls : Str)
    (hnls : ∀ c ∈ nls, c = '\n') (hc : commentsOK d.comments = true)
    (hp : ∀ kv ∈ d.hdr, PairLineOK specs kv) (hpn : nodup (d.hdr.map (·.1)) = true)
    (ht : ∀ t ∈ d.tables, TabOK io specs t) (htn : nodup (d.tables.map (fun t => upper t.name)) = true) :
    lineLoop io specs ⟨[], d.tables.map (fun t => (upper t.name, []))⟩
      (splitNl ("#%yanny\n".toList ++ d.comments ++
        (d.hdr.map (fun kv => kv.1 ++ ' ' :: kv.2 ++ ['\n'])).flatten ++ (nls ++ ['\n']) ++
        (d.tables.map (rowLines io)).flatten)) =
      .ok ⟨d.hdr.map (fun kv => (kv.1, strip kv.2)), d.tables.map (fun t => (upper t.name, t.rows))⟩ := by
  let st0 : LoopSt F := ⟨[], d.tables.map (fun t => (upper t.name, []))⟩
  have s0 : Seg io specs st0 ("#%yanny".toList ++ ['\n']) st0 :=
    Seg.line io specs st0 st0 _ (by decide) (by simp [lineStep, skipLine_hash])
  have s1 : Seg io specs st0 d.comments st0 := by
    simp only [commentsOK, Bool.and_eq_true, Bool.or_eq_true, List.all_eq_true, Bool.not_eq_true'] at hc
    obtain ⟨⟨⟨⟨hend, hlines⟩, _⟩, _⟩, _⟩ := hc
    rcases hend with he | he
    · have : d.comments = [] := List.isEmpty_iff.mp he
      rw [this]
      exact Seg.refl io specs st0
    · obtain ⟨c', hc'⟩ : ∃ c', d.comments = c' ++ ['\n'] := by
        have := List.getLast?_eq_some_iff.mp (by simpa using he)
        exact this
      rw [hc']
      apply Seg.skip
      intro l hl
      have hm : l ∈ splitNl d.comments := by
        rw [hc', splitNl_cut]
        exact List.mem_append_left _ hl
      have := hlines l hm
      rcases this with h | h
      · have : l = [] := List.isEmpty_iff.mp h
        rw [this]; rfl
      · cases l with
        | nil => rfl
        | cons a t =>
          have : a = '#' := by simpa using h
          subst this
          exact skipLine_hash t
  have s2 := seg_pairs io specs d.hdr [] (d.tables.map (fun t => (upper t.name, ([] : List (List (Cell F))))))
    hp hpn (by intro _ _ p hp; cases hp)
  have s3 : Seg io specs ⟨[] ++ d.hdr.map (fun kv => (kv.1, strip kv.2)), d.tables.map (fun t => (upper t.name, []))⟩
      (nls ++ ['\n']) ⟨[] ++ d.hdr.map (fun kv => (kv.1, strip kv.2)), d.tables.map (fun t => (upper t.name, []))⟩ := by
    apply Seg.skip
    intro l hl
    rw [splitNl_nls nls hnls l hl]
    rfl
  have s4 := seg_tables io h1 h2 specs d.tables ht htn ([] ++ d.hdr.map (fun kv => (kv.1, strip kv.2))) []
    (by intro e he; cases he)
  simp only [List.nil_append] at s2 s3 s4
  have all := Seg.trans (Seg.trans (Seg.trans (Seg.trans s0 s1) s2) s3) s4
  have := all []
  simp only [List.append_nil] at this
  rw [show "#%yanny\n".toList = "#%yanny".toList ++ ['\n'] from rfl]
  rw [this]
  simp [splitNl, splitNlAux, lineLoop, lineStep, skipLine_nil]

/-- a table of the document domain meets the hypotheses of `lineStep_row` -/
theorem tabOK_of_tableOK (io : FloatIO F) (specs : List (Str × Except String (List ColSpec)))
    (enums : List EnumDecl) (t : TableD F) (h : tableOK io enums t = true)
    (hs : lookupSpec specs (upper t.name) = some (.ok (t.cols.map specOfCol))) : TabOK io specs t := by
  simp only [tableOK, Bool.and_eq_true, List.all_eq_true, Bool.not_eq_true'] at h
  obtain ⟨⟨⟨⟨hw, hne⟩, _⟩, _⟩, hrows⟩ := h
  have hu := upper_wordOK t.name hw
  refine ⟨bareWord_of_wordOK _ hu.1, hu.2, _, hs, ?_⟩
  intro r hr
  have := hrows r hr
  simp only [rowOK, Bool.and_eq_true] at this
  obtain ⟨hc, ⟨hdb, _⟩, _⟩ := this
  refine ⟨cellsOK_ne_nil enums t.cols r ?_ hc, rowFits_of_cellsOK enums t.cols r hc, hdb⟩
  intro e; rw [e] at hne; simp at hne

theorem row_lineOK (io : FloatIO F) (h2 : H2 io) (enums : List EnumDecl) (t : TableD F)
    (ht : tableOK io enums t = true) : ∀ r ∈ t.rows, LineOK (fmtRow io (upper t.name) r) := by
  intro r hr
  simp only [tableOK, Bool.and_eq_true, List.all_eq_true, Bool.not_eq_true'] at ht
  obtain ⟨⟨⟨⟨hw, hne⟩, _⟩, _⟩, hrows⟩ := ht
  have hb := bareWord_of_wordOK _ (upper_wordOK t.name hw).1
  have := hrows r hr
  simp only [rowOK, Bool.and_eq_true, Bool.not_eq_true'] at this
  obtain ⟨hc, ⟨_, hnt⟩, hbs⟩ := this
  have hcols : t.cols ≠ [] := by intro e; rw [e] at hne; simp at hne
  have hfit := rowFits_of_cellsOK enums t.cols r hc
  have hrne := cellsOK_ne_nil enums t.cols r hcols hc
  refine ⟨hnt, fmtRow_noNewline io h2 _ hb _ r hrne hfit, ?_⟩
  apply noCont_of_last
  intro c hcl
  refine ⟨(fmtRow_shape io h2 _ hb _ r hfit).2.2 c hcl, ?_⟩
  intro e
  subst e
  simp [endsBackslash, hcl] at hbs

/-! ### the four pieces on the document level, and the whole-file theorem -/

/-- the text `renderFile` writes for a document -/
def textOf (io : FloatIO F) (d : Doc F) : Str :=
  headText d ++ (defsBlock (blocksOf "enum".toList (enumBlocks d)) ++
    (defsBlock (blocksOf "struct".toList (structBlocks d)) ++ dataText io d))

/-- what is left of it for the line loop: the typedef blocks are cut out, their blank lines stay -/
def restOf (io : FloatIO F) (d : Doc F) : Str :=
  headText d ++ ((defsBlock ((enumBlocks d).map (fun _ => ([] : Str))) ++
    defsBlock ((structBlocks d).map (fun _ => ([] : Str)))) ++ dataText io d)

/-- the symbol table the line loop works with: upper-cased table name ↦ column specs -/
def docSpecs (d : Doc F) : List (Str × Except String (List ColSpec)) :=
  d.tables.map (fun t => (upper t.name, .ok (t.cols.map specOfCol)))

/-- the `_enum_cache` of the read file -/
def docCache (d : Doc F) : List (Str × List Str) := enumCache (tdefsOf "enum".toList (enumBlocks d))

/-- the conjuncts of `docOK` -/
theorem docOK_props (io : FloatIO F) (d : Doc F) (hd : docOK io d = true) :
    commentsOK d.comments = true ∧ (∀ e ∈ d.enums, enumOK e = true) ∧
    nodup (d.enums.map (fun e => upper e.tyName)) = true ∧
    (∀ t ∈ d.tables, tableOK io d.enums t = true) ∧ nodup (d.tables.map (fun t => upper t.name)) = true ∧
    selectOK d = true ∧ (∀ kv ∈ d.hdr, pairOK (d.tables.map (fun t => upper t.name)) kv = true) ∧
    nodup (d.hdr.map (·.1)) = true := by
  simp only [docOK, Bool.and_eq_true, List.all_eq_true] at hd
  obtain ⟨⟨⟨⟨⟨⟨⟨⟨hc, he⟩, _⟩, het⟩, ht⟩, htn⟩, hsel⟩, hp⟩, hpn⟩ := hd
  exact ⟨hc, he, het, ht, htn, hsel, hp, hpn⟩

theorem docOK_supported (io : FloatIO F) (d : Doc F) (hd : docOK io d = true) :
    ∀ t ∈ d.tables, ∀ c ∈ t.cols, supported c.ty = true := by
  obtain ⟨_, _, _, ht, _⟩ := docOK_props io d hd
  exact fun t hm c hc' => colOK_supported c ((tableOK_props io d.enums t (ht t hm)).2.2.1 c hc')

/-- an in-domain document is rendered, as `textOf` -/
theorem render_text (io : FloatIO F) (d : Doc F) (hd : docOK io d = true) :
    renderFile io d = .ok (textOf io d) :=
  render_shape io d (docOK_props io d hd).2.1 (docOK_supported io d hd)

/-- header lines of an in-domain document meet the hypotheses of `lineStep_pair` -/
theorem doc_pairs (io : FloatIO F) (d : Doc F) (hd : docOK io d = true) :
    ∀ kv ∈ d.hdr, PairLineOK (docSpecs d) kv := by
  obtain ⟨_, _, _, _, _, _, hp, _⟩ := docOK_props io d hd
  have hspn : ∀ k, k ∉ d.tables.map (fun t => upper t.name) → lookupSpec (docSpecs d) k = none := by
    intro k hk
    apply lookupSpec_none
    simpa [docSpecs, List.map_map, Function.comp_def] using hk
  exact fun kv hm => pairLineOK_of_pairOK (docSpecs d) _ hspn kv (hp kv hm)

/-- **piece (1)**: the front half of `_parse` on the written text - continuation joining is the
identity, typedef extraction returns exactly the written struct and enum definitions, in order, and
cuts exactly them out of the text; the symbol table lists every table (upper-cased) with its columns -/
theorem front_render (io : FloatIO F) (h2 : H2 io) (d : Doc F) (hd : docOK io d = true) :
    front (textOf io d) =
      ⟨tdefsOf "struct".toList (structBlocks d), tdefsOf "enum".toList (enumBlocks d),
       d.tables.map (fun t => (upper t.name, t.cols.map (·.name))), restOf io d⟩ := by
  obtain ⟨hc, he, _, ht, htn, _, hp, _⟩ := docOK_props io d hd
  have htp := fun t (hm : t ∈ d.tables) => tableOK_props io d.enums t (ht t hm)
  have hbE : ∀ b ∈ enumBlocks d, blockOK b.1 b.2 ∧ '\\' ∉ blockText "enum".toList b.1 b.2 := by
    intro b hb
    unfold enumBlocks at hb
    split at hb
    · cases hb
    · obtain ⟨e, hm, rfl⟩ := List.mem_map.mp hb
      obtain ⟨hw, hne, hl⟩ := enumOK_props e (he e hm)
      refine ⟨enumBody_blockOK e (he e hm), block_nobs _ _ _ (Or.inr rfl) (enumBody_nobs _ hl) ?_⟩
      intro hmem
      exact wordCh_ne_bs _ ((wordOK_props _ (upper_wordOK _ hw).1).2 _ hmem).1 rfl
  have hbS : ∀ b ∈ structBlocks d, blockOK b.1 b.2 ∧ '\\' ∉ blockText "struct".toList b.1 b.2 := by
    intro b hb
    obtain ⟨t, hm, rfl⟩ := List.mem_map.mp hb
    obtain ⟨hw, _, hcol, _, _⟩ := htp t hm
    have hms : ∀ m ∈ t.cols.map (member d.enums), memOK m := by
      intro m hm'
      obtain ⟨x, hx, rfl⟩ := List.mem_map.mp hm'
      exact member_ok d.enums x (hcol x hx) he
    refine ⟨structBody_blockOK _ hms t.name hw, block_nobs _ _ _ (Or.inl rfl) (structBody_nobs _ hms) ?_⟩
    intro hmem
    exact wordCh_ne_bs _ ((wordOK_props _ (upper_wordOK _ hw).1).2 _ hmem).1 rfl
  have hndS : nodup ((structBlocks d).map (fun b => upper b.2)) = true := by
    have : (structBlocks d).map (fun b => upper b.2) = d.tables.map (fun t => upper t.name) := by
      unfold structBlocks
      rw [List.map_map]
      apply List.map_congr_left
      intro t hm
      exact (upper_wordOK t.name (htp t hm).1).2
    rw [this]; exact htn
  have hpl := doc_pairs io d hd
  have hlp : ∀ kv ∈ d.hdr, LineOK (kv.1 ++ ' ' :: kv.2) :=
    fun kv hm => pair_lineOK (docSpecs d) _ kv (hp kv hm) (hpl kv hm)
  have hlr : ∀ t ∈ d.tables, ∀ r ∈ t.rows, LineOK (fmtRow io (upper t.name) r) :=
    fun t hm => row_lineOK io h2 d.enums t (ht t hm)
  have hfront := front_written io d (enumBlocks d) (structBlocks d) (fun b hb => (hbE b hb).1)
    (fun b hb => (hbS b hb).1) (fun b hb => (hbE b hb).2) (fun b hb => (hbS b hb).2) hndS hc hlp hlr
  rw [symtab_written io d he ht] at hfront
  exact hfront

/-- **piece (2)**: typing from the typedef text - for every table of the document, `type()`,
`basetype`, `isarray`, `array_length`, `char_length`, `isenum` on the written struct give the column
specs the row reader needs and the record-array column types of the canonical form -/
theorem typing_render (io : FloatIO F) (d : Doc F) (hd : docOK io d = true) :
    ∀ t ∈ d.tables,
      colSpecs (structsOf d) (upper t.name) (t.cols.map (·.name)) = .ok (t.cols.map specOfCol) ∧
      ∀ c ∈ t.cols, ∀ data : List (Cell F),
        rcolOf (structsOf d) (docCache d) (upper t.name) c.name data = .ok (rcolCanon d.enums c) := by
  obtain ⟨_, he, het, ht, _, hsel, _, _⟩ := docOK_props io d hd
  have hselt := select_written d (docOK_supported io d hd) hsel
  intro t hm
  have hne : d.tables ≠ [] := by intro e; rw [e] at hm; cases hm
  obtain ⟨k1, k2⟩ := cache_written d he het hne
  exact typing_written io d he _ k1 k2 t (ht t hm) (hselt t hm)

/-- **piece (3)**: the line loop over the rest text of the written file (the `#%yanny` line, the
comment block, the header pairs, the blank lines left by the typedef blocks, the data lines of all
tables) records exactly the header pairs (values stripped) and the rows of every table, in order -/
theorem loop_render (io : FloatIO F) (h1 : H1 io) (h2 : H2 io) (d : Doc F) (hd : docOK io d = true) :
    lineLoop io (docSpecs d) ⟨[], d.tables.map (fun t => (upper t.name, []))⟩ (splitNl (restOf io d)) =
      .ok ⟨d.hdr.map (fun kv => (kv.1, strip kv.2)), d.tables.map (fun t => (upper t.name, t.rows))⟩ := by
  obtain ⟨hc, _, _, ht, htn, _, _, hpn⟩ := docOK_props io d hd
  have htab : ∀ t ∈ d.tables, TabOK io (docSpecs d) t := by
    intro t hm
    apply tabOK_of_tableOK io (docSpecs d) d.enums t (ht t hm)
    have := find_by_key d.tables (fun t => upper t.name)
      (fun t => (Except.ok (t.cols.map specOfCol) : Except String (List ColSpec))) htn t hm
    simp only [lookupSpec, docSpecs, this, Option.map_some]
  have hloop := loop_written io h1 h2 (docSpecs d) d
    (defsBlock ((enumBlocks d).map (fun _ => ([] : Str))) ++ defsBlock ((structBlocks d).map (fun _ => ([] : Str))))
    (by
      intro c hc'
      rcases List.mem_append.mp hc' with h | h
      · exact defsBlock_blank_nls _ c h
      · exact defsBlock_blank_nls _ c h)
    hc (doc_pairs io d hd) hpn htab htn
  have hrest : restOf io d =
      "#%yanny\n".toList ++ d.comments ++ (d.hdr.map (fun kv => kv.1 ++ ' ' :: kv.2 ++ ['\n'])).flatten ++
        ((defsBlock ((enumBlocks d).map (fun _ => ([] : Str))) ++
          defsBlock ((structBlocks d).map (fun _ => ([] : Str)))) ++ ['\n']) ++
        (d.tables.map (rowLines io)).flatten := by
    unfold restOf headText dataText
    generalize "#%yanny\n".toList = h0
    simp only [List.append_assoc, List.cons_append, List.nil_append]
  rw [hrest]
  exact hloop

/-- **piece (4)**: `finishTable` is the identity - the record arrays rebuilt from the rows the loop
read are the document's tables: names, column order, column types, row count and order, every cell -/
theorem finish_render (io : FloatIO F) (d : Doc F) (hd : docOK io d = true) :
    finishTables (structsOf d) (docCache d) (d.tables.map (fun t => (upper t.name, t.rows)))
      (d.tables.map (fun t => (upper t.name, t.cols.map (·.name)))) = .ok (canon d).tables := by
  obtain ⟨_, _, _, ht, htn, _, _, _⟩ := docOK_props io d hd
  have htp := fun t (hm : t ∈ d.tables) => tableOK_props io d.enums t (ht t hm)
  have htyp := typing_render io d hd
  exact finishTables_written (structsOf d) (docCache d) d.enums
    d.tables htn d.tables (fun _ h => h) (fun t hm => ⟨(htp t hm).2.1, (htyp t hm).2, fun r hr => by
      have := (htp t hm).2.2.2.2 r hr
      simp only [rowOK, Bool.and_eq_true] at this
      exact this.1⟩)

/-- **file-level round trip**: every document of the domain `docOK` (several tables, tables without
rows, header pairs, enum declarations, any comment block) is rendered, and the rendered text reads
back as the document's canonical form: table names upper-cased, column order, column types, row
count and order, every cell, header values in their stripped text form -/
theorem parse_render (io : FloatIO F) (h1 : H1 io) (h2 : H2 io) (d : Doc F) (hd : docOK io d = true) :
    ∃ text, renderFile io d = .ok text ∧ parseFile io text = .ok (canon d) := by
  refine ⟨_, render_text io d hd, ?_⟩
  have htyp := typing_render io d hd
  have hspecs : (d.tables.map (fun t => (upper t.name, t.cols.map (·.name)))).map
      (fun t => (t.1, colSpecs (structsOf d) t.1 t.2)) = docSpecs d := by
    unfold docSpecs
    rw [List.map_map]
    apply List.map_congr_left
    intro t hm
    simp only [Function.comp, (htyp t hm).1]
  have e2 : List.map (fun t => (t.1, ([] : List (List (Cell F)))))
      (d.tables.map (fun t => (upper t.name, t.cols.map (·.name)))) =
      d.tables.map (fun t => (upper t.name, [])) := by
    rw [List.map_map]; rfl
  unfold parseFile
  simp only [front_render io h2 d hd]
  rw [texts_written d, hspecs, e2, loop_render io h1 h2 d hd]
  simp only []
  have hfin := finish_render io d hd
  unfold docCache at hfin
  rw [hfin]
  rfl

/-- the same as one equation -/
theorem parse_render_bind (io : FloatIO F) (h1 : H1 io) (h2 : H2 io) (d : Doc F) (hd : docOK io d = true) :
    (renderFile io d).bind (parseFile io) = .ok (canon d) := by
  obtain ⟨text, hr, hp⟩ := parse_render io h1 h2 d hd
  rw [hr]
  exact hp

/-- the conjunct `selectOK` of `docOK` (type() finds each table's own typedef) is implied by the
others: table names that are distinct ignoring case may contain one another, equal column names,
enum type names or C type words (the D16/D17 patterns) -/
theorem docOK_select (io : FloatIO F) (d : Doc F) (ht : ∀ t ∈ d.tables, tableOK io d.enums t = true)
    (htn : nodup (d.tables.map (fun t => upper t.name)) = true) : selectOK d = true :=
  selectOK_of_names d
    (fun t hm c hc' => colOK_supported c ((tableOK_props io d.enums t (ht t hm)).2.2.1 c hc'))
    (fun t hm => (tableOK_props io d.enums t (ht t hm)).1) htn

/-! ## the hypotheses are satisfiable, the domains are inhabited -/

/-- a float type for which H1 and H2 hold: integer-valued floats printed as integers -/
def intIO : FloatIO Int := ⟨fun _ x => fmtInt x, fun _ t => parseInt t⟩

example : H1 intIO := fun _ x => parseInt_fmtInt x

example : H2 intIO := by
  intro w x c hc
  have := intChar_ne c (fmtInt_chars x c hc)
  exact ⟨this.1, this.2.1, this.2.2.1, this.2.2.2⟩

/-- every column kind; strings that are empty, blank, with tab, `#`, `;`, inner braces, a
trailing backslash inside quotes; extreme integers; arrays of each kind -/
def sampleSch : List ColSpec :=
  [⟨.int, false⟩, ⟨.flt .f4, false⟩, ⟨.flt .f8, true⟩, ⟨.str, false⟩, ⟨.str, false⟩, ⟨.str, false⟩,
   ⟨.str, true⟩, ⟨.int, true⟩, ⟨.str, false⟩, ⟨.str, false⟩]

def sampleRow : List (Cell Int) :=
  [.one (.int (-9223372036854775808)), .one (.flt .f4 (-7)), .many [.flt .f8 0, .flt .f8 12],
   .one (.str []), .one (.str "a b\t#;".toList), .one (.str "x{y}}z".toList),
   .many [.str "".toList, .str " # ".toList, .str "p{q".toList], .many [.int 32767, .int (-1)],
   .one (.str "ON".toList), .one (.str "tail \\".toList)]

example : rowFits sampleSch sampleRow = true := by decide
example : bareWord "MYSTRUCT0".toList = true := by decide
example : dbFree (fmtRow intIO "T".toList [Cell.one (.str "x{y}}z".toList), .many [.str "p{q".toList]]) = true := by decide
example : tokOK "a b\t#;{}".toList = true := by decide

/-- a document in `docOK`: two tables (one without rows, with an array column), every column kind,
an enum column, header pairs with blanks and quotes, a comment block -/
def sampleDoc : Doc Int :=
  { comments := "# made by hand\n".toList
    hdr := [("mjd".toList, "54579".toList), ("note".toList, "  say \"hi\" there ".toList)]
    enums := [⟨"state".toList, "Status".toList, ["ON".toList, "OFF".toList]⟩]
    tables := [
      { name := "obs".toList
        cols := [⟨"n".toList, .i2, 0⟩, ⟨"id".toList, .i8, 0⟩, ⟨"f".toList, .f4, 0⟩, ⟨"g".toList, .f8, 2⟩,
                 ⟨"s".toList, .S 8, 0⟩, ⟨"tags".toList, .S 4, 2⟩, ⟨"k".toList, .i4, 2⟩, ⟨"state".toList, .S 3, 0⟩,
                 ⟨"u".toList, .U 3, 0⟩]
        rows := [[.one (.int (-32768)), .one (.int 9223372036854775807), .one (.flt .f4 3), .many [.flt .f8 0, .flt .f8 (-5)],
                  .one (.str "a #;{}".toList), .many [.str "".toList, .str " \t".toList], .many [.int 1, .int (-2)],
                  .one (.str "OFF".toList), .one (.str "".toList)],
                 [.one (.int 0), .one (.int 0), .one (.flt .f4 0), .many [.flt .f8 1, .flt .f8 2],
                  .one (.str "}}".toList), .many [.str "x{".toList, .str "#".toList], .many [.int 0, .int 0],
                  .one (.str "ON".toList), .one (.str "\\ ".toList)]] },
      { name := "Empty_1".toList
        cols := [⟨"v".toList, .f8, 3⟩]
        rows := [] }] }

set_option maxRecDepth 200000 in
example : docOK intIO sampleDoc = true := by decide

/-- the whole-file theorem applies to the sample document (two tables, one without rows, an enum
column, header pairs, comments) with the integer-valued float instance -/
example : ∃ text, renderFile intIO sampleDoc = .ok text ∧ parseFile intIO text = .ok (canon sampleDoc) :=
  parse_render intIO (fun _ x => parseInt_fmtInt x)
    (by
      intro w x c hc
      have := intChar_ne c (fmtInt_chars x c hc)
      exact ⟨this.1, this.2.1, this.2.2.1, this.2.2.2⟩)
    sampleDoc (by set_option maxRecDepth 200000 in decide)

/-- a document with the D16/D17 name patterns (a table name inside another, equal to a column name and
to a C type word) is in the domain -/
def clashDoc : Doc Int :=
  { comments := [], hdr := [], enums := []
    tables := [
      { name := "int".toList, cols := [⟨"a".toList, .i4, 0⟩, ⟨"xint".toList, .i4, 0⟩], rows := [[.one (.int 1), .one (.int 2)]] },
      { name := "xint".toList, cols := [⟨"int".toList, .S 3, 2⟩], rows := [] },
      { name := "a".toList, cols := [⟨"a".toList, .f8, 0⟩], rows := [[.one (.flt .f8 5)]] }] }

set_option maxRecDepth 200000 in
example : docOK intIO clashDoc = true := by decide

end PydlVerif.C01

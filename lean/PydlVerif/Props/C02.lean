/-
C02 - yanny: the meaning of a file does not depend on its surface syntax.

Property theorems about the executable model in Model/YannyLayout.lean (layouts, post-fix typedef
selection, raw mode) on top of C01's reader model (Model/Yanny{Tok,Row,File,Dom}.lean).
Helper lemmas: Lemmas/YannyLayout.lean (and C01's Lemmas/Yanny{Tok,Row,Pair}.lean).

Full-strength target (stated, executed on every generated case by the harness, proved in parts):

  theorem parseFile_layout (d : Doc F) (lay : Layout) (text : Str) :
      docOK2 d = true → layoutOK io d lay = true → renders io d lay = some text →
      parseFile2 io text = .ok (canon d) ∧ parseFile2 io (univNl text) = .ok (canon d)

What is proved below: the token level for every quoting style and separator, trailing-comment
stripping for every line, the selection of a table's typedef by its own name (post-fix rule) with
the refutation of the pre-fix rule, raw mode = values before the numpy cast, and that the
parameterised reader instantiated with C01's rule is C01's reader.  Not proved: continuation
joining and typedef extraction on laid-out text, the line loop over laid-out lines, char[] sizing
and the record-array stage on the result (all executed by the correspondence on every case).
-/
import PydlVerif.Lemmas.YannyLayout
namespace PydlVerif.C02
open PydlVerif.Yanny

variable {F : Type}

/-! ## token level -/

/-- for every quoting style `q` legal for the token `s` (as a scalar cell or as an array element),
every non-empty white-space separator and every continuation of the line:
`getToken (quote q s ++ sep ++ rest) = (s, rest)` -/
theorem getToken_quote (q : QStyle) (s sep rest : Str) (hl : tokLegal q s = true ∨ elemLegal q s = true)
    (hsep : sep ≠ []) (hb : ∀ c ∈ sep, isSpace c = true)
    (hr : ∀ c, rest.head? = some c → isSpace c = false) (hn : '\n' ∉ rest) :
    getToken (quoteTok q s ++ (sep ++ rest)) = .ok (s, rest) :=
  getToken_quote' q s sep rest hl hsep hb hr hn

/-- the last token of a line (trailing blanks allowed) -/
theorem getToken_quote_last (q : QStyle) (s trail : Str) (hl : tokLegal q s = true ∨ elemLegal q s = true)
    (hb : ∀ c ∈ trail, isSpace c = true) (hn : '\n' ∉ trail) :
    getToken (quoteTok q s ++ trail) = .ok (s, []) :=
  getToken_quote_last' q s trail hl hb hn

example : tokLegal .bare "2008-06-21T00:27:33".toList = true := by decide
example : tokLegal .quoted "My dog has no #nose.".toList = true := by decide
example : tokLegal (.braced " ".toList) "a b ;{".toList = true := by decide
example : tokLegal .bare "a b".toList = false := by decide
example : tokLegal (.braced []) "#hash".toList = false := by decide

/-! ## line level -/

/-- parseRow_layout: for every schema, every row of the schema's kinds and every per-line layout
that is legal for it (`cellsLayOK`: a quoting style legal for each token, non-empty blank/tab
separators - also those that were split by a continuation -, blanks inside array braces), the
cells as written (`renderCells` on the line after continuation joining), followed by any trailing
blanks, read back as the row.  Floats under C01's hypothesis H1 (text → float round trip); what
C01's H2 provided is here part of `cellsLayOK` (the style must be legal for the printed text). -/
theorem parseRow_layout (io : FloatIO F) (h1 : H1 io) (sch : List ColSpec) (r : List (Cell F))
    (lays : List (Sep × CellLay)) (body trail : Str) (hk : rowKinds sch r = true)
    (hok : cellsLayOK io r lays = true) (hb : renderCells Sep.logical io r lays = some body)
    (ht : ∀ c ∈ trail, isBlank c = true) :
    parseRow io sch ((body ++ trail).dropWhile isSpace) = .ok r :=
  parseRow_layout' io h1 sch r lays body trail hk hok hb ht

def intIO : FloatIO Int := ⟨fun _ x => fmtInt x, fun _ t => parseInt t⟩
example : H1 intIO := fun _ x => parseInt_fmtInt x

def sampleSch : List ColSpec := [⟨.int, false⟩, ⟨.str, false⟩, ⟨.str, true⟩, ⟨.flt .f4, true⟩, ⟨.str, false⟩]
def sampleRow : List (Cell Int) :=
  [.one (.int (-32768)), .one (.str "a b #;".toList), .many [.str [], .str "x{y".toList, .str "p q".toList],
   .many [.flt .f4 7, .flt .f4 (-1)], .one (.str "tail  ".toList)]
def sampleLay : List (Sep × CellLay) :=
  [(⟨" \t".toList, none⟩, .one (.braced " ".toList)),
   (⟨[], some ("  ".toList, true, "    ".toList)⟩, .one .quoted),
   (⟨"\t".toList, none⟩, .many " ".toList .quoted [(⟨"  ".toList, none⟩, .bare), (⟨" ".toList, some ([], false, "\t".toList)⟩, .quoted)] " ".toList),
   (⟨" ".toList, none⟩, .many [] .bare [(⟨" ".toList, none⟩, .quoted)] []),
   (⟨"   ".toList, none⟩, .one (.braced []))]

example : rowKinds sampleSch sampleRow = true := by decide
example : cellsLayOK intIO sampleRow sampleLay = true := by decide
example : (renderCells Sep.logical intIO sampleRow sampleLay).isSome = true := by decide

/-! ## trailing comments -/

/-- a trailing comment without a further `#` and with an even number of `"` is stripped together
with the blanks before it, whatever the line `l` contains (quoted `#` included) -/
theorem trailingComment_strip (l ws c : Str) (hws : ∀ x ∈ ws, isSpace x = true)
    (hl : ∀ x, l.getLast? = some x → isSpace x = false)
    (hc : '#' ∉ c) (hq : c.count '"' % 2 = 0) :
    trailingComment (l ++ ws ++ '#' :: c) = l := by
  rw [trailingComment_cut (l ++ ws) c hc hq]
  exact rstrip_append_space l ws hws hl

/-- the documented failure: a comment with a single double quote is not stripped -/
theorem trailingComment_odd_counterexample :
    trailingComment "mystruct 1234 # a 'pathological\" trailing comment".toList =
      "mystruct 1234 # a 'pathological\" trailing comment".toList := by decide

example : trailingComment "mystruct 1234 \"#hashtag\" # a \"comment\".".toList = "mystruct 1234 \"#hashtag\"".toList := by
  decide

/-! ## struct names -/

/-- the name of a typedef text is the word in its trailing `} NAME ;`, whatever precedes -/
theorem tdNameOf_typedef (pre g3 name g4 : Str) (h3 : ∀ c ∈ g3, isSpace c = true)
    (h4 : ∀ c ∈ g4, isSpace c = true) (hne : name ≠ []) (hw : ∀ c ∈ name, isWordCh c = true) :
    tdNameOf (pre ++ '}' :: (g3 ++ name ++ g4 ++ [';'])) = some name :=
  tdNameOf_shape pre g3 name g4 h3 h4 hne hw

/-- struct_name_lookup: among definitions whose names differ ignoring case, `type()` (post-fix rule)
works on the definition whose typedef name is the table's - no matter what the names or the
texts contain (substrings of each other, column names, type words) -/
theorem struct_name_lookup (defs : List (Str × Str)) (hname : ∀ d ∈ defs, tdNameOf d.2 = some d.1)
    (hd : (defs.map (fun d => upper d.1)).Nodup) (d : Str × Str) (hmem : d ∈ defs) (T : Str)
    (hT : upper T = upper d.1) : selectDef2 (defs.map (·.2)) T = some d.2 :=
  selectDef2_by_name defs hname hd d hmem T hT

/-- column typing of table `T` is the type search in `T`'s own definition -/
theorem struct_name_lookup_typing (defs : List (Str × Str)) (hname : ∀ d ∈ defs, tdNameOf d.2 = some d.1)
    (hd : (defs.map (fun d => upper d.1)).Nodup) (d : Str × Str) (hmem : d ∈ defs) (T var : Str)
    (hT : upper T = upper d.1) :
    typeOfS selectDef2 (defs.map (·.2)) T var =
      match typeSearch var d.2 with
      | none => .error "AttributeError"
      | some (typ, arr) => .ok (typ ++ normB arr) := by
  unfold typeOfS
  rw [selectDef2_by_name defs hname hd d hmem T hT]
  rfl

def fooText : Str := "typedef struct {\n    int a;\n} FOO;".toList
def foobarText : Str := "typedef struct {\n    double b;\n} FOOBAR;".toList
def barText : Str := "typedef struct {\n    double foo;\n    char a[4];\n} BAR;".toList
def mixedText : Str := "typedef struct {\n    int a;\n} Foo;".toList

/-- the pre-fix rule (`selectDefOld`: `x.find(name) > 0` over whole typedef texts) fails on exactly the inputs of
D16 / D17: FOO next to FOOBAR finds two texts (→ `None` → TypeError), FOO next to a struct with a
column `foo` selects the other struct's text, a typedef name in mixed case finds nothing; the
post-fix rule selects FOO's own definition in all three -/
theorem old_lookup_counterexample :
    selectDefOld [fooText, foobarText] "FOO".toList = none ∧
    selectDefOld [fooText, barText] "FOO".toList = some barText ∧
    selectDefOld [mixedText] "FOO".toList = none ∧
    selectDef2 [fooText, foobarText] "FOO".toList = some fooText ∧
    selectDef2 [fooText, barText] "FOO".toList = some fooText ∧
    selectDef2 [mixedText] "FOO".toList = some mixedText := by decide

example : tdNameOf foobarText = some "FOOBAR".toList := by decide
example : (([("FOO".toList, fooText), ("FOOBAR".toList, foobarText), ("BAR".toList, barText)] : List (Str × Str)).map
    (fun d => upper d.1)).Nodup := by decide

/-! ## raw mode -/

/-- raw_same_values: whenever the file reads, raw mode succeeds on it, has the same keyword pairs,
and every table of the record-array result holds - row by row, cell by cell - the raw values of the
data lines that carry at least one cell: identical integers and floats, strings identical or cut
to the column width (`rowSame`, `scSame`) -/
theorem raw_same_values (sel : Sel) (io : FloatIO F) (text : Str) (p : Parsed F)
    (h : parseFileS sel io text = .ok p) :
    ∃ raw, parseRawS sel io text = .ok raw ∧ p.pairs = raw.pairs ∧
      all2 (tableSame raw.rows) raw.front.tables p.tables := by
  unfold parseFileS at h
  cases hr : parseRawS sel io text with
  | error e => rw [hr] at h; cases h
  | ok raw =>
    rw [hr] at h
    simp only at h
    cases hf : finishTablesS sel (raw.front.structs.map (·.text)) (enumCache raw.front.enums) raw.rows
        raw.front.tables with
    | error e => rw [hf] at h; cases h
    | ok ts =>
      rw [hf] at h
      injection h with h; subst h
      exact ⟨raw, rfl, rfl, finishTablesS_same sel _ _ raw.rows raw.front.tables ts hf⟩

/-- the reader with the selection rule as a parameter, at C01's rule, is C01's `parseFile` -/
theorem parseFileS_selectDef (io : FloatIO F) (text : Str) :
    parseFileS selectDef io text = parseFile io text := parseFileS_old io text

end PydlVerif.C02

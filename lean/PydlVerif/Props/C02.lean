/-
C02 - yanny: the meaning of a file does not depend on its surface syntax.

Property theorems about the executable model in Model/YannyLayout.lean (layouts, post-fix typedef
selection, raw mode) on top of C01's reader model (Model/Yanny{Tok,Row,File,Dom}.lean).
Helper lemmas: Lemmas/YannyLayout.lean (and C01's Lemmas/Yanny{Tok,Row,Pair}.lean).

File-level statement (extension round: PROVED, theorem `parseFile_layout` at the end of this file):

  theorem parseFile_layout (d : Doc F) (lay : Layout) (text : Str) :
      docOK2 d = true → layoutOK2 io d lay = true → renders io d lay = some text →
      parseFile2 io text = .ok (canon d)

with its pieces as named theorems: `joinCont_layout` (continuation joining), `typedef_block_layout`,
`front_layout` (typedef extraction on laid-out blocks, symbol table, residual text), `typeSearch_layout`,
`columnsOf_layout`, `typing_layout` (column typing from a laid-out struct text, incl. `char name[]`:
`char_unsized_layout`), `lineStep_layout_row`, `lineStep_layout_pair` (the line step on a whole
laid-out line), `loop_layout` (the loop over the lines of several tables in any interleaving),
`finishTables_layout` (record arrays).  `layoutOK2` = `layoutOK` + the documented assumption that
inside a struct definition every declaration after the first is preceded by a newline (`declNlOK`;
without it `int a[2]; char t[8];` on one line is mis-typed by the greedy `[...]` of `type()`).
Second extension round (section `Round2` below):
  * the domain is widened to `layoutOKW` = `layoutOK` + "inside a struct definition a declaration written
    with brackets is the last such declaration of its line" (`declLineOK`; declarations without brackets may
    share a line freely: `int a; int b[2]; int c;` is inside, `int a[2]; char t[8];` on one line stays
    outside - there the real `type()` and the model both mis-type / raise).  `layoutOK2 ⊆ layoutOKW`
    (`layoutOK2_sub`), `parseFile_layout_w` is the theorem on the wider domain, `parseFile_layout` its corollary;
  * text mode: `renders_univNl` - the universal-newline text of a rendering IS a rendering (of the layout
    `lay.univ`), `univLayout_ok` - that layout is in the domain; hence `parseFile_layout_univNl`:
    `parseFile2 io (univNl text) = ok (canon d)` on the domain `layoutOKU` = `layoutOKW` + no comment inside a
    struct definition contains a lone CR (in text mode a lone CR IS a line end: it ends the comment) + no
    cell, as printed, contains a CR (`tokCrOK`; follows from `docOK2` when the float printer emits no CR:
    `tokCrOK_of_float`);
  * raw mode at file level: `parseRaw_layout`, `parseRaw_layout_univNl`.
Floats under C01's hypothesis H1.
-/
import PydlVerif.Lemmas.YannyLayout
import PydlVerif.Lemmas.YannyLayTop
import PydlVerif.Lemmas.YannyLayUniv
namespace PydlVerif.C02
open PydlVerif.Yanny PydlVerif.YannyRT

variable {F : Type}

/-! ## token level -/

/-- for every quoting style `q` legal for the token `s` (as a scalar cell or as an array element),
every non-empty white-space separator and every continuation of the line:
`getToken (quote q s ++ sep ++ rest) = (s, rest)` -/
theorem getToken_quote (q : QStyle) (s sep rest : Str) (hl : tokLegal q s = true ∨ elemLegal q s = true)
    (hsep : sep ≠ []) (hb : ∀ c ∈ sep, isSpace c = true)
    (hr : ∀ c, rest.head? = some c → isSpace c = false) (hn : '\n' ∉ rest) :
    getToken (quoteTok q s ++ (sep ++ rest)) = .ok (s, rest) :=
  getToken_quote' q s sep rest hl hsep hb hr hn

/-- the last token of a line (trailing blanks allowed) -/
theorem getToken_quote_last (q : QStyle) (s trail : Str) (hl : tokLegal q s = true ∨ elemLegal q s = true)
    (hb : ∀ c ∈ trail, isSpace c = true) (hn : '\n' ∉ trail) :
    getToken (quoteTok q s ++ trail) = .ok (s, []) :=
  getToken_quote_last' q s trail hl hb hn

example : tokLegal .bare "2008-06-21T00:27:33".toList = true := by decide
example : tokLegal .quoted "My dog has no #nose.".toList = true := by decide
example : tokLegal (.braced " ".toList) "a b ;{".toList = true := by decide
example : tokLegal .bare "a b".toList = false := by decide
example : tokLegal (.braced []) "#hash".toList = false := by decide

/-! ## line level -/

/-- parseRow_layout: for every schema, every row of the schema's kinds and every per-line layout
that is legal for it (`cellsLayOK`: a quoting style legal for each token, non-empty blank/tab
separators - also those that were split by a continuation -, blanks inside array braces), the
cells as written (`renderCells` on the line after continuation joining), followed by any trailing
blanks, read back as the row.  Floats under C01's hypothesis H1 (text → float round trip); what
C01's H2 provided is here part of `cellsLayOK` (the style must be legal for the printed text). -/
theorem parseRow_layout (io : FloatIO F) (h1 : H1 io) (sch : List ColSpec) (r : List (Cell F))
    (lays : List (Sep × CellLay)) (body trail : Str) (hk : rowKinds sch r = true)
    (hok : cellsLayOK io r lays = true) (hb : renderCells Sep.logical io r lays = some body)
    (ht : ∀ c ∈ trail, isBlank c = true) :
    parseRow io sch ((body ++ trail).dropWhile isSpace) = .ok r :=
  parseRow_layout' io h1 sch r lays body trail hk hok hb ht

def intIO : FloatIO Int := ⟨fun _ x => fmtInt x, fun _ t => parseInt t⟩
example : H1 intIO := fun _ x => parseInt_fmtInt x

def sampleSch : List ColSpec := [⟨.int, false⟩, ⟨.str, false⟩, ⟨.str, true⟩, ⟨.flt .f4, true⟩, ⟨.str, false⟩]
def sampleRow : List (Cell Int) :=
  [.one (.int (-32768)), .one (.str "a b #;".toList), .many [.str [], .str "x{y".toList, .str "p q".toList],
   .many [.flt .f4 7, .flt .f4 (-1)], .one (.str "tail  ".toList)]
def sampleLay : List (Sep × CellLay) :=
  [(⟨" \t".toList, none⟩, .one (.braced " ".toList)),
   (⟨[], some ("  ".toList, true, "    ".toList)⟩, .one .quoted),
   (⟨"\t".toList, none⟩, .many " ".toList .quoted [(⟨"  ".toList, none⟩, .bare), (⟨" ".toList, some ([], false, "\t".toList)⟩, .quoted)] " ".toList),
   (⟨" ".toList, none⟩, .many [] .bare [(⟨" ".toList, none⟩, .quoted)] []),
   (⟨"   ".toList, none⟩, .one (.braced []))]

example : rowKinds sampleSch sampleRow = true := by decide
example : cellsLayOK intIO sampleRow sampleLay = true := by decide
example : (renderCells Sep.logical intIO sampleRow sampleLay).isSome = true := by decide

/-! ## trailing comments -/

/-- a trailing comment without a further `#` and with an even number of `"` is stripped together
with the blanks before it, whatever the line `l` contains (quoted `#` included) -/
theorem trailingComment_strip (l ws c : Str) (hws : ∀ x ∈ ws, isSpace x = true)
    (hl : ∀ x, l.getLast? = some x → isSpace x = false)
    (hc : '#' ∉ c) (hq : c.count '"' % 2 = 0) :
    trailingComment (l ++ ws ++ '#' :: c) = l := by
  rw [trailingComment_cut (l ++ ws) c hc hq]
  exact rstrip_append_space l ws hws hl

/-- the documented failure: a comment with a single double quote is not stripped -/
theorem trailingComment_odd_counterexample :
    trailingComment "mystruct 1234 # a 'pathological\" trailing comment".toList =
      "mystruct 1234 # a 'pathological\" trailing comment".toList := by decide

example : trailingComment "mystruct 1234 \"#hashtag\" # a \"comment\".".toList = "mystruct 1234 \"#hashtag\"".toList := by
  decide

/-! ## struct names -/

/-- the name of a typedef text is the word in its trailing `} NAME ;`, whatever precedes -/
theorem tdNameOf_typedef (pre g3 name g4 : Str) (h3 : ∀ c ∈ g3, isSpace c = true)
    (h4 : ∀ c ∈ g4, isSpace c = true) (hne : name ≠ []) (hw : ∀ c ∈ name, isWordCh c = true) :
    tdNameOf (pre ++ '}' :: (g3 ++ name ++ g4 ++ [';'])) = some name :=
  tdNameOf_shape pre g3 name g4 h3 h4 hne hw

/-- struct_name_lookup: among definitions whose names differ ignoring case, `type()` (post-fix rule)
works on the definition whose typedef name is the table's - no matter what the names or the
texts contain (substrings of each other, column names, type words) -/
theorem struct_name_lookup (defs : List (Str × Str)) (hname : ∀ d ∈ defs, tdNameOf d.2 = some d.1)
    (hd : (defs.map (fun d => upper d.1)).Nodup) (d : Str × Str) (hmem : d ∈ defs) (T : Str)
    (hT : upper T = upper d.1) : selectDef2 (defs.map (·.2)) T = some d.2 :=
  selectDef2_by_name defs hname hd d hmem T hT

/-- column typing of table `T` is the type search in `T`'s own definition -/
theorem struct_name_lookup_typing (defs : List (Str × Str)) (hname : ∀ d ∈ defs, tdNameOf d.2 = some d.1)
    (hd : (defs.map (fun d => upper d.1)).Nodup) (d : Str × Str) (hmem : d ∈ defs) (T var : Str)
    (hT : upper T = upper d.1) :
    typeOfS selectDef2 (defs.map (·.2)) T var =
      match typeSearch var d.2 with
      | none => .error "AttributeError"
      | some (typ, arr) => .ok (typ ++ normB arr) := by
  unfold typeOfS
  rw [selectDef2_by_name defs hname hd d hmem T hT]
  rfl

def fooText : Str := "typedef struct {\n    int a;\n} FOO;".toList
def foobarText : Str := "typedef struct {\n    double b;\n} FOOBAR;".toList
def barText : Str := "typedef struct {\n    double foo;\n    char a[4];\n} BAR;".toList
def mixedText : Str := "typedef struct {\n    int a;\n} Foo;".toList

/-- the pre-fix rule (`selectDefOld`: `x.find(name) > 0` over whole typedef texts) fails on exactly the inputs of
D16 / D17: FOO next to FOOBAR finds two texts (→ `None` → TypeError), FOO next to a struct with a
column `foo` selects the other struct's text, a typedef name in mixed case finds nothing; the
post-fix rule selects FOO's own definition in all three -/
theorem old_lookup_counterexample :
    selectDefOld [fooText, foobarText] "FOO".toList = none ∧
    selectDefOld [fooText, barText] "FOO".toList = some barText ∧
    selectDefOld [mixedText] "FOO".toList = none ∧
    selectDef2 [fooText, foobarText] "FOO".toList = some fooText ∧
    selectDef2 [fooText, barText] "FOO".toList = some fooText ∧
    selectDef2 [mixedText] "FOO".toList = some mixedText := by decide

example : tdNameOf foobarText = some "FOOBAR".toList := by decide
example : (([("FOO".toList, fooText), ("FOOBAR".toList, foobarText), ("BAR".toList, barText)] : List (Str × Str)).map
    (fun d => upper d.1)).Nodup := by decide

/-! ## raw mode -/

/-- raw_same_values: whenever the file reads, raw mode succeeds on it, has the same keyword pairs,
and every table of the record-array result holds - row by row, cell by cell - the raw values of the
data lines that carry at least one cell: identical integers and floats, strings identical or cut
to the column width (`rowSame`, `scSame`) -/
theorem raw_same_values (sel : Sel) (io : FloatIO F) (text : Str) (p : Parsed F)
    (h : parseFileS sel io text = .ok p) :
    ∃ raw, parseRawS sel io text = .ok raw ∧ p.pairs = raw.pairs ∧
      all2 (tableSame raw.rows) raw.front.tables p.tables := by
  unfold parseFileS at h
  cases hr : parseRawS sel io text with
  | error e => rw [hr] at h; cases h
  | ok raw =>
    rw [hr] at h
    simp only at h
    cases hf : finishTablesS sel (raw.front.structs.map (·.text)) (enumCache raw.front.enums) raw.rows
        raw.front.tables with
    | error e => rw [hf] at h; cases h
    | ok ts =>
      rw [hf] at h
      injection h with h; subst h
      exact ⟨raw, rfl, rfl, finishTablesS_same sel _ _ raw.rows raw.front.tables ts hf⟩

/-- the reader with the selection rule as a parameter, at C01's rule, is C01's `parseFile` -/
theorem parseFileS_selectDef (io : FloatIO F) (text : Str) :
    parseFileS selectDef io text = parseFile io text := parseFileS_old io text

/-! ## file level (extension round) -/

section FileLevel
open PydlVerif.YannyLay PydlVerif.YannyLayScan PydlVerif.YannyLayBlock

/-- **piece 1** continuation joining: `re.sub(r'\\\s*\n', ' ', text)` turns the file as written
(separators possibly split by backslash-newline) into the file with every separator in its joined
form; nothing else in the file is touched (no other backslash is followed by blanks up to a line end) -/
theorem joinCont_layout (io : FloatIO F) (d : Doc F) (lay : Layout) (text : Str)
    (hd : docOK2 d = true) (hl : layoutOK io d lay = true) (hr : renders io d lay = some text) :
    ∃ ltext, rendersLogical io d lay = some ltext ∧ joinCont text = ltext :=
  PydlVerif.YannyLayCont.joinCont_renders io d lay text hd hl hr

/-- **piece 2a** one typedef block in any layout (`typedef` g1 `struct|enum` g2 `{` body `}` g3 NAME g4 `;`
with arbitrary white space g1..g4, g1 non-empty): the expression for its own keyword matches it as a
whole (found with its body and name, cut out entirely), the expression for the other keyword matches
nowhere inside it -/
theorem typedef_block_layout (K kw g1 g2 body g3 name g4 B : Str) (hK : isKw K) (hkw : isKw kw) (hne : K ≠ kw)
    (hg1 : g1 ≠ [] ∧ ∀ c ∈ g1, isSpace c = true) (hg2 : ∀ c ∈ g2, isSpace c = true)
    (hg3 : ∀ c ∈ g3, isSpace c = true) (hg4 : ∀ c ∈ g4, isSpace c = true)
    (hb : body ≠ [] ∧ '}' ∉ body ∧ '{' ∉ body) (hn : wordy name) :
    tdFind K 0 (blockL K g1 g2 body g3 name g4 ++ B) = ⟨blockL K g1 g2 body g3 name g4, body, name⟩ :: tdFind K 0 B ∧
    tdRemove K 0 (blockL K g1 g2 body g3 name g4 ++ B) = tdRemove K 0 B ∧
    tdFind kw 0 (blockL K g1 g2 body g3 name g4 ++ B) = tdFind kw 0 B ∧
    tdRemove kw 0 (blockL K g1 g2 body g3 name g4 ++ B) = blockL K g1 g2 body g3 name g4 ++ tdRemove kw 0 B :=
  ⟨tdFind_lay_same K g1 g2 body g3 name g4 B hK hg1 hg2 hg3 hg4 ⟨hb.1, hb.2.1⟩ hn,
   tdRemove_lay_same K g1 g2 body g3 name g4 B hK hg1 hg2 hg3 hg4 ⟨hb.1, hb.2.1⟩ hn,
   tdFind_lay_other K kw g1 g2 body g3 name g4 B hK hkw hne hg1 hg2 hg3 hg4 hb.2.2 hn,
   tdRemove_lay_other K kw g1 g2 body g3 name g4 B hK hkw hne hg1 hg2 hg3 hg4 hb.2.2 hn⟩

/-- **piece 2b** `re.search(r'(\S+)\s+VAR([\[<].*[\]>]|);', text)` on a struct definition in any layout
(white space and `# …` comments before every declaration and before the closing brace, `[n]` or `<n>`,
`[]`, any blanks between type and name; every declaration after the first preceded by a newline)
finds the declaration of `VAR`: its type word and its array suffix as written - whatever the other
column names, the struct name and the comments contain -/
theorem typeSearch_layout (ms : List Mem) (closePre g1 g2 g3 name g4 : Str)
    (hms : ∀ m ∈ ms, MemOK m) (hnd : (ms.map (·.N)).Nodup) (hnl : ∀ m ∈ ms.tail, '\n' ∈ m.pre)
    (hcp : tdWsOK false closePre = true)
    (hg1 : g1 ≠ [] ∧ ∀ c ∈ g1, wsChar c = true) (hg2 : ∀ c ∈ g2, wsChar c = true)
    (hg3 : ∀ c ∈ g3, wsChar c = true) (hg4 : ∀ c ∈ g4, wsChar c = true)
    (hname : wordy name) (m : Mem) (hm : m ∈ ms) :
    typeSearch m.N (structL g1 g2 (bodyL ms closePre) g3 name g4) = some (m.T, m.arr) :=
  typeSearch_lay ms closePre g1 g2 g3 name g4 hms hnd hnl hcp hg1 hg2 hg3 hg4 hname m hm

/-- `re.findall(r'\S+\s+\S+;', body)` + `stripArr` on the same body gives the column names in order -/
theorem columnsOf_layout (ms : List Mem) (closePre : Str) (hms : ∀ m ∈ ms, MemOK m)
    (hcp : tdWsOK false closePre = true) : columnsOf (bodyL ms closePre) = ms.map (·.N) :=
  columnsOf_lay ms closePre hms hcp

/-- **piece 2c / 5a** typing of a table's columns from its definition in any layout: the column specs
the row reader needs and the canonical record-array columns; a column written `char name[]` gets the
width of its longest value (`unsizedOK`: the document's declared width IS that length) -/
theorem typing_layout (enums : List EnumDecl) (he : ∀ e ∈ enums, enumOK e = true) (t : TableD F) (l : StructLay)
    (ht : tableOK2 enums t = true) (hl : structLayOK enums t l = true) (hnl : declNlOK l.cols = true)
    (sts : List Str) (hsel : selectDef sts (upper t.name) = some (structBlk enums t l))
    (cache : List (Str × List Str))
    (hcache : ∀ e ∈ enums, lookupLast (upper e.tyName) cache = some e.labels)
    (hnum : ∀ w ∈ ["short".toList, "int".toList, "long".toList, "float".toList, "double".toList],
      lookupLast w cache = none) :
    colSpecs sts (upper t.name) (t.cols.map (·.name)) = .ok (t.cols.map specOfCol) ∧
    ∀ (k : Nat) (c : Col), t.cols[k]? = some c →
      rcolOf sts cache (upper t.name) c.name (t.rows.filterMap (fun r => r[k]?)) = .ok (rcolCanon enums c) :=
  typing_lay enums he t l ht hl hnl sts hsel cache hcache hnum

/-- `char name[]` (type text `char[]` / `char[n][]`): the column is a string column, an array iff
`n` is given, and its width is the longest value present in the column -/
theorem char_unsized_layout (c : Col) (data : List (Cell F)) :
    baseType (typUnsized c) = "char".toList ∧ isArrayT (typUnsized c) = decide (c.alen > 0) ∧
    (c.alen > 0 → arrayLength (typUnsized c) = .ok c.alen) ∧
    charLength (typUnsized c) data = if data.isEmpty then .ok 1 else .ok ((data.map cellMaxLen).foldl max 0) :=
  ⟨baseType_unsized c, isArrayT_unsized c, arrayLength_unsized c, charLength_unsized c data⟩

/-- **piece 2, file level** the front half of `_parse` on a file in any layout -/
theorem front_layout (io : FloatIO F) (h1 : H1 io) (d : Doc F) (lay : Layout) (text : Str)
    (hd : docOK2 d = true) (hl : layoutOK2 io d lay = true) (hr : renders io d lay = some text) :
    ∃ infos, slotInfos io d (initRSt d) lay.slots = some infos ∧ (∀ i ∈ infos, InfoOK io (laySpecs d) i) ∧
      front text = ⟨layStructs d lay, layEnums d lay,
        d.tables.map (fun t => (upper t.name, t.cols.map (·.name))),
        joinChunks lay.finalEol (residChunks infos)⟩ :=
  front_lay io h1 d lay text hd hl hr

/-- **piece 3** the line step on a whole data line in any layout: leading blanks, the struct name in any
letter case, the cells in any per-line layout, trailing blanks, an optional trailing comment, an
optional CR - the row is appended to its table -/
theorem lineStep_layout_row (io : FloatIO F) (h1 : H1 io) (specs : List (Str × Except String (List ColSpec)))
    (st : LoopSt F) (sch : List ColSpec) (r : List (Cell F)) (lay : RowLay) (b cr : Str)
    (hlead : ∀ c ∈ lay.lead, isBlank c = true) (htrail : ∀ c ∈ lay.trail, isBlank c = true)
    (hname : wordOK lay.name = true) (hcom : commentOK lay.comment = true)
    (hcells : cellsLayOK io r lay.cells = true) (hb : renderCells Sep.logical io r lay.cells = some b)
    (hdb : dbFree (lay.name ++ b) = true) (hk : rowKinds sch r = true)
    (hs : lookupSpec specs (upper lay.name) = some (.ok sch)) (hcr : cr = [] ∨ cr = ['\r']) :
    lineStep io specs st (lay.lead ++ lay.name ++ b ++ lay.trail ++ commentText lay.comment ++ cr) =
      .ok { st with rows := addRow st.rows (upper lay.name) r } :=
  PydlVerif.YannyLayLine.lineStep_row_lay io h1 specs st sch r lay b cr hlead htrail hname hcom hcells hb hdb hk hs hcr

/-- **piece 3** the line step on a whole keyword line in any layout -/
theorem lineStep_layout_pair (io : FloatIO F) (specs : List (Str × Except String (List ColSpec)))
    (st : LoopSt F) (k v : Str) (lay : PairLay) (cr : Str)
    (hlead : ∀ c ∈ lay.lead, isBlank c = true) (htrail : ∀ c ∈ lay.trail, isBlank c = true)
    (hcom : commentOK lay.comment = true)
    (hne : k ≠ []) (hk : ∀ c ∈ k, isSpace c = false ∧ c ≠ '#')
    (hh1 : k.head? ≠ some '"') (hh2 : k.head? ≠ some '{')
    (hv : '#' ∉ v) (hvn : '\n' ∉ v) (hvs : strip v = v)
    (hsep : if v.isEmpty then (∀ c ∈ lay.sep.a, isBlank c = true) ∧ lay.sep.cont = none else lay.sep.ok = true)
    (hdb : dbFree (k ++ lay.sep.logical ++ v) = true)
    (hs : lookupSpec specs (upper k) = none) (hcr : cr = [] ∨ cr = ['\r']) :
    lineStep io specs st (lay.lead ++ k ++ lay.sep.logical ++ v ++ lay.trail ++ commentText lay.comment ++ cr) =
      .ok { st with pairs := setPair st.pairs k v } :=
  PydlVerif.YannyLayLine.lineStep_pair_lay io specs st k v lay cr hlead htrail hcom hne hk hh1 hh2 hv hvn hvs hsep hdb hs hcr

/-- **piece 4** the loop over the lines of a file in any layout: comment / blank lines and the rests of
definition lines are skipped, keyword pairs are recorded in file order, and the rows of each table
arrive in that table's order, whatever the interleaving of the tables' lines -/
theorem loop_layout (io : FloatIO F) (d : Doc F) (lay : Layout) (hd : docOK2 d = true)
    (hl : layoutOK2 io d lay = true) (infos : List (ChunkInfo F))
    (hsi : slotInfos io d (initRSt d) lay.slots = some infos) (hio : ∀ i ∈ infos, InfoOK io (laySpecs d) i) :
    lineLoop io (laySpecs d) ⟨[], d.tables.map (fun t => (upper t.name, []))⟩
      (splitNl (joinChunks lay.finalEol (residChunks infos))) =
      .ok ⟨d.hdr, d.tables.map (fun t => (upper t.name, t.rows))⟩ :=
  loop_lay io d lay hd hl infos hsi hio

/-- **piece 5** record arrays: with the column data that is actually passed to `char_length` -/
theorem finishTables_layout (st : List Str) (cache : List (Str × List Str)) (enums : List EnumDecl)
    (all : List (TableD F)) (hnd : nodup (all.map (fun t => upper t.name)) = true)
    (ts : List (TableD F)) (hsub : ∀ t ∈ ts, t ∈ all)
    (hok : ∀ t ∈ ts, t.cols ≠ [] ∧
      (∀ (k : Nat) (c : Col), t.cols[k]? = some c →
        rcolOf st cache (upper t.name) c.name (t.rows.filterMap (fun r => r[k]?)) = .ok (rcolCanon enums c)) ∧
      ∀ r ∈ t.rows, cellsOK enums t.cols r = true) :
    finishTables st cache (all.map (fun t => (upper t.name, t.rows)))
      (ts.map (fun t => (upper t.name, t.cols.map (·.name)))) =
      .ok (ts.map (fun t => ⟨upper t.name, t.cols.map (rcolCanon enums), t.rows⟩)) :=
  finishTables_written' st cache enums all hnd ts hsub hok

/-- the reader of the tree after the D16/D17 fix is C01's reader (C01's `selectDef` follows the fix) -/
theorem parseFile2_eq (io : FloatIO F) (text : Str) : parseFile2 io text = parseFile io text := by
  have hsel : selectDef2 = selectDef := rfl
  unfold parseFile2
  rw [hsel]
  exact parseFileS_old io text

/-- **parseFile_layout** - the meaning of a file does not depend on its surface syntax: every document
of the domain `docOK2` (several tables, enum and struct definitions, keyword pairs; struct names
arbitrary distinct identifiers), written in ANY layout of the domain `layoutOK2` - comment lines and
trailing comments, blank lines, leading blanks, blank/tab runs, CRLF, backslash continuation inside
any separator, bare / "quoted" / {braced} tokens, `[n]` / `<n>` / `[]`, any letter case of the struct
name, white space and comments inside definitions, definitions anywhere, rows of different tables
interleaved - reads back as the document's canonical form: tables, column types, row order per table,
cells, pairs in order -/
theorem parseFile_layout (io : FloatIO F) (h1 : H1 io) (d : Doc F) (lay : Layout) (text : Str)
    (hd : docOK2 d = true) (hl : layoutOK2 io d lay = true) (hr : renders io d lay = some text) :
    parseFile2 io text = .ok (canon d) := by
  rw [parseFile2_eq]
  exact parseFile_lay io h1 d lay text hd hl hr

end FileLevel

/-! ### the domain of `parseFile_layout` is inhabited

Two tables and an enum; the file starts with a continuation-split keyword line carrying a trailing
comment with quotes, an enum definition without blanks before `{`, a data line of the second table
(lower-case name, CRLF) BEFORE any struct definition, a struct definition with a comment line inside,
`<n>` brackets, a tab between type and name and a mixed-case name, interleaved rows with {braced} and
"quoted" tokens and a continuation inside an array, a `char t[]` column, a blank line. -/

def layDoc : Doc Int :=
  { comments := [], hdr := [("mjd".toList, "54579".toList), ("alpha".toList, "beta \"gamma\"".toList)],
    enums := [⟨"state".toList, "STATUS".toList, ["ON".toList, "OFF".toList]⟩],
    tables := [
      { name := "OBS".toList, cols := [⟨"mag".toList, .f4, 2⟩, ⟨"b".toList, .S 3, 0⟩, ⟨"state".toList, .S 5, 0⟩],
        rows := [[.many [.flt .f4 17, .flt .f4 (-3)], .one (.str "a b".toList), .one (.str "ON".toList)],
                 [.many [.flt .f4 1, .flt .f4 2], .one (.str "#x".toList), .one (.str "OFF".toList)]] },
      { name := "OBSLOG".toList, cols := [⟨"n".toList, .i8, 0⟩, ⟨"t".toList, .S 3, 0⟩],
        rows := [[.one (.int 5), .one (.str "x;y".toList)]] }] }

def layLay : Layout :=
  { finalEol := true,
    slots := [
      .filler "#%yanny".toList false,
      .pair ⟨"  ".toList, ⟨" ".toList, some ([], false, "   ".toList)⟩, [], some " c \"q\" ".toList, false⟩,
      .edef ⟨[], " ".toList, [], "\n  ".toList, ["\n  ".toList], "\n".toList, " ".toList, [], [], none, false⟩,
      .row 1 ⟨[], "obslog".toList, [(⟨" ".toList, none⟩, .one .bare), (⟨"\t".toList, none⟩, .one .quoted)], " ".toList, none, true⟩,
      .sdef ⟨" ".toList, "  ".toList, "\n".toList,
        [⟨"\n  # magnitudes\n  ".toList, " ".toList, true, false, false⟩,
         ⟨"\n ".toList, "\t".toList, false, true, false⟩,
         ⟨" #c\n".toList, " ".toList, false, false, false⟩],
        "\n".toList, " ".toList, "Obs".toList, " ".toList, " ".toList, some " def".toList, false⟩,
      .row 0 ⟨"\t".toList, "obs".toList,
        [(⟨" ".toList, none⟩, .many " ".toList .bare [(⟨" ".toList, some (" ".toList, true, "  ".toList)⟩, .quoted)] []),
         (⟨"  ".toList, none⟩, .one (.braced " ".toList)), (⟨" ".toList, none⟩, .one .bare)], [], some " first".toList, false⟩,
      .filler [] false,
      .sdef ⟨[], " ".toList, " ".toList,
        [⟨" ".toList, " ".toList, false, false, false⟩, ⟨"\n".toList, " ".toList, false, false, true⟩],
        " ".toList, [], "OBSLOG".toList, [], [], none, false⟩,
      .row 0 ⟨[], "OBS".toList,
        [(⟨" ".toList, none⟩, .many [] .bare [(⟨" ".toList, none⟩, .bare)] " ".toList),
         (⟨" ".toList, none⟩, .one .quoted), (⟨" ".toList, none⟩, .one .quoted)], [], none, false⟩,
      .pair ⟨[], ⟨"\t".toList, none⟩, " ".toList, none, false⟩] }

set_option maxRecDepth 1000000 in
example : docOK2 layDoc = true := by decide
set_option maxRecDepth 1000000 in
example : layoutOK2 intIO layDoc layLay = true := by decide
set_option maxRecDepth 1000000 in
example : (renders intIO layDoc layLay).isSome = true := by decide

set_option maxRecDepth 1000000 in
/-- the theorem applies to the sample (document, layout) -/
example : ∀ text, renders intIO layDoc layLay = some text → parseFile2 intIO text = .ok (canon layDoc) :=
  fun text hr => parseFile_layout intIO (fun _ x => parseInt_fmtInt x) layDoc layLay text (by decide) (by decide) hr

/-! ## second extension round: wider domain, text mode, raw mode -/

section Round2
open PydlVerif.YannyLay PydlVerif.YannyLayScan PydlVerif.YannyLayBlock

/-- the domain of the first extension round is contained in the widened domain -/
theorem layoutOK2_sub (io : FloatIO F) (d : Doc F) (lay : Layout) (h : layoutOK2 io d lay = true) :
    layoutOKW io d lay = true := layoutOKW_of_OK2 io d lay h

/-- `type()`'s search on a struct definition in any layout in which a declaration written with brackets
is the last such declaration of its line (`LineOK`): declarations without brackets may share a line with
anything; `hnl` of `typeSearch_layout` is the special case `LineOK_of_nl` -/
theorem typeSearch_layout_w (ms : List Mem) (closePre g1 g2 g3 name g4 : Str)
    (hms : ∀ m ∈ ms, MemOK m) (hnd : (ms.map (·.N)).Nodup) (hline : LineOK ms)
    (hcp : tdWsOK false closePre = true)
    (hg1 : g1 ≠ [] ∧ ∀ c ∈ g1, wsChar c = true) (hg2 : ∀ c ∈ g2, wsChar c = true)
    (hg3 : ∀ c ∈ g3, wsChar c = true) (hg4 : ∀ c ∈ g4, wsChar c = true)
    (hname : wordy name) (m : Mem) (hm : m ∈ ms) :
    typeSearch m.N (structL g1 g2 (bodyL ms closePre) g3 name g4) = some (m.T, m.arr) :=
  typeSearch_layW ms closePre g1 g2 g3 name g4 hms hnd hline hcp hg1 hg2 hg3 hg4 hname m hm

/-- column typing from a struct definition of the widened domain -/
theorem typing_layout_w (enums : List EnumDecl) (he : ∀ e ∈ enums, enumOK e = true) (t : TableD F) (l : StructLay)
    (ht : tableOK2 enums t = true) (hl : structLayOK enums t l = true)
    (hline : declLineOK enums t.cols l.cols = true)
    (sts : List Str) (hsel : selectDef sts (upper t.name) = some (structBlk enums t l))
    (cache : List (Str × List Str))
    (hcache : ∀ e ∈ enums, lookupLast (upper e.tyName) cache = some e.labels)
    (hnum : ∀ w ∈ ["short".toList, "int".toList, "long".toList, "float".toList, "double".toList],
      lookupLast w cache = none) :
    colSpecs sts (upper t.name) (t.cols.map (·.name)) = .ok (t.cols.map specOfCol) ∧
    ∀ (k : Nat) (c : Col), t.cols[k]? = some c →
      rcolOf sts cache (upper t.name) c.name (t.rows.filterMap (fun r => r[k]?)) = .ok (rcolCanon enums c) :=
  typing_layW enums he t l ht hl hline sts hsel cache hcache hnum

/-- **parseFile_layout_w** - `parseFile_layout` on the widened domain `layoutOKW` (several declarations
on one line of a struct definition, at most one of them written with brackets per line) -/
theorem parseFile_layout_w (io : FloatIO F) (h1 : H1 io) (d : Doc F) (lay : Layout) (text : Str)
    (hd : docOK2 d = true) (hl : layoutOKW io d lay = true) (hr : renders io d lay = some text) :
    parseFile2 io text = .ok (canon d) := by
  rw [parseFile2_eq]
  exact parseFile_layW io h1 d lay text hd hl hr

/-- **renders_univNl** - what text-mode `open()` delivers for a rendered file is itself a rendering: of
the same document in the layout `lay.univ` (every line end LF, every CR of a white-space run inside a
definition LF, CRLF collapsed) -/
theorem renders_univNl (io : FloatIO F) (d : Doc F) (lay : Layout) (text : Str) (hd : docOK2 d = true)
    (hl : layoutOK io d lay = true) (hc : layoutCrOK lay = true) (ht : tokCrOK io d = true)
    (hr : renders io d lay = some text) : renders io d lay.univ = some (univNl text) :=
  renders_univ io d lay text hd hl hc ht hr

/-- the universal-newline layout of a layout of the domain is in the domain -/
theorem univLayout_ok (io : FloatIO F) (d : Doc F) (lay : Layout) (h : layoutOKW io d lay = true)
    (hc : layoutCrOK lay = true) : layoutOKW io d lay.univ = true := layoutOKW_univ io d lay h hc

/-- **parseFile_layout_univNl** - layout independence for a file read through text-mode `open()`
(universal newlines: `\r\n` and a lone `\r` become `\n`): every document of `docOK2`, written in ANY layout
of the domain `layoutOKU` (line ends LF or CRLF per line, CR / LF / CRLF inside the white space of a
definition), reads back from the translated text as the document's canonical form -/
theorem parseFile_layout_univNl (io : FloatIO F) (h1 : H1 io) (d : Doc F) (lay : Layout) (text : Str)
    (hd : docOK2 d = true) (hl : layoutOKU io d lay = true) (hr : renders io d lay = some text) :
    parseFile2 io (univNl text) = .ok (canon d) := by
  rw [parseFile2_eq]
  exact parseFile_layU io h1 d lay text hd hl hr

/-- the cell part of `layoutOKU` follows from `docOK2` when the float printer emits no CR -/
theorem tokCrOK_of_float (io : FloatIO F) (h3 : ∀ w x, '\r' ∉ io.fmtF w x) (d : Doc F) (hd : docOK2 d = true) :
    tokCrOK io d = true := tokCrOK_of_fmt io h3 d hd

/-- **parseRaw_layout** - raw mode at file level: `yanny(file, raw=True)` on a file in any layout of the
domain returns the keyword pairs in order and, per table, the document's rows as plain lists in that
table's order (the symbol table lists every table with its columns) -/
theorem parseRaw_layout (io : FloatIO F) (h1 : H1 io) (d : Doc F) (lay : Layout) (text : Str)
    (hd : docOK2 d = true) (hl : layoutOKW io d lay = true) (hr : renders io d lay = some text) :
    ∃ raw, parseRaw2 io text = .ok raw ∧ raw.pairs = d.hdr ∧
      raw.rows = d.tables.map (fun t => (upper t.name, t.rows)) ∧
      raw.front.tables = d.tables.map (fun t => (upper t.name, t.cols.map (·.name))) :=
  parseRaw_layW io h1 d lay text hd hl hr

/-- raw mode through text-mode `open()` -/
theorem parseRaw_layout_univNl (io : FloatIO F) (h1 : H1 io) (d : Doc F) (lay : Layout) (text : Str)
    (hd : docOK2 d = true) (hl : layoutOKU io d lay = true) (hr : renders io d lay = some text) :
    ∃ raw, parseRaw2 io (univNl text) = .ok raw ∧ raw.pairs = d.hdr ∧
      raw.rows = d.tables.map (fun t => (upper t.name, t.rows)) ∧
      raw.front.tables = d.tables.map (fun t => (upper t.name, t.cols.map (·.name))) :=
  parseRaw_layU io h1 d lay text hd hl hr

/-- text mode with the cell condition discharged: for any float printer that emits no CR -/
theorem parseFile_layout_univNl_float (io : FloatIO F) (h1 : H1 io) (h3 : ∀ w x, '\r' ∉ io.fmtF w x)
    (d : Doc F) (lay : Layout) (text : Str) (hd : docOK2 d = true) (hl : layoutOKW io d lay = true)
    (hc : layoutCrOK lay = true) (hr : renders io d lay = some text) :
    parseFile2 io (univNl text) = .ok (canon d) := by
  apply parseFile_layout_univNl io h1 d lay text hd _ hr
  simp only [layoutOKU, Bool.and_eq_true]
  exact ⟨⟨hl, hc⟩, tokCrOK_of_fmt io h3 d hd⟩

/-- the enum part at file level: whatever the layout of the enum definitions (white space, CR / LF, their
place in the file), the reader's enum cache maps every enum type to the document's labels, in order -/
theorem enums_layout (io : FloatIO F) (h1 : H1 io) (d : Doc F) (lay : Layout) (text : Str)
    (hd : docOK2 d = true) (hl : layoutOKW io d lay = true) (hr : renders io d lay = some text) :
    ∀ e ∈ d.enums, lookupLast (upper e.tyName) (enumCache (front text).enums) = some e.labels := by
  obtain ⟨he, het, _, _, _, _⟩ := docOK2_props d hd
  obtain ⟨infos, _, _, hfront⟩ := front_layW io h1 d lay text hd hl hr
  rw [hfront]
  exact (cache_lay d he het _ (layouts_ok io d lay hl).2).1

end Round2

/-! ### the new domains are inhabited, and strictly larger

`layDoc` in a layout with CRLF line ends, a continuation split at a CRLF, lone CRs and CRLFs inside the
white space of the definitions, a comment inside a struct ended by CRLF, and SEVERAL DECLARATIONS ON ONE
LINE: `char b<3>;\r STATUS state;` (a lone CR is no line end in the bytes: one line there, two lines in
text mode; only `b` uses brackets) and `long n; char t[];` : outside `layoutOK2`, inside `layoutOKW` and
`layoutOKU`; the text differs from its universal-newline form. -/

def layLay2 : Layout :=
  { finalEol := true,
    slots := [
      .filler "#%yanny".toList true,
      .pair ⟨[], ⟨" ".toList, some ([], true, " ".toList)⟩, [], none, true⟩,
      .edef ⟨[], "\r".toList, [], "\r\n  ".toList, ["\r  ".toList], "\n".toList, " ".toList, [], [], none, true⟩,
      .sdef ⟨[], " ".toList, "\r\n".toList,
        [⟨"\r\n  # magnitudes\r\n  ".toList, " ".toList, true, false, false⟩,
         ⟨"\n ".toList, "\t".toList, false, true, false⟩,
         ⟨"\r ".toList, " ".toList, false, false, false⟩],
        "\r\n".toList, " ".toList, "Obs".toList, "\r".toList, " ".toList, some " def".toList, true⟩,
      .sdef ⟨[], " ".toList, " ".toList,
        [⟨" ".toList, " ".toList, false, false, false⟩, ⟨" ".toList, " ".toList, false, false, true⟩],
        " ".toList, [], "OBSLOG".toList, [], [], none, false⟩,
      .row 0 ⟨[], "obs".toList,
        [(⟨" ".toList, none⟩, .many [] .bare [(⟨" ".toList, some ([], true, " ".toList)⟩, .quoted)] []),
         (⟨" ".toList, none⟩, .one (.braced [])), (⟨" ".toList, none⟩, .one .bare)], [], some " first".toList, true⟩,
      .row 1 ⟨[], "obslog".toList, [(⟨" ".toList, none⟩, .one .bare), (⟨"\t".toList, none⟩, .one .quoted)], [], none, true⟩,
      .row 0 ⟨[], "OBS".toList,
        [(⟨" ".toList, none⟩, .many [] .bare [(⟨" ".toList, none⟩, .bare)] []),
         (⟨" ".toList, none⟩, .one .quoted), (⟨" ".toList, none⟩, .one .quoted)], [], none, false⟩,
      .pair ⟨[], ⟨"\t".toList, none⟩, [], none, true⟩] }

set_option maxRecDepth 1000000 in
example : layoutOK2 intIO layDoc layLay2 = false := by decide
set_option maxRecDepth 1000000 in
example : layoutOKW intIO layDoc layLay2 = true := by decide
set_option maxRecDepth 1000000 in
example : layoutOKU intIO layDoc layLay2 = true := by decide
set_option maxRecDepth 1000000 in
example : (renders intIO layDoc layLay2).isSome = true := by decide
set_option maxRecDepth 1000000 in
/-- text mode really changes this file -/
example : (renders intIO layDoc layLay2).map univNl ≠ renders intIO layDoc layLay2 := by decide

set_option maxRecDepth 1000000 in
/-- the theorems apply to the sample (document, layout) -/
example : ∀ text, renders intIO layDoc layLay2 = some text →
    parseFile2 intIO text = .ok (canon layDoc) ∧ parseFile2 intIO (univNl text) = .ok (canon layDoc) :=
  fun text hr =>
    ⟨parseFile_layout_w intIO (fun _ x => parseInt_fmtInt x) layDoc layLay2 text (by decide) (by decide) hr,
     parseFile_layout_univNl intIO (fun _ x => parseInt_fmtInt x) layDoc layLay2 text (by decide) (by decide) hr⟩

/-- the old domain's sample is also inside the text-mode domain -/
example : layoutOKU intIO layDoc layLay = true := by
  set_option maxRecDepth 1000000 in decide

/-- two bracketed declarations on one line stay outside the widened domain -/
example : declLineOK [] [⟨"a".toList, .i4, 2⟩, ⟨"t".toList, .S 8, 0⟩]
    [⟨" ".toList, " ".toList, false, false, false⟩, ⟨" ".toList, " ".toList, false, false, false⟩] = false := by decide
example : declLineOK [] [⟨"a".toList, .i4, 0⟩, ⟨"b".toList, .i4, 2⟩, ⟨"c".toList, .i4, 0⟩]
    [⟨" ".toList, " ".toList, false, false, false⟩, ⟨" ".toList, " ".toList, false, false, false⟩,
     ⟨" ".toList, " ".toList, false, false, false⟩] = true := by decide
/-- a lone CR inside a typedef comment is outside the text-mode domain, a CRLF ending it is inside -/
example : tdWsCrOK false "\n # a\rb\n ".toList = false := by decide
example : tdWsCrOK false "\r # ab\r\n\r ".toList = true := by decide

end PydlVerif.C02

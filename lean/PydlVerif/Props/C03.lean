/-
C03 - yanny: object and file never diverge over write/append histories.

Property theorems about the state machine of Model/YannyHist.lean (file system + one yanny
object; `step` follows `write()` / `append()` / `_parse()`), built on C01's reader and writer
model and its line theorems.  Helper lemmas: Lemmas/YannyHist.lean.

  refusals        write over an existing file, append to a missing file: error, nothing changes;
                  appending nothing: warning, nothing changes; write never replaces a file,
                  append never creates one
  prefix          under the object's own operations every file only grows by suffixes
  invariant       `Inv`: the object's view is `_parse(_contents)` and, when bound, its file holds
                  exactly `_contents`; preserved by every operation of the object, over every history
  content         an accepted append extends the document read by the line loop by exactly the
                  appended pairs and rows, in order (`parse_append`, `chunk_loop`, `append_content`);
                  over histories: `history_content_partial` (two named hypotheses, see there)
-/
import PydlVerif.Lemmas.YannyHist
namespace PydlVerif.C03
open PydlVerif.Yanny

variable {F : Type}

/-! ## refusals -/

/-- write-over: `write(p)` with `p` an existing file, and `write()` on an object whose own file
exists, raise `PydlutilsException` and leave file system and object exactly as they were -/
theorem write_existing_refused (io : FloatIO F) (s : State F) (cm : Comments) :
    (∀ p, (s.fs p).isSome = true → step io s (.write (some p) cm) = (s, .error "PydlutilsException")) ∧
    (s.obj.filename ≠ [] → (s.fs s.obj.filename).isSome = true →
      step io s (.write none cm) = (s, .error "PydlutilsException")) := by
  refine ⟨?_, ?_⟩
  · intro p h
    simp [step, stepWrite, writeTarget, h]
  · intro hne h
    simp [step, stepWrite, writeTarget, isEmpty_false_of_ne _ hne, h]

/-- append-missing: whatever is to be appended, if the object's file does not exist the request
changes nothing and does not succeed; with something to append it raises `PydlutilsException` -/
theorem append_missing_refused (io : FloatIO F) (s : State F) (d : List (Str × AVal F)) (st : Str)
    (h : s.fs s.obj.filename = none) :
    (step io s (.append d st)).1 = s ∧ (step io s (.append d st)).2 ≠ .ok ∧
    (∀ v body, s.obj.filename ≠ [] → s.obj.view = .ok v → appendChunk io v d = .ok body → body ≠ [] →
      step io s (.append d st) = (s, .error "PydlutilsException")) := by
  refine ⟨?_, ?_, ?_⟩
  · rcases stepAppend_cases io s d st with ⟨e, he⟩ | ⟨v, _, _, _, he⟩ | ⟨v, body, old, _, _, _, _, hf, _⟩
    · simp [step, he]
    · simp [step, he]
    · rw [h] at hf; cases hf
  · rcases stepAppend_cases io s d st with ⟨e, he⟩ | ⟨v, _, _, _, he⟩ | ⟨v, body, old, _, _, _, _, hf, _⟩
    · simp [step, he]
    · simp [step, he]
    · rw [h] at hf; cases hf
  · intro v body hne hv hc hb
    simp [step, stepAppend, isEmpty_false_of_ne _ hne, hv, hc, isEmpty_false_of_ne _ hb, h]

/-- append-nothing: when no line results from the dictionary (no pair, no row), the request only
warns and changes nothing -/
theorem append_nothing_warns (io : FloatIO F) (s : State F) (d : List (Str × AVal F)) (st : Str)
    (v : View F) (hne : s.obj.filename ≠ []) (hv : s.obj.view = .ok v)
    (hc : appendChunk io v d = .ok []) : step io s (.append d st) = (s, .warn) := by
  simp [step, stepAppend, isEmpty_false_of_ne _ hne, hv, hc]

/-- in particular the empty dictionary (`appendChunk` is empty; the same holds for tables without
rows and for the ignored keys, which the model evaluates) -/
theorem append_empty_dict_warns (io : FloatIO F) (s : State F) (st : Str)
    (v : View F) (hne : s.obj.filename ≠ []) (hv : s.obj.view = .ok v) :
    step io s (.append [] st) = (s, .warn) :=
  append_nothing_warns io s [] st v hne hv (appendChunk_nil io v)

/-- every outcome other than `ok` leaves the state alone: a warning always; an error either leaves
everything as it was or is the error of the re-parse itself (outside the domain: the text written
does not parse), which is then what the object holds -/
theorem warn_or_refusal_noop (io : FloatIO F) (s : State F) (op : Op F) :
    ((step io s op).2 = .warn → (step io s op).1 = s) ∧
    (∀ e, (step io s op).2 = .error e →
      (step io s op).1 = s ∨ (step io s op).1.obj.view = .error e) := by
  cases op with
  | write nf cm =>
    rcases stepWrite_cases io s nf cm with ⟨e, he⟩ | ⟨p, v, _, _, _, _, he⟩
    · simp [step, he]
    · simp only [step, he, writeTo]
      exact ⟨fun h => absurd h (outOf_ne_warn _), fun e h => Or.inr (outOf_error _ e h)⟩
  | append d st =>
    rcases stepAppend_cases io s d st with ⟨e, he⟩ | ⟨v, _, _, _, he⟩ | ⟨v, body, old, _, _, _, _, _, he⟩
    · simp [step, he]
    · simp [step, he]
    · simp only [step, he, appendTo]
      exact ⟨fun h => absurd h (outOf_ne_warn _), fun e h => Or.inr (outOf_error _ e h)⟩
  | appendNonDict => simp [step]
  | reread =>
    simp only [step]
    exact ⟨fun h => absurd h (outOf_ne_warn _), fun e h => Or.inr (outOf_error _ e h)⟩
  | unlink => simp [step]
  | rebind p => simp [step]

/-- a write never replaces an existing file: whatever `write` is asked, every file that existed
before still holds exactly the same text -/
theorem write_never_replaces (io : FloatIO F) (s : State F) (nf : Option Str) (cm : Comments)
    (p t : Str) (h : s.fs p = some t) : (step io s (.write nf cm)).1.fs p = some t := by
  rcases stepWrite_cases io s nf cm with ⟨e, he⟩ | ⟨q, v, _, hq, _, _, he⟩
  · simp [step, he, h]
  · have hpq : p ≠ q := by
      intro e; subst e; rw [h] at hq; cases hq
    simp [step, he, writeTo, update, hpq, h]

/-- an append never creates a file: a path without a file before has none after -/
theorem append_never_creates (io : FloatIO F) (s : State F) (d : List (Str × AVal F)) (st : Str)
    (p : Str) (h : s.fs p = none) : (step io s (.append d st)).1.fs p = none := by
  rcases stepAppend_cases io s d st with ⟨e, he⟩ | ⟨v, _, _, _, he⟩ | ⟨v, body, old, _, _, _, _, hold, he⟩
  · simp [step, he, h]
  · simp [step, he, h]
  · have hpq : p ≠ s.obj.filename := by
      intro e; rw [e, hold] at h; cases h
    simp [step, he, appendTo, update, hpq, h]

/-! ## earlier bytes are preserved -/

/-- under every operation of the object (write, append, re-read) a file that exists keeps
existing and its earlier text is a prefix of its present text -/
theorem prefix_preserved (io : FloatIO F) (s : State F) (op : Op F) (hop : op.isObjOp = true)
    (p t : Str) (h : s.fs p = some t) :
    ∃ t', (step io s op).1.fs p = some t' ∧ t <+: t' := by
  cases op with
  | write nf cm => exact ⟨t, write_never_replaces io s nf cm p t h, List.prefix_refl t⟩
  | append d st =>
    rcases stepAppend_cases io s d st with ⟨e, he⟩ | ⟨v, _, _, _, he⟩ | ⟨v, body, old, _, _, _, _, hold, he⟩
    · exact ⟨t, by simp [step, he, h], List.prefix_refl t⟩
    · exact ⟨t, by simp [step, he, h], List.prefix_refl t⟩
    · by_cases hp : p = s.obj.filename
      · subst hp
        rw [hold] at h
        cases h
        exact ⟨t ++ (appendHeader st ++ body), by simp [step, he, appendTo, update], List.prefix_append _ _⟩
      · exact ⟨t, by simp [step, he, appendTo, update, hp, h], List.prefix_refl t⟩
  | appendNonDict => exact ⟨t, h, List.prefix_refl t⟩
  | reread => exact ⟨t, h, List.prefix_refl t⟩
  | unlink => cases hop
  | rebind q => cases hop

/-- the same over every history of the object's operations -/
theorem prefix_preserved_run (io : FloatIO F) (ops : List (Op F)) (hops : ∀ op ∈ ops, op.isObjOp = true)
    (s : State F) (p t : Str) (h : s.fs p = some t) :
    ∃ t', (run io s ops).fs p = some t' ∧ t <+: t' := by
  induction ops generalizing s t with
  | nil => exact ⟨t, h, List.prefix_refl t⟩
  | cons op ops ih =>
    obtain ⟨t1, h1, p1⟩ := prefix_preserved io s op (hops op (by simp)) p t h
    obtain ⟨t2, h2, p2⟩ := ih (fun o ho => hops o (by simp [ho])) (step io s op).1 t1 h1
    exact ⟨t2, h2, List.IsPrefix.trans p1 p2⟩

/-! ## the coherence invariant -/

/-- the object holds what `_parse` makes of its text -/
def ViewOK (io : FloatIO F) (s : State F) : Prop :=
  s.obj.view = parseView io s.obj.raw s.obj.contents

/-- object and file agree: the view is the parse of `_contents`, and a bound object's file holds
exactly `_contents` (so a fresh `yanny(filename)` returns the same view: `reread_same`) -/
def Inv (io : FloatIO F) (s : State F) : Prop :=
  ViewOK io s ∧ (s.obj.filename ≠ [] → s.fs s.obj.filename = some s.obj.contents)

/-- `ViewOK` survives every step, including the actions of the environment -/
theorem view_always (io : FloatIO F) (s : State F) (op : Op F) (h : ViewOK io s) :
    ViewOK io (step io s op).1 := by
  cases op with
  | write nf cm =>
    rcases stepWrite_cases io s nf cm with ⟨e, he⟩ | ⟨p, v, _, _, _, _, he⟩
    · simpa [step, he] using h
    · simp [step, he, writeTo, ViewOK]
  | append d st =>
    rcases stepAppend_cases io s d st with ⟨e, he⟩ | ⟨v, _, _, _, he⟩ | ⟨v, body, old, _, _, _, _, _, he⟩
    · simpa [step, he] using h
    · simpa [step, he] using h
    · simp [step, he, appendTo, ViewOK]
  | appendNonDict => exact h
  | reread =>
    simp only [step, ViewOK, load]
    split
    · rfl
    · split <;> rfl
  | unlink => exact h
  | rebind p => exact h

/-- a freshly read object is coherent -/
theorem inv_load (io : FloatIO F) (fs : Str → Option Str) (p : Str) (raw : Bool) :
    Inv io ⟨fs, load io fs p raw⟩ := by
  unfold Inv ViewOK load
  by_cases hp : p.isEmpty = true
  · simp [hp]
  · simp only [hp]
    cases hf : fs p with
    | none => simp
    | some t => simp [hf]

/-- fresh `yanny(filename)` of a coherent bound state returns the view the object holds -/
theorem reread_same (io : FloatIO F) (s : State F) (h : Inv io s) (hb : s.obj.filename ≠ []) :
    (load io s.fs s.obj.filename s.obj.raw).view = s.obj.view := by
  have hf := h.2 hb
  simp only [load, isEmpty_false_of_ne _ hb, hf]
  exact h.1.symm

/-- the invariant is preserved by every operation of the object -/
theorem inv_step (io : FloatIO F) (s : State F) (op : Op F) (hop : op.isObjOp = true) (h : Inv io s) :
    Inv io (step io s op).1 := by
  refine ⟨view_always io s op h.1, ?_⟩
  cases op with
  | write nf cm =>
    rcases stepWrite_cases io s nf cm with ⟨e, he⟩ | ⟨p, v, _, _, _, _, he⟩
    · simpa [step, he] using h.2
    · simp [step, he, writeTo, update]
  | append d st =>
    rcases stepAppend_cases io s d st with ⟨e, he⟩ | ⟨v, _, _, _, he⟩ | ⟨v, body, old, hb, _, _, _, hold, he⟩
    · simpa [step, he] using h.2
    · simpa [step, he] using h.2
    · have := h.2 hb
      rw [hold] at this
      cases this
      simp [step, he, appendTo, update]
  | appendNonDict => exact h.2
  | reread => exact (inv_load io s.fs s.obj.filename s.obj.raw).2
  | unlink => cases hop
  | rebind q => cases hop

/-- and therefore holds after every history of the object's operations -/
theorem inv_run (io : FloatIO F) (ops : List (Op F)) (hops : ∀ op ∈ ops, op.isObjOp = true)
    (s : State F) (h : Inv io s) : Inv io (run io s ops) := by
  induction ops generalizing s with
  | nil => exact h
  | cons op ops ih =>
    exact ih (fun o ho => hops o (by simp [ho])) (step io s op).1 (inv_step io s op (hops op (by simp)) h)

/-- after the environment interfered (file removed, `filename` reassigned) a successful `write`
re-establishes the invariant -/
theorem write_restores_inv (io : FloatIO F) (s : State F) (nf : Option Str) (cm : Comments)
    (h : ViewOK io s) (hok : (step io s (.write nf cm)).2 = .ok) : Inv io (step io s (.write nf cm)).1 := by
  refine ⟨view_always io s _ h, ?_⟩
  rcases stepWrite_cases io s nf cm with ⟨e, he⟩ | ⟨p, v, _, _, _, _, he⟩
  · simp [step, he] at hok
  · simp [step, he, writeTo, update]

/-! ## content: the document after appends -/

/-- `splitNl_append`: `str.split('\n')` of a text cut at a newline is the lines of both parts -/
theorem splitNl_append (a c : Str) : splitNl (a ++ '\n' :: c) = splitNl a ++ splitNl c :=
  Yanny.splitNl_append a c

/-- the line loop is sequential: running it over `l1 ++ l2` is running it over `l1`, then over `l2`
from the state reached -/
theorem lineLoop_append (io : FloatIO F) (specs : List (Str × Except String (List ColSpec)))
    (st : LoopSt F) (l1 l2 : List Str) :
    lineLoop io specs st (l1 ++ l2) =
      match lineLoop io specs st l1 with
      | .error e => .error e
      | .ok st' => lineLoop io specs st' l2 :=
  Yanny.lineLoop_append io specs st l1 l2

/-- `parse_append` (DESIGN C03): if the chunk is whole lines that leave typedef extraction and
continuation joining undisturbed (`frontStable`, evaluated by the driver on every accepted append)
and the text so far ends its last line, then re-parsing from scratch = the old parse continued
over the lines of the chunk -/
theorem parse_append (io : FloatIO F) (raw : Bool) (text chunk : Str)
    (hfs : frontStable text chunk = true) (hnl : RestNl text) :
    loopOf io raw (text ++ chunk) =
      match loopOf io raw text with
      | .error e => .error e
      | .ok st => lineLoop io (specsOf (front text) raw) st (splitNl chunk) :=
  Yanny.parse_append io raw text chunk hfs hnl

/-- the lines `append()` writes, read by the line loop from ANY state: the "Appended by" comment is
skipped, each pair line records `(key, strip value)`, each data line appends exactly its row to its
table (C01 `lineStep_pair`, `parse_render_partial`, i.e. `parseRow_fmtRow`), nothing else changes -/
theorem chunk_loop (io : FloatIO F) (h1 : H1 io) (h2 : H2 io)
    (specs : List (Str × Except String (List ColSpec))) (st : LoopSt F) (stamp : Str)
    (ps : List (Str × Str)) (groups : List (Str × List (List (Cell F))))
    (hst : '\n' ∉ stamp) (hp : ∀ kv ∈ ps, PairOK specs kv) (hg : ∀ g ∈ groups, GroupOK io specs g) :
    lineLoop io specs st (splitNl (appendHeader stamp ++ ((ps.map pairLine).flatten ++ rowLinesOf io groups))) =
      .ok (applyAppend st ps groups) :=
  Yanny.chunk_loop io h1 h2 specs st stamp ps groups hst hp hg

/-- domain of one accepted append in a given state: the chunk leaves the front half of `_parse`
undisturbed, the text so far ends its last line, the time stamp is one line, and the pairs and rows
taken from the dictionary are in C01's domain with respect to the tables of the text so far -/
def AppendOK (io : FloatIO F) (s : State F) (stamp : Str) (ps : List (Str × Str))
    (gs : List (Str × List (List (Cell F)))) : Prop :=
  frontStable s.obj.contents (appendHeader stamp ++ ((ps.map pairLine).flatten ++ rowLinesOf io gs)) = true ∧
  RestNl s.obj.contents ∧ '\n' ∉ stamp ∧
  (∀ kv ∈ ps, PairOK (specsOf (front s.obj.contents) s.obj.raw) kv) ∧
  (∀ g ∈ gs, GroupOK io (specsOf (front s.obj.contents) s.obj.raw) g)

/-- one accepted append: the file and `_contents` grow by the same chunk, and the document read
from the new text is the old document followed by exactly the appended pairs and rows, in order -/
theorem append_content (io : FloatIO F) (h1 : H1 io) (h2 : H2 io) (s : State F)
    (d : List (Str × AVal F)) (stamp : Str) (ps : List (Str × Str))
    (gs : List (Str × List (List (Cell F)))) (doc : LoopSt F)
    (hacc : acceptedAppend io s d = some (ps, gs)) (hok : AppendOK io s stamp ps gs)
    (hl : loopOf io s.obj.raw s.obj.contents = .ok doc) :
    ∃ chunk old, s.fs s.obj.filename = some old ∧
      (step io s (.append d stamp)).1.obj.contents = s.obj.contents ++ chunk ∧
      (step io s (.append d stamp)).1.fs s.obj.filename = some (old ++ chunk) ∧
      (step io s (.append d stamp)).1.obj.filename = s.obj.filename ∧
      (step io s (.append d stamp)).1.obj.raw = s.obj.raw ∧
      loopOf io s.obj.raw (step io s (.append d stamp)).1.obj.contents = .ok (applyAppend doc ps gs) := by
  rcases stepAppend_accepted io s d stamp with ⟨hn, _⟩ | ⟨v, ps', gs', old, ha, hne, hv, hp, hg, hold, he⟩
  · rw [hn] at hacc; cases hacc
  · rw [ha] at hacc
    cases hacc
    obtain ⟨k1, k2, k3, k4, k5⟩ := hok
    refine ⟨appendHeader stamp ++ ((ps.map pairLine).flatten ++ rowLinesOf io gs), old, hold, ?_, ?_, ?_, ?_, ?_⟩
    · simp only [step, he, appendTo]
    · simp [step, he, appendTo, update]
    · simp [step, he, appendTo]
    · simp [step, he, appendTo]
    · simp only [step, he, appendTo]
      rw [Yanny.parse_append io s.obj.raw _ _ k1 k2, hl]
      exact Yanny.chunk_loop io h1 h2 _ doc stamp ps gs k3 k4 k5

/-! ## content over histories -/

/-- the document the statement expects after a history: every accepted append adds its pairs and
rows, nothing else changes it -/
def expectAfter (io : FloatIO F) : State F → LoopSt F → List (Op F) → LoopSt F
  | _, doc, [] => doc
  | s, doc, op :: ops =>
    let doc' := match op with
      | .append d _ =>
        match acceptedAppend io s d with
        | some (ps, gs) => applyAppend doc ps gs
        | none => doc
      | _ => doc
    expectAfter io (step io s op).1 doc' ops

/-- hypotheses on one step of a history.
append: `AppendOK` for what is accepted (C01's domain + the named hypothesis FrontStable);
write: the named hypothesis RenderLoop - the text `write()` renders from the object reads back as
the document the object's text read as (the unfinished whole-file theorem of C01, `parse_render`);
the environment does not interfere. -/
def StepOK (io : FloatIO F) (s : State F) : Op F → Prop
  | .append d stamp => ∀ ps gs, acceptedAppend io s d = some (ps, gs) → AppendOK io s stamp ps gs
  | .write nf cm => ∀ p v, writeTarget s nf = some p → s.fs p = none → p ≠ [] → s.obj.view = .ok v →
      loopOf io s.obj.raw (renderView io v (commentBlock p cm)) = loopOf io s.obj.raw s.obj.contents
  | .appendNonDict => True
  | .reread => True
  | .unlink => False
  | .rebind _ => False

def Admissible (io : FloatIO F) : State F → List (Op F) → Prop
  | _, [] => True
  | s, op :: ops => StepOK io s op ∧ Admissible io (step io s op).1 ops

theorem content_step (io : FloatIO F) (h1 : H1 io) (h2 : H2 io) (s : State F) (op : Op F) (doc : LoopSt F)
    (hinv : Inv io s) (hb : s.obj.filename ≠ []) (hok : StepOK io s op)
    (hl : loopOf io s.obj.raw s.obj.contents = .ok doc) :
    (step io s op).1.obj.filename ≠ [] ∧ (step io s op).1.obj.raw = s.obj.raw ∧
    loopOf io s.obj.raw (step io s op).1.obj.contents = .ok (expectAfter io s doc [op]) := by
  cases op with
  | write nf cm =>
    rcases stepWrite_cases io s nf cm with ⟨e, he⟩ | ⟨p, v, k1, k2, k3, k4, he⟩
    · simp [step, he, expectAfter, hb, hl]
    · have := hok p v k1 k2 k3 k4
      simp [step, he, writeTo, expectAfter, k3, this, hl]
  | append d stamp =>
    cases hacc : acceptedAppend io s d with
    | none =>
      rcases stepAppend_accepted io s d stamp with ⟨_, hs⟩ | ⟨v, ps', gs', old, ha, _⟩
      · simp [step, hs, expectAfter, hacc, hb, hl]
      · rw [ha] at hacc; cases hacc
    | some pg =>
      obtain ⟨ps, gs⟩ := pg
      obtain ⟨chunk, old, _, _, _, q4, q5, q6⟩ :=
        append_content io h1 h2 s d stamp ps gs doc hacc (hok ps gs hacc) hl
      refine ⟨by rw [q4]; exact hb, q5, ?_⟩
      simp [expectAfter, hacc, q6]
  | appendNonDict => simp [step, expectAfter, hb, hl]
  | reread =>
    have hf := hinv.2 hb
    simp [step, load, isEmpty_false_of_ne _ hb, hf, expectAfter, hb, hl]
  | unlink => exact absurd hok id
  | rebind q => exact absurd hok id

theorem expectAfter_cons (io : FloatIO F) (s : State F) (doc : LoopSt F) (op : Op F) (ops : List (Op F)) :
    expectAfter io s doc (op :: ops) = expectAfter io (step io s op).1 (expectAfter io s doc [op]) ops := by
  cases op <;> simp [expectAfter]

/-- `history_content_partial`: after ANY history of the object's operations (write-new / write-copy /
write-over, appends of rows and pairs, empty appends, appends to a missing file, re-reads) that
starts in a coherent bound state, the document read from the object's text is the initial document
followed by every accepted appended pair and row in order; together with `inv_run` (the object's
view is `_parse` of that text, its file holds that text) this is the statement of C03.

Partial: relative to the two named hypotheses inside `Admissible` - FrontStable (in `AppendOK`) and
RenderLoop (in `StepOK` for `write`) - which the driver evaluates on every accepted step of every
generated history; and stated on the rows and pairs read by the line loop (what raw mode returns;
normal mode applies C01's `finishTables` to it).  Full statement: the same without these two
hypotheses, for every text `renderFile` writes - it needs C01's unfinished `parse_render`. -/
theorem history_content_partial (io : FloatIO F) (h1 : H1 io) (h2 : H2 io) (ops : List (Op F))
    (s : State F) (doc : LoopSt F) (hinv : Inv io s) (hb : s.obj.filename ≠ [])
    (hadm : Admissible io s ops) (hl : loopOf io s.obj.raw s.obj.contents = .ok doc) :
    loopOf io s.obj.raw (run io s ops).obj.contents = .ok (expectAfter io s doc ops) ∧
    Inv io (run io s ops) := by
  induction ops generalizing s doc with
  | nil => exact ⟨hl, hinv⟩
  | cons op ops ih =>
    obtain ⟨hok, hrest⟩ := hadm
    obtain ⟨c1, c2, c3⟩ := content_step io h1 h2 s op doc hinv hb hok hl
    have hobj : op.isObjOp = true := by
      cases op <;> first | rfl | exact absurd hok id
    have hinv' := inv_step io s op hobj hinv
    have := ih (step io s op).1 (expectAfter io s doc [op]) hinv' c1 hrest (by rw [c2]; exact c3)
    rw [c2] at this
    rw [expectAfter_cons]
    exact this

/-! ## the hypotheses are satisfiable -/

/-- a concrete non-trivial instance of the domains: an integer-valued float type with H1 and H2
(C01 `intIO`), a pair and a row group in `PairOK` / `GroupOK` for a table `T` with an integer, a
string and an array column -/
def sampleSpecs : List (Str × Except String (List ColSpec)) :=
  [("T".toList, .ok [⟨.int, false⟩, ⟨.str, false⟩, ⟨.flt .f8, true⟩])]

example : PairOK sampleSpecs ("note".toList, " two words ".toList) := by
  refine ⟨by decide, by decide, by decide, by decide, by decide, by decide, by decide, by decide⟩

example : GroupOK C01.intIO sampleSpecs
    ("T".toList, [[.one (.int (-5)), .one (.str "a #b".toList), .many [.flt .f8 1, .flt .f8 (-2)]]]) := by
  refine ⟨by decide, by decide, [⟨.int, false⟩, ⟨.str, false⟩, ⟨.flt .f8, true⟩], rfl, ?_⟩
  intro r hr
  simp only [List.mem_singleton] at hr
  subst hr
  exact ⟨by decide, by decide, by decide⟩

/-- a text on which `frontStable` and `RestNl` hold, with a chunk as `append()` writes it -/
example : frontStable "typedef struct {\n int a;\n} T;\n\nT 1\n".toList "# Appended by yanny.py at now.\nT 2\n".toList = true := by
  decide

end PydlVerif.C03

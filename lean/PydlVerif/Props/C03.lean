/-
C03 - yanny: object and file never diverge over write/append histories.

Property theorems about the state machine of Model/YannyHist.lean (file system + one yanny
object; `step` follows `write()` / `append()` / `_parse()`), built on C01's reader and writer
model and its line theorems.  Helper lemmas: Lemmas/YannyHist.lean.

  refusals        write over an existing file, append to a missing file: error, nothing changes;
                  appending nothing: warning, nothing changes; write never replaces a file,
                  append never creates one
  prefix          under the object's own operations every file only grows by suffixes
  invariant       `Inv`: the object's view is `_parse(_contents)` and, when bound, its file holds
                  exactly `_contents`; preserved by every operation of the object, over every history
  content         an accepted append extends the document read by the line loop by exactly the
                  appended pairs and rows, in order (`parse_append`, `chunk_loop`, `append_content`);
                  over histories: `history_content_partial` (two named hypotheses, see there)
  content, full   extension round: on C01's document domain the two named hypotheses are theorems
                  (`front_stable` / `front_appended`, `render_loop`; helpers Lemmas/YannyHistDoc.lean,
                  executable domain predicates Model/YannyHistDom.lean) and `history_content` holds
                  for every history that stays in the domain (`histOK`), down to the record arrays
-/
import PydlVerif.Lemmas.YannyHist
import PydlVerif.Lemmas.YannyHistDoc
namespace PydlVerif.C03
open PydlVerif.Yanny PydlVerif.YannyRT

variable {F : Type}

/-! ## refusals -/

/-- write-over: `write(p)` with `p` an existing file, and `write()` on an object whose own file
exists, raise `PydlutilsException` and leave file system and object exactly as they were -/
theorem write_existing_refused (io : FloatIO F) (s : State F) (cm : Comments) :
    (∀ p, (s.fs p).isSome = true → step io s (.write (some p) cm) = (s, .error "PydlutilsException")) ∧
    (s.obj.filename ≠ [] → (s.fs s.obj.filename).isSome = true →
      step io s (.write none cm) = (s, .error "PydlutilsException")) := by
  refine ⟨?_, ?_⟩
  · intro p h
    simp [step, stepWrite, writeTarget, h]
  · intro hne h
    simp [step, stepWrite, writeTarget, isEmpty_false_of_ne _ hne, h]

/-- append-missing: whatever is to be appended, if the object's file does not exist the request
changes nothing and does not succeed; with something to append it raises `PydlutilsException` -/
theorem append_missing_refused (io : FloatIO F) (s : State F) (d : List (Str × AVal F)) (st : Str)
    (h : s.fs s.obj.filename = none) :
    (step io s (.append d st)).1 = s ∧ (step io s (.append d st)).2 ≠ .ok ∧
    (∀ v body, s.obj.filename ≠ [] → s.obj.view = .ok v → appendChunk io v d = .ok body → body ≠ [] →
      step io s (.append d st) = (s, .error "PydlutilsException")) := by
  refine ⟨?_, ?_, ?_⟩
  · rcases stepAppend_cases io s d st with ⟨e, he⟩ | ⟨v, _, _, _, he⟩ | ⟨v, body, old, _, _, _, _, hf, _⟩
    · simp [step, he]
    · simp [step, he]
    · rw [h] at hf; cases hf
  · rcases stepAppend_cases io s d st with ⟨e, he⟩ | ⟨v, _, _, _, he⟩ | ⟨v, body, old, _, _, _, _, hf, _⟩
    · simp [step, he]
    · simp [step, he]
    · rw [h] at hf; cases hf
  · intro v body hne hv hc hb
    simp [step, stepAppend, isEmpty_false_of_ne _ hne, hv, hc, isEmpty_false_of_ne _ hb, h]

/-- append-nothing: when no line results from the dictionary (no pair, no row), the request only
warns and changes nothing -/
theorem append_nothing_warns (io : FloatIO F) (s : State F) (d : List (Str × AVal F)) (st : Str)
    (v : View F) (hne : s.obj.filename ≠ []) (hv : s.obj.view = .ok v)
    (hc : appendChunk io v d = .ok []) : step io s (.append d st) = (s, .warn) := by
  simp [step, stepAppend, isEmpty_false_of_ne _ hne, hv, hc]

/-- in particular the empty dictionary (`appendChunk` is empty; the same holds for tables without
rows and for the ignored keys, which the model evaluates) -/
theorem append_empty_dict_warns (io : FloatIO F) (s : State F) (st : Str)
    (v : View F) (hne : s.obj.filename ≠ []) (hv : s.obj.view = .ok v) :
    step io s (.append [] st) = (s, .warn) :=
  append_nothing_warns io s [] st v hne hv (appendChunk_nil io v)

/-- every outcome other than `ok` leaves the state alone: a warning always; an error either leaves
everything as it was or is the error of the re-parse itself (outside the domain: the text written
does not parse), which is then what the object holds -/
theorem warn_or_refusal_noop (io : FloatIO F) (s : State F) (op : Op F) :
    ((step io s op).2 = .warn → (step io s op).1 = s) ∧
    (∀ e, (step io s op).2 = .error e →
      (step io s op).1 = s ∨ (step io s op).1.obj.view = .error e) := by
  cases op with
  | write nf cm =>
    rcases stepWrite_cases io s nf cm with ⟨e, he⟩ | ⟨p, v, _, _, _, _, he⟩
    · simp [step, he]
    · simp only [step, he, writeTo]
      exact ⟨fun h => absurd h (outOf_ne_warn _), fun e h => Or.inr (outOf_error _ e h)⟩
  | append d st =>
    rcases stepAppend_cases io s d st with ⟨e, he⟩ | ⟨v, _, _, _, he⟩ | ⟨v, body, old, _, _, _, _, _, he⟩
    · simp [step, he]
    · simp [step, he]
    · simp only [step, he, appendTo]
      exact ⟨fun h => absurd h (outOf_ne_warn _), fun e h => Or.inr (outOf_error _ e h)⟩
  | appendNonDict => simp [step]
  | reread =>
    simp only [step]
    exact ⟨fun h => absurd h (outOf_ne_warn _), fun e h => Or.inr (outOf_error _ e h)⟩
  | unlink => simp [step]
  | rebind p => simp [step]

/-- a write never replaces an existing file: whatever `write` is asked, every file that existed
before still holds exactly the same text -/
theorem write_never_replaces (io : FloatIO F) (s : State F) (nf : Option Str) (cm : Comments)
    (p t : Str) (h : s.fs p = some t) : (step io s (.write nf cm)).1.fs p = some t := by
  rcases stepWrite_cases io s nf cm with ⟨e, he⟩ | ⟨q, v, _, hq, _, _, he⟩
  · simp [step, he, h]
  · have hpq : p ≠ q := by
      intro e; subst e; rw [h] at hq; cases hq
    simp [step, he, writeTo, update, hpq, h]

/-- an append never creates a file: a path without a file before has none after -/
theorem append_never_creates (io : FloatIO F) (s : State F) (d : List (Str × AVal F)) (st : Str)
    (p : Str) (h : s.fs p = none) : (step io s (.append d st)).1.fs p = none := by
  rcases stepAppend_cases io s d st with ⟨e, he⟩ | ⟨v, _, _, _, he⟩ | ⟨v, body, old, _, _, _, _, hold, he⟩
  · simp [step, he, h]
  · simp [step, he, h]
  · have hpq : p ≠ s.obj.filename := by
      intro e; rw [e, hold] at h; cases h
    simp [step, he, appendTo, update, hpq, h]

/-! ## earlier bytes are preserved -/

/-- under every operation of the object (write, append, re-read) a file that exists keeps
existing and its earlier text is a prefix of its present text -/
theorem prefix_preserved (io : FloatIO F) (s : State F) (op : Op F) (hop : op.isObjOp = true)
    (p t : Str) (h : s.fs p = some t) :
    ∃ t', (step io s op).1.fs p = some t' ∧ t <+: t' := by
  cases op with
  | write nf cm => exact ⟨t, write_never_replaces io s nf cm p t h, List.prefix_refl t⟩
  | append d st =>
    rcases stepAppend_cases io s d st with ⟨e, he⟩ | ⟨v, _, _, _, he⟩ | ⟨v, body, old, _, _, _, _, hold, he⟩
    · exact ⟨t, by simp [step, he, h], List.prefix_refl t⟩
    · exact ⟨t, by simp [step, he, h], List.prefix_refl t⟩
    · by_cases hp : p = s.obj.filename
      · subst hp
        rw [hold] at h
        cases h
        exact ⟨t ++ (appendHeader st ++ body), by simp [step, he, appendTo, update], List.prefix_append _ _⟩
      · exact ⟨t, by simp [step, he, appendTo, update, hp, h], List.prefix_refl t⟩
  | appendNonDict => exact ⟨t, h, List.prefix_refl t⟩
  | reread => exact ⟨t, h, List.prefix_refl t⟩
  | unlink => cases hop
  | rebind q => cases hop

/-- the same over every history of the object's operations -/
theorem prefix_preserved_run (io : FloatIO F) (ops : List (Op F)) (hops : ∀ op ∈ ops, op.isObjOp = true)
    (s : State F) (p t : Str) (h : s.fs p = some t) :
    ∃ t', (run io s ops).fs p = some t' ∧ t <+: t' := by
  induction ops generalizing s t with
  | nil => exact ⟨t, h, List.prefix_refl t⟩
  | cons op ops ih =>
    obtain ⟨t1, h1, p1⟩ := prefix_preserved io s op (hops op (by simp)) p t h
    obtain ⟨t2, h2, p2⟩ := ih (fun o ho => hops o (by simp [ho])) (step io s op).1 t1 h1
    exact ⟨t2, h2, List.IsPrefix.trans p1 p2⟩

/-! ## the coherence invariant -/

/-- the object holds what `_parse` makes of its text -/
def ViewOK (io : FloatIO F) (s : State F) : Prop :=
  s.obj.view = parseView io s.obj.raw s.obj.contents

/-- object and file agree: the view is the parse of `_contents`, and a bound object's file holds
exactly `_contents` (so a fresh `yanny(filename)` returns the same view: `reread_same`) -/
def Inv (io : FloatIO F) (s : State F) : Prop :=
  ViewOK io s ∧ (s.obj.filename ≠ [] → s.fs s.obj.filename = some s.obj.contents)

/-- `ViewOK` survives every step, including the actions of the environment -/
theorem view_always (io : FloatIO F) (s : State F) (op : Op F) (h : ViewOK io s) :
    ViewOK io (step io s op).1 := by
  cases op with
  | write nf cm =>
    rcases stepWrite_cases io s nf cm with ⟨e, he⟩ | ⟨p, v, _, _, _, _, he⟩
    · simpa [step, he] using h
    · simp [step, he, writeTo, ViewOK]
  | append d st =>
    rcases stepAppend_cases io s d st with ⟨e, he⟩ | ⟨v, _, _, _, he⟩ | ⟨v, body, old, _, _, _, _, _, he⟩
    · simpa [step, he] using h
    · simpa [step, he] using h
    · simp [step, he, appendTo, ViewOK]
  | appendNonDict => exact h
  | reread =>
    simp only [step, ViewOK, load]
    split
    · rfl
    · split <;> rfl
  | unlink => exact h
  | rebind p => exact h

/-- a freshly read object is coherent -/
theorem inv_load (io : FloatIO F) (fs : Str → Option Str) (p : Str) (raw : Bool) :
    Inv io ⟨fs, load io fs p raw⟩ := by
  unfold Inv ViewOK load
  by_cases hp : p.isEmpty = true
  · simp [hp]
  · simp only [hp]
    cases hf : fs p with
    | none => simp
    | some t => simp [hf]

/-- fresh `yanny(filename)` of a coherent bound state returns the view the object holds -/
theorem reread_same (io : FloatIO F) (s : State F) (h : Inv io s) (hb : s.obj.filename ≠ []) :
    (load io s.fs s.obj.filename s.obj.raw).view = s.obj.view := by
  have hf := h.2 hb
  simp only [load, isEmpty_false_of_ne _ hb, hf]
  exact h.1.symm

/-- the invariant is preserved by every operation of the object -/
theorem inv_step (io : FloatIO F) (s : State F) (op : Op F) (hop : op.isObjOp = true) (h : Inv io s) :
    Inv io (step io s op).1 := by
  refine ⟨view_always io s op h.1, ?_⟩
  cases op with
  | write nf cm =>
    rcases stepWrite_cases io s nf cm with ⟨e, he⟩ | ⟨p, v, _, _, _, _, he⟩
    · simpa [step, he] using h.2
    · simp [step, he, writeTo, update]
  | append d st =>
    rcases stepAppend_cases io s d st with ⟨e, he⟩ | ⟨v, _, _, _, he⟩ | ⟨v, body, old, hb, _, _, _, hold, he⟩
    · simpa [step, he] using h.2
    · simpa [step, he] using h.2
    · have := h.2 hb
      rw [hold] at this
      cases this
      simp [step, he, appendTo, update]
  | appendNonDict => exact h.2
  | reread => exact (inv_load io s.fs s.obj.filename s.obj.raw).2
  | unlink => cases hop
  | rebind q => cases hop

/-- and therefore holds after every history of the object's operations -/
theorem inv_run (io : FloatIO F) (ops : List (Op F)) (hops : ∀ op ∈ ops, op.isObjOp = true)
    (s : State F) (h : Inv io s) : Inv io (run io s ops) := by
  induction ops generalizing s with
  | nil => exact h
  | cons op ops ih =>
    exact ih (fun o ho => hops o (by simp [ho])) (step io s op).1 (inv_step io s op (hops op (by simp)) h)

/-- after the environment interfered (file removed, `filename` reassigned) a successful `write`
re-establishes the invariant -/
theorem write_restores_inv (io : FloatIO F) (s : State F) (nf : Option Str) (cm : Comments)
    (h : ViewOK io s) (hok : (step io s (.write nf cm)).2 = .ok) : Inv io (step io s (.write nf cm)).1 := by
  refine ⟨view_always io s _ h, ?_⟩
  rcases stepWrite_cases io s nf cm with ⟨e, he⟩ | ⟨p, v, _, _, _, _, he⟩
  · simp [step, he] at hok
  · simp [step, he, writeTo, update]

/-! ## content: the document after appends -/

/-- `splitNl_append`: `str.split('\n')` of a text cut at a newline is the lines of both parts -/
theorem splitNl_append (a c : Str) : splitNl (a ++ '\n' :: c) = splitNl a ++ splitNl c :=
  Yanny.splitNl_append a c

/-- the line loop is sequential: running it over `l1 ++ l2` is running it over `l1`, then over `l2`
from the state reached -/
theorem lineLoop_append (io : FloatIO F) (specs : List (Str × Except String (List ColSpec)))
    (st : LoopSt F) (l1 l2 : List Str) :
    lineLoop io specs st (l1 ++ l2) =
      match lineLoop io specs st l1 with
      | .error e => .error e
      | .ok st' => lineLoop io specs st' l2 :=
  Yanny.lineLoop_append io specs st l1 l2

/-- `parse_append` (DESIGN C03): if the chunk is whole lines that leave typedef extraction and
continuation joining undisturbed (`frontStable`, evaluated by the driver on every accepted append)
and the text so far ends its last line, then re-parsing from scratch = the old parse continued
over the lines of the chunk -/
theorem parse_append (io : FloatIO F) (raw : Bool) (text chunk : Str)
    (hfs : frontStable text chunk = true) (hnl : RestNl text) :
    loopOf io raw (text ++ chunk) =
      match loopOf io raw text with
      | .error e => .error e
      | .ok st => lineLoop io (specsOf (front text) raw) st (splitNl chunk) :=
  Yanny.parse_append io raw text chunk hfs hnl

/-- the lines `append()` writes, read by the line loop from ANY state: the "Appended by" comment is
skipped, each pair line records `(key, strip value)`, each data line appends exactly its row to its
table (C01 `lineStep_pair`, `parse_render_partial`, i.e. `parseRow_fmtRow`), nothing else changes -/
theorem chunk_loop (io : FloatIO F) (h1 : H1 io) (h2 : H2 io)
    (specs : List (Str × Except String (List ColSpec))) (st : LoopSt F) (stamp : Str)
    (ps : List (Str × Str)) (groups : List (Str × List (List (Cell F))))
    (hst : '\n' ∉ stamp) (hp : ∀ kv ∈ ps, PairOK specs kv) (hg : ∀ g ∈ groups, GroupOK io specs g) :
    lineLoop io specs st (splitNl (appendHeader stamp ++ ((ps.map pairLine).flatten ++ rowLinesOf io groups))) =
      .ok (applyAppend st ps groups) :=
  Yanny.chunk_loop io h1 h2 specs st stamp ps groups hst hp hg

/-- domain of one accepted append in a given state: the chunk leaves the front half of `_parse`
undisturbed, the text so far ends its last line, the time stamp is one line, and the pairs and rows
taken from the dictionary are in C01's domain with respect to the tables of the text so far -/
def AppendOK (io : FloatIO F) (s : State F) (stamp : Str) (ps : List (Str × Str))
    (gs : List (Str × List (List (Cell F)))) : Prop :=
  frontStable s.obj.contents (appendHeader stamp ++ ((ps.map pairLine).flatten ++ rowLinesOf io gs)) = true ∧
  RestNl s.obj.contents ∧ '\n' ∉ stamp ∧
  (∀ kv ∈ ps, PairOK (specsOf (front s.obj.contents) s.obj.raw) kv) ∧
  (∀ g ∈ gs, GroupOK io (specsOf (front s.obj.contents) s.obj.raw) g)

/-- one accepted append: the file and `_contents` grow by the same chunk, and the document read
from the new text is the old document followed by exactly the appended pairs and rows, in order -/
theorem append_content (io : FloatIO F) (h1 : H1 io) (h2 : H2 io) (s : State F)
    (d : List (Str × AVal F)) (stamp : Str) (ps : List (Str × Str))
    (gs : List (Str × List (List (Cell F)))) (doc : LoopSt F)
    (hacc : acceptedAppend io s d = some (ps, gs)) (hok : AppendOK io s stamp ps gs)
    (hl : loopOf io s.obj.raw s.obj.contents = .ok doc) :
    ∃ chunk old, s.fs s.obj.filename = some old ∧
      (step io s (.append d stamp)).1.obj.contents = s.obj.contents ++ chunk ∧
      (step io s (.append d stamp)).1.fs s.obj.filename = some (old ++ chunk) ∧
      (step io s (.append d stamp)).1.obj.filename = s.obj.filename ∧
      (step io s (.append d stamp)).1.obj.raw = s.obj.raw ∧
      loopOf io s.obj.raw (step io s (.append d stamp)).1.obj.contents = .ok (applyAppend doc ps gs) := by
  rcases stepAppend_accepted io s d stamp with ⟨hn, _⟩ | ⟨v, ps', gs', old, ha, hne, hv, hp, hg, hold, he⟩
  · rw [hn] at hacc; cases hacc
  · rw [ha] at hacc
    cases hacc
    obtain ⟨k1, k2, k3, k4, k5⟩ := hok
    refine ⟨appendHeader stamp ++ ((ps.map pairLine).flatten ++ rowLinesOf io gs), old, hold, ?_, ?_, ?_, ?_, ?_⟩
    · simp only [step, he, appendTo]
    · simp [step, he, appendTo, update]
    · simp [step, he, appendTo]
    · simp [step, he, appendTo]
    · simp only [step, he, appendTo]
      rw [Yanny.parse_append io s.obj.raw _ _ k1 k2, hl]
      exact Yanny.chunk_loop io h1 h2 _ doc stamp ps gs k3 k4 k5

/-! ## content over histories -/

/-- the document the statement expects after a history: every accepted append adds its pairs and
rows, nothing else changes it -/
def expectAfter (io : FloatIO F) : State F → LoopSt F → List (Op F) → LoopSt F
  | _, doc, [] => doc
  | s, doc, op :: ops =>
    let doc' := match op with
      | .append d _ =>
        match acceptedAppend io s d with
        | some (ps, gs) => applyAppend doc ps gs
        | none => doc
      | _ => doc
    expectAfter io (step io s op).1 doc' ops

/-- hypotheses on one step of a history.
append: `AppendOK` for what is accepted (C01's domain + the named hypothesis FrontStable);
write: the named hypothesis RenderLoop - the text `write()` renders from the object reads back as
the document the object's text read as (the unfinished whole-file theorem of C01, `parse_render`);
the environment does not interfere. -/
def StepOK (io : FloatIO F) (s : State F) : Op F → Prop
  | .append d stamp => ∀ ps gs, acceptedAppend io s d = some (ps, gs) → AppendOK io s stamp ps gs
  | .write nf cm => ∀ p v, writeTarget s nf = some p → s.fs p = none → p ≠ [] → s.obj.view = .ok v →
      loopOf io s.obj.raw (renderView io v (commentBlock p cm)) = loopOf io s.obj.raw s.obj.contents
  | .appendNonDict => True
  | .reread => True
  | .unlink => False
  | .rebind _ => False

def Admissible (io : FloatIO F) : State F → List (Op F) → Prop
  | _, [] => True
  | s, op :: ops => StepOK io s op ∧ Admissible io (step io s op).1 ops

theorem content_step (io : FloatIO F) (h1 : H1 io) (h2 : H2 io) (s : State F) (op : Op F) (doc : LoopSt F)
    (hinv : Inv io s) (hb : s.obj.filename ≠ []) (hok : StepOK io s op)
    (hl : loopOf io s.obj.raw s.obj.contents = .ok doc) :
    (step io s op).1.obj.filename ≠ [] ∧ (step io s op).1.obj.raw = s.obj.raw ∧
    loopOf io s.obj.raw (step io s op).1.obj.contents = .ok (expectAfter io s doc [op]) := by
  cases op with
  | write nf cm =>
    rcases stepWrite_cases io s nf cm with ⟨e, he⟩ | ⟨p, v, k1, k2, k3, k4, he⟩
    · simp [step, he, expectAfter, hb, hl]
    · have := hok p v k1 k2 k3 k4
      simp [step, he, writeTo, expectAfter, k3, this, hl]
  | append d stamp =>
    cases hacc : acceptedAppend io s d with
    | none =>
      rcases stepAppend_accepted io s d stamp with ⟨_, hs⟩ | ⟨v, ps', gs', old, ha, _⟩
      · simp [step, hs, expectAfter, hacc, hb, hl]
      · rw [ha] at hacc; cases hacc
    | some pg =>
      obtain ⟨ps, gs⟩ := pg
      obtain ⟨chunk, old, _, _, _, q4, q5, q6⟩ :=
        append_content io h1 h2 s d stamp ps gs doc hacc (hok ps gs hacc) hl
      refine ⟨by rw [q4]; exact hb, q5, ?_⟩
      simp [expectAfter, hacc, q6]
  | appendNonDict => simp [step, expectAfter, hb, hl]
  | reread =>
    have hf := hinv.2 hb
    simp [step, load, isEmpty_false_of_ne _ hb, hf, expectAfter, hb, hl]
  | unlink => exact absurd hok id
  | rebind q => exact absurd hok id

theorem expectAfter_cons (io : FloatIO F) (s : State F) (doc : LoopSt F) (op : Op F) (ops : List (Op F)) :
    expectAfter io s doc (op :: ops) = expectAfter io (step io s op).1 (expectAfter io s doc [op]) ops := by
  cases op <;> simp [expectAfter]

/-- `history_content_partial`: after ANY history of the object's operations (write-new / write-copy /
write-over, appends of rows and pairs, empty appends, appends to a missing file, re-reads) that
starts in a coherent bound state, the document read from the object's text is the initial document
followed by every accepted appended pair and row in order; together with `inv_run` (the object's
view is `_parse` of that text, its file holds that text) this is the statement of C03.

Partial: relative to the two named hypotheses inside `Admissible` - FrontStable (in `AppendOK`) and
RenderLoop (in `StepOK` for `write`) - which the driver evaluates on every accepted step of every
generated history; and stated on the rows and pairs read by the line loop (what raw mode returns;
normal mode applies C01's `finishTables` to it).  Full statement: the same without these two
hypotheses, for every text `renderFile` writes - it needs C01's unfinished `parse_render`. -/
theorem history_content_partial (io : FloatIO F) (h1 : H1 io) (h2 : H2 io) (ops : List (Op F))
    (s : State F) (doc : LoopSt F) (hinv : Inv io s) (hb : s.obj.filename ≠ [])
    (hadm : Admissible io s ops) (hl : loopOf io s.obj.raw s.obj.contents = .ok doc) :
    loopOf io s.obj.raw (run io s ops).obj.contents = .ok (expectAfter io s doc ops) ∧
    Inv io (run io s ops) := by
  induction ops generalizing s doc with
  | nil => exact ⟨hl, hinv⟩
  | cons op ops ih =>
    obtain ⟨hok, hrest⟩ := hadm
    obtain ⟨c1, c2, c3⟩ := content_step io h1 h2 s op doc hinv hb hok hl
    have hobj : op.isObjOp = true := by
      cases op <;> first | rfl | exact absurd hok id
    have hinv' := inv_step io s op hobj hinv
    have := ih (step io s op).1 (expectAfter io s doc [op]) hinv' c1 hrest (by rw [c2]; exact c3)
    rw [c2] at this
    rw [expectAfter_cons]
    exact this


/-! ## content over histories, on C01's document domain: the two named hypotheses discharged -/

/-- **FrontStable discharged** (hypothesis 1 of `history_content_partial`): for a text that is a
written in-domain document followed by whole lines of C01's line domain (`LineOK`: no `typedef`, no
newline, no continuation mark - every line `append()` builds from in-domain cells is one,
`chunk_domain`), appending further such lines leaves continuation joining and typedef extraction
alone: `front (text ++ chunk)` is `front text` with the chunk's lines appended to the rest -/
theorem front_stable (io : FloatIO F) (h2 : H2 io) (d : Doc F) (hd : docOK io d = true)
    (ls cl : List Str) (hls : ∀ l ∈ ls, LineOK l) (hcl : ∀ l ∈ cl, LineOK l) :
    frontStable (C01.textOf io d ++ linesText ls) (linesText cl) = true :=
  Yanny.front_stable io h2 d hd ls cl hls hcl

/-- the same as an equation for `front` -/
theorem front_appended (io : FloatIO F) (h2 : H2 io) (d : Doc F) (hd : docOK io d = true)
    (ls : List Str) (hls : ∀ l ∈ ls, LineOK l) :
    front (C01.textOf io d ++ linesText ls) =
      ⟨tdefsOf "struct".toList (structBlocks d), tdefsOf "enum".toList (enumBlocks d),
       d.tables.map (fun t => (upper t.name, t.cols.map (·.name))), C01.restOf io d ++ linesText ls⟩ :=
  Yanny.front_appended io h2 d hd ls hls

/-- **RenderLoop discharged** (hypothesis 2 of `history_content_partial`): the text `write()` renders
for an object whose view is the view of an in-domain document `D` is C01's `textOf` of `writeDoc D`
(`renderView_doc`), and - when that document is in the domain - reads back (C01 `front_render`,
`typing_render`, `loop_render`) as exactly the document `D` read as -/
theorem render_loop (io : FloatIO F) (h1 : H1 io) (h2 : H2 io) (raw : Bool) (D : Doc F) (block : Str)
    (hD' : docOK io (writeDoc D block) = true) (hr : rawOK raw D = true) :
    renderView io (viewOfDoc raw D) block = C01.textOf io (writeDoc D block) ∧
    loopOf io raw (renderView io (viewOfDoc raw D) block) = .ok (docLoop D) := by
  have hv : viewOfDoc raw D = viewRT raw D :=
    viewOfDoc_eq raw D (C01.docOK_props io (writeDoc D block) hD').2.1
      (C01.docOK_supported io (writeDoc D block) hD')
  rw [hv]
  refine ⟨renderView_doc io raw D block, ?_⟩
  rw [renderView_doc, loop_of_doc io h1 h2 _ hD' raw (by rw [rawOK_shape raw D _ (shape_writeDoc D block)]; exact hr),
    docLoop_writeDoc]

/-- what the induction over a history carries: the state is coherent and bound; the object's text is
the text of an in-domain document `d` followed by whole appended lines; its line loop reads the
in-domain document `D` (same declarations, tables and columns as `d`) -/
structure Track (io : FloatIO F) (s : State F) (d D : Doc F) (ls : List Str) : Prop where
  inv : Inv io s
  bound : s.obj.filename ≠ []
  base : docOK io d = true
  cur : docOK io D = true
  shape : shapeOf D = shapeOf d
  raw : rawOK s.obj.raw d = true
  text : s.obj.contents = C01.textOf io d ++ linesText ls
  lines : ∀ l ∈ ls, LineOK l
  loop : loopOf io s.obj.raw s.obj.contents = .ok (docLoop D)

/-- the object's view under `Track`: `_symbols`, pairs and tables of `D` (record arrays with the
canonical column types in normal mode, C01 `finish_render`; lists in raw mode) -/
theorem Track.view {io : FloatIO F} {s : State F} {d D : Doc F} {ls : List Str} (h2 : H2 io)
    (t : Track io s d D ls) : s.obj.view = .ok (viewOfDoc s.obj.raw D) := by
  rw [t.inv.1, t.text, viewOfDoc_docOK io _ D t.cur]
  exact view_of_loop io h2 d D t.base t.cur t.shape _ ls t.lines (by rw [← t.text]; exact t.loop)

theorem Track.specs {io : FloatIO F} {s : State F} {d D : Doc F} {ls : List Str} (h2 : H2 io)
    (t : Track io s d D ls) : specsOf (front s.obj.contents) s.obj.raw = C01.docSpecs D := by
  rw [t.text, Yanny.front_appended io h2 d t.base ls t.lines, specs_doc io d t.base _ t.raw]
  exact (shape_facts d D t.shape).2.2.2.2.1.symm

theorem Track.file {io : FloatIO F} {s : State F} {d D : Doc F} {ls : List Str}
    (t : Track io s d D ls) : s.fs s.obj.filename = some s.obj.contents := t.inv.2 t.bound

/-- a bound coherent object whose text is the text of an in-domain document -/
theorem track_init (io : FloatIO F) (h1 : H1 io) (h2 : H2 io) (s : State F) (d : Doc F)
    (hd : docOK io d = true) (hraw : rawOK s.obj.raw d = true) (hinv : Inv io s)
    (hb : s.obj.filename ≠ []) (hc : s.obj.contents = C01.textOf io d) : Track io s d d [] :=
  ⟨hinv, hb, hd, hd, rfl, hraw, (by rw [hc]; simp [linesText]), (by intro l hl; cases hl),
    (by rw [hc]; exact loop_of_doc io h1 h2 d hd _ hraw)⟩

/-- `StepOK` of an append under `Track`: FrontStable, RestNl and the line domains hold for whatever
is accepted, provided it is `appendOK` -/
theorem stepOK_append (io : FloatIO F) (h2 : H2 io) (s : State F) (d D : Doc F) (ls : List Str)
    (t : Track io s d D ls) (data : List (Str × AVal F)) (stamp : Str)
    (hok : ∀ ps gs, acceptedAppend io s data = some (ps, gs) → appendOK io D stamp ps gs = true) :
    StepOK io s (.append data stamp) ∧
    ∀ ps gs, acceptedAppend io s data = some (ps, gs) → ∀ l ∈ chunkLines io stamp ps gs, LineOK l := by
  have key : ∀ ps gs, acceptedAppend io s data = some (ps, gs) →
      AppendOK io s stamp ps gs ∧ ∀ l ∈ chunkLines io stamp ps gs, LineOK l := by
    intro ps gs hacc
    rcases stepAppend_accepted io s data stamp with ⟨hn, _⟩ | ⟨v, ps', gs', old, ha, _, hv, _, hg, _, _⟩
    · rw [hn] at hacc; cases hacc
    · rw [ha] at hacc
      cases hacc
      have hv' := t.view h2
      rw [hv] at hv'
      cases hv'
      rw [viewOfDoc_docOK io _ D t.cur] at hg
      obtain ⟨c1, c2, c3, c4⟩ := chunk_domain io h2 s.obj.raw D data stamp ps gs t.cur hg (hok ps gs ha)
      refine ⟨⟨?_, ?_, c1, ?_, ?_⟩, c4⟩
      · rw [chunk_eq_lines, t.text]
        exact Yanny.front_stable io h2 d t.base ls _ t.lines c4
      · rw [t.text]
        exact restNl_appended io h2 d t.base ls t.lines
      · rw [t.specs h2]; exact c2
      · rw [t.specs h2]; exact c3
  exact ⟨fun ps gs h => (key ps gs h).1, fun ps gs h => (key ps gs h).2⟩

/-- `StepOK` of a write under `Track`: RenderLoop holds when the document written is in the domain -/
theorem stepOK_write (io : FloatIO F) (h1 : H1 io) (h2 : H2 io) (s : State F) (d D : Doc F) (ls : List Str)
    (t : Track io s d D ls) (nf : Option Str) (cm : Comments)
    (hok : ∀ p, writeTarget s nf = some p → s.fs p = none → p ≠ [] →
      docOK io (writeDoc D (commentBlock p cm)) = true) :
    StepOK io s (.write nf cm) := by
  intro p v k1 k2 k3 k4
  have hv := t.view h2
  rw [k4] at hv
  cases hv
  have hr : rawOK s.obj.raw D = true := by rw [rawOK_shape _ d D t.shape]; exact t.raw
  rw [(render_loop io h1 h2 s.obj.raw D _ (hok p k1 k2 k3) hr).2, t.loop]

theorem writeTarget_bound (s : State F) (nf : Option Str) (hb : s.obj.filename ≠ []) :
    writeTarget s nf = some (nf.getD s.obj.filename) := by
  cases nf with
  | some p => rfl
  | none => simp [writeTarget, isEmpty_false_of_ne _ hb]

/-- the induction behind `history_content`: along a history inside the domain (`histDoc … = some`)
every step meets the hypotheses of `history_content_partial` (`Admissible`), and at the end the
object's text is again "in-domain document + appended lines" reading as the expected document -/
theorem track_run (io : FloatIO F) (h1 : H1 io) (h2 : H2 io) (ops : List (Op F)) :
    ∀ (s : State F) (d D : Doc F) (ls : List Str) (ex : Str → Bool) (Dfin : Doc F),
      Track io s d D ls → (∀ q, ex q = (s.fs q).isSome) →
      histDoc io s.obj.raw ex s.obj.filename D ops = some Dfin →
      Admissible io s ops ∧ (run io s ops).obj.raw = s.obj.raw ∧ shapeOf Dfin = shapeOf D ∧
      ∃ d' ls', Track io (run io s ops) d' Dfin ls' := by
  induction ops with
  | nil =>
    intro s d D ls ex Dfin t _ h
    simp only [histDoc, Option.some.injEq] at h
    subst h
    exact ⟨trivial, rfl, rfl, d, ls, t⟩
  | cons op ops ih =>
    intro s d D ls ex Dfin t hex h
    cases op with
    | append data stamp =>
      have hacc := acceptedAppend_of_view io s data _ t.bound (t.view h2) (by rw [t.file]; rfl)
      simp only [histDoc] at h
      cases ha : acceptedOf io (viewOfDoc s.obj.raw D) data with
      | none =>
        rw [ha] at h hacc
        simp only at h
        have hs : (step io s (.append data stamp)).1 = s := by
          rcases stepAppend_accepted io s data stamp with ⟨_, hs⟩ | ⟨v, ps', gs', old, ha', _⟩
          · exact hs
          · rw [hacc] at ha'; cases ha'
        have hstep : StepOK io s (.append data stamp) := by
          intro ps gs hpg; rw [hacc] at hpg; cases hpg
        obtain ⟨r1, r2, r3, r4⟩ := ih s d D ls ex Dfin t hex h
        refine ⟨⟨hstep, by rw [hs]; exact r1⟩, ?_, r3, ?_⟩
        · simp only [run]; rw [hs]; exact r2
        · simp only [run]; rw [hs]; exact r4
      | some pg =>
        obtain ⟨ps, gs⟩ := pg
        rw [ha] at h hacc
        simp only at h
        have hok : appendOK io D stamp ps gs = true := by
          cases hq : appendOK io D stamp ps gs with
          | true => rfl
          | false => rw [hq] at h; simp at h
        simp only [hok, if_true] at h
        obtain ⟨hstep, hlines⟩ := stepOK_append io h2 s d D ls t data stamp (by
          intro ps' gs' hpg; rw [hacc] at hpg; cases hpg; exact hok)
        have hl := hlines ps gs hacc
        obtain ⟨_, _, _, _, _, q4, q5, q6⟩ :=
          append_content io h1 h2 s data stamp ps gs (docLoop D) hacc (hstep ps gs hacc) t.loop
        rcases stepAppend_accepted io s data stamp with ⟨hn, _⟩ | ⟨v, ps', gs', old, ha', _, _, _, _, hold, he⟩
        · rw [hacc] at hn; cases hn
        · rw [hacc] at ha'
          cases ha'
          have hold' : old = s.obj.contents := by
            have := t.file; rw [hold] at this; exact Option.some.inj this
          have hcont : (step io s (.append data stamp)).1.obj.contents =
              C01.textOf io d ++ linesText (ls ++ chunkLines io stamp ps gs) := by
            simp only [step, he, appendTo]
            rw [chunk_eq_lines, t.text, linesText_append, List.append_assoc]
            rfl
          have hOK' : docOK io (appendDoc D ps gs) = true := by
            simp only [appendOK, Bool.and_eq_true] at hok
            exact hok.2
          have t' : Track io (step io s (.append data stamp)).1 d (appendDoc D ps gs) (ls ++ chunkLines io stamp ps gs) := by
            refine ⟨inv_step io s _ rfl t.inv, (by rw [q4]; exact t.bound), t.base, hOK', ?_,
              (by rw [q5]; exact t.raw), hcont, ?_, ?_⟩
            · rw [shape_appendDoc]; exact t.shape
            · intro l hm
              rcases List.mem_append.mp hm with h' | h'
              · exact t.lines l h'
              · exact hl l h'
            · rw [q5, docLoop_appendDoc]; exact q6
          have hex' : ∀ q, ex q = ((step io s (.append data stamp)).1.fs q).isSome := by
            intro q
            simp only [step, he, appendTo, update]
            by_cases hq : q = s.obj.filename
            · subst hq
              simp [hex, hold]
            · simp [hq, hex]
          have h' : histDoc io (step io s (.append data stamp)).1.obj.raw ex
              (step io s (.append data stamp)).1.obj.filename (appendDoc D ps gs) ops = some Dfin := by
            rw [q4, q5]; exact h
          obtain ⟨r1, r2, r3, r4⟩ := ih _ d (appendDoc D ps gs) _ ex Dfin t' hex' h'
          refine ⟨⟨hstep, r1⟩, ?_, ?_, r4⟩
          · simp only [run]; rw [r2, q5]
          · rw [r3, shape_appendDoc]
    | write nf cm =>
      have hwt := writeTarget_bound s nf t.bound
      simp only [histDoc] at h
      by_cases hcond : (ex (nf.getD s.obj.filename) || (nf.getD s.obj.filename).isEmpty) = true
      · simp only [hcond, if_true] at h
        have hs : (step io s (.write nf cm)).1 = s := by
          rcases stepWrite_cases io s nf cm with ⟨e, he⟩ | ⟨p, v, k1, k2, k3, _, _⟩
          · simp [step, he]
          · rw [hwt] at k1
            cases k1
            simp only [Bool.or_eq_true] at hcond
            rcases hcond with hc | hc
            · rw [hex, k2] at hc; cases hc
            · exact absurd (List.isEmpty_iff.mp hc) k3
        have hstep : StepOK io s (.write nf cm) := by
          apply stepOK_write io h1 h2 s d D ls t
          intro p k1 k2 k3
          rw [hwt] at k1
          cases k1
          simp only [Bool.or_eq_true] at hcond
          rcases hcond with hc | hc
          · rw [hex, k2] at hc; cases hc
          · exact absurd (List.isEmpty_iff.mp hc) k3
        obtain ⟨r1, r2, r3, r4⟩ := ih s d D ls ex Dfin t hex h
        refine ⟨⟨hstep, by rw [hs]; exact r1⟩, ?_, r3, ?_⟩
        · simp only [run]; rw [hs]; exact r2
        · simp only [run]; rw [hs]; exact r4
      · simp only [hcond, Bool.false_eq_true, if_false] at h
        have hD' : docOK io (writeDoc D (commentBlock (nf.getD s.obj.filename) cm)) = true := by
          cases hq : docOK io (writeDoc D (commentBlock (nf.getD s.obj.filename) cm)) with
          | true => rfl
          | false => rw [hq] at h; simp at h
        simp only [hD', if_true] at h
        simp only [Bool.or_eq_true, not_or, Bool.not_eq_true] at hcond
        obtain ⟨hc1, hc2⟩ := hcond
        have hfs : s.fs (nf.getD s.obj.filename) = none := by
          rw [hex] at hc1
          cases hf : s.fs (nf.getD s.obj.filename) with
          | none => rfl
          | some x => rw [hf] at hc1; cases hc1
        have hpne : nf.getD s.obj.filename ≠ [] := ne_of_isEmpty_false _ hc2
        have hstep : StepOK io s (.write nf cm) := by
          apply stepOK_write io h1 h2 s d D ls t
          intro p k1 _ _
          rw [hwt] at k1
          cases k1
          exact hD'
        have hr : rawOK s.obj.raw D = true := by rw [rawOK_shape _ d D t.shape]; exact t.raw
        have he : step io s (.write nf cm) =
            writeTo io s (nf.getD s.obj.filename) (viewOfDoc s.obj.raw D) cm := by
          simp [step, stepWrite, hwt, hfs, hpne, t.view h2]
        obtain ⟨e1, e2⟩ := render_loop io h1 h2 s.obj.raw D (commentBlock (nf.getD s.obj.filename) cm) hD' hr
        have t' : Track io (step io s (.write nf cm)).1 (writeDoc D (commentBlock (nf.getD s.obj.filename) cm))
            (writeDoc D (commentBlock (nf.getD s.obj.filename) cm)) [] := by
          refine ⟨inv_step io s _ rfl t.inv, ?_, hD', hD', rfl, ?_, ?_, (by intro l hl; cases hl), ?_⟩
          · simp only [he, writeTo]; exact hpne
          · simp only [he, writeTo]
            rw [rawOK_shape _ D _ (shape_writeDoc D _)]; exact hr
          · simp only [he, writeTo]
            rw [e1]; simp [linesText]
          · simp only [he, writeTo]
            rw [e2, docLoop_writeDoc]
        have hex' : ∀ q, (q == nf.getD s.obj.filename || ex q) = ((step io s (.write nf cm)).1.fs q).isSome := by
          intro q
          simp only [he, writeTo, update]
          by_cases hq : q = nf.getD s.obj.filename
          · simp [hq]
          · simp [hq, hex]
        have h' : histDoc io (step io s (.write nf cm)).1.obj.raw (fun q => q == nf.getD s.obj.filename || ex q)
            (step io s (.write nf cm)).1.obj.filename (writeDoc D (commentBlock (nf.getD s.obj.filename) cm)) ops =
            some Dfin := by
          simp only [he, writeTo]; exact h
        obtain ⟨r1, r2, r3, r4⟩ := ih _ _ _ _ _ Dfin t' hex' h'
        refine ⟨⟨hstep, r1⟩, ?_, ?_, r4⟩
        · simp only [run]; rw [r2]; simp only [he, writeTo]
        · rw [r3]; rfl
    | appendNonDict =>
      simp only [histDoc] at h
      obtain ⟨r1, r2, r3, r4⟩ := ih s d D ls ex Dfin t hex h
      exact ⟨⟨trivial, r1⟩, r2, r3, r4⟩
    | reread =>
      simp only [histDoc] at h
      have hs : (step io s .reread).1 = s := by
        have hf := t.file
        have hv := t.inv.1
        obtain ⟨fs, ⟨fn, ct, rw', vw⟩⟩ := s
        simp only [ViewOK] at hv
        simp only at hf
        simp only [step, load, isEmpty_false_of_ne _ t.bound, Bool.false_eq_true, if_false, hf, hv]
      obtain ⟨r1, r2, r3, r4⟩ := ih s d D ls ex Dfin t hex h
      refine ⟨⟨trivial, by rw [hs]; exact r1⟩, ?_, r3, ?_⟩
      · simp only [run]; rw [hs]; exact r2
      · simp only [run]; rw [hs]; exact r4
    | unlink => simp [histDoc] at h
    | rebind p => simp [histDoc] at h

/-- **`history_content`** (the statement of C03 on C01's document domain, NO named hypothesis left):
let the object be coherent, bound to a file, and hold the text `renderFile` writes for an in-domain
document `d` (`docOK`; in raw mode without float32 column, `rawOK`).  For EVERY history of the
object's operations - write-new / write-copy / write-over, appends of rows and pairs, empty
appends, appends refused, non-dictionary appends, re-reads - that stays inside C01's domain
(`histOK`, a decidable predicate on the initial document and the operations: every accepted append
is `appendOK`, every accepted write renders a `docOK` document),

* the document read from the object's text by the line loop is the initial document followed by
  every accepted appended pair and row, in order (`expectAfter`);
* object and file agree at the end (`Inv`: the view is `_parse` of `_contents`, the file holds
  `_contents`; so a fresh `yanny(filename)` returns the same view, `reread_same`);
* record-array level: the object's view is `viewOfDoc` of a document `Dfin` with the declarations,
  tables and columns of `d` whose pairs and rows are exactly those expected - in normal mode its
  tables are the record arrays with the canonical column types and every cell unchanged (C01
  `finish_render`), in raw mode the bare lists.

FrontStable and RenderLoop are no longer assumed: `front_stable` / `front_appended` and
`render_loop` prove them at every step (`track_run` shows `Admissible`).  Outside: raw mode with a
float32 column (`rawOK`), and the per-line D4 exclusions that `docOK` carries. -/
theorem history_content (io : FloatIO F) (h1 : H1 io) (h2 : H2 io) (d : Doc F) (s : State F)
    (ops : List (Op F)) (hd : docOK io d = true) (hraw : rawOK s.obj.raw d = true) (hinv : Inv io s)
    (hb : s.obj.filename ≠ []) (hc : s.obj.contents = C01.textOf io d)
    (hops : histOK io s.obj.raw (fun q => (s.fs q).isSome) s.obj.filename d ops = true) :
    loopOf io s.obj.raw (run io s ops).obj.contents = .ok (expectAfter io s (docLoop d) ops) ∧
    Inv io (run io s ops) ∧
    ∃ Dfin, histDoc io s.obj.raw (fun q => (s.fs q).isSome) s.obj.filename d ops = some Dfin ∧
      (run io s ops).obj.view = .ok (viewOfDoc s.obj.raw Dfin) ∧
      docLoop Dfin = expectAfter io s (docLoop d) ops ∧ shapeOf Dfin = shapeOf d := by
  obtain ⟨Dfin, hD⟩ := Option.isSome_iff_exists.mp hops
  have t0 := track_init io h1 h2 s d hd hraw hinv hb hc
  obtain ⟨hadm, hr, hsh, d', ls', t'⟩ := track_run io h1 h2 ops s d d [] _ Dfin t0 (fun _ => rfl) hD
  obtain ⟨p1, p2⟩ := history_content_partial io h1 h2 ops s (docLoop d) hinv hb hadm t0.loop
  refine ⟨p1, p2, Dfin, hD, ?_, ?_, hsh⟩
  · have := t'.view h2
    rw [hr] at this
    exact this
  · have := t'.loop
    rw [hr, p1] at this
    exact (Except.ok.inj this).symm

/-- the same from the file: a fresh `yanny(p, raw)` of a file holding what `write_ndarray_to_yanny`
(`renderFile`) wrote for an in-domain document -/
theorem history_content_file (io : FloatIO F) (h1 : H1 io) (h2 : H2 io) (d : Doc F)
    (fs : Str → Option Str) (p text : Str) (raw : Bool) (ops : List (Op F))
    (hd : docOK io d = true) (hraw : rawOK raw d = true) (hp : p ≠ [])
    (hr : renderFile io d = .ok text) (hf : fs p = some text)
    (hops : histOK io raw (fun q => (fs q).isSome) p d ops = true) :
    let s : State F := ⟨fs, load io fs p raw⟩
    loopOf io raw (run io s ops).obj.contents = .ok (expectAfter io s (docLoop d) ops) ∧
    Inv io (run io s ops) ∧
    ∃ Dfin, (run io s ops).obj.view = .ok (viewOfDoc raw Dfin) ∧
      docLoop Dfin = expectAfter io s (docLoop d) ops ∧ shapeOf Dfin = shapeOf d := by
  intro s
  have htext : text = C01.textOf io d := by
    have := C01.render_text io d hd
    rw [hr] at this
    exact Except.ok.inj this
  have hobj : s.obj = ⟨p, text, raw, parseView io raw text⟩ := by
    simp [s, load, isEmpty_false_of_ne _ hp, hf]
  have hinv : Inv io s := inv_load io fs p raw
  have e1 : s.obj.raw = raw := by rw [hobj]
  have e2 : s.obj.filename = p := by rw [hobj]
  have e3 : s.obj.contents = C01.textOf io d := by rw [hobj]; exact htext
  obtain ⟨q1, q2, Dfin, _, q4, q5, q6⟩ := history_content io h1 h2 d s ops hd (by rw [e1]; exact hraw) hinv
    (by rw [e2]; exact hp) e3 (by rw [e1, e2]; exact hops)
  rw [e1] at q1 q4
  exact ⟨q1, q2, Dfin, q4, q5, q6⟩


/-! ### `history_content` is not vacuous -/

/-- a small in-domain document: one table with an integer, a string and a float-array column, one
row, a header pair, a comment block -/
def histSampleDoc : Doc Int :=
  { comments := "# made by hand\n".toList
    hdr := [("mjd".toList, " 54579 ".toList)]
    enums := []
    tables := [
      { name := "obs".toList
        cols := [⟨"n".toList, .i4, 0⟩, ⟨"s".toList, .S 8, 0⟩, ⟨"g".toList, .f8, 2⟩]
        rows := [[.one (.int (-5)), .one (.str "a #b".toList), .many [.flt .f8 1, .flt .f8 (-2)]]] }] }

/-- a history with every kind of operation of the object: rows (under the lower-case table name) and
a pair appended, write-copy with the default comment block, a pair appended that replaces an
existing key, write-over (refused), re-read, an empty append, a non-dictionary append, a second
append of rows under the upper-case name -/
def histSampleOps : List (Op Int) :=
  [ .append [("obs".toList, .table [("n".toList, [.one (.int 7), .one (.int 8)]),
                                     ("s".toList, [.one (.str "x y".toList), .one (.str "".toList)]),
                                     ("g".toList, [.many [.flt .f8 3, .flt .f8 4], .many [.flt .f8 0, .flt .f8 0]])]),
             ("note".toList, .text "  two words ".toList)] "2026-09-29 12:00:00".toList,
    .write (some "dir/b.par".toList) (.default "2026-09-29 12:00:01".toList),
    .append [("mjd".toList, .text "54580".toList)] "later".toList,
    .write none (.text "again".toList),
    .reread,
    .append [] "never".toList,
    .appendNonDict,
    .append [("OBS".toList, .table [("n".toList, [.one (.int 9)]), ("s".toList, [.one (.str "z{".toList)]),
                                     ("g".toList, [.many [.flt .f8 5, .flt .f8 6]])])] "last".toList ]

set_option maxRecDepth 1000000 in
example : docOK C01.intIO histSampleDoc = true := by decide

set_option maxRecDepth 1000000 in
/-- the sample history stays inside the domain, in both modes (the document has no float32 column) -/
example : histOK C01.intIO false (fun q => q == "a.par".toList) "a.par".toList histSampleDoc histSampleOps = true ∧
    histOK C01.intIO true (fun q => q == "a.par".toList) "a.par".toList histSampleDoc histSampleOps = true ∧
    rawOK true histSampleDoc = true := by decide

set_option maxRecDepth 1000000 in
/-- the document the history ends with: four rows in file order, the replaced and the new pair -/
example : (histDoc C01.intIO false (fun q => q == "a.par".toList) "a.par".toList histSampleDoc histSampleOps).map
      (fun D => (docLoop D).pairs) =
    some [("mjd".toList, "54580".toList), ("note".toList, "two words".toList)] := by decide

/-- `history_content_file` applies to the sample: the file `a.par` holds what `renderFile` writes for
the sample document, the object is read from it, and the eight operations are run -/
example (text : Str) (hr : renderFile C01.intIO histSampleDoc = .ok text) :
    let fs : Str → Option Str := fun q => if q = "a.par".toList then some text else none
    let s : State Int := ⟨fs, load C01.intIO fs "a.par".toList false⟩
    loopOf C01.intIO false (run C01.intIO s histSampleOps).obj.contents =
      .ok (expectAfter C01.intIO s (docLoop histSampleDoc) histSampleOps) ∧
    Inv C01.intIO (run C01.intIO s histSampleOps) := by
  intro fs s
  have hfs : (fun q => (fs q).isSome) = fun q => q == "a.par".toList := by
    funext q
    show (if q = "a.par".toList then some text else none).isSome = (q == "a.par".toList)
    by_cases hq : q = "a.par".toList
    · rw [if_pos hq, beq_iff_eq.mpr hq]; rfl
    · rw [if_neg hq, beq_eq_false_iff_ne.mpr hq]; rfl
  have := history_content_file C01.intIO (fun _ x => parseInt_fmtInt x)
    (by
      intro w x c hc
      have := intChar_ne c (fmtInt_chars x c hc)
      exact ⟨this.1, this.2.1, this.2.2.1, this.2.2.2⟩)
    histSampleDoc fs "a.par".toList text false histSampleOps
    (by set_option maxRecDepth 1000000 in decide) rfl (by decide) hr (by simp [fs])
    (by rw [hfs]; set_option maxRecDepth 1000000 in decide)
  exact ⟨this.1, this.2.1⟩

/-! ## the hypotheses are satisfiable -/

/-- a concrete non-trivial instance of the domains: an integer-valued float type with H1 and H2
(C01 `intIO`), a pair and a row group in `PairOK` / `GroupOK` for a table `T` with an integer, a
string and an array column -/
def sampleSpecs : List (Str × Except String (List ColSpec)) :=
  [("T".toList, .ok [⟨.int, false⟩, ⟨.str, false⟩, ⟨.flt .f8, true⟩])]

example : PairOK sampleSpecs ("note".toList, " two words ".toList) := by
  refine ⟨by decide, by decide, by decide, by decide, by decide, by decide, by decide, by decide⟩

example : GroupOK C01.intIO sampleSpecs
    ("T".toList, [[.one (.int (-5)), .one (.str "a #b".toList), .many [.flt .f8 1, .flt .f8 (-2)]]]) := by
  refine ⟨by decide, by decide, [⟨.int, false⟩, ⟨.str, false⟩, ⟨.flt .f8, true⟩], rfl, ?_⟩
  intro r hr
  simp only [List.mem_singleton] at hr
  subst hr
  exact ⟨by decide, by decide, by decide⟩

/-- a text on which `frontStable` and `RestNl` hold, with a chunk as `append()` writes it -/
example : frontStable "typedef struct {\n int a;\n} T;\n\nT 1\n".toList "# Appended by yanny.py at now.\nT 2\n".toList = true := by
  decide

end PydlVerif.C03

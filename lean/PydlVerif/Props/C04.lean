/-
C04 property theorems: spherematch returns exactly the pairs closer than the
match length.  Helper lemmas live in Lemmas/SphereCore, SphereComb, SphereAssign,
SphereIndex (core Lean) and SphereReal (ordered field / ℝ).  The theorems below
are the ones audited by harness/props/c04.py.
-/
import PydlVerif.Lemmas.SphereComb
import PydlVerif.Lemmas.SphereIndex
import PydlVerif.Lemmas.SphereReal
namespace PydlVerif.C04
open PydlVerif PydlVerif.Sphere

/-! ## helpers about the initial table of `assign` -/

theorem init_get? (nRa : Array Nat) (c : Nat × Nat) (x : CellSt)
    (h : Tab.get? (nRa.map fun n => Array.replicate n (([], false) : CellSt)) c = some x) : x = ([], false) := by
  simp only [Tab.get?, Array.getElem?_map] at h
  cases hn : nRa[c.1]? with
  | none => simp [hn] at h
  | some n =>
    simp only [hn, Option.map_some, Option.bind_some, Array.getElem?_replicate] at h
    split at h
    · simpa using h.symm
    · simp at h

theorem init_empty (nRa : Array Nat) (c : Nat × Nat) :
    (Tab.get (nRa.map fun n => Array.replicate n (([], false) : CellSt)) c).1 = [] := by
  rw [Tab.get_eq]
  cases h : Tab.get? (nRa.map fun n => Array.replicate n (([], false) : CellSt)) c with
  | none => rfl
  | some x => rw [init_get? nRa c x h]; rfl

theorem init_inb (nRa : Array Nat) (c : Nat × Nat) (h1 : c.1 < nRa.size) (h2 : c.2 < nRa.getD c.1 0) :
    Tab.inb (nRa.map fun n => Array.replicate n (([], false) : CellSt)) c := by
  simp only [Tab.inb, Tab.get?, Array.getElem?_map]
  have : nRa[c.1]? = some nRa[c.1] := Array.getElem?_eq_getElem h1
  simp only [this, Option.map_some, Option.bind_some, Array.getElem?_replicate]
  have h3 : nRa.getD c.1 0 = nRa[c.1] := by simp [Array.getD_eq_getD_getElem?, this]
  rw [h3] at h2
  simp [h2]

/-! ## property theorems -/

/-- assign: whatever ranges getbounds returns (also ranges that wrap onto the same cell
twice), no index occurs twice in any cell list -/
theorem assign_nodup {α : Type} [Trig α] (g : Grid α) (ra dec : Array α) (m : α) (cl : Tab CellSt)
    (h : assign g ra dec m = .ok cl) (c : Nat × Nat) :
    (cl.get c).1.Nodup ∧ ∀ k ∈ (cl.get c).1, k < ra.size := by
  unfold assign at h
  split at h
  · cases h
  · simp only [pure, Except.pure, Except.ok.injEq] at h
    subst h
    exact assignAll_nodup _ _ _ _ (init_empty g.nRa) c

/-- assign: every point whose getbounds succeeds is stored in every cell of its ranges
(lines 176-192), thanks to the reset pass over the wider range (lines 166-175) -/
theorem assign_mem {α : Type} [Trig α] (g : Grid α) (ra dec : Array α) (m : α) (cl : Tab CellSt)
    (h : assign g ra dec m = .ok cl) (k : Nat) (hk : k < ra.size) (c : Nat × Nat)
    (hc : c ∈ cellsOfPoint g ra dec m 0 k) (h1 : c.1 < g.nRa.size) (h2 : c.2 < g.nRa.getD c.1 0) :
    k ∈ (cl.get c).1 := by
  unfold assign at h
  split at h
  · cases h
  · simp only [pure, Except.pure, Except.ok.injEq] at h
    subst h
    apply assignAll_mem _ _ _ _ _ k hk c hc (init_inb g.nRa c h1 h2)
    intro i _ c hc
    unfold cellsOfPoint at hc ⊢
    cases hb : getbounds g (fmod360 (ra.getD i 0 + g.raOffset)) (dec.getD i 0) m with
    | error e => rw [hb] at hc; simp at hc
    | ok b => rw [hb] at hc; exact cellsOfRange_subset _ _ _ hc

/-- the pair loop: under `Cover` (every close pair's second index is stored in the first
point's cell) and with duplicate-free cell lists, the raw match list is a permutation of
the list of ALL pairs closer than the match length; that list has no repeated index pair,
so each close pair is returned exactly once, with its separation, and nothing else -/
theorem matchRaw_complete_sound {α Cell : Type} [LT α] [DecidableLT α] (n1 n2 : Nat) (cellOf : Nat → Cell)
    (chunkList : Cell → List Nat) (sep : Nat → Nat → α) (ml : α)
    (hnd : ∀ i < n1, (chunkList (cellOf i)).Nodup)
    (hrange : ∀ i < n1, ∀ k ∈ chunkList (cellOf i), k < n2)
    (hcover : ∀ i < n1, ∀ k < n2, sep i k < ml → k ∈ chunkList (cellOf i)) :
    (matchRaw n1 cellOf chunkList sep ml).Perm (closePairs n1 n2 sep ml) ∧
    ((closePairs n1 n2 sep ml).map fun p => (p.1, p.2.1)).Nodup ∧
    (∀ p, p ∈ closePairs n1 n2 sep ml ↔
      p.1 < n1 ∧ p.2.1 < n2 ∧ sep p.1 p.2.1 < ml ∧ p.2.2 = sep p.1 p.2.1) :=
  ⟨matchRaw_perm n1 n2 cellOf chunkList sep ml hnd hrange hcover, closePairs_nodup n1 n2 sep ml,
   closePairs_mem n1 n2 sep ml⟩

/-- maxmatch = 0: for ANY sorting permutation `s` returned by argsort, the output `x[s]` is a
permutation of the raw list in non-decreasing order of separation -/
theorem sorted_output {α : Type} [Inhabited α] [LE α] (raw : List (Pair α)) (s : List Nat)
    (hs : s.Perm (List.range raw.length))
    (hsorted : (s.map fun i => (raw.map (·.2.2)).getD i default).Pairwise (· ≤ ·)) :
    (applyPerm raw s).Perm raw ∧ ((applyPerm raw s).map (·.2.2)).Pairwise (· ≤ ·) := by
  refine ⟨applyPerm_perm raw s hs, ?_⟩
  have : (applyPerm raw s).map (·.2.2) = s.map fun i => (raw.map (·.2.2)).getD i default := by
    simp only [applyPerm, List.map_map]
    apply List.map_congr_left
    intro i _
    simp only [Function.comp, List.getD_eq_getElem?_getD, List.getElem?_map]
    cases raw[i]? <;> rfl
  rw [this]; exact hsorted

/-- the two passes of the maxmatch bookkeeping agree: the arrays allocated from the count of
the first pass are filled exactly by the second pass -/
theorem greedy_passes_agree {α : Type} [Inhabited α] (k : Nat) (l : List (Pair α)) :
    greedy k l = greedyFill k l (fun _ => 0) (fun _ => 0) := by
  simp [greedy, greedyCount_eq_length]

/-- maxmatch = k: the result is a sublist of the sorted pair list; no index of either side
occurs more than k times; and for every position `l = pre ++ p :: post` the pair `p` is
selected iff each of its endpoints occurs fewer than k times among the pairs selected from
`pre` (the earlier, no farther pairs) - i.e. it is left out only if an endpoint is already
used k times by selected pairs that are no farther apart -/
theorem greedy_spec {α : Type} [Inhabited α] (k : Nat) (l : List (Pair α)) :
    (greedy k l).Sublist l ∧
    (∀ x, ((greedy k l).map (·.1)).count x ≤ k) ∧ (∀ x, ((greedy k l).map (·.2.1)).count x ≤ k) ∧
    (∀ pre p post, l = pre ++ p :: post → ∃ B, B.Sublist post ∧
      greedy k l = greedy k pre ++
        (if ((greedy k pre).map (·.1)).count p.1 < k ∧ ((greedy k pre).map (·.2.1)).count p.2.1 < k
         then [p] else []) ++ B) := by
  simp only [greedy_passes_agree]
  refine ⟨greedyFill_sublist _ _ _ _, ?_, ?_, ?_⟩
  · intro x; have := greedyFill_count1 k l (fun _ => 0) (fun _ => 0) x; simpa using this
  · intro x; have := greedyFill_count2 k l (fun _ => 0) (fun _ => 0) x; simpa using this
  · intro pre p post hl
    subst hl
    obtain ⟨i, j, d⟩ := p
    rw [greedyFill_append]
    simp only [greedyFill, addCounts, Nat.zero_add]
    split
    · refine ⟨_, ?_, by rw [List.append_assoc]; rfl⟩
      exact greedyFill_sublist _ _ _ _
    · refine ⟨_, ?_, by rw [List.append_assoc]; rfl⟩
      exact greedyFill_sublist _ _ _ _

/-- RA wrap: for nRa > 0 the cells visited for `range(raChunkMin, raChunkMax+1)` are exactly
the residues `r mod nRa`, raChunkMin ≤ r ≤ raChunkMax -/
theorem ra_wrap_index (n : Nat) (hn : 0 < n) (lo hi : Int) (c : Nat) :
    c ∈ (irange lo hi).filterMap (wrapIdx n) ↔ ∃ r : Int, lo ≤ r ∧ r ≤ hi ∧ c = (r % (n : Int)).toNat :=
  Sphere.ra_wrap_index n hn lo hi c

section field
variable {K : Type} [Field K] [LinearOrder K] [IsStrictOrderedRing K] [FloorRing K]
attribute [local instance] fieldScalar

/-- declination margin (any linearly ordered field): for monotone band edges, if p lies in band bp
and |dec_q - dec_p| < margin, the dec loops of getbounds for q, started at any band d0 (q's
own band in the code), return a range that contains bp -/
theorem dec_cover (b : Array K) (nDec : Nat) (decq decp m : K) (d0 bp : Nat)
    (hmono : ∀ i j, i ≤ j → j ≤ nDec → b.getD i 0 ≤ b.getD j 0)
    (hd0 : d0 < nDec) (hbp : bp < nDec)
    (hp : b.getD bp 0 ≤ decp ∧ decp < b.getD (bp+1) 0)
    (hclose : |decq - decp| < m) :
    decDown b decq m d0 ≤ bp ∧ bp ≤ decUp b decq m d0 (nDec - 1 - d0) := by
  have habs := abs_lt.1 hclose
  constructor
  · by_cases h : bp ≤ d0
    · apply decDown_cover b decq m d0 bp h
      intro i h1 h2
      have := hmono (bp+1) i (by omega) (by omega)
      linarith [hp.2, habs.2]
    · have := decDown_le b decq m d0; omega
  · by_cases h : d0 ≤ bp
    · apply decUp_cover b decq m d0 _ bp h (by omega)
      intro i h1 h2
      have := hmono (i+1) bp (by omega) (by omega)
      linarith [hp.1, habs.1]
    · have := decUp_ge b decq m d0 (nDec - 1 - d0); omega

/-- RA margin, linear part (any linearly ordered field): for monotone cell edges of a band,
if p lies in cell j and the RA difference is below the margin used by the loops, the RA
loops of getbounds for q, started at any cell r0 (q's own cell in the code), return a range
that contains j -/
theorem ra_cover_linear (b : Array K) (n : Nat) (raq rap M : K) (r0 j : Nat)
    (hmono : ∀ i k, i ≤ k → k ≤ n → b.getD i 0 ≤ b.getD k 0)
    (hr0 : r0 < n) (hj : j < n)
    (hp : b.getD j 0 ≤ rap ∧ rap < b.getD (j+1) 0)
    (hclose : |raq - rap| < M) :
    raDown b raq M r0 ≤ (j : Int) ∧ j ≤ raUp b raq M r0 (n - r0) := by
  have habs := abs_lt.1 hclose
  constructor
  · by_cases h : j ≤ r0
    · apply raDown_cover b raq M r0 j h
      intro i h1 h2
      have := hmono (j+1) i (by omega) (by omega)
      linarith [hp.2, habs.2]
    · have := raDown_le b raq M r0; omega
  · by_cases h : r0 ≤ j
    · apply raUp_cover b raq M r0 _ j h (by omega)
      intro i h1 h2
      have := hmono (i+1) j (by omega) (by omega)
      linarith [hp.1, habs.1]
    · have := raUp_ge b raq M r0 (n - r0); omega

end field

section real
open Real

/-- the corrected RA margin of getbounds (fix D5), over ℝ, degrees as in the code: let p be a
point of a band whose extreme-declination cosine is `c` (so c ≤ cos δp) and q a point at
declination δq; if their separation d is below the margin m, then - by the haversine
inequality cos δp cos δq sin²(Δ/2) ≤ sin²(d/2), which is the hypothesis `hav` - their RA
difference Δ is below `raMarginOf c δq m`, the bound the RA loops now use -/
theorem ra_cover_fixed (c δq δp m Δ d : ℝ) (hc : 0 < c) (hcp : c ≤ cos (δp * (π / 180)))
    (hcq : 0 < cos (δq * (π / 180))) (hΔ0 : 0 ≤ Δ) (hΔ : Δ ≤ 180) (hd0 : 0 ≤ d) (hdm : d < m)
    (hm : m ≤ 180)
    (hav : cos (δp * (π / 180)) * cos (δq * (π / 180)) * sin (Δ / 2 * (π / 180)) ^ 2
            ≤ sin (d / 2 * (π / 180)) ^ 2) :
    Δ < @raMarginOf ℝ realTrig c δq m := by
  have hpi := Real.pi_pos
  rw [raMarginOf_real]
  split
  · rename_i hs
    have h := half_dra_lt_arcsin c (cos (δq * (π / 180))) (cos (δp * (π / 180))) (Δ / 2 * (π / 180))
      (d / 2 * (π / 180)) (0.5 * m * (π / 180)) hc hcp hcq
      (by positivity) (by nlinarith) (by positivity) (by nlinarith) (by nlinarith) hav hs
    have h180 : 0 < 180 / π := by positivity
    have h2 := mul_lt_mul_of_pos_right h h180
    have h3 : Δ / 2 * (π / 180) * (180 / π) = Δ / 2 := by field_simp
    linarith
  · linarith

end real

/-- end-to-end completeness and soundness under `Cover`, stated for the model's own loop
over points (`assignAll`): if every close pair (i,k) has the cell of i among the cells
visited for k (this is what dec_cover, ra_cover_fixed, ra_cover_linear and ra_wrap_index
establish piecewise; their composition across the 0/360 seam is the hypothesis RACover),
then the raw match list is a permutation of the list of all close pairs -/
theorem spherematch_complete_partial {α : Type} [LT α] [DecidableLT α] (n1 n2 : Nat)
    (cellOf : Nat → Nat × Nat) (R V : Nat → List (Nat × Nat)) (nRa : Array Nat)
    (sep : Nat → Nat → α) (ml : α)
    (hsub : ∀ k < n2, ∀ c ∈ V k, c ∈ R k)
    (hcell : ∀ i < n1, (cellOf i).1 < nRa.size ∧ (cellOf i).2 < nRa.getD (cellOf i).1 0)
    (RACover : ∀ i < n1, ∀ k < n2, sep i k < ml → cellOf i ∈ V k) :
    (matchRaw n1 cellOf
      (fun c => ((assignAll n2 R V (nRa.map fun n => Array.replicate n (([], false) : CellSt))).get c).1)
      sep ml).Perm (closePairs n1 n2 sep ml) := by
  apply matchRaw_perm
  · intro i _; exact (assignAll_nodup n2 R V _ (init_empty nRa) (cellOf i)).1
  · intro i _; exact (assignAll_nodup n2 R V _ (init_empty nRa) (cellOf i)).2
  · intro i hi k hk hs
    exact assignAll_mem n2 R V _ hsub k hk (cellOf i) (RACover i hi k hk hs)
      (init_inb nRa _ (hcell i hi).1 (hcell i hi).2)

/-! ## non-vacuity -/

example : (closePairs 2 2 (fun i k => if i = k then (0 : Nat) else 5) 1) = [(0, 0, 0), (1, 1, 0)] := by decide
example : (0 : ℝ) < @raMarginOf ℝ realTrig 1 0 1 :=
  ra_cover_fixed 1 0 0 1 0 0 (by norm_num) (by rw [zero_mul, Real.cos_zero])
    (by rw [zero_mul, Real.cos_zero]; exact one_pos) le_rfl (by norm_num) le_rfl (by norm_num) (by norm_num)
    (by rw [zero_mul, Real.cos_zero, one_mul, one_mul])
example : greedy 1 [(0, 0, (1 : Nat)), (0, 1, 2), (1, 1, 3)] = [(0, 0, 1), (1, 1, 3)] := by decide

end PydlVerif.C04

/-
C04 property theorems: spherematch returns exactly the pairs closer than the
match length.  Helper lemmas live in Lemmas/SphereCore, SphereComb, SphereAssign,
SphereIndex (core Lean) and SphereReal (ordered field / ℝ).  The theorems below
are the ones audited by harness/props/c04.py.
-/
import PydlVerif.Lemmas.SphereComb
import PydlVerif.Lemmas.SphereIndex
import PydlVerif.Lemmas.SphereReal
import PydlVerif.Lemmas.SphereComplete
import PydlVerif.Lemmas.SphereInit
import PydlVerif.Lemmas.SphereRoom
namespace PydlVerif.C04
open PydlVerif PydlVerif.Sphere

/-! ## helpers about the initial table of `assign` -/

theorem init_get? (nRa : Array Nat) (c : Nat × Nat) (x : CellSt)
    (h : Tab.get? (nRa.map fun n => Array.replicate n (([], false) : CellSt)) c = some x) : x = ([], false) := by
  simp only [Tab.get?, Array.getElem?_map] at h
  cases hn : nRa[c.1]? with
  | none => simp [hn] at h
  | some n =>
    simp only [hn, Option.map_some, Option.bind_some, Array.getElem?_replicate] at h
    split at h
    · simpa using h.symm
    · simp at h

theorem init_empty (nRa : Array Nat) (c : Nat × Nat) :
    (Tab.get (nRa.map fun n => Array.replicate n (([], false) : CellSt)) c).1 = [] := by
  rw [Tab.get_eq]
  cases h : Tab.get? (nRa.map fun n => Array.replicate n (([], false) : CellSt)) c with
  | none => rfl
  | some x => rw [init_get? nRa c x h]; rfl

theorem init_inb (nRa : Array Nat) (c : Nat × Nat) (h1 : c.1 < nRa.size) (h2 : c.2 < nRa.getD c.1 0) :
    Tab.inb (nRa.map fun n => Array.replicate n (([], false) : CellSt)) c := by
  simp only [Tab.inb, Tab.get?, Array.getElem?_map]
  have : nRa[c.1]? = some nRa[c.1] := Array.getElem?_eq_getElem h1
  simp only [this, Option.map_some, Option.bind_some, Array.getElem?_replicate]
  have h3 : nRa.getD c.1 0 = nRa[c.1] := by simp [Array.getD_eq_getD_getElem?, this]
  rw [h3] at h2
  simp [h2]

/-! ## property theorems -/

/-- assign: whatever ranges getbounds returns (also ranges that wrap onto the same cell
twice), no index occurs twice in any cell list -/
theorem assign_nodup {α : Type} [Trig α] (g : Grid α) (ra dec : Array α) (m : α) (cl : Tab CellSt)
    (h : assign g ra dec m = .ok cl) (c : Nat × Nat) :
    (cl.get c).1.Nodup ∧ ∀ k ∈ (cl.get c).1, k < ra.size := by
  unfold assign at h
  split at h
  · cases h
  · simp only [pure, Except.pure, Except.ok.injEq] at h
    subst h
    exact assignAll_nodup _ _ _ _ (init_empty g.nRa) c

/-- assign: every point whose getbounds succeeds is stored in every cell of its ranges
(lines 176-192), thanks to the reset pass over the wider range (lines 166-175) -/
theorem assign_mem {α : Type} [Trig α] (g : Grid α) (ra dec : Array α) (m : α) (cl : Tab CellSt)
    (h : assign g ra dec m = .ok cl) (k : Nat) (hk : k < ra.size) (c : Nat × Nat)
    (hc : c ∈ cellsOfPoint g ra dec m 0 k) (h1 : c.1 < g.nRa.size) (h2 : c.2 < g.nRa.getD c.1 0) :
    k ∈ (cl.get c).1 := by
  unfold assign at h
  split at h
  · cases h
  · simp only [pure, Except.pure, Except.ok.injEq] at h
    subst h
    apply assignAll_mem _ _ _ _ _ k hk c hc (init_inb g.nRa c h1 h2)
    intro i _ c hc
    unfold cellsOfPoint at hc ⊢
    cases hb : getbounds g (fmod360 (ra.getD i 0 + g.raOffset)) (dec.getD i 0) m with
    | error e => rw [hb] at hc; simp at hc
    | ok b => rw [hb] at hc; exact cellsOfRange_subset _ _ _ hc

/-- the pair loop: under `Cover` (every close pair's second index is stored in the first
point's cell) and with duplicate-free cell lists, the raw match list is a permutation of
the list of ALL pairs closer than the match length; that list has no repeated index pair,
so each close pair is returned exactly once, with its separation, and nothing else -/
theorem matchRaw_complete_sound {α Cell : Type} [LT α] [DecidableLT α] (n1 n2 : Nat) (cellOf : Nat → Cell)
    (chunkList : Cell → List Nat) (sep : Nat → Nat → α) (ml : α)
    (hnd : ∀ i < n1, (chunkList (cellOf i)).Nodup)
    (hrange : ∀ i < n1, ∀ k ∈ chunkList (cellOf i), k < n2)
    (hcover : ∀ i < n1, ∀ k < n2, sep i k < ml → k ∈ chunkList (cellOf i)) :
    (matchRaw n1 cellOf chunkList sep ml).Perm (closePairs n1 n2 sep ml) ∧
    ((closePairs n1 n2 sep ml).map fun p => (p.1, p.2.1)).Nodup ∧
    (∀ p, p ∈ closePairs n1 n2 sep ml ↔
      p.1 < n1 ∧ p.2.1 < n2 ∧ sep p.1 p.2.1 < ml ∧ p.2.2 = sep p.1 p.2.1) :=
  ⟨matchRaw_perm n1 n2 cellOf chunkList sep ml hnd hrange hcover, closePairs_nodup n1 n2 sep ml,
   closePairs_mem n1 n2 sep ml⟩

/-- maxmatch = 0: for ANY sorting permutation `s` returned by argsort, the output `x[s]` is a
permutation of the raw list in non-decreasing order of separation -/
theorem sorted_output {α : Type} [Inhabited α] [LE α] (raw : List (Pair α)) (s : List Nat)
    (hs : s.Perm (List.range raw.length))
    (hsorted : (s.map fun i => (raw.map (·.2.2)).getD i default).Pairwise (· ≤ ·)) :
    (applyPerm raw s).Perm raw ∧ ((applyPerm raw s).map (·.2.2)).Pairwise (· ≤ ·) := by
  refine ⟨applyPerm_perm raw s hs, ?_⟩
  have : (applyPerm raw s).map (·.2.2) = s.map fun i => (raw.map (·.2.2)).getD i default := by
    simp only [applyPerm, List.map_map]
    apply List.map_congr_left
    intro i _
    simp only [Function.comp, List.getD_eq_getElem?_getD, List.getElem?_map]
    cases raw[i]? <;> rfl
  rw [this]; exact hsorted

/-- the two passes of the maxmatch bookkeeping agree: the arrays allocated from the count of
the first pass are filled exactly by the second pass -/
theorem greedy_passes_agree {α : Type} [Inhabited α] (k : Nat) (l : List (Pair α)) :
    greedy k l = greedyFill k l (fun _ => 0) (fun _ => 0) := by
  simp [greedy, greedyCount_eq_length]

/-- maxmatch = k: the result is a sublist of the sorted pair list; no index of either side
occurs more than k times; and for every position `l = pre ++ p :: post` the pair `p` is
selected iff each of its endpoints occurs fewer than k times among the pairs selected from
`pre` (the earlier, no farther pairs) - i.e. it is left out only if an endpoint is already
used k times by selected pairs that are no farther apart -/
theorem greedy_spec {α : Type} [Inhabited α] (k : Nat) (l : List (Pair α)) :
    (greedy k l).Sublist l ∧
    (∀ x, ((greedy k l).map (·.1)).count x ≤ k) ∧ (∀ x, ((greedy k l).map (·.2.1)).count x ≤ k) ∧
    (∀ pre p post, l = pre ++ p :: post → ∃ B, B.Sublist post ∧
      greedy k l = greedy k pre ++
        (if ((greedy k pre).map (·.1)).count p.1 < k ∧ ((greedy k pre).map (·.2.1)).count p.2.1 < k
         then [p] else []) ++ B) := by
  simp only [greedy_passes_agree]
  refine ⟨greedyFill_sublist _ _ _ _, ?_, ?_, ?_⟩
  · intro x; have := greedyFill_count1 k l (fun _ => 0) (fun _ => 0) x; simpa using this
  · intro x; have := greedyFill_count2 k l (fun _ => 0) (fun _ => 0) x; simpa using this
  · intro pre p post hl
    subst hl
    obtain ⟨i, j, d⟩ := p
    rw [greedyFill_append]
    simp only [greedyFill, addCounts, Nat.zero_add]
    split
    · refine ⟨_, ?_, by rw [List.append_assoc]; rfl⟩
      exact greedyFill_sublist _ _ _ _
    · refine ⟨_, ?_, by rw [List.append_assoc]; rfl⟩
      exact greedyFill_sublist _ _ _ _

/-- RA wrap: for nRa > 0 the cells visited for `range(raChunkMin, raChunkMax+1)` are exactly
the residues `r mod nRa`, raChunkMin ≤ r ≤ raChunkMax -/
theorem ra_wrap_index (n : Nat) (hn : 0 < n) (lo hi : Int) (c : Nat) :
    c ∈ (irange lo hi).filterMap (wrapIdx n) ↔ ∃ r : Int, lo ≤ r ∧ r ≤ hi ∧ c = (r % (n : Int)).toNat :=
  Sphere.ra_wrap_index n hn lo hi c

section field
variable {K : Type} [Field K] [LinearOrder K] [IsStrictOrderedRing K] [FloorRing K]
attribute [local instance] fieldScalar

/-- declination margin (any linearly ordered field): for monotone band edges, if p lies in band bp
and |dec_q - dec_p| < margin, the dec loops of getbounds for q, started at any band d0 (q's
own band in the code), return a range that contains bp -/
theorem dec_cover (b : Array K) (nDec : Nat) (decq decp m : K) (d0 bp : Nat)
    (hmono : ∀ i j, i ≤ j → j ≤ nDec → b.getD i 0 ≤ b.getD j 0)
    (hd0 : d0 < nDec) (hbp : bp < nDec)
    (hp : b.getD bp 0 ≤ decp ∧ decp < b.getD (bp+1) 0)
    (hclose : |decq - decp| < m) :
    decDown b decq m d0 ≤ bp ∧ bp ≤ decUp b decq m d0 (nDec - 1 - d0) := by
  have habs := abs_lt.1 hclose
  constructor
  · by_cases h : bp ≤ d0
    · apply decDown_cover b decq m d0 bp h
      intro i h1 h2
      have := hmono (bp+1) i (by omega) (by omega)
      linarith [hp.2, habs.2]
    · have := decDown_le b decq m d0; omega
  · by_cases h : d0 ≤ bp
    · apply decUp_cover b decq m d0 _ bp h (by omega)
      intro i h1 h2
      have := hmono (i+1) bp (by omega) (by omega)
      linarith [hp.1, habs.1]
    · have := decUp_ge b decq m d0 (nDec - 1 - d0); omega

/-- RA margin, linear part (any linearly ordered field): for monotone cell edges of a band,
if p lies in cell j and the RA difference is below the margin used by the loops, the RA
loops of getbounds for q, started at any cell r0 (q's own cell in the code), return a range
that contains j -/
theorem ra_cover_linear (b : Array K) (n : Nat) (raq rap M : K) (r0 j : Nat)
    (hmono : ∀ i k, i ≤ k → k ≤ n → b.getD i 0 ≤ b.getD k 0)
    (hr0 : r0 < n) (hj : j < n)
    (hp : b.getD j 0 ≤ rap ∧ rap < b.getD (j+1) 0)
    (hclose : |raq - rap| < M) :
    raDown b raq M r0 ≤ (j : Int) ∧ j ≤ raUp b raq M r0 (n - r0) := by
  have habs := abs_lt.1 hclose
  constructor
  · by_cases h : j ≤ r0
    · apply raDown_cover b raq M r0 j h
      intro i h1 h2
      have := hmono (j+1) i (by omega) (by omega)
      linarith [hp.2, habs.2]
    · have := raDown_le b raq M r0; omega
  · by_cases h : r0 ≤ j
    · apply raUp_cover b raq M r0 _ j h (by omega)
      intro i h1 h2
      have := hmono (i+1) j (by omega) (by omega)
      linarith [hp.1, habs.1]
    · have := raUp_ge b raq M r0 (n - r0); omega

end field

section real
open Real

/-- the corrected RA margin of getbounds (fix D5) from the haversine inequality AS A HYPOTHESIS
(`hav`): the statement `ra_cover_fixed` had before the inequality was proved -/
theorem ra_cover_fixed_of_hav (c δq δp m Δ d : ℝ) (hc : 0 < c) (hcp : c ≤ cos (δp * (π / 180)))
    (hcq : 0 < cos (δq * (π / 180))) (hΔ0 : 0 ≤ Δ) (hΔ : Δ ≤ 180) (hd0 : 0 ≤ d) (hdm : d < m)
    (hm : m ≤ 180)
    (hav : cos (δp * (π / 180)) * cos (δq * (π / 180)) * sin (Δ / 2 * (π / 180)) ^ 2
            ≤ sin (d / 2 * (π / 180)) ^ 2) :
    Δ < @raMarginOf ℝ realTrig c δq m :=
  ra_cover_of_hav c δq δp m Δ d hc hcp hcq hΔ0 hΔ hd0 hdm hm hav

/-- the corrected RA margin of getbounds (fix D5), over ℝ, degrees as in the code, WITHOUT the
haversine hypothesis: p = (a1, δp) is a point of a band whose extreme-declination cosine is `c`
(0 < c ≤ cos δp), q = (a2, δq) with cos δq > 0; if their separation as computed by the model's own
`gcircDeg` (the haversine formula of goddard `gcirc`) is below m ≤ 180°, then every Δ in [0°, 180°]
that has the haversine of the RA difference a2 - a1 (the difference on the circle) is below
`raMarginOf c δq m`, the bound the RA loops use.  The former hypothesis is now the proved
`cos_cos_hav_le` (from `sin²(d/2) = sin²(Δδ/2) + cos δp cos δq sin²(Δα/2)`, `hav_identity`). -/
theorem ra_cover_fixed (c a1 δp a2 δq m Δ : ℝ) (hc : 0 < c) (hcp : c ≤ cos (δp * (π / 180)))
    (hcq : 0 < cos (δq * (π / 180))) (hΔ0 : 0 ≤ Δ) (hΔ : Δ ≤ 180) (hm : m ≤ 180)
    (hΔs : sin (Δ / 2 * (π / 180)) ^ 2 = sin ((a2 * (π / 180) - a1 * (π / 180)) / 2) ^ 2)
    (hclose : @gcircDeg ℝ realTrig a1 δp a2 δq < m) :
    Δ < @raMarginOf ℝ realTrig c δq m :=
  ra_margin_covers c a1 δp a2 δq m Δ hc hcp hcq hΔ0 hΔ hm hΔs hclose

/-- haversine identity for the model's `gcircDeg` at Mathlib's real functions (degrees in,
degrees out): with d the returned separation, x, y the declinations and t the RA difference in
radians, sin²(d/2) = sin²((y-x)/2) + cos x cos y sin²(t/2) (so the argument of arcsin is in
[0,1]), 0 ≤ d ≤ 180, and cos d = sin x sin y + cos x cos y cos t: d IS the angle between the two
unit vectors.  Consequences: `cos δp cos δq sin²(Δα/2) ≤ sin²(d/2)` and `|Δδ| ≤ d`. -/
theorem hav_identity (a1 d1 a2 d2 : ℝ) :
    sin (@gcircDeg ℝ realTrig a1 d1 a2 d2 / 2 * (π / 180)) ^ 2 =
      sin ((d2 * (π / 180) - d1 * (π / 180)) / 2) ^ 2 +
        cos (d1 * (π / 180)) * cos (d2 * (π / 180)) * sin ((a2 * (π / 180) - a1 * (π / 180)) / 2) ^ 2 ∧
    (0 ≤ @gcircDeg ℝ realTrig a1 d1 a2 d2 ∧ @gcircDeg ℝ realTrig a1 d1 a2 d2 ≤ 180) ∧
    cos (@gcircDeg ℝ realTrig a1 d1 a2 d2 * (π / 180)) =
      sin (d1 * (π / 180)) * sin (d2 * (π / 180)) +
        cos (d1 * (π / 180)) * cos (d2 * (π / 180)) * cos (a2 * (π / 180) - a1 * (π / 180)) ∧
    cos (d1 * (π / 180)) * cos (d2 * (π / 180)) * sin ((a2 * (π / 180) - a1 * (π / 180)) / 2) ^ 2 ≤
      sin (@gcircDeg ℝ realTrig a1 d1 a2 d2 / 2 * (π / 180)) ^ 2 := by
  have hpi : π ≠ 0 := Real.pi_pos.ne'
  refine ⟨?_, gcirc_range a1 d1 a2 d2, ?_, ?_⟩
  · rw [gcirc_half, sin_sq_half_havAngle]; rfl
  · rw [gcircDeg_real, ← cos_havAngle]
    congr 1
    generalize havAngle (d1 * (π / 180)) (d2 * (π / 180)) (a2 * (π / 180) - a1 * (π / 180)) = H
    field_simp
  · rw [gcirc_half]; exact cos_cos_hav_le _ _ _

end real

/-- end-to-end completeness and soundness under `Cover`, stated for the model's own loop
over points (`assignAll`): if every close pair (i,k) has the cell of i among the cells
visited for k (this is what dec_cover, ra_cover_fixed, ra_cover_linear and ra_wrap_index
establish piecewise; their composition across the 0/360 seam is the hypothesis RACover),
then the raw match list is a permutation of the list of all close pairs -/
theorem spherematch_complete_partial {α : Type} [LT α] [DecidableLT α] (n1 n2 : Nat)
    (cellOf : Nat → Nat × Nat) (R V : Nat → List (Nat × Nat)) (nRa : Array Nat)
    (sep : Nat → Nat → α) (ml : α)
    (hsub : ∀ k < n2, ∀ c ∈ V k, c ∈ R k)
    (hcell : ∀ i < n1, (cellOf i).1 < nRa.size ∧ (cellOf i).2 < nRa.getD (cellOf i).1 0)
    (RACover : ∀ i < n1, ∀ k < n2, sep i k < ml → cellOf i ∈ V k) :
    (matchRaw n1 cellOf
      (fun c => ((assignAll n2 R V (nRa.map fun n => Array.replicate n (([], false) : CellSt))).get c).1)
      sep ml).Perm (closePairs n1 n2 sep ml) := by
  apply matchRaw_perm
  · intro i _; exact (assignAll_nodup n2 R V _ (init_empty nRa) (cellOf i)).1
  · intro i _; exact (assignAll_nodup n2 R V _ (init_empty nRa) (cellOf i)).2
  · intro i hi k hk hs
    exact assignAll_mem n2 R V _ hsub k hk (cellOf i) (RACover i hi k hk hs)
      (init_inb nRa _ (hcell i hi).1 (hcell i hi).2)

/-! ## the cover assembled (ℝ, Mathlib's trigonometric functions) -/

section complete
open Real
attribute [local instance] realFns fieldScalar fieldTrig
attribute [-instance] Scalar.instOfNat Scalar.instOfScientific

/-- `chunks.get` / the floor formula against the tabulated edges (any ordered field with floor,
stated here at ℝ; `Sphere.cellIndex_bracket`, `Sphere.get_bracket` are the general versions):
the returned (band, cell) exists and its edges bracket the point, `b[i] ≤ x < b[i+1]`; in
declination `≤` on the right for a point ON the last edge (the upper-boundary rule) -/
theorem get_bracket (g : Grid ℝ) (ra dec : ℝ) (d r : Nat)
    (hdec : EdgesOK g.decBounds g.nDec)
    (hra : ∀ d, d < g.nDec → EdgesOK (g.raBounds.getD d #[]) (g.nRa.getD d 0))
    (h : get g ra dec = .ok (d, r)) :
    d < g.nDec ∧ r < g.nRa.getD d 0 ∧
    (g.decBounds.getD d 0 ≤ dec ∧ dec ≤ g.decBounds.getD (d + 1) 0 ∧
      (dec < g.decBounds.getD (d + 1) 0 ∨ (d + 1 = g.nDec ∧ dec = g.decBounds.getD g.nDec 0))) ∧
    ((g.raBounds.getD d #[]).getD r 0 ≤ ra ∧ ra < (g.raBounds.getD d #[]).getD (r + 1) 0) :=
  Sphere.get_bracket g ra dec d r hdec hra h

/-- `chunks.__init__` (`Sphere.chunksInit_facts` holds over any ordered field with floor and for
ARBITRARY cos/sin/sqrt; here at ℝ): when it returns a grid for declinations in [-90, 90], the
grid has nDec ≥ 3 bands with nDec+1 equally spaced, strictly increasing declination edges from
decMin (-90 by the polar rule, else at least one minSize below every point) to decMax EXACTLY
(+90 by the polar rule, else at least one minSize above every point); raOffset is one of
0,60,…,300; every band has positive cosDecMin, nRa ≥ 1 cells and nRa+1 equally spaced, strictly
increasing RA edges that either run from 0 to 360 or stay more than minSize/cosDecMin inside -/
theorem init_shape (ra dec : Array ℝ) (ms : ℝ) (g : Grid ℝ)
    (hdec : ∀ i, i < dec.size → -90 ≤ dec.getD i 0 ∧ dec.getD i 0 ≤ 90)
    (h : chunksInit ra dec ms = .ok g) : GridFacts ra dec ms g :=
  chunksInit_facts ra dec ms g hdec h

/-- one band including the seam (`Sphere.ra_cover_band`, any ordered field): the RA loops of
getbounds started at q's own cell return a range one of whose indices wraps onto p's cell when
the difference on the circle is below the margin M and either the band is [0,360] with M at most
one cell, or the band leaves a gap ≥ M around the seam: ONE wrap cell (-1 or nRa) suffices -/
theorem ra_cover_seam {b : Array ℝ} {n : Nat} (he : EdgesOK b n) (q p M : ℝ) (r0 jp : Nat)
    (hr0 : r0 < n) (hjp : jp < n)
    (hq : b.getD r0 0 ≤ q ∧ q < b.getD (r0+1) 0) (hp : b.getD jp 0 ≤ p ∧ p < b.getD (jp+1) 0)
    (hp0 : 0 ≤ p) (hq0 : 0 ≤ q) (hp360 : p < 360) (hq360 : q < 360)
    (hclose : |q - p| < M ∨ 360 - |q - p| < M)
    (hseam : (b.getD 0 0 = 0 ∧ b.getD n 0 = 360 ∧ M ≤ b.getD 1 0 - b.getD 0 0) ∨
      M ≤ b.getD 0 0 + 360 - b.getD n 0) :
    ∃ r : Int, raDown b q M r0 ≤ r ∧ r ≤ ((raUp b q M r0 (n - r0) : Nat) : Int) ∧
      (r % (n : Int)).toNat = jp :=
  ra_cover_band he q p M r0 jp hr0 hjp hq hp hp0 hq0 hp360 hq360 hclose hseam

/-- `RACover` for one pair, from the grid facts: on a grid built by `chunks.__init__` (facts of
`init_shape`), if the model's separation of p = (a1, δp) and q = (a2, δq) is below m ≤ 180, p is
looked up by `get` in cell (bp, jp), `getbounds` returned B for q and there is room at the seam in
band bp (`SeamOK`), then (bp, jp) is among the cells `assign` visits for q.  Composes dec_cover,
hav_identity, ra_cover_fixed, get_bracket, ra_cover_seam and ra_wrap_index. -/
theorem racover_pair (g : Grid ℝ) (ra dec : Array ℝ) (ms : ℝ) (hF : GridFacts ra dec ms g)
    (a1 δp a2 δq m : ℝ) (h10 : 0 ≤ a1) (h1 : a1 < 360) (h20 : 0 ≤ a2) (h2 : a2 < 360)
    (hp : |δp| < 90) (hq : |δq| < 90) (hm : m ≤ 180)
    (bp jp : Nat) (B : Bounds)
    (hget : get g (fmod360 (a1 + g.raOffset)) δp = .ok (bp, jp))
    (hB : getbounds g (fmod360 (a2 + g.raOffset)) δq m = .ok B)
    (hclose : gcircDeg a1 δp a2 δq < m)
    (hseam : SeamOK g bp δq m) :
    (bp, jp) ∈ cellsOfRange g.nRa B 0 := by
  obtain ⟨j, hj, hoff⟩ := hF.off
  have hj' : (j : ℝ) ≤ 5 := by exact_mod_cast (by omega : j ≤ 5)
  have hj0 : (0 : ℝ) ≤ j := Nat.cast_nonneg j
  have hlo : -90 ≤ g.decBounds.getD 0 0 := by
    rcases hF.dec_lo with h | h
    · linarith
    · linarith [h.1]
  have hhi : g.decBounds.getD g.nDec 0 ≤ 90 := by
    rcases hF.dec_hi with h | h
    · linarith
    · linarith [h.1]
  exact pair_visited g hF.dec_edges (fun d hd => (hF.band d hd).edges) (fun d hd => (hF.band d hd).cpos)
    hlo hhi (by rw [hoff]; positivity) (by rw [hoff]; linarith)
    a1 δp a2 δq m h10 h1 h20 h2 hp hq hm bp jp B hget hB hclose hseam

/-- END-TO-END completeness on the grid, hypotheses about the inputs plus ONE residual geometric
condition.  `g` is the grid of `chunks.__init__(ra1, dec1, ms)` (`GridFacts`, proved by
`init_shape`), `cl` the table of `assign(ra2, dec2, ml)`, `cellOf i` the cell `get` returns for
first-list point i.  Inputs: RA in [0,360), |Dec| < 90, ml ≤ 180.  Residual (`hroom`): every
second-list point that has a close partner lies, in every band d it visits, inside the RA extent
of the band, and the RA margin it uses there leaves room at the seam (`BandRoom`: margin ≤ one
cell when the band is [0,360], margin ≤ the gap around the seam otherwise).  Then the raw match
list is a permutation of the list of ALL pairs closer than ml. -/
theorem spherematch_complete_grid (g : Grid ℝ) (ra1 dec1 ra2 dec2 : Array ℝ) (ms ml : ℝ)
    (cl : Tab CellSt) (cellOf : Nat → Nat × Nat)
    (hF : GridFacts ra1 dec1 ms g) (hsz : ra1.size = dec1.size)
    (hcl : assign g ra2 dec2 ml = .ok cl)
    (hcells : ∀ i, i < ra1.size →
      get g (fmod360 (ra1.getD i 0 + g.raOffset)) (dec1.getD i 0) = .ok (cellOf i))
    (hra1 : ∀ i, i < ra1.size → 0 ≤ ra1.getD i 0 ∧ ra1.getD i 0 < 360)
    (hdec1 : ∀ i, i < ra1.size → |dec1.getD i 0| < 90)
    (hra2 : ∀ k, k < ra2.size → 0 ≤ ra2.getD k 0 ∧ ra2.getD k 0 < 360)
    (hdec2 : ∀ k, k < ra2.size → |dec2.getD k 0| < 90)
    (hml : ml ≤ 180)
    (hroom : ∀ k, k < ra2.size →
      (∃ i, i < ra1.size ∧
        gcircDeg (ra1.getD i 0) (dec1.getD i 0) (ra2.getD k 0) (dec2.getD k 0) < ml) →
      ∀ d, d < g.nDec → visitedBand g (dec2.getD k 0) ml d →
        BandRoom g d (fmod360 (ra2.getD k 0 + g.raOffset)) (dec2.getD k 0) ml) :
    (matchRaw ra1.size cellOf (fun c => (cl.get c).1)
      (fun i k => gcircDeg (ra1.getD i 0) (dec1.getD i 0) (ra2.getD k 0) (dec2.getD k 0)) ml).Perm
    (closePairs ra1.size ra2.size
      (fun i k => gcircDeg (ra1.getD i 0) (dec1.getD i 0) (ra2.getD k 0) (dec2.getD k 0)) ml) := by
  have hedges : ∀ d, d < g.nDec → EdgesOK (g.raBounds.getD d #[]) (g.nRa.getD d 0) :=
    fun d hd => (hF.band d hd).edges
  -- `assign` returned: ml < minSize and cl is the table of the loop over points
  unfold assign at hcl
  split at hcl
  · cases hcl
  · rename_i hlt
    rw [not_not, hF.minSize_eq] at hlt
    simp only [pure, Except.pure, Except.ok.injEq] at hcl
    subst hcl
    apply spherematch_complete_partial
    · intro k _ c hc
      unfold cellsOfPoint at hc ⊢
      simp only [scalar_zero] at hc ⊢
      cases hb : getbounds g (fmod360 (ra2.getD k 0 + g.raOffset)) (dec2.getD k 0) ml with
      | error e => rw [hb] at hc; simp at hc
      | ok b => rw [hb] at hc; exact cellsOfRange_subset _ _ _ hc
    · intro i hi
      obtain ⟨h1, h2, _, _⟩ := Sphere.get_bracket g _ _ (cellOf i).1 (cellOf i).2 hF.dec_edges hedges (hcells i hi)
      rw [hF.nRa_size]; exact ⟨h1, h2⟩
    · intro i hi k hk hclose
      -- the declinations are closer than ml < ms
      have hdd : |dec2.getD k 0 - dec1.getD i 0| < ml :=
        lt_of_le_of_lt (ddec_le_gcirc _ _ _ _ (hdec1 i hi) (hdec2 k hk)) hclose
      have hdd' := abs_lt.1 hdd
      have hq := abs_lt.1 (hdec2 k hk)
      -- so q lies inside the declination extent of the grid
      have hin : g.decBounds.getD 0 0 ≤ dec2.getD k 0 ∧ dec2.getD k 0 < g.decBounds.getD g.nDec 0 := by
        constructor
        · rcases hF.dec_lo with h | h
          · linarith
          · have := h.2 i (by omega); linarith
        · rcases hF.dec_hi with h | h
          · linarith
          · have := h.2 i (by omega); linarith
      have hR := hroom k hk ⟨i, hi, hclose⟩
      obtain ⟨B, hB⟩ := getbounds_returns g hF.dec_edges hedges (fmod360 (ra2.getD k 0 + g.raOffset))
        (dec2.getD k 0) ml ⟨hin.1, hin.2.le⟩ (fun d hd hv => (hR d hd hv).1)
      have hcell := hcells i hi
      obtain ⟨hbp, _, hpd, _⟩ := Sphere.get_bracket g _ _ (cellOf i).1 (cellOf i).2 hF.dec_edges hedges hcell
      -- p's band is visited for q (dec cover), hence has room at the seam
      have hvis : visitedBand g (dec2.getD k 0) ml (cellOf i).1 := by
        obtain ⟨d0, hd0, hd0n, hmin, hmax, _, _⟩ := getbounds_inv g _ _ ml B hB
        have := dec_cover_edges hF.dec_edges (dec2.getD k 0) (dec1.getD i 0) ml d0 (cellOf i).1 hd0n hbp ⟨hpd.1, hpd.2.1⟩ hdd
        unfold visitedBand; rw [hd0]; exact this
      have hmem := racover_pair g ra1 dec1 ms hF (ra1.getD i 0) (dec1.getD i 0) (ra2.getD k 0) (dec2.getD k 0) ml
        (hra1 i hi).1 (hra1 i hi).2 (hra2 k hk).1 (hra2 k hk).2 (hdec1 i hi) (hdec2 k hk) hml
        (cellOf i).1 (cellOf i).2 B hcell hB hclose (hR _ hbp hvis).2
      unfold cellsOfPoint
      simp only [scalar_zero]
      rw [hB]
      exact hmem

/-- the room at the seam from the grid facts (`Sphere.bandRoom_holds`): on the grid of
`chunks.__init__(ra1, dec1, ms)` with 4·ml ≤ ms, every second-list point that has a partner
closer than ml has `BandRoom` in every band it visits - the RA margin is at most HALF a minimal
cell minSize/cosDecMin, hence at most one cell of a band that embraces [0,360] and at most the
gap any other band leaves around the seam: one wrap cell suffices, and the point lies inside
the RA extent of every band it visits (`getbounds` does not drop it) -/
theorem seam_room (g : Grid ℝ) (ra1 dec1 : Array ℝ) (ms ml : ℝ)
    (hF : GridFacts ra1 dec1 ms g) (hR : GridRoom ra1 dec1 ms g) (hsz : ra1.size = dec1.size)
    (hml : 0 < ml) (hms : 4 * ml ≤ ms)
    (i : Nat) (hi : i < ra1.size) (h10 : 0 ≤ ra1.getD i 0) (h1 : ra1.getD i 0 < 360)
    (hp : |dec1.getD i 0| < 90)
    (a2 δq : ℝ) (h20 : 0 ≤ a2) (h2 : a2 < 360) (hq : |δq| < 90)
    (hclose : gcircDeg (ra1.getD i 0) (dec1.getD i 0) a2 δq < ml)
    (d : Nat) (hd : d < g.nDec) (hv : visitedBand g δq ml d) :
    BandRoom g d (fmod360 (a2 + g.raOffset)) δq ml :=
  bandRoom_holds g ra1 dec1 ms ml hF hR hsz hml hms i hi h10 h1 hp a2 δq h20 h2 hq hclose d hd hv

/-- END-TO-END completeness of the model's `spherematch` at ℝ, hypotheses ONLY about the inputs
(any argsort, any chunksize, any maxmatch): whenever it returns, with |Dec| < 90 in both lists,
second-list RA in [0,360) (the first list's RA range and the sizes are guards of the model's
constructor) and ml ≤ 180, the raw match list (before argsort / maxmatch) is a permutation of the
list of ALL pairs whose separation is below ml, each with its separation.  `chunksize ≥
4·matchlength` is enforced inside `spherematch`, `marginSize < minSize` by `assign`; the grid
facts come from `init_shape`/`chunksInit_room`, the room at the seam from `seam_room`.
Over ℝ `chunks.__init__` raises when a declination edge is clipped to ±90 (cos 90° = 0 exactly;
the binary64 code relies on cos(π/2) = 6e-17 > 0), so polar-cap grids are outside this theorem. -/
theorem spherematch_complete (inst : Inhabited ℝ) (argsort : List ℝ → List Nat)
    (ra1 dec1 ra2 dec2 : Array ℝ) (ml : ℝ) (chunksize : Option ℝ) (maxmatch : Int) (res : Result ℝ)
    (h : @spherematch ℝ (fieldTrig ℝ) inst argsort ra1 dec1 ra2 dec2 ml chunksize maxmatch = .ok res)
    (hdec1 : ∀ i, i < dec1.size → |dec1.getD i 0| < 90)
    (hra2 : ∀ k, k < ra2.size → 0 ≤ ra2.getD k 0 ∧ ra2.getD k 0 < 360)
    (hdec2 : ∀ k, k < ra2.size → |dec2.getD k 0| < 90)
    (hml : ml ≤ 180) :
    res.raw.Perm (closePairs ra1.size ra2.size
      (fun i k => gcircDeg (ra1.getD i 0) (dec1.getD i 0) (ra2.getD k 0) (dec2.getD k 0)) ml) := by
  unfold spherematch at h
  extract_lets four cs jp at h
  have hcs : 4 * ml ≤ cs := by
    simp only [cs, four, scalar_lit, scalar_sci]
    push_cast
    split
    · split
      · exact le_refl _
      · rename_i hc; exact not_lt.1 hc
    · split
      · rename_i hc; exact hc.le
      · exact le_refl _
  simp -zeta only [bind, Except.bind] at h
  split at h
  · cases h
  · simp only [jp] at h
    obtain ⟨g, hg, h⟩ := bind_ok _ _ _ h
    obtain ⟨cl, hcl, h⟩ := bind_ok _ _ _ h
    obtain ⟨cells, hcells, h⟩ := bind_ok _ _ _ h
    simp only [pure, Except.pure, Except.ok.injEq] at h
    subst h
    obtain ⟨_, hsz, hra1⟩ := chunksInit_guards ra1 dec1 cs g hg
    have hF := chunksInit_facts ra1 dec1 cs g
      (fun i hi => by have := abs_lt.1 (hdec1 i hi); exact ⟨this.1.le, this.2.le⟩) hg
    have hR := chunksInit_room ra1 dec1 cs g hg
    obtain ⟨hlen, hall⟩ := mapM_ok _ _ _ hcells
    simp only [scalar_zero]
    apply spherematch_complete_grid g ra1 dec1 ra2 dec2 cs ml cl _ hF hsz hcl _ hra1
      (fun i hi => hdec1 i (by omega)) hra2 hdec2 hml
    · intro k hk ⟨i, hi, hclose⟩ d hd hv
      have hml0 : 0 < ml := lt_of_le_of_lt (gcirc_range _ _ _ _).1 hclose
      exact seam_room g ra1 dec1 cs ml hF hR hsz hml0 hcs i hi (hra1 i hi).1 (hra1 i hi).2
        (hdec1 i (by omega)) _ _ (hra2 k hk).1 (hra2 k hk).2 (hdec2 k hk) hclose d hd hv
    · intro i hi
      obtain ⟨r, hr1, hr2⟩ := hall i (by simpa using hi)
      simp only [List.getElem_range, scalar_zero] at hr1
      rw [hr1]
      congr 1
      simp [Array.getD_eq_getD_getElem?, hr2]

/-- the output of `spherematch` in terms of its raw match list: `x[s]` for s = argsort of the
distances, then the maxmatch bookkeeping when maxmatch > 0 (any scalar type) -/
theorem spherematch_out_eq {α : Type} [Trig α] [Inhabited α] (argsort : List α → List Nat)
    (ra1 dec1 ra2 dec2 : Array α) (ml : α) (chunksize : Option α) (maxmatch : Int) (res : Result α)
    (h : spherematch argsort ra1 dec1 ra2 dec2 ml chunksize maxmatch = .ok res) :
    res.out = if maxmatch > 0
      then greedy maxmatch.toNat (applyPerm res.raw (argsort (res.raw.map fun p => p.2.2)))
      else applyPerm res.raw (argsort (res.raw.map fun p => p.2.2)) := by
  unfold spherematch at h
  extract_lets four cs jp at h
  simp -zeta only [bind, Except.bind] at h
  split at h
  · cases h
  · simp only [jp] at h
    obtain ⟨g, _, h⟩ := bind_ok _ _ _ h
    obtain ⟨cl, _, h⟩ := bind_ok _ _ _ h
    obtain ⟨cells, _, h⟩ := bind_ok _ _ _ h
    simp only [pure, Except.pure, Except.ok.injEq] at h
    subst h
    rfl

/-- THE STATEMENT OF C04 for the model's `spherematch` at ℝ, hypotheses only about the inputs and
the argsort contract (it returns a permutation of the positions that sorts the distances).
maxmatch ≤ 0: the output is a permutation of the list of ALL pairs closer than ml (each exactly
once, with its separation: `matchRaw_complete_sound`), in non-decreasing order of separation.
maxmatch = k > 0: the output is `greedy k sorted` for such a sorted permutation `sorted` of all
close pairs, i.e. the distance-ordered greedy selection characterised by `greedy_spec`. -/
theorem spherematch_statement (inst : Inhabited ℝ) (argsort : List ℝ → List Nat)
    (ra1 dec1 ra2 dec2 : Array ℝ) (ml : ℝ) (chunksize : Option ℝ) (maxmatch : Int) (res : Result ℝ)
    (h : @spherematch ℝ (fieldTrig ℝ) inst argsort ra1 dec1 ra2 dec2 ml chunksize maxmatch = .ok res)
    (hdec1 : ∀ i, i < dec1.size → |dec1.getD i 0| < 90)
    (hra2 : ∀ k, k < ra2.size → 0 ≤ ra2.getD k 0 ∧ ra2.getD k 0 < 360)
    (hdec2 : ∀ k, k < ra2.size → |dec2.getD k 0| < 90)
    (hml : ml ≤ 180)
    (hargsort : ∀ l : List ℝ, (argsort l).Perm (List.range l.length) ∧
      ((argsort l).map fun i => l.getD i default).Pairwise (· ≤ ·)) :
    ∃ sorted : List (Pair ℝ),
      sorted.Perm (closePairs ra1.size ra2.size
        (fun i k => gcircDeg (ra1.getD i 0) (dec1.getD i 0) (ra2.getD k 0) (dec2.getD k 0)) ml) ∧
      (sorted.map (·.2.2)).Pairwise (· ≤ ·) ∧
      res.out = if maxmatch > 0 then greedy maxmatch.toNat sorted else sorted := by
  have hraw := spherematch_complete inst argsort ra1 dec1 ra2 dec2 ml chunksize maxmatch res h hdec1 hra2 hdec2 hml
  have hout := @spherematch_out_eq ℝ (fieldTrig ℝ) inst argsort ra1 dec1 ra2 dec2 ml chunksize maxmatch res h
  obtain ⟨hs1, hs2⟩ := hargsort (res.raw.map fun p => p.2.2)
  rw [List.length_map] at hs1
  obtain ⟨hp, hsorted⟩ := @sorted_output ℝ inst _ res.raw _ hs1 hs2
  exact ⟨_, hp.trans hraw, hsorted, hout⟩

end complete

/-! ## non-vacuity -/

example : (closePairs 2 2 (fun i k => if i = k then (0 : Nat) else 5) 1) = [(0, 0, 0), (1, 1, 0)] := by decide
example : (0 : ℝ) < @raMarginOf ℝ realTrig 1 0 1 :=
  ra_cover_fixed_of_hav 1 0 0 1 0 0 (by norm_num) (by rw [zero_mul, Real.cos_zero])
    (by rw [zero_mul, Real.cos_zero]; exact one_pos) le_rfl (by norm_num) le_rfl (by norm_num) (by norm_num)
    (by rw [zero_mul, Real.cos_zero, one_mul, one_mul])
example : greedy 1 [(0, 0, (1 : Nat)), (0, 1, 2), (1, 1, 3)] = [(0, 0, 1), (1, 1, 3)] := by decide

section
open Real
attribute [local instance] realFns fieldScalar fieldTrig
attribute [-instance] Scalar.instOfNat Scalar.instOfScientific

/-- three cells of 120° around the circle are equally spaced edges -/
theorem edges3 : EdgesOK (#[0, 120, 240, 360] : Array ℝ) 3 := by
  refine ⟨by norm_num, rfl, by norm_num [Array.getD], ?_⟩
  intro k hk
  obtain rfl | rfl | rfl | rfl : k = 0 ∨ k = 1 ∨ k = 2 ∨ k = 3 := by omega
  all_goals norm_num [Array.getD]

/-- the hypotheses of `ra_cover_seam` are met by q = 350 (cell 2), p = 10 (cell 0), margin 100:
the difference on the circle is 20 and the returned range contains an index that wraps onto 0 -/
example : ∃ r : Int, raDown (#[0, 120, 240, 360] : Array ℝ) 350 100 2 ≤ r ∧
    r ≤ ((raUp (#[0, 120, 240, 360] : Array ℝ) 350 100 2 (3 - 2) : Nat) : Int) ∧ (r % (3 : Int)).toNat = 0 := by
  have h := ra_cover_seam edges3 350 10 100 2 0 (by norm_num) (by norm_num)
    (by norm_num [Array.getD]) (by norm_num [Array.getD]) (by norm_num) (by norm_num) (by norm_num) (by norm_num)
    (Or.inr (by rw [abs_of_nonneg (by norm_num)]; norm_num))
    (Or.inl (by norm_num [Array.getD]))
  exact_mod_cast h

/-- the RA margin never exceeds 360, so a band that is one cell [0, 360] (a polar cap) always
has room at the seam: `SeamOK` is satisfiable whatever the declinations are -/
theorem raMarginOf_le_360 (c δq m : ℝ) : raMarginOf c δq m ≤ 360 := by
  rw [raMarginOf_real', raMarginOf_real]
  split
  · have h := Real.arcsin_le_pi_div_two (sin (0.5 * m * (π / 180)) / sqrt (c * cos (δq * (π / 180))))
    have hpi := Real.pi_pos
    have hk : 0 < 180 / π := by positivity
    have := mul_le_mul_of_nonneg_right h hk.le
    have e : π / 2 * (180 / π) = 90 := by field_simp; norm_num
    linarith
  · exact le_refl _

example (δq m : ℝ) :
    SeamOK ({ minSize := 1, nDec := 1, decBounds := #[0, 1], raOffset := 0, raMin := 0, raMax := 0, raRange := 0,
              nRa := #[1], raBounds := #[#[0, 360]] } : Grid ℝ) 0 δq m := by
  left
  refine ⟨by norm_num [Array.getD], by norm_num [Array.getD], ?_⟩
  have := raMarginOf_le_360 (cosDecMinOf (#[0, 1] : Array ℝ) 0) δq m
  norm_num [Array.getD] at this ⊢
  exact this

end

end PydlVerif.C04
